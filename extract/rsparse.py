#!/usr/bin/env python3
"""A parser for the subset of Rust that squitterator's decoder is written in.

It is deliberately small and fail-loud: anything it does not recognise raises ParseError, which the
caller turns into a broken obligation ("the translator cannot read function f any more").

Expressions / patterns / types are plain tuples, first element the node kind (see the parse_* functions).
"""
import re


class ParseError(Exception):
    pass


TOKEN_RE = re.compile(r"""
    (?P<ws>\s+|//[^\n]*|/\*.*?\*/)
  | (?P<float>\d[\d_]*\.\d[\d_]*(?:[eE][+-]?\d+)?(?:f32|f64)?)
  | (?P<int>0x[0-9a-fA-F_]+(?:[iu](?:8|16|32|64|128|size))?|0b[01_]+(?:[iu](?:8|16|32|64|128|size))?|\d[\d_]*(?:[iu](?:8|16|32|64|128|size)|f32|f64)?)
  | (?P<char>b?'(?:\\u\{[0-9a-fA-F]+\}|\\.|[^'\\])')
  | (?P<lifetime>'[A-Za-z_]\w*)
  | (?P<str>b?"(?:\\.|[^"\\])*")
  | (?P<ident>[A-Za-z_]\w*)
  | (?P<punct>\.\.=|\.\.\.|<<=|>>=|::|->|=>|==|!=|<=|>=|&&|\|\||\+=|-=|\*=|/=|%=|\^=|&=|\|=|<<|>>|\.\.|[-+*/%^!&|=<>@.,;:#$?~(){}\[\]])
""", re.X | re.S)


def tokenize(src):
    toks = []
    pos = 0
    while pos < len(src):
        m = TOKEN_RE.match(src, pos)
        if not m:
            raise ParseError("cannot tokenize at: " + src[pos:pos + 40])
        pos = m.end()
        kind = m.lastgroup
        if kind == "ws":
            continue
        toks.append((kind, m.group(kind)))
    toks.append(("eof", ""))
    return toks


BINOPS = {  # Rust precedence, higher binds tighter
    "*": 12, "/": 12, "%": 12,
    "+": 11, "-": 11,
    "<<": 10, ">>": 10,
    "&": 9,
    "^": 8,
    "|": 7,
    "==": 6, "!=": 6, "<": 6, ">": 6, "<=": 6, ">=": 6,
    "&&": 5,
    "||": 4,
}
ASSIGN_OPS = {"=", "+=", "-=", "*=", "/=", "%=", "^=", "&=", "|=", "<<=", ">>="}
CAST_PREC = 13
RANGE_PREC = 3


class Parser:
    def __init__(self, toks):
        self.t = toks
        self.i = 0

    # -- token helpers -------------------------------------------------------------------------
    def peek(self, k=0):
        return self.t[min(self.i + k, len(self.t) - 1)]

    def at(self, text, k=0):
        kind, v = self.peek(k)
        return v == text and kind in ("punct", "ident")

    def eat(self, text):
        if self.at(text):
            self.i += 1
            return True
        return False

    def expect(self, text):
        if not self.eat(text):
            raise ParseError(f"expected {text!r}, found {self.peek()[1]!r} (token {self.i})")

    def ident(self):
        kind, v = self.peek()
        if kind != "ident":
            raise ParseError(f"expected identifier, found {v!r}")
        self.i += 1
        return v

    # -- types ---------------------------------------------------------------------------------
    def parse_type(self):
        if self.eat("&"):
            if self.peek()[0] == "lifetime":
                self.i += 1
            if self.eat("mut"):
                return ("ref", self.parse_type(), "mut")
            return ("ref", self.parse_type())
        if self.at("&&"):
            self.i += 1
            return ("ref", ("ref", self.parse_type()))
        if self.eat("("):
            items = []
            while not self.at(")"):
                items.append(self.parse_type())
                if not self.eat(","):
                    break
            self.expect(")")
            if len(items) == 1:
                return items[0]
            return ("tuple", items)
        if self.eat("["):
            inner = self.parse_type()
            if self.eat(";"):
                n = self.parse_expr()
                self.expect("]")
                return ("array", inner, n)
            self.expect("]")
            return ("slice", inner)
        if self.eat("impl") or self.eat("dyn"):
            t = self.parse_type()
            while self.at("+"):
                self.i += 1
                if self.peek()[0] == "lifetime":
                    self.i += 1
                else:
                    self.parse_type()
            return ("opaque", t)
        segs = [self.ident()]
        while self.at("::") and self.peek(1)[0] == "ident":
            self.i += 1
            segs.append(self.ident())
        args = []
        if self.at("<"):
            self.i += 1
            while not self.at(">") and not self.at(">>"):
                if self.peek()[0] == "lifetime":
                    self.i += 1
                else:
                    args.append(self.parse_type())
                if not self.eat(","):
                    break
            if self.at(">>"):       # split the token
                self.t[self.i] = ("punct", ">")
            else:
                self.expect(">")
        return ("named", segs[-1], args)

    # -- patterns ------------------------------------------------------------------------------
    def parse_pattern(self):
        self.eat("|")
        alts = [self.parse_pattern1()]
        while self.at("|"):
            self.i += 1
            alts.append(self.parse_pattern1())
        return alts[0] if len(alts) == 1 else ("p_or", alts)

    def parse_pat_lit(self):
        neg = self.eat("-")
        kind, v = self.peek()
        if kind == "int":
            self.i += 1
            e = parse_int(v)
        elif kind == "float":
            self.i += 1
            e = ("lit_float", v)
        elif kind == "char":
            self.i += 1
            e = ("lit_char", char_value(v))
        elif kind == "str":
            self.i += 1
            e = ("lit_str", v[1:-1])
        else:
            raise ParseError(f"pattern literal expected, found {v!r}")
        return ("unary", "-", e) if neg else e

    def parse_pattern1(self):
        kind, v = self.peek()
        if self.at("..="):
            self.i += 1
            return ("p_range", None, self.parse_pat_lit(), True)
        if self.eat("&"):
            self.eat("mut")
            return ("p_ref", self.parse_pattern1())
        if self.eat("("):
            items = []
            while not self.at(")"):
                items.append(self.parse_pattern())
                if not self.eat(","):
                    break
            self.expect(")")
            return items[0] if len(items) == 1 else ("p_tuple", items)
        if kind in ("int", "float", "char", "str") or (self.at("-") and self.peek(1)[0] in ("int", "float")):
            lo = self.parse_pat_lit()
            if self.at("..="):
                self.i += 1
                hi = self.parse_pat_lit()
                return ("p_range", lo, hi, True)
            if self.at(".."):
                self.i += 1
                if self.peek()[0] in ("int", "float", "char"):
                    return ("p_range", lo, self.parse_pat_lit(), False)
                return ("p_range", lo, None, False)
            return ("p_lit", lo)
        if kind == "ident":
            if v == "_":
                self.i += 1
                return ("p_wild",)
            if v in ("true", "false"):
                self.i += 1
                return ("p_lit", ("lit_bool", v == "true"))
            byref = self.eat("ref")
            mut = self.eat("mut")
            segs = [self.ident()]
            while self.at("::"):
                self.i += 1
                segs.append(self.ident())
            if self.at("("):
                self.i += 1
                items = []
                while not self.at(")"):
                    items.append(self.parse_pattern())
                    if not self.eat(","):
                        break
                self.expect(")")
                return ("p_ts", segs, items)
            if len(segs) > 1 or segs[0][0].isupper():
                return ("p_path", segs)
            if self.eat("@"):
                sub = self.parse_pattern1()
                return ("p_bind", segs[0], sub)
            return ("p_ident", segs[0], mut or byref)
        raise ParseError(f"pattern expected, found {v!r}")

    # -- expressions ---------------------------------------------------------------------------
    def parse_expr(self, no_struct=False):
        return self.parse_assign(no_struct)

    def parse_assign(self, no_struct):
        lhs = self.parse_range(no_struct)
        kind, v = self.peek()
        if kind == "punct" and v in ASSIGN_OPS:
            self.i += 1
            rhs = self.parse_assign(no_struct)
            return ("assign", lhs, v, rhs)
        return lhs

    def parse_range(self, no_struct):
        if self.at("..") or self.at("..="):
            incl = self.peek()[1] == "..="
            self.i += 1
            hi = self.parse_binary(0, no_struct) if self.starts_expr() else None
            return ("range", None, hi, incl)
        lo = self.parse_binary(0, no_struct)
        if self.at("..") or self.at("..="):
            incl = self.peek()[1] == "..="
            self.i += 1
            hi = self.parse_binary(0, no_struct) if self.starts_expr() else None
            return ("range", lo, hi, incl)
        return lo

    def starts_expr(self):
        kind, v = self.peek()
        if kind in ("int", "float", "char", "str", "ident"):
            return v not in ("as",)
        return v in ("(", "[", "-", "!", "&", "*", "|", "||")

    def parse_binary(self, minprec, no_struct):
        lhs = self.parse_unary(no_struct)
        while True:
            kind, v = self.peek()
            if kind == "ident" and v == "as":
                if CAST_PREC < minprec:
                    break
                self.i += 1
                lhs = ("cast", lhs, self.parse_type())
                continue
            if kind == "punct" and v in BINOPS and BINOPS[v] >= minprec:
                prec = BINOPS[v]
                self.i += 1
                rhs = self.parse_binary(prec + 1, no_struct)
                lhs = ("binary", v, lhs, rhs)
                continue
            break
        return lhs

    def parse_unary(self, no_struct):
        if self.eat("-"):
            return ("unary", "-", self.parse_unary_cast(no_struct))
        if self.eat("!"):
            return ("unary", "!", self.parse_unary_cast(no_struct))
        if self.eat("*"):
            return ("unary", "*", self.parse_unary_cast(no_struct))
        if self.at("&&"):
            self.i += 1
            return ("unary", "&", ("unary", "&", self.parse_unary_cast(no_struct)))
        if self.eat("&"):
            self.eat("mut")
            return ("unary", "&", self.parse_unary_cast(no_struct))
        return self.parse_postfix(no_struct)

    def parse_unary_cast(self, no_struct):
        # a unary operator binds tighter than `as`
        return self.parse_unary(no_struct)

    def parse_args(self):
        self.expect("(")
        args = []
        while not self.at(")"):
            args.append(self.parse_expr())
            if not self.eat(","):
                break
        self.expect(")")
        return args

    def parse_postfix(self, no_struct):
        e = self.parse_primary(no_struct)
        while True:
            if self.at("?"):
                self.i += 1
                e = ("try", e)
            elif self.at("("):
                e = ("call", e, self.parse_args())
            elif self.at("["):
                self.i += 1
                idx = self.parse_expr()
                self.expect("]")
                e = ("index", e, idx)
            elif self.at("."):
                kind, v = self.peek(1)
                if kind == "int":
                    self.i += 2
                    e = ("field", e, v)
                elif kind == "float":      # tuple.0.1 lexes as a float
                    self.i += 2
                    a, b = v.split(".")
                    e = ("field", ("field", e, a), b)
                elif kind == "ident":
                    self.i += 2
                    if self.at("::"):      # turbofish
                        self.i += 1
                        self.expect("<")
                        depth = 1
                        while depth:
                            if self.at("<"):
                                depth += 1
                            elif self.at(">"):
                                depth -= 1
                            elif self.at(">>"):
                                depth -= 2
                            self.i += 1
                    if self.at("("):
                        e = ("mcall", e, v, self.parse_args())
                    else:
                        e = ("field", e, v)
                else:
                    break
            else:
                break
        return e

    def parse_block(self):
        self.expect("{")
        stmts = []
        tail = None
        while not self.at("}"):
            if self.eat(";"):
                continue
            if self.at("#"):
                self.skip_attribute()
                continue
            if self.at("use"):
                while not self.eat(";"):
                    self.i += 1
                continue
            if self.at("let"):
                self.i += 1
                pat = self.parse_pattern()
                ty = None
                if self.eat(":"):
                    ty = self.parse_type()
                init = None
                els = None
                if self.eat("="):
                    init = self.parse_expr()
                    if self.at("else"):
                        self.i += 1
                        els = self.parse_block()
                self.expect(";")
                stmts.append(("let", pat, ty, init, els))
                continue
            if self.peek()[1] in ("if", "match", "for", "while", "loop", "{") and self.peek()[0] in ("ident", "punct"):
                # a block-like expression in statement position ends at its closing brace (`for .. { }` followed by `(..)` on the
                # next line is not a call)
                save = self.i
                e = self.parse_primary(False)
                if self.at(".") or self.at("?") or self.at("as"):
                    self.i = save
                    e = self.parse_expr()
                elif not (self.at(";") or self.at("}")):
                    stmts.append(("expr", e))
                    continue
            else:
                e = self.parse_expr()
            if self.eat(";"):
                stmts.append(("expr", e))
            elif self.at("}"):
                tail = e
            elif e[0] in ("if", "iflet", "match", "block", "for", "while", "loop"):
                stmts.append(("expr", e))
            else:
                raise ParseError(f"expected ';' or '}}' after expression, found {self.peek()[1]!r}")
        self.expect("}")
        return ("block", stmts, tail)

    def skip_attribute(self):
        self.expect("#")
        self.eat("!")
        self.expect("[")
        depth = 1
        while depth:
            if self.at("["):
                depth += 1
            elif self.at("]"):
                depth -= 1
            self.i += 1

    def parse_if(self):
        self.expect("if")
        if self.eat("let"):
            pat = self.parse_pattern()
            self.expect("=")
            scrut = self.parse_expr(no_struct=True)
            then = self.parse_block()
            els = self.parse_else()
            return ("iflet", pat, scrut, then, els)
        cond = self.parse_expr(no_struct=True)
        then = self.parse_block()
        els = self.parse_else()
        return ("if", cond, then, els)

    def parse_else(self):
        if self.eat("else"):
            if self.at("if"):
                return self.parse_if()
            return self.parse_block()
        return None

    def parse_macro_args(self):
        """token list of a macro invocation, split at top-level commas and parsed as expressions where possible"""
        open_ = self.peek()[1]
        close = {"(": ")", "[": "]", "{": "}"}[open_]
        self.i += 1
        start = self.i
        depth = 1
        while depth:
            v = self.peek()[1]
            if self.peek()[0] == "eof":
                raise ParseError("unterminated macro")
            if v in "([{" and self.peek()[0] == "punct":
                depth += 1
            elif v in ")]}" and self.peek()[0] == "punct":
                depth -= 1
            self.i += 1
        return self.t[start:self.i - 1]

    def parse_primary(self, no_struct):
        kind, v = self.peek()
        if kind == "int":
            self.i += 1
            return parse_int(v)
        if kind == "float":
            self.i += 1
            return ("lit_float", v)
        if kind == "char":
            self.i += 1
            return ("lit_char", char_value(v))
        if kind == "str":
            self.i += 1
            return ("lit_str", v[1:-1])
        if self.at("("):
            self.i += 1
            items = []
            trailing = False
            while not self.at(")"):
                items.append(self.parse_expr())
                trailing = False
                if not self.eat(","):
                    break
                trailing = True
            self.expect(")")
            if len(items) == 1 and not trailing:
                return ("paren", items[0])
            return ("tuple", items)
        if self.at("["):
            self.i += 1
            items = []
            while not self.at("]"):
                items.append(self.parse_expr())
                if self.eat(";"):
                    n = self.parse_expr()
                    self.expect("]")
                    return ("array_rep", items[0], n)
                if not self.eat(","):
                    break
            self.expect("]")
            return ("array", items)
        if self.at("{"):
            return self.parse_block()
        if self.at("|") or self.at("||"):
            params = []
            if self.at("||"):
                self.i += 1
            else:
                self.i += 1
                while not self.at("|"):
                    p = self.parse_pattern1()
                    if self.eat(":"):
                        self.parse_type()
                    params.append(p)
                    if not self.eat(","):
                        break
                self.expect("|")
            body = self.parse_expr()
            return ("closure", params, body)
        if kind == "ident":
            if v == "if":
                return self.parse_if()
            if v == "match":
                self.i += 1
                scrut = self.parse_expr(no_struct=True)
                self.expect("{")
                arms = []
                while not self.at("}"):
                    pat = self.parse_pattern()
                    guard = None
                    if self.eat("if"):
                        guard = self.parse_expr(no_struct=True)
                    self.expect("=>")
                    body = self.parse_expr()
                    arms.append((pat, guard, body))
                    if not self.eat(","):
                        if body[0] in ("block", "if", "iflet", "match") and not self.at("}"):
                            continue
                        break
                self.expect("}")
                return ("match", scrut, arms)
            if v == "return":
                self.i += 1
                if self.at(";") or self.at("}") or self.at(","):
                    return ("return", None)
                return ("return", self.parse_expr())
            if v == "for":
                self.i += 1
                pat = self.parse_pattern()
                self.expect("in")
                it = self.parse_expr(no_struct=True)
                body = self.parse_block()
                return ("for", pat, it, body)
            if v == "loop":
                self.i += 1
                return ("loop", self.parse_block())
            if v == "while":
                self.i += 1
                cond = self.parse_expr(no_struct=True)
                return ("while", cond, self.parse_block())
            if v in ("true", "false"):
                self.i += 1
                return ("lit_bool", v == "true")
            if v in ("break", "continue"):
                self.i += 1
                return (v,)
            if v == "move":
                self.i += 1
                return self.parse_primary(no_struct)
            if v == "unsafe":
                self.i += 1
                return self.parse_block()
            segs = [self.ident()]
            while self.at("::"):
                self.i += 1
                if self.at("<"):       # turbofish on a path
                    depth = 0
                    while True:
                        if self.at("<"):
                            depth += 1
                        elif self.at(">"):
                            depth -= 1
                        elif self.at(">>"):
                            depth -= 2
                        self.i += 1
                        if depth <= 0:
                            break
                    continue
                segs.append(self.ident())
            if self.at("!") and self.peek(1)[1] in ("(", "[", "{") and not self.at("!=", 0):
                self.i += 1
                toks = self.parse_macro_args()
                return ("macro", segs[-1], toks)
            if self.at("{") and not no_struct and segs[-1][0].isupper():
                self.i += 1
                fields = []
                while not self.at("}"):
                    if self.at(".."):
                        self.i += 1
                        fields.append(("..", self.parse_expr()))
                        break
                    name = self.ident()
                    if self.eat(":"):
                        fields.append((name, self.parse_expr()))
                    else:
                        fields.append((name, ("path", [name])))
                    if not self.eat(","):
                        break
                self.expect("}")
                return ("struct", segs, fields)
            return ("path", segs)
        raise ParseError(f"expression expected, found {v!r} (token {self.i})")


def parse_int(text):
    m = re.match(r"^(0x[0-9a-fA-F_]+|0b[01_]+|\d[\d_]*)((?:[iu](?:8|16|32|64|128|size))|f32|f64)?$", text)
    if not m:
        raise ParseError("bad integer literal " + text)
    body, suffix = m.group(1).replace("_", ""), m.group(2)
    if body.startswith("0x"):
        val = int(body, 16)
    elif body.startswith("0b"):
        val = int(body, 2)
    else:
        val = int(body)
    return ("lit_int", val, suffix, text)


def char_value(tok):
    if tok.startswith("b"):
        tok = tok[1:]
    s = tok[1:-1]
    if s.startswith("\\u{"):
        return int(s[3:-1], 16)
    esc = {"\\n": 10, "\\r": 13, "\\t": 9, "\\\\": 92, "\\'": 39, '\\"': 34, "\\0": 0}
    if s in esc:
        return esc[s]
    if len(s) != 1:
        raise ParseError("bad char literal " + tok)
    return ord(s)


def strip_tests(src):
    """drop `#[cfg(test)] mod tests { .. }` (always the last item of a file in this crate)"""
    k = src.find("#[cfg(test)]")
    return src if k < 0 else src[:k]


class Fn:
    def __init__(self, name, params, ret, body, self_kind, impl_of, impl_trait_arg):
        self.name, self.params, self.ret, self.body = name, params, ret, body
        self.self_kind = self_kind          # None | "ref" | "mut" | "value"
        self.impl_of = impl_of              # type name of the enclosing impl, or None
        self.impl_trait_arg = impl_trait_arg  # e.g. "Ext" for `impl UpdateFromDownlink<Ext> for Plane`


class Struct:
    def __init__(self, name, fields):
        self.name, self.fields = name, fields   # [(name, type)]


def parse_file(src):
    """-> (functions, structs) of the non-test part of a source file"""
    p = Parser(tokenize(strip_tests(src)))
    fns, structs = [], []
    parse_items(p, fns, structs, None, None, top=True)
    return fns, structs


def parse_items(p, fns, structs, impl_of, trait_arg, top=False):
    while True:
        kind, v = p.peek()
        if kind == "eof":
            if not top:
                raise ParseError("unexpected end of file inside impl")
            return
        if p.at("}") and not top:
            return
        if p.at("#"):
            p.skip_attribute()
            continue
        # visibility
        if p.eat("pub"):
            if p.at("("):
                p.i += 1
                while not p.eat(")"):
                    p.i += 1
            continue
        if p.at("use") or p.at("mod") or p.at("type") or p.at("const") or p.at("static") or p.at("extern"):
            if p.at("mod") and p.peek(2)[1] == "{":
                raise ParseError("inline module outside tests")
            depth = 0          # `type T = ([u32; 2], u32);` - the terminating `;` is the one outside all brackets
            while True:
                if p.peek()[0] == "eof":
                    raise ParseError("unterminated item")
                if depth == 0 and p.eat(";"):
                    break
                if p.at("(") or p.at("[") or p.at("{"):
                    depth += 1
                elif p.at(")") or p.at("]") or p.at("}"):
                    depth -= 1
                p.i += 1
            continue
        if p.at("macro_rules") or (kind == "ident" and p.peek(1)[1] == "!"):
            # lazy_static! { .. } and the like: skip the macro body
            p.i += 2
            if p.peek()[0] == "ident":
                p.i += 1
            p.parse_macro_args()
            p.eat(";")
            continue
        if p.at("struct"):
            p.i += 1
            name = p.ident()
            if p.at("<"):
                skip_generics(p)
            fields = []
            if p.eat("{"):
                while not p.at("}"):
                    if p.at("#"):
                        p.skip_attribute()
                        continue
                    if p.eat("pub"):
                        if p.at("("):
                            while not p.eat(")"):
                                p.i += 1
                    fname = p.ident()
                    p.expect(":")
                    fields.append((fname, p.parse_type()))
                    if not p.eat(","):
                        break
                p.expect("}")
            elif p.eat("("):
                k = 0
                while not p.at(")"):
                    p.eat("pub")
                    fields.append((str(k), p.parse_type()))
                    k += 1
                    if not p.eat(","):
                        break
                p.expect(")")
                p.expect(";")
            else:
                p.expect(";")
            structs.append(Struct(name, fields))
            continue
        if p.at("enum"):
            p.i += 1
            name = p.ident()
            if p.at("<"):
                skip_generics(p)
            p.expect("{")
            variants = []
            while not p.at("}"):
                if p.at("#"):
                    p.skip_attribute()
                    continue
                vname = p.ident()
                tys = []
                if p.eat("("):
                    while not p.at(")"):
                        tys.append(p.parse_type())
                        if not p.eat(","):
                            break
                    p.expect(")")
                elif p.at("{"):
                    raise ParseError("enum variant with named fields")
                variants.append((vname, tys))
                if not p.eat(","):
                    break
            p.expect("}")
            st = Struct(name, [])
            st.variants = variants
            structs.append(st)
            continue
        if p.at("trait"):
            # skip the body
            while not p.at("{"):
                p.i += 1
            skip_braces(p)
            continue
        if p.at("impl"):
            p.i += 1
            if p.at("<"):
                skip_generics(p)
            t1 = p.parse_type()
            targ = None
            target = t1
            if p.eat("for"):
                target = p.parse_type()
                if t1[0] == "named" and t1[2]:
                    a = t1[2][0]
                    targ = a[1] if a[0] == "named" else None
            p.expect("{")
            parse_items(p, fns, structs, target[1] if target[0] == "named" else None, targ)
            p.expect("}")
            continue
        if p.at("fn") or p.at("async") or p.at("unsafe"):
            while not p.at("fn"):
                p.i += 1
            p.i += 1
            name = p.ident()
            if p.at("<"):
                skip_generics(p)
            p.expect("(")
            params = []
            self_kind = None
            while not p.at(")"):
                if p.at("&") and (p.peek(1)[1] == "self" or (p.peek(1)[1] == "mut" and p.peek(2)[1] == "self")):
                    p.i += 1
                    if p.eat("mut"):
                        self_kind = "mut"
                    else:
                        self_kind = "ref"
                    p.expect("self")
                elif p.at("self") or (p.at("mut") and p.peek(1)[1] == "self"):
                    p.eat("mut")
                    p.expect("self")
                    self_kind = "value"
                else:
                    pat = p.parse_pattern1()
                    p.expect(":")
                    params.append((pat, p.parse_type()))
                if not p.eat(","):
                    break
            p.expect(")")
            ret = None
            if p.eat("->"):
                ret = p.parse_type()
            if p.at("where"):
                while not p.at("{") and not p.at(";"):
                    p.i += 1
            if p.eat(";"):
                continue
            body = p.parse_block()
            fns.append(Fn(name, params, ret, body, self_kind, impl_of, trait_arg))
            continue
        raise ParseError(f"item expected, found {v!r} (token {p.i})")


def skip_generics(p):
    depth = 0
    while True:
        if p.at("<"):
            depth += 1
        elif p.at(">"):
            depth -= 1
        elif p.at(">>"):
            depth -= 2
        p.i += 1
        if depth <= 0:
            return


def skip_braces(p):
    depth = 0
    while True:
        if p.at("{"):
            depth += 1
        elif p.at("}"):
            depth -= 1
        p.i += 1
        if depth <= 0:
            return


if __name__ == "__main__":
    import sys, os
    root = sys.argv[1] if len(sys.argv) > 1 else "/repo/src"
    nf = ns = 0
    for d, _, files in os.walk(root):
        for f in sorted(files):
            if f.endswith(".rs"):
                path = os.path.join(d, f)
                try:
                    fns, structs = parse_file(open(path).read())
                    nf += len(fns)
                    ns += len(structs)
                except ParseError as e:
                    print("FAIL", path, e)
    print("functions", nf, "structs", ns)
