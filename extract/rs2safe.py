#!/usr/bin/env python3
"""Trap-freedom obligations of the translated functions: Generated/TransSafe.lean.

For every function the translator regenerates (rs2lean.PLANS) this pass walks the same Rust AST once more and collects, for
every operation that can panic at run time, the condition under which it does not - each under the path condition of the
place it occurs in:

   a - b   on unsigned integers          b <= a
   a + b, a * b on uN / iN               the exact result fits the type
   a << b, a >> b                        b < bit width            (bits shifted out are NOT a trap: see shlW)
   v[i] on the message / a [T; 2]        i < v.length   /  i < 2
   x.expect(..), x.unwrap()              x is Some
   a / b, a % b on integers              b != 0
   f(args) for a translated f            T.f.safe args            (compositional)

and emits   def T.f.safe (params) : Prop := ob1 /\ ob2 /\ ...   .  `Proofs/Safe.lean` proves them under the hypotheses the
callers establish (a frame of the length its format needs, made of nibbles).  A changed or new operation changes the generated
proposition, and its proof has to go through again - that is the obligation C01's arithmetic clause rests on.

Path conditions:  if c {a} else {b}: c -> .., not c -> ..;  `opt.map(|p| e)`: forall p, opt = some p -> ..;  list closures: forall p in
list;  match arms: a Prop-valued match;  `let p = e; rest`: the same `let` around the obligations of rest.  Statements that
assign outer variables (loops, `if` with assignments, `&mut` calls) are over-approximated soundly: after them the assigned
variables are universally quantified.
"""
import rs2lean as L
from rs2lean import TErr, par, lname, lty, rty, NAT, INT, BOOL, OPT, UNIT


class Safe:
    def __init__(self, tr):
        self.tr = tr            # an rs2lean.FnTr for the same function (expression texts and types come from it)
        self.ctx = tr.ctx
        self.closures = {}      # local closures: name -> (parameter names, body, environment at the definition)

    # ---- helpers ---------------------------------------------------------------------------------
    def txt(self, e, env, expect=None):
        return self.tr.tr(e, env, expect)

    def wrap(self, prefix, obs):
        return [f"({prefix}{o})" for o in obs]

    def imp(self, cond, obs):
        return [f"(({cond}) → {o})" for o in obs]

    # ---- expressions -----------------------------------------------------------------------------
    def ex(self, e, env, expect=None):
        """obligations for evaluating expression e"""
        k = e[0]
        if k not in ("try", "if", "iflet", "match", "block", "return", "paren") and self.tr.contains_try(e) \
                and not (k == "binary" and e[1] in ("&&", "||")) and not (k == "unary" and e[1] == "!"):
            return self.ex_hoist(e, env, expect)
        if k in ("lit_int", "lit_float", "lit_bool", "lit_char", "lit_str", "path", "macro", "closure", "range"):
            if k == "macro" and e[1] == "matches":
                p = L.R.Parser(list(e[2]) + [("eof", "")])
                return self.ex(p.parse_expr(), env)
            return []
        if k == "paren":
            return self.ex(e[1], env, expect)
        if k == "unary":
            obs = self.ex(e[2], env, expect)
            if e[1] == "-" and not self.tr.is_lit(e[2]):
                t, ty = self.txt(e[2], env, expect)
                if ty[0] == "int":
                    obs.append(f"(-(2:Int)^{ty[1]-1} < {t})")       # -x overflows for the most negative value only
            return obs
        if k == "binary":
            return self.binary(e, env, expect)
        if k == "cast":
            return self.ex(e[1], env)
        if k == "tuple" or k == "array":
            out = []
            for x in e[1]:
                out += self.ex(x, env)
            return out
        if k == "field":
            return self.ex(e[1], env)
        if k == "index":
            base, bty = self.txt(e[1], env)
            obs = self.ex(e[1], env)
            if e[2][0] == "range":
                rng = e[2]
                lo = self.txt(rng[1], env, NAT(64))[0] if rng[1] is not None else None
                hi = self.txt(rng[2], env, NAT(64))[0] if rng[2] is not None else None
                for x in (rng[1], rng[2]):
                    if x is not None:
                        obs += self.ex(x, env, NAT(64))
                if lo is not None and hi is not None:
                    obs.append(f"({lo} ≤ {hi})")
                obs.append(f"({hi if hi is not None else lo} ≤ {par(base)}.length)")
                return obs
            obs += self.ex(e[2], env, NAT(64))
            idx, _ = self.txt(e[2], env, NAT(64))
            if bty[0] in ("msg", "list", "str"):
                obs.append(f"({idx} < {par(base)}.length)")
            elif bty[0] == "arr" and e[2][0] != "lit_int":
                obs.append(f"({idx} < {bty[2] or 2})")
            return obs
        if k == "call":
            return self.call(e, env, expect)
        if k == "mcall":
            return self.mcall(e, env, expect)
        if k == "if":
            obs = self.ex(e[1], env, BOOL)
            yes, no = self.cond_pair(e[1], env)
            obs += self.imp(yes, self.blockv(e[2], env, expect))
            if e[3] is not None:
                obs += self.imp(no, self.blockv(e[3], env, expect))
            return obs
        if k == "iflet":
            m = ("match", e[2], [(e[1], None, e[3]), (("p_wild",), None, e[4] if e[4] is not None else ("tuple", []))])
            return self.match(m, env, expect)
        if k == "match":
            return self.match(e, env, expect)
        if k == "block":
            return self.blockv(e, env, expect)
        if k == "struct":
            out = []
            for _, x in e[2]:
                out += self.ex(x, env)
            return out
        if k == "try":
            return self.ex(e[1], env)
        if k == "return":
            return self.ex(e[1], env, self.tr.ret) if e[1] is not None else []
        if k in ("continue",):
            return []
        if k == "assign":
            et = self.tr.entry_target(e[1])
            if et:
                m_e, k_e, v_e = et
                mtxt, mty = self.txt(m_e, env)
                rtxt, _ = self.txt(e[3], env, mty[2])
                w = mty[2][1] if mty[2][0] in ("int", "nat") else 32
                bound = (f"(-(2:Int)^{w-1} ≤ kc_.2 {e[2][0]} {par(rtxt)} ∧ kc_.2 {e[2][0]} {par(rtxt)} < (2:Int)^{w-1})" if mty[2][0] == "int"
                         else f"(kc_.2 {e[2][0]} {par(rtxt)} < 2^{w})")
                return self.ex(k_e, env, mty[1]) + self.ex(v_e, env, mty[2]) + self.ex(e[3], env, mty[2]) + [f"(∀ kc_ ∈ {par(mtxt)}, {bound})"]
            return self.ex(e[3], env)
        raise TErr(f"safety pass: expression {k}")

    def ex_hoist(self, e, env, expect):
        """an expression with `?` inside: each `x?` becomes a variable ranging over what x can hold"""
        tries = []
        def hoist(n):
            if isinstance(n, tuple):
                if n and n[0] == "try":
                    v = self.tr.fresh("q")
                    tries.append((v, n[1]))
                    return ("path", [v])
                if n and n[0] in ("closure", "macro"):
                    return n
                return tuple(hoist(x) for x in n)
            if isinstance(n, list):
                return [hoist(x) for x in n]
            return n
        e2 = hoist(e)
        env2 = dict(env)
        obs, binders = [], []
        for v, inner in tries:
            o = self.ex(inner, env2)
            it, ity = self.txt(inner, env2)
            if ity[0] != "opt":
                raise TErr("safety pass: `?` on a non-Option")
            obs += [self.bind_all(binders, x) for x in o]
            env2[v] = ity[1]
            binders.append((v, it))
        obs += [self.bind_all(binders, x) for x in self.ex(e2, env2, expect)]
        return obs

    def bind_all(self, binders, o):
        for v, it in reversed(binders):
            o = f"(match {it} with | some {v} => {o} | _ => True)"
        return o

    def cond_pair(self, c, env):
        """(Prop text: the condition holds, Prop text: it does not) - a condition with `?` inside is an Option Bool"""
        if self.tr.contains_try(c):
            o = self.tr.cond_opt(c, env)
            return f"{o} = some true", f"{o} = some false"
        t = self.tr.cond(c, env)
        return t, f"¬({t})"

    def binary(self, e, env, expect):
        op, l, r = e[1], e[2], e[3]
        if op in ("&&", "||"):
            a = self.ex(l, env, BOOL)
            yes, no = self.cond_pair(l, env)
            b = self.ex(r, env, BOOL)
            return a + self.imp(yes if op == "&&" else no, b)
        obs = self.ex(l, env) + self.ex(r, env)
        if op in ("==", "!=", "<", ">", "<=", ">=", "&", "|", "^"):
            return obs
        # types as the translator sees them
        _, ty = self.txt(e, env, expect)
        if self.tr.is_lit(l) and not self.tr.is_lit(r):
            b, tb = self.txt(r, env, expect)
            a, _ = self.txt(l, env, tb)
        else:
            a, ta = self.txt(l, env, expect if self.tr.is_lit(l) else None)
            b, _ = self.txt(r, env, NAT() if op in ("<<", ">>") else ta)
        A, B = par(a), par(b)
        if ty[0] == "nat":
            w = ty[1]
            if op == "-":
                obs.append(f"({b} ≤ {a})")
            elif op == "+":
                obs.append(f"({A} + {B} < 2^{w})")
            elif op == "*":
                obs.append(f"({A} * {B} < 2^{w})")
            elif op in ("/", "%"):
                obs.append(f"({b} ≠ 0)")
            elif op in ("<<", ">>"):
                if not self.tr.is_lit(r):
                    obs.append(f"({b} < {w})")
                elif int(self.lit_val(r)) >= w:
                    obs.append("False")
                if op == "<<" and not self.tr.bits:
                    # not a trap but a condition of the translation: outside the bit / CRC / frame layer `<<` is rendered as the
                    # unbounded shift, which is the machine's only if no bit leaves the word
                    obs.append(f"({A} * 2 ^ {B} < 2^{w})")
        elif ty[0] == "int":
            w = ty[1]
            rng = lambda t: f"(-(2:Int)^{w-1} ≤ {t} ∧ {t} < (2:Int)^{w-1})"
            if op in ("+", "-", "*"):
                obs.append(rng(f"{A} {op} {B}"))
            elif op in ("/", "%"):
                obs.append(f"({b} ≠ 0)")
                if not (self.tr.is_lit(r) and r[0] != "unary"):
                    # the one quotient that does not fit: MIN / -1 (Rust panics with overflow, also for `%`)
                    obs.append(f"(¬({A} = -(2:Int)^{w-1} ∧ {B} = -1))")
            elif op == "<<":
                obs.append(rng(f"{A} * 2 ^ {B}"))
        return obs

    def lit_val(self, e):
        while e[0] == "paren":
            e = e[1]
        return e[1]

    def blockv(self, b, env, expect=None):
        if b[0] != "block":
            return self.ex(b, env, expect)
        return self.stmts(list(b[1]), b[2], dict(env), expect)

    def match(self, e, env, expect):
        s, sty = self.txt(e[1], env)
        obs = self.ex(e[1], env)
        arms = e[2]
        binding = any(self.tr.arm_binds(p) for p, _, _ in arms)
        if not binding:
            prev = []
            for p, g, body in arms:
                c = self.tr.pat_test(p, par(s), sty, env)
                if g is not None:
                    gc = self.tr.cond(g, env)
                    c = f"{c} ∧ {gc}" if c else gc
                conds = [f"¬({x})" for x in prev] + ([f"({c})"] if c else [])
                inner = self.blockv(body, dict(env), expect)
                obs += self.imp(" ∧ ".join(conds), inner) if conds else inner
                if c is None:
                    break
                prev.append(c)
            return obs
        some_ref = sty[0] == "opt" and any(self.tr.some_refutable(p) for p, _, _ in arms)
        for p, g, body in arms:
            env2 = dict(env)
            if some_ref:
                # over-approximate: the bound variable ranges over every value the option can hold
                if p[0] == "p_ts" and p[1][-1] == "Some":
                    q = p[2][0]
                    v = self.tr.fresh("o")
                    pre = ""
                    cnd = None
                    if q[0] == "p_bind":
                        env2[q[1]] = sty[1]
                        pre = f"let {lname(q[1])} := {v};\n"
                        q = q[2]
                    if q[0] == "p_ident":
                        env2[q[1]] = sty[1]
                        pre = f"let {lname(q[1])} := {v};\n"
                    else:
                        cnd = self.tr.pat_test(q, v, sty[1], env2)
                    inner = self.blockv(body, env2, expect)
                    inner = self.wrap(pre, inner) if pre else inner
                    if cnd:
                        inner = self.imp(cnd, inner)
                    obs += [f"(∀ ({v} : {lty(sty[1])}), {s} = some {v} → {o})" for o in inner]
                else:
                    obs += self.blockv(body, env2, expect)
                continue
            pt = self.tr.match_pat(p, sty, env2)
            inner = self.blockv(body, env2, expect)
            if p[0] == "p_wild":
                obs += inner
            else:
                obs += [f"(match {s} with | {pt} => {o} | _ => True)" for o in inner]
        return obs

    def closure_obs(self, cl, argty, env, how):
        """obligations of a closure body, quantified as `how(pattern text, ob)` says"""
        if cl[0] != "closure":
            return []
        env2 = dict(env)
        if isinstance(argty, list):
            pts = [self.tr.pat(p, t, env2) for p, t in zip(cl[1], argty)]
        else:
            pts = [self.tr.pat(cl[1][0], argty, env2)]
        inner = self.ex(cl[2], env2) if cl[2][0] != "block" else self.blockv(cl[2], env2)
        return [how(pts, o) for o in inner]

    def mcall(self, e, env, expect):
        recv_e, name, args = e[1], e[2], e[3]
        inner = recv_e[1] if recv_e[0] == "paren" else recv_e
        if name == "contains" and inner[0] == "range":
            return self.ex(args[0], env) + [o for x in (inner[1], inner[2]) if x is not None for o in self.ex(x, env)]
        if name in ("clone", "cloned", "copied", "to_owned", "iter", "into_iter", "as_ref", "chars", "to_vec", "enumerate", "collect"):
            return self.ex(recv_e, env, expect)
        if name in ("expect", "unwrap") and recv_e[0] == "mcall" and recv_e[2] == "try_into":
            return self.ex(recv_e[1], env, expect)
        if name == "shrink_to_fit" and self.tr.map_base(recv_e, env):
            return []
        if name == "retain" and self.tr.map_base(recv_e, env):
            _, mty = self.tr.map_base(recv_e, env)
            return self.closure_obs(args[0], [mty[1], mty[2]], env, lambda pts, o: f"(∀ (k_ : {lty(mty[1])}) (v_ : {lty(mty[2])}), (match k_, v_ with | {pts[0]}, {pts[1]} => {o}))")
        if name == "or_insert" and recv_e[0] == "mcall" and recv_e[2] == "and_modify" and recv_e[1][0] == "mcall" and recv_e[1][2] == "entry":
            mb = self.tr.map_base(recv_e[1][1], env)
            if not mb:
                raise TErr("safety pass: entry() on something that is not a local map")
            _, mty = mb
            cl = recv_e[3][0]
            env2 = dict(env)
            pv = cl[1][0][1]
            env2[pv] = mty[2]
            body = cl[2] if cl[2][0] == "block" else ("block", [], cl[2])
            stmts = list(body[1]) + ([("expr", body[2])] if body[2] is not None else [])
            inner = self.stmts(stmts, None, env2)
            mtxt, _ = self.txt(recv_e[1][1], env)
            # the closure runs on the entry of the key, if there is one: quantify over the values actually in the map
            return self.ex(recv_e[1][3][0], env, mty[1]) + [f"(∀ kv_ ∈ {par(mtxt)}, (let {lname(pv)} := kv_.2; {o}))" for o in inner] + self.ex(args[0], env, mty[2])
        obs = self.ex(recv_e, env)
        if name == "signed_duration_since":
            return obs + self.ex(args[0], env)
        recv, rt = self.txt(recv_e, env)
        RV = par(recv)
        if rt[0] == "opt":
            et = rt[1]
            if name in ("map", "filter", "and_then", "is_some_and"):
                return obs + self.closure_obs(args[0], et, env, lambda pts, o: f"(match {RV} with | some {par(pts[0])} => {o} | _ => True)")
            if name in ("expect", "unwrap"):
                return obs + [f"({RV}.isSome = true)"]
            if name in ("or", "unwrap_or"):
                return obs + self.ex(args[0], env, rt if name == "or" else et)
            return obs
        if rt[0] in ("msg", "list", "str"):
            et = NAT() if rt[0] == "msg" else L.CHAR if rt[0] == "str" else rt[1]
            if name in ("map", "filter", "filter_map", "all", "any"):
                return obs + self.closure_obs(args[0], et, env, lambda pts, o: f"(∀ p_ ∈ {RV}, (match p_ with | {pts[0]} => {o}))")
            if name == "fold":
                init, ity = self.txt(args[0], env, expect)
                return obs + self.ex(args[0], env, expect) + \
                    self.closure_obs(args[1], [ity, et], env, lambda pts, o: f"(∀ (a_ : {lty(ity)}) (x_ : {lty(et)}), (match a_, x_ with | {pts[0]}, {pts[1]} => {o}))")
            for a in args:
                obs += self.ex(a, env)
            return obs
        for a in args:
            obs += self.ex(a, env)
        if rt[0] == "struct":
            key = self.tr.method_key(rt[1], name, args, env)
            if key in self.ctx.sigs:
                obs.append(self.safe_call(key, args, env, recv))
        return obs

    def safe_call(self, key, args, env, recv=None):
        lean, ptys, ret, self_kind, self_ty = self.ctx.sigs[key]
        parts = []
        for n in self.ctx.needs.get(key, []):
            parts.append("tenv" if n == "env" else n)
        if recv is not None:
            parts.append(par(recv))
        for a, t in zip(args, ptys):
            parts.append(par(self.txt(a, env, t)[0]))
        return f"({lean}.safe " + " ".join(parts) + ")"

    def call(self, e, env, expect):
        f = e[1]
        segs = f[1]
        name = segs[-1]
        args = e[2]
        obs = []
        for a in args:
            obs += self.ex(a, env)
        if len(segs) == 1 and name in env and env[name][0] == "fn":
            # a local closure: the obligations of its body, for the arguments of this call
            names, body, env_c = self.closures[name]
            pre = "".join(f"let {n} := {self.txt(a, env, NAT())[0]}; " for n, a in zip(names, args))
            return obs + self.wrap(pre, self.ex(body, env_c))
        key = None
        if len(segs) >= 2 and segs[-2][0].isupper():
            tyname = segs[-2] if segs[-2] != "Self" else self.tr.fn.impl_of
            if f"{tyname}.{name}" in self.ctx.sigs:
                key = f"{tyname}.{name}"
            elif name == "default" and f"{tyname}.new" in self.ctx.sigs:
                key = f"{tyname}.new"
        if key is None and name in self.ctx.sigs and (self.tr.bits or name not in L.BUILTIN_FNS):
            key = name
        if key is not None:
            obs.append(self.safe_call(key, args, env))
            return obs
        if name in ("range_value", "flag_and_range_value", "status_flag_and_range_value") and name in L.BUILTIN_FNS:
            # the hand-modelled extraction helpers (bridged to their translations): every position inside the vector
            m, _ = self.txt(args[0], env, L.MSG)
            for a in args[1:]:
                t, _ = self.txt(a, env, NAT())
                if not (a[0] == "lit_int" and a[1] == 0):
                    obs.append(f"(1 ≤ {t} ∧ {t} ≤ 4 * {par(m)}.length)")
        return obs

    # ---- statements ------------------------------------------------------------------------------
    def stmts(self, stmts, tail, env, expect=None):
        if not stmts:
            if tail is None:
                return []
            if tail[0] == "for":
                return self.stmts([("expr", tail)], None, env, expect)
            return self.ex(tail, env, expect)
        s, rest = stmts[0], stmts[1:]
        if s[0] == "let":
            _, pat, ty, init, els = s
            dty = rty(ty, self.tr.fn.impl_of) if ty is not None else None
            if init is None:
                raise TErr("safety pass: let without initialiser")
            if init[0] == "closure" and pat[0] == "p_ident":
                env_c = dict(env)
                names = []
                for q in init[1]:
                    env_c[q[1]] = NAT()
                    names.append(lname(q[1]))
                body_obs = self.ex(init[2], env_c)
                body, bty = self.tr.tr(init[2], env_c)
                env2 = dict(env)
                env2[pat[1]] = ("fn", [NAT()] * len(names), bty)
                self.closures[pat[1]] = (names, init[2], env_c)
                rest_obs = self.stmts(rest, tail, env2, expect)
                return self.wrap(f"let {lname(pat[1])} := fun {' '.join(names)} => {body};\n", rest_obs)
            init_e = init[1] if init[0] == "try" else init
            obs = self.ex(init_e, env, dty)
            acc = set()
            self.tr.assigned(init_e, acc, env)
            acc = [v for v in sorted(acc) if v in env or v == "self"]
            env2 = dict(env)
            if self.tr.contains_try(init_e) and not acc and els is None and init[0] != "try":
                ot, oty = self.tr.tr_opt(init, env, dty)
                pt = self.tr.pat(pat, dty or oty, env2)
                rest_obs = self.stmts(rest, tail, env2, expect)
                return obs + [f"(match {ot} with | some {par(pt)} => {o} | _ => True)" for o in rest_obs]
            if els is not None or init[0] == "try" or self.tr.contains_try(init_e) or acc:
                # the bound names range over everything the initialiser can yield (refutable / stateful forms)
                it, ity = (self.txt(init_e, env, dty) if not acc and not self.tr.contains_try(init_e) else (None, dty))
                if it is not None and ity[0] == "opt" and (els is not None or init[0] == "try"):
                    pt = self.tr.match_pat(pat, ity, env2) if els is not None else "some " + par(self.tr.pat(pat, ity[1], env2))
                    rest_obs = self.stmts(rest, tail, env2, expect)
                    out = obs + [f"(match {it} with | {pt} => {o} | _ => True)" for o in rest_obs]
                    if els is not None:
                        out += self.blockv(els, dict(env), self.tr.ret)
                    return out
                return obs + self.havoc_bind(pat, dty, env2, rest, tail, expect, acc, env)
            it, ity = self.txt(init, env, dty)
            if dty is not None:
                ity = dty
            pt = self.tr.pat(pat, ity, env2)
            return obs + self.wrap(f"let {pt} := {it};\n", self.stmts(rest, tail, env2, expect))
        if s[0] == "expr":
            e = s[1]
            k0 = e[0]
            if k0 == "macro":
                return self.stmts(rest, tail, env, expect)
            if k0 == "for":
                obs = self.for_obs(e, env)
            elif k0 == "mcall" and self.tr.vec_stmt(e, env) is not None:
                obs = []            # `v.append(vec![literal; n].as_mut())`: nothing in it can trap
            else:
                obs = self.ex(e, env)
            if k0 in ("return", "continue"):
                return obs
            acc = set()
            self.tr.assigned(e, acc, env)
            acc = [v for v in sorted(acc) if v in env or v == "self"]
            if k0 == "assign":
                obs = obs + self.lhs_index_obs(e[1], env)
            if k0 == "assign" and self.tr.entry_target(e[1]) is None and not acc_is_compound(e):
                # a plain assignment: rebind exactly as the translator does
                try:
                    lty_ = self.tr.lhs_type(e[1], env)
                    if e[2] != "=":
                        rhs = ("binary", e[2][:-1], e[1], e[3])
                        obs = self.ex(rhs, env, lty_)
                    else:
                        rhs = e[3]
                    r, _ = self.txt(rhs, env, lty_)
                    pre = self.tr.assign_text(e[1], r, env)
                    return obs + self.wrap(pre, self.stmts(rest, tail, env, expect))
                except TErr:
                    pass
            if acc and not self.tr.contains_return(e):
                # a statement that assigns outer variables: thread the state exactly as the translator does
                # (`let x := <new value>;` in front of what follows), so that what follows is stated about the real new state
                try:
                    got = {}
                    def k_(env2, got=got):
                        got["env"] = env2
                        return "\0"
                    txt = self.tr.seq([s], None, dict(env), k_, None, {}, allow_return=False)
                    if txt.endswith("\0"):
                        return obs + self.wrap(txt[:-1], self.stmts(rest, tail, got.get("env", env), expect))
                except TErr:
                    pass
            rest_obs = self.stmts(rest, tail, env, expect)
            if k0 == "if" and e[3] is None and diverges(e[2]) and not acc:
                # `if c { ..; return / continue }`: what follows runs only when c does not hold
                return obs + self.imp(self.cond_pair(e[1], env)[1], rest_obs)
            if acc:
                return obs + self.havoc(acc, env, rest_obs)
            return obs + rest_obs
        raise TErr("safety pass: statement " + s[0])

    def lhs_index_obs(self, lhs, env):
        """`a[i] = v`: the index must be inside the array"""
        out = []
        while lhs[0] in ("field", "index", "paren"):
            if lhs[0] == "index":
                base, bty = self.txt(lhs[1], env)
                if lhs[2][0] != "lit_int":
                    idx, _ = self.txt(lhs[2], env, NAT(64))
                    out += self.ex(lhs[2], env, NAT(64))
                    out.append(f"({idx} < {(bty[2] or 2) if bty[0] == 'arr' else par(base) + '.length'})")
            lhs = lhs[1]
        return out

    def havoc(self, acc, env, obs):
        if not obs:
            return []
        binders = " ".join(f"({'self' if v == 'self' else lname(v)} : {lty(self.tr.self_ty if v == 'self' else env[v])})" for v in acc)
        return [f"(∀ {binders}, {o})" for o in obs]

    def havoc_bind(self, pat, dty, env2, rest, tail, expect, acc, env):
        # names bound by a pattern whose initialiser we do not follow: universally quantified at their type
        names = []
        def collect(p, ty):
            if p[0] == "p_ident":
                env2[p[1]] = ty
                names.append((p[1], ty))
            elif p[0] == "p_tuple":
                tys = ty[1] if ty and ty[0] == "tuple" else [None] * len(p[1])
                for q, t in zip(p[1], tys):
                    collect(q, t)
            elif p[0] == "p_ts":
                inner = ty[1] if ty and ty[0] == "opt" else ty
                for q in p[2]:
                    collect(q, inner)
            elif p[0] == "p_ref":
                collect(p[1], ty)
        collect(pat, dty)
        if any(t is None for _, t in names):
            raise TErr("safety pass: binding of unknown type")
        rest_obs = self.stmts(rest, tail, env2, expect)
        binders = " ".join(f"({lname(n)} : {lty(t)})" for n, t in names)
        out = [f"(∀ {binders}, {o})" for o in rest_obs] if names else rest_obs
        return self.havoc(acc, env, out) if acc else out

    def for_obs(self, e, env):
        _, pat, it, body = e
        inner = it[1] if it[0] == "paren" else it
        acc = set()
        self.tr.assigned(e, acc, env)
        acc = [v for v in sorted(acc) if v in env or v == "self"]
        env2 = dict(env)
        obs = []
        if inner[0] == "range":
            lo, _ = self.txt(inner[1], env, NAT())
            hi, _ = self.txt(inner[2], env, NAT())
            obs += self.ex(inner[1], env, NAT()) + self.ex(inner[2], env, NAT())
            var = None
            if pat[0] == "p_ident":
                env2[pat[1]] = NAT()
                var = lname(pat[1])
            body_obs = self.blockv(body, env2)
            if acc and any((self.tr.self_ty if v == "self" else env[v])[0] in ("msg", "list") for v in acc):
                # the loop works on a vector: its obligations (indices) are about the state the iteration really starts in -
                # the fold of the iterations before it - not about an arbitrary state
                count, lam, st, v2, lo2 = self.tr.for_range_parts(e, dict(env), acc)
                kv = (var or "it") + "_k"
                lam1 = lam.replace("\n", " ")
                bind = f"let {v2} := {lo2} + {kv}; " if v2 else ""
                return obs + [f"(∀ ({kv} : Nat), {kv} < {count} → (let {st} := (List.range {kv}).foldl {lam1} {st}; {bind}{o}))" for o in body_obs]
            if var:
                body_obs = [f"(∀ ({var} : Nat), {lo} ≤ {var} → {var} {'≤' if inner[3] else '<'} {hi} → {o})" for o in body_obs]
        else:
            enum = inner[0] == "mcall" and inner[2] == "enumerate"
            src = inner
            while src[0] == "mcall" and src[2] in ("iter", "enumerate"):
                src = src[1]
            xs, xty = self.txt(src, env)
            et = NAT() if xty[0] == "msg" else xty[1]
            if enum:
                ip = self.tr.pat(pat[1][0], NAT(64), env2)
                xp = self.tr.pat(pat[1][1], et, env2)
                body_obs = [f"(∀ p_ ∈ {par(xs)}.zipIdx, (match p_ with | ({xp}, {ip}) => {o}))" for o in self.blockv(body, env2)]
            else:
                xp = self.tr.pat(pat, et, env2)
                body_obs = [f"(∀ p_ ∈ {par(xs)}, (match p_ with | {xp} => {o}))" for o in self.blockv(body, env2)]
        return obs + (self.havoc(acc, env, body_obs) if acc else body_obs)


def diverges(b):
    if b[0] != "block":
        return b[0] in ("return", "continue")
    if b[2] is not None:
        return b[2][0] in ("return", "continue")
    return bool(b[1]) and b[1][-1][0] == "expr" and b[1][-1][1][0] in ("return", "continue")


def acc_is_compound(e):
    return e[3][0] in ("if", "match", "iflet", "block") and False


def safe_def(ctx, fn):
    """Lean text of `def T.f.safe`"""
    tr = L.FnTr(ctx, fn)
    sf = Safe(tr)
    env = {}
    params = []
    for n in ctx.needs.get(ctx.key_of(fn), []):
        params.append("(now : Int)" if n == "now" else "(tenv : TEnv)")
    if fn.self_kind:
        params.append(f"(self : {lty(tr.self_ty)})")
    for p, t in fn.params:
        ty = rty(t, fn.impl_of)
        if ty == ("sstr",):
            ty = L.STR
        env[p[1]] = ty
        params.append(f"({lname(p[1])} : {lty(ty)})")
    body = L.desugar_locks(fn.body)
    obs = sf.stmts(list(body[1]), body[2], env, tr.ret)
    seen, uniq = set(), []
    for o in obs:
        o = " ".join(o.split())          # one line per obligation: `match` alternatives are column-sensitive
        if o not in seen and o != "True":
            seen.add(o)
            uniq.append(o)
    name = ctx.lean_name(fn)
    text = " ∧\n  ".join(uniq) if uniq else "True"
    return f"def {name}.safe " + " ".join(params) + f" : Prop :=\n  {text}", len(uniq)
