#!/usr/bin/env python3
"""Token fingerprints of the functions (and of the items outside functions) of every non-test source file.

The parts of the crate that the translator does not regenerate into Lean (reader loop, table, counters, rendering, float
code, option parsing) are modelled by hand.  Their tie to the source is the correspondence check - and this inventory: the
token text each hand-written model was written against is frozen in known/source_shapes.json, and a check fails its
obligation "hand-modelled function f is the text the model was reviewed against" as soon as the tokens of f differ
(comments and layout do not count).  That is review plus change detection, not proof, and is labelled so in the evidence.

usage: shapes.py            print the current inventory as JSON
       shapes.py --freeze   rewrite known/source_shapes.json from /repo's working tree (after the model has been re-reviewed)
"""
import hashlib, json, os, sys
sys.path.insert(0, os.path.dirname(os.path.abspath(__file__)))
import rsparse as R

VERIF = os.path.dirname(os.path.dirname(os.path.abspath(__file__)))
FROZEN = os.path.join(VERIF, "known", "source_shapes.json")


def file_shapes(path):
    """{"name#k": token text} for every fn body (k = occurrence index of that name in the file) plus "<items>": the rest"""
    toks = R.tokenize(R.strip_tests(open(path).read()))
    out, counts, rest = {}, {}, []
    i, n = 0, len(toks)
    while i < n:
        if toks[i][1] == "fn" and i + 1 < n and toks[i + 1][0] == "ident":
            name = toks[i + 1][1]
            j, depth = i, 0
            while j < n and not (toks[j][1] == "{" and depth == 0):
                if toks[j][1] in ("(", "["):
                    depth += 1
                elif toks[j][1] in (")", "]"):
                    depth -= 1
                elif toks[j][1] == ";" and depth == 0:
                    break
                j += 1
            if j < n and toks[j][1] == "{":
                d, k = 0, j
                while k < n:
                    if toks[k][1] == "{":
                        d += 1
                    elif toks[k][1] == "}":
                        d -= 1
                        if d == 0:
                            break
                    k += 1
                c = counts.get(name, 0)
                counts[name] = c + 1
                out[f"{name}#{c}"] = " ".join(str(t[1]) for t in toks[i:k + 1])
                rest.append(f"fn {name} {{..}}")
                i = k + 1
                continue
        rest.append(str(toks[i][1]))
        i += 1
    out["<items>"] = " ".join(rest)
    return out


def inventory(repo):
    inv = {}
    for d, _, files in os.walk(os.path.join(repo, "src")):
        for f in sorted(files):
            if f.endswith(".rs"):
                path = os.path.join(d, f)
                rel = os.path.relpath(path, repo)
                for k, text in file_shapes(path).items():
                    inv[f"{rel}::{k}"] = hashlib.sha256(text.encode("utf-8")).hexdigest()[:16]
    return inv


def changed(repo, wanted):
    """keys of `wanted` (list of (file, function name or '*')) whose fingerprint differs from the frozen one, with the reason"""
    frozen = json.load(open(FROZEN))
    cur = inventory(repo)
    def sel(inv):
        out = {}
        for k, v in inv.items():
            rel, fn = k.split("::", 1)
            base = fn.split("#")[0]
            if any(rel == f and (name == "*" or name == base) for f, name in wanted):
                out[k] = v
        return out
    a, b = sel(frozen), sel(cur)
    res = []
    for k in sorted(set(a) | set(b)):
        if k not in b:
            res.append((k, "removed or renamed"))
        elif k not in a:
            res.append((k, "new"))
        elif a[k] != b[k]:
            res.append((k, "token text changed"))
    return res, len(a)


if __name__ == "__main__":
    repo = os.environ.get("VERIF_REPO", "/repo")
    inv = inventory(repo)
    if "--freeze" in sys.argv:
        with open(FROZEN, "w") as f:
            json.dump(inv, f, indent=0, sort_keys=True)
            f.write("\n")
        print(f"froze {len(inv)} fingerprints")
    else:
        print(json.dumps(inv, indent=0, sort_keys=True))
