#!/usr/bin/env python3
"""Translator: the Rust subset of squitterator's decoder  ->  Lean 4 definitions (namespace Sq.T).

Every run re-reads /repo's working tree, translates the functions named in TRANSLATE (fail-loud: a construct the
translator does not know makes the run fail and names the function) and writes lean/SqModel/Generated/Trans*.lean.
The hand-written model (Model/*.lean) is tied to these definitions by the bridge theorems of Proofs/Bridge*.lean,
so that every theorem about the model is a theorem about what the source says now.

Semantics chosen (also listed in DESIGN.md 13):
  u8/u16/u32/u64/usize -> Nat (no wrap-around: `-` is truncated subtraction, `<<` does not drop bits; every such site is
                          in the arithmetic-site inventory of C01);  i32/i64 -> Int (`/` = Int.tdiv, `%` = Int.tmod);
  f32/f64 -> Rat (exact arithmetic on + - * / and comparisons only; functions using sqrt/atan2/sin/cos/powi/floor are
                          not translated);  bool -> Bool; char -> Char; String -> List Char; Option -> Option;
  tuples -> products; &[u32] / Vec<u32> -> Msg (List Nat, message[i] = nib message i); [T; 2] -> T × T;
  chrono::DateTime -> Int (milliseconds);  log macros (debug!/info!/warn!/error!) are dropped;
  `&mut self` methods -> functions returning the new value of self.
"""
import os, sys
from fractions import Fraction
import rsparse as R


class TErr(Exception):
    pass


LEAN_KEYWORDS = {"from", "at", "end", "then", "else", "type", "instance", "where", "with", "do", "in", "have", "show", "fun",
                 "match", "if", "let", "open", "namespace", "section", "def", "theorem", "structure", "class", "by", "at",
                 "using", "deriving", "mutual", "macro", "syntax", "local", "universe", "variable", "axiom", "example",
                 "abbrev", "inductive", "extends", "private", "protected", "partial", "unsafe", "noncomputable", "infix",
                 "notation", "prefix", "postfix", "set_option", "attribute", "export", "import", "return", "for", "try",
                 "catch", "finally", "unless", "break", "continue", "mut", "nat_lit", "sorry", "Type", "Prop", "Sort", "meta"}


def lname(n):
    return n + "_" if n in LEAN_KEYWORDS else n


NAT = lambda b=32: ("nat", b)
INT = lambda b=32: ("int", b)
RAT, BOOL, CHAR, STR, MSG, UNIT, TIME = ("rat",), ("bool",), ("char",), ("str",), ("msg",), ("unit",), ("time",)


def OPT(t):
    return ("opt", t)


def rty(t, self_name=None):
    """parsed Rust type -> internal type"""
    if t is None:
        return UNIT
    k = t[0]
    if k == "ref" and t[1][0] == "named" and t[1][1] == "str":
        return ("sstr",)
    if k == "ref" or k == "opaque":
        return rty(t[1], self_name)
    if k == "slice":
        inner = rty(t[1], self_name)
        if inner[0] == "nat":
            return MSG
        return ("list", inner)
    if k == "tuple":
        return ("tuple", [rty(x, self_name) for x in t[1]])
    if k == "array":
        n = t[2][1] if t[2][0] == "lit_int" else None
        return ("arr", rty(t[1], self_name), n)
    if k == "named":
        name, args = t[1], t[2]
        prim = {"u8": NAT(8), "u16": NAT(16), "u32": NAT(32), "u64": NAT(64), "usize": NAT(64), "i8": INT(8), "i16": INT(16),
                "i32": INT(32), "i64": INT(64), "isize": INT(64), "f32": RAT, "f64": RAT, "bool": BOOL, "char": CHAR,
                "String": STR, "str": STR}
        if name in prim:
            return prim[name]
        if name == "Option" or name == "Result":
            return OPT(rty(args[0], self_name))
        if name == "Vec":
            inner = rty(args[0], self_name)
            return MSG if inner[0] == "nat" else ("list", inner)
        if name == "DateTime":
            return TIME
        if name in ("Arc", "RwLock", "Mutex", "Box", "Rc"):
            return rty(args[0], self_name)           # sharing / locking wrappers: the value inside
        if name == "HashMap":
            return ("hmap", rty(args[0], self_name), rty(args[1], self_name))
        if name == "BTreeMap":
            return ("btmap", rty(args[0], self_name), rty(args[1], self_name))
        if name == "Self":
            return ("struct", self_name)
        return ("struct", name)
    raise TErr(f"type {t}")


def lty(t):
    k = t[0]
    if k == "nat":
        return "Nat"
    if k == "int":
        return "Int"
    if k == "rat":
        return "Rat"
    if k == "bool":
        return "Bool"
    if k == "char":
        return "Char"
    if k == "str":
        return "List Char"
    if k == "sstr":
        return "String"
    if k == "msg":
        return "Msg"
    if k == "unit":
        return "Unit"
    if k == "time":
        return "Int"
    if k == "opt":
        return "Option " + par(lty(t[1]))
    if k == "tuple":
        return " × ".join(par(lty(x)) if x[0] == "tuple" and i < len(t[1]) - 1 else par(lty(x)) for i, x in enumerate(t[1]))
    if k == "arr":
        return " × ".join([par(lty(t[1]))] * (t[2] or 2))
    if k == "list":
        return "List " + par(lty(t[1]))
    if k in ("hmap", "btmap"):
        return f"List ({par(lty(t[1]))} × {par(lty(t[2]))})"
    if k == "struct":
        return STRUCT_LEAN.get(t[1], "T." + t[1])
    raise TErr(f"lean type of {t}")


def par(s):
    s = s.strip()
    if not s:
        return s
    if all(c.isalnum() or c in "_.'«»" for c in s):
        return s
    if s[0] == "(" and matching(s, 0) == len(s) - 1:
        return s
    return "(" + s + ")"


def matching(s, i):
    d = 0
    for j in range(i, len(s)):
        if s[j] == "(":
            d += 1
        elif s[j] == ")":
            d -= 1
            if d == 0:
                return j
    return -1


def rat_lit(text):
    text = text.replace("_", "")
    for suf in ("f64", "f32"):
        if text.endswith(suf):
            text = text[:-3]
    f = Fraction(text)
    if f.denominator == 1:
        return f"({f.numerator} : Rat)"
    return f"({f.numerator} / {f.denominator} : Rat)"


# structures whose Lean counterpart is not the generated one
STRUCT_LEAN = {}

# functions that are NOT translated but referred to: Rust name -> (lean term template, param types, return type)
BUILTIN_FNS = {
    "range_value": ("rangeValue", [MSG, NAT(), NAT()], OPT(NAT())),
    "flag_and_range_value": ("flagAndRangeValue", [MSG, NAT(), NAT(), NAT()], OPT(("tuple", [NAT(), NAT()]))),
    "status_flag_and_range_value": ("statusFlagAndRangeValue", [MSG, NAT(), NAT(), NAT(), NAT()], OPT(("tuple", [NAT(), NAT(), NAT()]))),
    "ma_code": ("maCodeOpt", [MSG], OPT(NAT(16))),
    "graytobin": ("Sq.graytobin", [MSG], ("tuple", [NAT(), NAT()])),
    "ais": ("Sq.ais", [MSG], OPT(STR)),
    "get_downlink_format": ("getDownlinkFormat", [MSG], OPT(NAT())),
    "get_hex_message": (None, [MSG], STR),
    "reminder": ("Sq.reminder", [MSG], NAT()),
}

# builtins that need the environment (float / global-state code that stays hand-modelled) or the clock
BUILTIN_FNS.update({
    "track_and_groundspeed": ("trackAndGroundspeed tenv.atan2deg", [MSG, BOOL], ("tuple", [OPT(NAT()), OPT(NAT())])),
    "get_observer_coords": ("tenv.observer", [], OPT(("tuple", [RAT, RAT]))),
    "haversine": ("tenv.haversine", [RAT, RAT, RAT, RAT], RAT),
    "icao_to_country": ("icaoToCountry", [NAT()], ("tuple", [("sstr",), ("sstr",)])),
    "get_icao": ("getIcao", [MSG, NAT()], OPT(NAT())),
    "now": ("now", [], TIME),
})
NEEDS_ENV = {"track_and_groundspeed", "get_observer_coords", "haversine"}
NEEDS_NOW = {"now"}

# plans of the bit / CRC / frame layer: translated with the wrapping `<<`, calling each other by their translated names
BITS_PLANS = {"TransBits.lean", "TransFrame.lean"}

# long methods emitted as one definition per top-level block
SPLIT = {"Plane.update_from_mode_s", "Mds.update"}

LOG_MACROS = {"debug", "info", "warn", "error", "trace", "println", "print", "eprintln"}


class Ctx:
    """everything known about the crate: signatures of translated functions, structs"""
    def __init__(self):
        self.fns = {}        # key -> Fn  (key = name or Type.name)
        self.structs = {}    # name -> Struct
        self.sigs = {}       # key -> (lean name, [param types], ret type, self_kind, self type)
        self.needs = {}          # key -> ["now", "env"] extra parameters threaded through (clock, float / global environment)
        self.mutp = {}           # key -> indexes of the `&mut T` parameters (returned, after self, as part of the result)

    def key_of(self, fn):
        if fn.impl_of and fn.impl_trait_arg:
            return f"{fn.impl_of}.{fn.name}<{fn.impl_trait_arg}>"
        if fn.impl_of:
            return f"{fn.impl_of}.{fn.name}"
        return fn.name

    def lean_name(self, fn):
        if fn.impl_of and fn.impl_trait_arg:
            return f"T.{fn.impl_of}.{fn.name}_{fn.impl_trait_arg}"
        if fn.impl_of:
            return f"T.{fn.impl_of}.{fn.name}"
        return "T." + lname(fn.name)


class FnTr:
    def __init__(self, ctx, fn):
        self.ctx, self.fn = ctx, fn
        self.self_ty = ("struct", fn.impl_of) if fn.impl_of else None
        self.ret = rty(fn.ret, fn.impl_of) if fn.ret is not None else UNIT
        self.tmp = 0
        self.tables = {}      # constant tables of the function (`let NAME = [literal, ..]`), each its own definition
        self.calls = set()
        self.uses = set()
        # functions of the bit / CRC / frame layer (TransBits.lean): `<<` is the wrapping shift of the operand's width, and
        # other translated functions are called by their translated names (the older plans call the hand model's names,
        # which the bridges of Proofs/BridgeBits.lean identify with the translated ones)
        self.bits = getattr(fn, "plan", None) in BITS_PLANS

    def state_vars(self):
        """what a function hands back besides its value: `self` of a `&mut self` method, then its `&mut T` parameters"""
        fn = self.fn
        vs = ["self"] if fn.self_kind == "mut" else []
        for i in self.ctx.mutp.get(self.ctx.key_of(fn), []):
            vs.append(fn.params[i][0][1])
        return vs

    def fresh(self, base="t"):
        self.tmp += 1
        return f"{base}_{self.tmp}"

    # ---- patterns -----------------------------------------------------------------------------
    def pat(self, p, ty, env):
        """Lean pattern text for a binding pattern; adds bindings to env"""
        k = p[0]
        if k == "p_wild":
            return "_"
        if k == "p_ref":
            return self.pat(p[1], ty, env)
        if k == "p_ident":
            env[p[1]] = ty
            return lname(p[1])
        if k == "p_tuple":
            if ty[0] == "tuple":
                tys = ty[1]
            elif ty[0] == "arr":
                tys = [ty[1]] * len(p[1])
            else:
                raise TErr(f"tuple pattern against {ty}")
            if len(tys) != len(p[1]):
                raise TErr("tuple pattern arity")
            return "(" + ", ".join(self.pat(q, t, env) for q, t in zip(p[1], tys)) + ")"
        if k == "p_ts":
            name = p[1][-1]
            if name == "Some":
                if ty[0] != "opt":
                    raise TErr(f"Some pattern against {ty}")
                return "some " + par(self.pat(p[2][0], ty[1], env))
            en = self.enum_variant(p[1], ty)
            if en is not None:
                vname, vtys = en
                if len(vtys) != len(p[2]):
                    raise TErr("enum pattern arity")
                return f".{vname} " + " ".join(par(self.pat(q, t, env)) for q, t in zip(p[2], vtys))
            raise TErr(f"tuple-struct pattern {p[1]}")
        if k == "p_path":
            if p[1][-1] == "None":
                return "none"
            raise TErr(f"path pattern {p[1]}")
        if k == "p_lit":
            txt, _ = self.tr(p[1], env, ty)
            return txt
        raise TErr(f"pattern {k}")

    def enum_variant(self, segs, ty):
        """(variant name, payload types) if `segs` names a variant of the enum type `ty`"""
        if ty is None or ty[0] != "struct":
            return None
        st = self.ctx.structs.get(ty[1])
        if st is None or not getattr(st, "variants", None):
            return None
        for v, tys in st.variants:
            if v == segs[-1]:
                return v, [rty(t, st.name) for t in tys]
        return None

    def pat_is_binding(self, p):
        k = p[0]
        if k in ("p_wild", "p_ident"):
            return True
        if k == "p_ref":
            return self.pat_is_binding(p[1])
        if k == "p_tuple":
            return all(self.pat_is_binding(q) for q in p[1])
        return False

    def pat_test(self, p, scrut, ty, env):
        """condition (Prop text) under which a refutable literal/range/or pattern matches the value `scrut`"""
        k = p[0]
        if k == "p_wild" or k == "p_ident":
            return None
        if k == "p_ref":
            return self.pat_test(p[1], scrut, ty, env)
        if k == "p_lit":
            txt, _ = self.tr(p[1], env, ty)
            return f"{scrut} = {txt}"
        if k == "p_range":
            parts = []
            if p[1] is not None:
                lo, _ = self.tr(p[1], env, ty)
                parts.append(f"{lo} ≤ {scrut}")
            if p[2] is not None:
                hi, _ = self.tr(p[2], env, ty)
                parts.append(f"{scrut} ≤ {hi}" if p[3] else f"{scrut} < {hi}")
            return " ∧ ".join(parts)
        if k == "p_or":
            return " ∨ ".join(par(self.pat_test(q, scrut, ty, env)) for q in p[1])
        if k == "p_tuple":
            if ty[0] != "tuple":
                raise TErr("tuple pattern test against " + str(ty))
            parts = []
            for i, (q, t) in enumerate(zip(p[1], ty[1])):
                c = self.pat_test(q, self.proj(scrut, ty, i), t, env)
                if c:
                    parts.append(par(c) if " ∨ " in c else c)
            return " ∧ ".join(parts) if parts else None
        raise TErr(f"refutable pattern {k}")

    # ---- projections --------------------------------------------------------------------------
    def proj(self, base, ty, i):
        n = len(ty[1]) if ty[0] == "tuple" else (ty[2] or 2)
        b = par(base)
        if i == n - 1:
            return b + ".2" * (n - 1) if n > 1 else b
        return b + ".2" * i + ".1"

    def elem_ty(self, ty, i):
        return ty[1][i] if ty[0] == "tuple" else ty[1]

    # ---- expressions --------------------------------------------------------------------------
    def is_lit(self, e):
        return e[0] in ("lit_int", "lit_float") or (e[0] == "unary" and e[1] == "-" and self.is_lit(e[2])) or (e[0] == "paren" and self.is_lit(e[1]))

    def tr(self, e, env, expect=None):
        k = e[0]
        if k == "paren":
            t, ty = self.tr(e[1], env, expect)
            return par(t), ty
        if k == "lit_int":
            val, suffix = e[1], e[2]
            ty = expect if expect and expect[0] in ("nat", "int", "rat") else NAT()
            if suffix:
                ty = rty(("named", suffix, []))
            if ty[0] == "nat":
                txt = e[3].replace("_", "") if e[3].startswith(("0x", "0b")) else str(val)
                for suf in ("u8", "u16", "u32", "u64", "usize"):
                    if txt.endswith(suf):
                        txt = txt[:-len(suf)]
                return txt, ty
            if ty[0] == "int":
                return f"({val} : Int)", ty
            return f"({val} : Rat)", ty
        if k == "lit_float":
            return rat_lit(e[1]), RAT
        if k == "lit_bool":
            return ("true" if e[1] else "false"), BOOL
        if k == "lit_char":
            cp = e[1]
            if 32 <= cp < 127 and chr(cp) not in "'\\":
                return f"'{chr(cp)}'", CHAR
            return f"(Char.ofNat 0x{cp:X})", CHAR
        if k == "lit_str":
            if expect and expect[0] == "sstr":
                return '"' + e[1] + '"', ("sstr",)
            return '"' + e[1] + '".toList', STR
        if k == "path":
            segs = e[1]
            if len(segs) == 1:
                n = segs[0]
                if n in env:
                    return lname(n), env[n]
                if n == "None":
                    return "none", expect if expect and expect[0] == "opt" else OPT(("unknown",))
                if n == "self":
                    return "self", self.self_ty
            if segs[-1] == "PI" :
                raise TErr("f64 constant PI")
            raise TErr(f"unknown name {'::'.join(segs)}")
        if k == "unary":
            op = e[1]
            if op in ("&", "*"):
                return self.tr(e[2], env, expect)
            if op == "-":
                if self.is_lit(e[2]):
                    ex = expect if expect and expect[0] in ("int", "rat") else INT()
                    t, ty = self.tr(e[2], env, ex)
                    inner = t.strip("()").split(":")[0].strip()
                    return (f"(-{inner} : Int)" if ty[0] == "int" else f"(-{par(inner)} : Rat)"), ty
                t, ty = self.tr(e[2], env, expect)
                if ty[0] not in ("int", "rat"):
                    raise TErr("negation of " + str(ty))
                return f"-{par(t)}", ty
            if op == "!":
                t, ty = self.tr(e[2], env, expect)
                if ty[0] == "bool":
                    return f"!{par(t)}", BOOL
                if ty[0] == "int":
                    return f"(-{par(t)} - 1)", ty
                raise TErr("! on " + str(ty))
        if k == "binary":
            return self.tr_binary(e, env, expect)
        if k == "cast":
            return self.tr_cast(e, env)
        if k == "tuple":
            if not e[1]:
                return "()", UNIT
            tys = expect[1] if expect and expect[0] == "tuple" and len(expect[1]) == len(e[1]) else [None] * len(e[1])
            parts = [self.tr(x, env, t) for x, t in zip(e[1], tys)]
            return "(" + ", ".join(p[0] for p in parts) + ")", ("tuple", [p[1] for p in parts])
        if k == "field":
            return self.tr_field(e, env)
        if k == "index" and e[2][0] == "range":
            base, bty = self.tr(e[1], env)
            if bty[0] not in ("msg", "list", "str"):
                raise TErr("slice of " + str(bty))
            rng = e[2]
            if rng[3]:
                raise TErr("inclusive slice range")
            out = par(base)
            if rng[1] is not None:
                lo, _ = self.tr(rng[1], env, NAT(64))
                out = f"({out}.drop {par(lo)})"
                if rng[2] is not None:
                    hi, _ = self.tr(rng[2], env, NAT(64))
                    out = f"({out}.take ({hi} - {par(lo)}))"
            elif rng[2] is not None:
                hi, _ = self.tr(rng[2], env, NAT(64))
                out = f"({out}.take {par(hi)})"
            return out, bty
        if k == "index":
            base, bty = self.tr(e[1], env)
            if bty[0] == "msg":
                idx, _ = self.tr(e[2], env, NAT(64))
                return f"nib {par(base)} {par(idx)}", NAT()
            if bty[0] == "list" and bty[1][0] == "nat":
                # a vector of u8 / u16 / ..: the element keeps its width
                idx, _ = self.tr(e[2], env, NAT(64))
                return f"nib {par(base)} {par(idx)}", bty[1]
            if bty[0] == "arr":
                if e[2][0] == "lit_int":
                    return self.proj(base, bty, e[2][1]), bty[1]
                idx, _ = self.tr(e[2], env, NAT(64))
                return f"arr2Get {par(base)} {par(idx)}", bty[1]
            raise TErr("index into " + str(bty))
        if k == "call":
            return self.tr_call(e, env, expect)
        if k == "mcall":
            return self.tr_mcall(e, env, expect)
        if k == "if":
            c = self.cond(e[1], env)
            if e[3] is None:
                raise TErr("if without else in value position")
            a, ta = self.tr_block_value(e[2], env, expect)
            b, tb = self.tr_block_value(e[3], env, expect or ta)
            return f"(if {c} then {a} else {b})", self.join_ty(ta, tb)
        if k == "iflet":
            return self.tr_match(("match", e[2], [(e[1], None, e[3]), (("p_wild",), None, e[4] if e[4] is not None else ("tuple", []))]), env, expect)
        if k == "match":
            return self.tr_match(e, env, expect)
        if k == "block":
            return self.tr_block_value(e, env, expect)
        if k == "macro":
            if e[1] == "matches":
                toks = e[2]
                p = R.Parser(list(toks) + [("eof", "")])
                scrut = p.parse_expr()
                p.expect(",")
                pt = p.parse_pattern()
                s, sty = self.tr(scrut, env)
                return f"decide ({self.pat_test(pt, par(s), sty, env)})", BOOL
            raise TErr(f"macro {e[1]}! in value position")
        if k == "struct":
            name = e[1][-1]
            if name == "Self":
                name = self.fn.impl_of
            st = self.ctx.structs.get(name)
            if st is None:
                raise TErr("unknown struct " + name)
            ftys = {f: rty(t, name) for f, t in st.fields}
            parts = []
            for f, x in e[2]:
                t, _ = self.tr(x, env, ftys[f])
                parts.append(f"{lname(f)} := {t}")
            return "{ " + ", ".join(parts) + " }", ("struct", name)
        if k == "closure":
            raise TErr("closure outside a method call")
        if k == "try":
            raise TErr("`?` in a position the translator does not hoist")
        if k == "range":
            raise TErr("range value outside contains()/for")
        if k == "array":
            parts = [self.tr(x, env, expect[1] if expect and expect[0] in ("arr", "list") else None) for x in e[1]]
            if len(parts) != 2:
                ety = parts[0][1]
                return "[" + ", ".join(p[0] for p in parts) + "]", (MSG if ety == NAT() else ("list", ety))
            return "(" + ", ".join(p[0] for p in parts) + ")", ("arr", parts[0][1], len(parts))
        raise TErr(f"expression {k}")

    def join_ty(self, a, b):
        if a == b:
            return a
        if a[0] == "opt" and a[1][0] == "unknown":
            return b
        if b[0] == "opt" and b[1][0] == "unknown":
            return a
        if a[0] == "unknown":
            return b
        return a

    def tr_block_value(self, b, env, expect=None):
        """a block in value position (no `return` inside)"""
        if b[0] != "block":
            return self.tr(b, env, expect)
        env2 = dict(env)
        box = {}
        def k(env3):
            return None
        txt = self.seq(b[1], b[2], env2, None, expect, box, allow_return=False)
        return par(txt), box.get("ty", expect or UNIT)

    def tr_binary(self, e, env, expect):
        op, l, r = e[1], e[2], e[3]
        if op in ("&&", "||"):
            a, _ = self.tr(l, env, BOOL)
            b, _ = self.tr(r, env, BOOL)
            return f"{par(a)} {op} {par(b)}", BOOL
        if op in ("==", "!=", "<", ">", "<=", ">="):
            if self.is_lit(l) and not self.is_lit(r):
                b, tb = self.tr(r, env)
                a, ta = self.tr(l, env, tb)
            else:
                a, ta = self.tr(l, env)
                b, tb = self.tr(r, env, ta)
            if op == "==":
                return f"{par(a)} == {par(b)}", BOOL
            if op == "!=":
                return f"{par(a)} != {par(b)}", BOOL
            sym = {"<": "<", ">": ">", "<=": "≤", ">=": "≥"}[op]
            return f"decide ({a} {sym} {b})", BOOL
        # arithmetic
        if self.is_lit(l) and not self.is_lit(r):
            b, tb = self.tr(r, env, expect)
            a, ta = self.tr(l, env, tb)
            ty = tb
        else:
            a, ta = self.tr(l, env, expect if self.is_lit(l) else None)
            if op in ("<<", ">>"):
                b, tb = self.tr(r, env, NAT())
            else:
                b, tb = self.tr(r, env, ta)
            ty = ta
        A, B = par(a), par(b)
        if ty[0] == "nat" and op == "<<" and self.bits:
            return f"shlW {ty[1]} {A} {B}", ty
        if ty[0] == "nat":
            sym = {"+": "+", "-": "-", "*": "*", "/": "/", "%": "%", "<<": "<<<", ">>": ">>>", "&": "&&&", "|": "|||", "^": "^^^"}[op]
            return f"{A} {sym} {B}", ty
        if ty[0] == "int":
            if op in ("+", "-", "*"):
                return f"{A} {op} {B}", ty
            if op == "/":
                return f"Int.tdiv {A} {B}", ty
            if op == "%":
                return f"Int.tmod {A} {B}", ty
            if op == "<<":
                return f"{A} * 2 ^ {B}", ty
            if op == ">>":
                return f"{A} >>> {B}", ty
            raise TErr(f"operator {op} on i32")
        if ty[0] == "rat":
            if op in ("+", "-", "*", "/"):
                return f"{A} {op} {B}", ty
            if op == "%":
                return f"ratFmod {A} {B}", ty
            raise TErr(f"operator {op} on f64")
        if ty[0] == "bool" and op in ("&", "|", "^"):
            return f"{A} {'&&' if op == '&' else '||' if op == '|' else '^^'} {B}", ty
        raise TErr(f"operator {op} on {ty}")

    def tr_cast(self, e, env):
        target = rty(e[2])
        src_e = e[1]
        if self.is_lit(src_e):
            return self.tr(src_e, env, target)
        t, ty = self.tr(src_e, env)
        T = par(t)
        if ty[0] == "nat" and target[0] == "nat":
            if target[1] < ty[1]:
                return f"{T} % {2 ** target[1]}", target
            return t, target
        if ty[0] == "nat" and target[0] == "int":
            if ty[1] < target[1]:
                return f"({t} : Int)", target
            return f"u32ToI32 {T}", target
        if ty[0] == "int" and target[0] == "nat":
            return f"i32ToU32 {T}", target
        if ty[0] in ("nat", "int") and target[0] == "rat":
            simple = all(c.isalnum() or c in "_.'" for c in t)
            return (f"({t} : Rat)" if simple else f"(({t} : {'Nat' if ty[0] == 'nat' else 'Int'}) : Rat)"), target
        if ty[0] == "rat" and target[0] == "nat":
            return f"ratToU32 {T}", target
        if ty[0] == "rat" and target[0] == "rat":
            return t, target
        if ty[0] == "rat" and target[0] == "int" and target[1] == 32:
            return f"ratToI32 {T}", target
        if ty[0] == "int" and target[0] == "int":
            return t, target
        if ty[0] == "bool" and target[0] == "nat":
            return f"(if {t} then 1 else 0)", target
        if ty[0] == "char" and target[0] == "nat":
            return f"{T}.toNat", target
        raise TErr(f"cast {ty} as {target}")

    def struct_field_ty(self, sname, f):
        st = self.ctx.structs.get(sname)
        if st is None:
            raise TErr("unknown struct " + sname)
        for n, t in st.fields:
            if n == f:
                return rty(t, sname)
        raise TErr(f"no field {f} in {sname}")

    def tr_field(self, e, env):
        base, bty = self.tr(e[1], env)
        f = e[2]
        if f.isdigit():
            if bty[0] not in ("tuple", "arr"):
                raise TErr(f"tuple field of {bty}")
            return self.proj(base, bty, int(f)), self.elem_ty(bty, int(f))
        if bty[0] == "struct":
            return f"{par(base)}.{lname(f)}", self.struct_field_ty(bty[1], f)
        raise TErr(f"field {f} of {bty}")

    def closure_fun(self, cl, argty, env, expect_ret=None):
        if cl[0] == "path":       # a function name used as a closure
            return self.fn_ref(cl, env), None
        if cl[0] != "closure":
            raise TErr("closure expected")
        env2 = dict(env)
        if isinstance(argty, list):
            if len(cl[1]) != len(argty):
                raise TErr("closure arity")
            ptxt = " ".join(par(self.pat(p, t, env2)) for p, t in zip(cl[1], argty))
        else:
            if len(cl[1]) != 1:
                raise TErr("closure arity")
            ptxt = self.pat(cl[1][0], argty, env2)
        body, bty = self.tr(cl[2], env2, expect_ret)
        return f"fun {ptxt} => {body}", bty

    def fn_ref(self, e, env):
        raise TErr("function reference as closure")

    def tr_call(self, e, env, expect):
        f = e[1]
        if f[0] != "path":
            raise TErr("call of a non-path")
        segs = f[1]
        name = segs[-1]
        args = e[2]
        if name == "Some" and len(segs) == 1:
            inner_expect = expect[1] if expect and expect[0] == "opt" else None
            t, ty = self.tr(args[0], env, inner_expect)
            return f"some {par(t)}", OPT(ty)
        if segs[-2:] == ["char", "from_u32"]:
            t, _ = self.tr(args[0], env, NAT())
            return f"some (Char.ofNat {par(t)})", OPT(CHAR)
        # enum constructor Enum::Variant(args)
        if len(segs) >= 2 and segs[-2] in self.ctx.structs and getattr(self.ctx.structs[segs[-2]], "variants", None):
            en = self.enum_variant(segs, ("struct", segs[-2]))
            if en is not None:
                vname, vtys = en
                parts = [par(self.tr(a, env, t)[0]) for a, t in zip(args, vtys)]
                return f"T.{segs[-2]}.{vname} " + " ".join(parts), ("struct", segs[-2])
        # associated function Type::f
        if len(segs) >= 2 and segs[-2][0].isupper():
            tyname = segs[-2] if segs[-2] != "Self" else self.fn.impl_of
            key = f"{tyname}.{name}"
            if key in self.ctx.sigs:
                return self.emit_call(key, args, env)
            if name == "default" and f"{tyname}.new" in self.ctx.sigs:     # `impl Default` forwards to `new`
                return self.emit_call(f"{tyname}.new", args, env)
        if len(segs) == 1 and name in env and env[name][0] == "fn":
            _, ptys, ret = env[name]
            parts = [par(self.tr(a, env, t)[0]) for a, t in zip(args, ptys)]
            return f"{lname(name)} " + " ".join(parts), ret
        if name in self.ctx.sigs and (self.bits or name not in BUILTIN_FNS):
            return self.emit_call(name, args, env)
        if name == "now" and len(segs) >= 2 and segs[-2] == "Utc":
            self.uses.add("now")
            return "now", TIME
        if name in ("Ok",) and len(segs) == 1:
            t, ty = self.tr(args[0], env, expect[1] if expect and expect[0] == "opt" else None)
            return f"some {par(t)}", OPT(ty)
        if name in ("Err",) and len(segs) == 1:
            return "none", expect if expect and expect[0] == "opt" else OPT(("unknown",))
        if name in BUILTIN_FNS:
            lean, ptys, ret = BUILTIN_FNS[name]
            if lean is None:
                raise TErr(f"{name} only occurs in log output")
            if name in NEEDS_ENV:
                self.uses.add("env")
            parts = [par(self.tr(a, env, t)[0]) for a, t in zip(args, ptys)]
            return (f"{lean} " + " ".join(parts)).strip(), ret
        raise TErr(f"call of unknown function {'::'.join(segs)}")

    def emit_call(self, key, args, env, recv=None):
        lean, ptys, ret, self_kind, self_ty = self.ctx.sigs[key]
        self.calls.add(key)
        parts = []
        for n in self.ctx.needs.get(key, []):
            self.uses.add(n)
            parts.append("tenv" if n == "env" else n)
        if recv is not None:
            parts.append(par(recv))
        if len(args) != len(ptys):
            raise TErr(f"arity of {key}")
        for a, t in zip(args, ptys):
            parts.append(par(self.tr(a, env, t)[0]))
        return (lean + " " + " ".join(parts)).strip(), ret

    def tr_mcall(self, e, env, expect):
        recv_e, name, args = e[1], e[2], e[3]
        # (lo..=hi).contains(&x)
        inner = recv_e[1] if recv_e[0] == "paren" else recv_e
        if name == "contains" and inner[0] == "range":
            x, xty = self.tr(args[0], env)
            return "decide (" + self.range_test(inner, par(x), xty, env) + ")", BOOL
        if name in ("clone", "cloned", "copied", "to_owned", "iter", "into_iter", "as_ref"):
            return self.tr(recv_e, env, expect)
        # time arithmetic
        if name == "signed_duration_since":
            a, _ = self.tr(recv_e, env)
            b, _ = self.tr(args[0], env)
            return f"durationMs {par(a)} {par(b)}", ("duration",)
        if name in ("chars", "to_vec", "enumerate"):
            return self.tr(recv_e, env, expect)
        if name in ("expect", "unwrap") and recv_e[0] == "mcall" and recv_e[2] == "try_into":
            # integer conversions that cannot fail on a 64-bit target (u32 -> usize)
            t, ty = self.tr(recv_e[1], env, expect)
            if ty[0] != "nat":
                raise TErr("try_into on " + str(ty))
            return t, (expect if expect and expect[0] == "nat" else ty)
        recv, rt = self.tr(recv_e, env)
        RV = par(recv)
        if rt[0] in ("msg", "list", "str"):
            et = NAT() if rt[0] == "msg" else CHAR if rt[0] == "str" else rt[1]
            def lst(t):
                return MSG if t == NAT() else STR if t[0] == "char" else ("list", t)
            if name == "len":
                return f"{RV}.length", NAT(64)
            if name == "filter_map":
                f, bty = self.closure_fun(args[0], et, env, None)
                if bty[0] != "opt":
                    raise TErr("filter_map closure")
                return f"{RV}.filterMap {par(f)}", lst(bty[1])
            if name == "map":
                f, bty = self.closure_fun(args[0], et, env, None)
                return f"{RV}.map {par(f)}", lst(bty)
            if name == "filter":
                f, _ = self.closure_fun(args[0], et, env, BOOL)
                return f"{RV}.filter {par(f)}", rt
            if name == "fold":
                init, ity = self.tr(args[0], env, expect)
                f, _ = self.closure_fun(args[1], [ity, et], env, ity)
                return f"{RV}.foldl {par(f)} {par(init)}", ity
            if name == "collect":
                return recv, rt
            if name in ("all", "any"):
                f, _ = self.closure_fun(args[0], et, env, BOOL)
                return f"{RV}.{name} {par(f)}", BOOL
            if name == "contains":
                x, _ = self.tr(args[0], env, et)
                return f"{RV}.contains {par(x)}", BOOL
            raise TErr(f"slice/iterator method {name}")
        if rt[0] == "char" and name == "to_digit":
            if not (args and args[0][0] == "lit_int" and args[0][1] == 16):
                raise TErr("to_digit with a radix other than 16")
            return f"charToDigit16 {RV}", OPT(NAT())
        if rt[0] == "opt" and name in ("expect", "unwrap"):
            et = rt[1]
            if et[0] != "nat":
                raise TErr(f"{name} on Option of {et}")
            # TRAP site (listed in the C01 inventory): the unchecked translation totalises with 0
            return f"{RV}.getD 0", et
        if rt[0] == "duration":
            if name == "num_seconds":
                return f"Int.tdiv {RV} 1000", INT(64)
        if rt[0] == "opt":
            et = rt[1]
            if name == "filter":
                f, _ = self.closure_fun(args[0], et, env, BOOL)
                return f"{RV}.filter {par(f)}", rt
            if name == "map":
                f, bty = self.closure_fun(args[0], et, env, expect[1] if expect and expect[0] == "opt" else None)
                return f"{RV}.map {par(f)}", OPT(bty)
            if name == "and_then":
                f, bty = self.closure_fun(args[0], et, env, expect)
                return f"{RV}.bind {par(f)}", bty
            if name == "is_some":
                return f"{RV}.isSome", BOOL
            if name == "is_none":
                return f"{RV}.isNone", BOOL
            if name == "is_some_and":
                f, _ = self.closure_fun(args[0], et, env, BOOL)
                return f"{RV}.any {par(f)}", BOOL
            if name == "or":
                o, _ = self.tr(args[0], env, rt)
                return f"{RV}.or {par(o)}", rt
            if name == "unwrap_or":
                d, _ = self.tr(args[0], env, et)
                return f"{RV}.getD {par(d)}", et
            raise TErr(f"Option::{name}")
        if rt[0] == "nat":
            if name == "abs_diff":
                o, _ = self.tr(args[0], env, rt)
                return f"(if {recv} ≤ {o} then {par(o)} - {RV} else {RV} - {par(o)})", rt
            if name == "checked_sub":
                o, _ = self.tr(args[0], env, rt)
                return f"(if {o} ≤ {recv} then some ({recv} - {o}) else none)", OPT(rt)
        if rt[0] == "int":
            if name == "abs":
                return f"(({RV}.natAbs : Nat) : Int)", rt
            if name == "unsigned_abs":
                return f"{RV}.natAbs", NAT(rt[1])
        if rt[0] == "arr" and rt[2] == 2 and name in ("max", "min") and not args and rt[1][0] in ("nat", "int"):
            # `[a, b].iter().max()`: an array is never empty
            return f"some ({name} {RV}.1 {RV}.2)", OPT(rt[1])
        if rt[0] == "rat":
            if name == "abs":
                return f"ratAbs {RV}", rt
            if name == "floor":
                return f"ratFloor {RV}", rt
        if rt[0] == "msg" and name == "len":
            return f"{RV}.length", NAT(64)
        # a method of a translated struct
        if rt[0] == "struct":
            key = self.method_key(rt[1], name, args, env)
            if key in self.ctx.sigs:
                return self.emit_call(key, args, env, recv=recv)
        raise TErr(f"method {name} on {rt}")

    def method_key(self, sname, name, args, env):
        key = f"{sname}.{name}"
        if key in self.ctx.sigs:
            return key
        # trait impls distinguished by the type of the first argument
        if args:
            try:
                _, aty = self.tr(args[0], env)
            except TErr:
                return key
            if aty[0] == "struct" and f"{key}<{aty[1]}>" in self.ctx.sigs:
                return f"{key}<{aty[1]}>"
        return key

    def range_test(self, rng, x, xty, env):
        parts = []
        if rng[1] is not None:
            lo, _ = self.tr(rng[1], env, xty)
            parts.append(f"{lo} ≤ {x}")
        if rng[2] is not None:
            hi, _ = self.tr(rng[2], env, xty)
            parts.append(f"{x} ≤ {hi}" if rng[3] else f"{x} < {hi}")
        return " ∧ ".join(parts)

    # ---- conditions (Prop) ----------------------------------------------------------------------
    def cond(self, e, env):
        k = e[0]
        if k == "paren":
            return par(self.cond(e[1], env))
        if k == "binary":
            op = e[1]
            if op == "&&":
                return f"{self.cond_atom(e[2], env)} ∧ {self.cond_atom(e[3], env)}"
            if op == "||":
                return f"{self.cond_atom(e[2], env, orctx=True)} ∨ {self.cond_atom(e[3], env, orctx=True)}"
            if op in ("==", "!=", "<", ">", "<=", ">="):
                l, r = e[2], e[3]
                if self.is_lit(l) and not self.is_lit(r):
                    b, tb = self.tr(r, env)
                    a, ta = self.tr(l, env, tb)
                else:
                    a, ta = self.tr(l, env)
                    b, tb = self.tr(r, env, ta)
                sym = {"==": "=", "!=": "≠", "<": "<", ">": ">", "<=": "≤", ">=": "≥"}[op]
                return f"{a} {sym} {b}"
        if k == "unary" and e[1] == "!":
            return f"¬ {par(self.cond(e[2], env))}"
        if k == "mcall" and e[2] == "contains":
            inner = e[1][1] if e[1][0] == "paren" else e[1]
            if inner[0] == "range":
                x, xty = self.tr(e[3][0], env)
                return self.range_test(inner, par(x), xty, env)
        if k == "macro" and e[1] == "matches":
            t, _ = self.tr(e, env)
            return t[len("decide ("):-1]
        t, ty = self.tr(e, env, BOOL)
        if ty[0] != "bool":
            raise TErr("condition of type " + str(ty))
        return f"{t} = true"

    def cond_atom(self, e, env, orctx=False):
        c = self.cond(e, env)
        top_or = e[0] == "binary" and e[1] == "||"
        top_and = e[0] == "binary" and e[1] == "&&"
        if (top_or and not orctx) or (top_and and orctx):
            return par(c)
        return c

    # ---- match ----------------------------------------------------------------------------------
    def tr_match(self, e, env, expect, arm_tr=None):
        """value-position match; arm_tr(body, env) -> (text, type) translates an arm body"""
        if arm_tr is None:
            arm_tr = lambda body, env2: self.tr_block_value(body, env2, expect) if body[0] == "block" else self.tr(body, env2, expect)
        scrut_e, arms = e[1], e[2]
        s, sty = self.tr(scrut_e, env)
        if sty[0] == "opt" and any(self.some_refutable(p) for p, _, _ in arms):
            return self.tr_match_opt(s, sty, arms, env, arm_tr)
        binding = any(self.arm_binds(p) for p, _, _ in arms)
        if not binding:
            # literal / range / or patterns: an if-chain, as the hand-written model writes them
            S = par(s)
            if not all(c.isalnum() or c in "_.'()" for c in S) or len(S) > 30:
                v = self.fresh("m")
                pre = f"let {v} := {s};\n"
                S = v
            else:
                pre = ""
            out, ty = None, None
            chain = []
            bool_pair = (sty == BOOL and len(arms) == 2 and all(g is None and p[0] == "p_lit" and p[1][0] == "lit_bool" for p, g, _ in arms)
                         and arms[0][0][1][1] != arms[1][0][1][1])
            for ai, (p, g, body) in enumerate(arms):
                c = self.pat_test(p, S, sty, env)
                if bool_pair and ai == 1:
                    c = None            # `true => .., false => ..`: the second arm is everything else
                if g is not None:
                    gc = self.cond(g, env)
                    c = f"{c} ∧ {gc}" if c else gc
                bt, bty = arm_tr(body, dict(env))
                ty = self.join_ty(ty, bty) if ty else bty
                chain.append((c, bt))
                if c is None:
                    break
            if chain[-1][0] is not None:
                raise TErr("match without a catch-all arm")
            txt = chain[-1][1]
            for c, bt in reversed(chain[:-1]):
                txt = f"if {c} then {bt} else {txt}"
            return "(" + pre + txt + ")", ty
        lines = []
        ty = None
        for p, g, body in arms:
            if g is not None:
                raise TErr("guard on a binding arm")
            env2 = dict(env)
            pt = self.match_pat(p, sty, env2)
            bt, bty = arm_tr(body, env2)
            ty = self.join_ty(ty, bty) if ty else bty
            lines.append(f"| {pt} => {bt}")
        return f"(match {s} with\n" + "\n".join(lines) + ")", ty

    def some_refutable(self, p):
        """`Some(P)` whose inner pattern can fail to match (literal, range, or-pattern, `x @ P`)"""
        if p[0] == "p_ts" and p[1][-1] == "Some":
            q = p[2][0]
            while q[0] in ("p_ref", "p_paren"):
                q = q[1]
            return q[0] in ("p_lit", "p_range", "p_or", "p_bind")
        return False

    def tr_match_opt(self, s, sty, arms, env, arm_tr):
        """first-match over `Some(P)` / `None` / `_` arms:  match s with | some v => if-chain over v | none => ..."""
        v = self.fresh("o")
        some_chain, none_txt, ty = [], None, None
        closed = False
        for p, g, body in arms:
            if g is not None:
                raise TErr("guard on an Option arm")
            if p[0] == "p_ts" and p[1][-1] == "Some":
                q = p[2][0]
                env2 = dict(env)
                pre = ""
                if q[0] == "p_bind":
                    env2[q[1]] = sty[1]
                    pre = f"let {lname(q[1])} := {v};\n"
                    q = q[2]
                if q[0] == "p_ident":
                    env2[q[1]] = sty[1]
                    pre = f"let {lname(q[1])} := {v};\n"
                    c = None
                else:
                    c = self.pat_test(q, v, sty[1], env2)
                bt, bty = arm_tr(body, env2)
                ty = self.join_ty(ty, bty) if ty else bty
                if not closed:
                    some_chain.append((c, par_block(pre + bt) if pre else bt))
                    closed = c is None
            elif p[0] == "p_path" and p[1][-1] == "None":
                bt, bty = arm_tr(body, dict(env))
                ty = self.join_ty(ty, bty) if ty else bty
                if none_txt is None:
                    none_txt = bt
            elif p[0] == "p_wild":
                bt, bty = arm_tr(body, dict(env))
                ty = self.join_ty(ty, bty) if ty else bty
                if not closed:
                    some_chain.append((None, bt))
                    closed = True
                if none_txt is None:
                    none_txt = bt
                break
            else:
                raise TErr("Option arm " + p[0])
        if not closed or none_txt is None:
            raise TErr("Option match without a catch-all")
        txt = some_chain[-1][1]
        for c, bt in reversed(some_chain[:-1]):
            txt = f"if {c} then {bt} else {txt}"
        return f"(match {s} with\n| some {v} => {txt}\n| none => {none_txt})", ty

    def arm_binds(self, p):
        k = p[0]
        if k in ("p_ts", "p_path"):
            return True
        if k == "p_ident":
            return True
        if k == "p_tuple":
            return any(self.arm_binds(q) for q in p[1])
        if k == "p_ref":
            return self.arm_binds(p[1])
        if k == "p_or":
            return any(self.arm_binds(q) for q in p[1])
        return False

    def match_pat(self, p, ty, env):
        k = p[0]
        if k == "p_lit":
            txt, _ = self.tr(p[1], env, ty)
            return txt
        if k == "p_tuple":
            tys = ty[1] if ty[0] == "tuple" else [ty[1]] * len(p[1])
            return "(" + ", ".join(self.match_pat(q, t, env) for q, t in zip(p[1], tys)) + ")"
        if k == "p_ts" and p[1][-1] == "Some":
            return "some " + par(self.match_pat(p[2][0], ty[1], env))
        if k == "p_ts" and p[1][-1] == "Ok":
            return "some " + par(self.match_pat(p[2][0], ty[1], env))
        if k == "p_or":
            return " | ".join(self.match_pat(q, ty, env) for q in p[1])
        return self.pat(p, ty, env)

    # ---- statements -----------------------------------------------------------------------------
    def contains_return(self, node):
        if isinstance(node, tuple):
            if node and node[0] in ("return", "continue", "break"):
                return True
            if node and node[0] == "closure":
                return False
            return any(self.contains_return(x) for x in node)
        if isinstance(node, list):
            return any(self.contains_return(x) for x in node)
        return False

    def contains_try(self, node):
        if isinstance(node, tuple):
            if node and node[0] == "try":
                return True
            if node and node[0] in ("closure", "macro"):
                return False
            return any(self.contains_try(x) for x in node)
        if isinstance(node, list):
            return any(self.contains_try(x) for x in node)
        return False

    def assigned(self, node, acc, env):
        """names of variables (declared outside) that the statement / block assigns"""
        if isinstance(node, list):
            for x in node:
                self.assigned(x, acc, env)
            return
        if not isinstance(node, tuple) or not node:
            return
        k = node[0]
        if k == "closure":
            return
        if k == "assign":
            self.lhs_roots(node[1], acc)
            self.assigned(node[3], acc, env)
            return
        if k == "mcall":
            if node[2] in ("retain", "shrink_to_fit") and self.map_base(node[1], env):
                acc.add(node[1][1][0])
            if node[2] == "append" and node[1][0] == "path" and len(node[1][1]) == 1 and env.get(node[1][1][0], ("",))[0] in ("msg", "list"):
                acc.add(node[1][1][0])
            if node[2] == "or_insert":
                b = node[1]
                while b[0] == "mcall":
                    b = b[1]
                if self.map_base(b, env):
                    acc.add(b[1][0])
            root = self.root_var(node[1])
            if root is not None:
                rty0 = env.get(root) if root != "self" else self.self_ty
                if rty0 and rty0[0] == "struct":
                    key0 = self.method_key(rty0[1], node[2], node[3], env)
                    for i in self.ctx.mutp.get(key0, []):
                        r2 = self.root_var(self.strip_ref(node[3][i]))
                        if r2 is not None:
                            acc.add(r2)
            if root is not None:
                rty_ = env.get(root) if root != "self" else self.self_ty
                if rty_ and rty_[0] == "struct":
                    key = self.method_key(rty_[1], node[2], node[3], env)
                    sig = self.ctx.sigs.get(key)
                    if sig is None:
                        # the argument may be bound by a pattern further in: any `&mut self` impl of that name counts
                        cands = [v for k2, v in self.ctx.sigs.items() if k2.startswith(f"{rty_[1]}.{node[2]}<")]
                        if any(c[3] == "mut" for c in cands) and node[1][0] == "path":
                            acc.add(root)
                    if sig and sig[3] == "mut" and node[1][0] == "path":
                        acc.add(root)
                if node[2] == "clone_from":
                    self.lhs_roots(node[1], acc)
        for x in node[1:]:
            self.assigned(x, acc, env)

    def has_opaque_call(self, node):
        if isinstance(node, tuple):
            if node and node[0] == "closure":
                return False
            if node and node[0] == "macro":
                return node[1] not in LOG_MACROS and node[1] != "matches"
            if node and node[0] == "mcall" and node[2] not in ("is_some", "is_none", "contains", "len", "unwrap_or", "is_some_and"):
                return True
            if node and node[0] == "call":
                f = node[1]
                name = f[1][-1] if f[0] == "path" else None
                if name not in self.ctx.sigs and name not in BUILTIN_FNS and name not in ("Some", "Ok", "Err"):
                    return True
            return any(self.has_opaque_call(x) for x in node)
        if isinstance(node, list):
            return any(self.has_opaque_call(x) for x in node)
        return False

    def root_var(self, e):
        while e[0] in ("field", "index", "paren", "unary"):
            e = e[1] if e[0] != "unary" else e[2]
        if e[0] == "path" and len(e[1]) == 1:
            return e[1][0]
        return None

    def entry_target(self, lhs):
        """X of `*X.entry(k).or_insert(v)`"""
        if lhs[0] == "unary" and lhs[1] == "*" and lhs[2][0] == "mcall" and lhs[2][2] == "or_insert" \
                and lhs[2][1][0] == "mcall" and lhs[2][1][2] == "entry":
            return lhs[2][1][1], lhs[2][1][3][0], lhs[2][3][0]
        return None

    def lhs_roots(self, lhs, acc):
        if self.entry_target(lhs):
            r = self.root_var(self.entry_target(lhs)[0])
            if r is None:
                raise TErr("assignment target")
            acc.add(r)
            return
        if lhs[0] == "tuple":
            for x in lhs[1]:
                if not (x[0] == "path" and x[1] == ["_"]):
                    self.lhs_roots(x, acc)
            return
        r = self.root_var(lhs)
        if r is None:
            raise TErr("assignment target")
        acc.add(r)

    def state_tuple(self, vars_):
        names = [("self" if v == "self" else lname(v)) for v in vars_]
        return names[0] if len(names) == 1 else "(" + ", ".join(names) + ")"

    def assign_text(self, lhs, rhs_txt, env):
        """Lean `let` line(s) for `lhs = rhs`"""
        k = lhs[0]
        if k == "path" and len(lhs[1]) == 1:
            return f"let {lname(lhs[1][0])} := {rhs_txt};\n"
        if k == "field":
            base = lhs[1]
            f = lhs[2]
            btxt, bty = self.tr(base, env)
            if f.isdigit():
                n = len(bty[1]) if bty[0] == "tuple" else (bty[2] or 2)
                comps = [rhs_txt if i == int(f) else self.proj(btxt, bty, i) for i in range(n)]
                return self.assign_text(base, "(" + ", ".join(comps) + ")", env)
            if bty[0] == "struct":
                return self.assign_text(base, "{ " + btxt + " with " + lname(f) + " := " + rhs_txt + " }", env)
            raise TErr("assignment to field of " + str(bty))
        if k == "index":
            base = lhs[1]
            btxt, bty = self.tr(base, env)
            if bty[0] in ("msg", "list"):
                # v[i] = x on a vector (an index out of range is a trap: C01 inventory / TransSafe)
                idx, _ = self.tr(lhs[2], env, NAT(64))
                return self.assign_text(base, f"{par(btxt)}.set {par(idx)} {par(rhs_txt)}", env)
            if bty[0] != "arr":
                raise TErr("indexed assignment into " + str(bty))
            if lhs[2][0] == "lit_int":
                comps = [rhs_txt if i == lhs[2][1] else self.proj(btxt, bty, i) for i in range(bty[2] or 2)]
                return self.assign_text(base, "(" + ", ".join(comps) + ")", env)
            idx, _ = self.tr(lhs[2], env, NAT(64))
            return self.assign_text(base, f"arr2Set {par(btxt)} {par(idx)} {par(rhs_txt)}", env)
        raise TErr("assignment target " + k)

    def lhs_type(self, lhs, env):
        if lhs[0] == "path" and len(lhs[1]) == 1 and lhs[1][0] in env:
            return env[lhs[1][0]]
        _, ty = self.tr(lhs, env)
        return ty

    def seq(self, stmts, tail, env, k, expect, box, allow_return=True):
        """Lean term for a statement list followed by `tail`.
        k: None -> the value of the block is its tail expression (function tail position or value block);
           otherwise a function env -> text giving what the block evaluates to when it falls through
           (used for statement blocks: the state tuple / the rest of the enclosing function).
        box['ty'] receives the type of the value when k is None."""
        if not stmts:
            if k is not None:
                pre = ""
                if tail is not None:
                    # a tail expression of a statement block: evaluated for its effects only
                    return self.seq([("expr", tail)], None, env, k, expect, box, allow_return)
                return k(env)
            if tail is None:
                box["ty"] = UNIT
                return "()"
            return self.tail_value(tail, env, expect, box, allow_return)
        s, rest = stmts[0], stmts[1:]
        cont = lambda env2: self.seq(rest, tail, env2, k, expect, box, allow_return)
        if s[0] == "let":
            _, pat, ty, init, els = s
            if init is None:
                raise TErr("let without initialiser")
            dty = rty(ty, self.fn.impl_of) if ty is not None else None
            if dty is None and pat[0] == "p_ident":
                dty = self.let_hint(pat[1], init, rest)
            if els is not None:
                # let PAT = e else { diverges };
                env2 = dict(env)
                st, sty = self.tr(init, env, dty)
                pt = self.match_pat(pat, sty, env2)
                other = self.seq(els[1], els[2], dict(env), None, self.ret, {}, allow_return)
                return f"match {st} with\n| {pt} => {par_block(cont(env2))}\n| _ => {other}"
            if init[0] == "try":
                inner, ity = self.tr(init[1], env)
                if ity[0] != "opt" or self.ret[0] != "opt":
                    raise TErr("`?` outside an Option function")
                env2 = dict(env)
                pt = self.pat(pat, ity[1], env2)
                return f"match {inner} with\n| none => none\n| some {par(pt)} => {par_block(cont(env2))}"
            if self.contains_try(init):
                if self.ret[0] != "opt":
                    raise TErr("`?` outside an Option / Result function")
                ot, oty = self.tr_opt(init, env, dty)
                env2 = dict(env)
                pt = self.pat(pat, dty or oty, env2)
                return f"match {ot} with\n| none => none\n| some {par(pt)} => {par_block(cont(env2))}"
            if init[0] == "closure" and pat[0] == "p_ident":
                env_c = dict(env)
                ptys = []
                names = []
                for q in init[1]:
                    if q[0] != "p_ident":
                        raise TErr("closure parameter pattern")
                    env_c[q[1]] = NAT()          # untyped closure parameters of this crate are u32
                    ptys.append(NAT())
                    names.append(lname(q[1]))
                body, bty = self.tr(init[2], env_c)
                env2 = dict(env)
                env2[pat[1]] = ("fn", ptys, bty)
                return f"let {lname(pat[1])} := fun {' '.join(names)} => {body};\n" + cont(env2)
            acc = set()
            self.assigned(init, acc, env)
            acc = [v for v in sorted(acc) if v in env or v == "self"]
            if acc:
                # initialiser with side effects on outer variables
                val, vty = self.stateful_value(init, env, acc, dty)
                env2 = dict(env)
                pt = self.pat(pat, vty, env2)
                return f"let ({self.state_tuple(acc)}, {pt}) := {val};\n" + cont(env2)
            it, ity = self.tr(init, env, dty)
            if dty is not None:
                ity = dty
            env2 = dict(env)
            pt = self.pat(pat, ity, env2)
            if init[0] == "array" and len(init[1]) >= 3 and pat[0] == "p_ident" and ity[0] in ("list", "msg") and \
                    all(self.is_lit(x) or (x[0] == "tuple" and all(self.is_lit(y) for y in x[1])) for x in init[1]):
                # a constant table: its own definition, so that theorems can name it
                tname = self.ctx.lean_name(self.fn) + "." + lname(pat[1])
                self.tables[tname] = f"def {tname} : {lty(ity)} :=\n  {it}"
                it = tname
            return f"let {pt} := {it};\n" + cont(env2)
        if s[0] == "expr":
            e = s[1]
            k0 = e[0]
            if k0 == "macro" and e[1] in LOG_MACROS:
                return cont(env)
            if k0 == "break":
                raise TErr("`break`: leaving a loop early is not in the translated subset (the loop is a fold over all iterations)")
            if k0 == "continue":
                if not getattr(self.fn, "loop_step", False) or not allow_return:
                    raise TErr("continue outside the translated loop body")
                return self.ret_state(env)
            if k0 == "return":
                if not allow_return:
                    raise TErr("return inside a value block")
                if e[1] is None:
                    if k is None:
                        return "()"
                    return self.ret_state(env)
                return self.tail_value(e[1], env, self.ret, {}, True)
            if k0 == "assign":
                return self.tr_assign(e, env, cont)
            if k0 in ("if", "iflet", "match", "block", "for"):
                return self.tr_stmt_compound(e, env, cont, allow_return)
            if k0 == "mcall":
                ms = self.map_stmt(e, env)
                if ms is not None:
                    return ms + cont(env)
                ls = self.vec_stmt(e, env)
                if ls is not None:
                    return ls + cont(env)
                mc = self.mut_call_stmt(e, env)
                if mc is not None:
                    return mc + cont(env)
                # a `&mut self` method called for its effect
                root = self.root_var(e[1])
                acc = set()
                self.assigned(e, acc, env)
                if root in acc:
                    if e[2] == "clone_from":
                        rhs, _ = self.tr(e[3][0], env, self.lhs_type(e[1], env))
                        return self.assign_text(e[1], rhs, env) + cont(env)
                    txt, _ = self.tr(e, env)
                    return self.assign_text(e[1], txt, env) + cont(env)
                raise TErr(f"method call statement {e[2]} without effect on a local")
            if k0 == "macro":
                raise TErr(f"macro {e[1]}! as a statement")
            raise TErr(f"expression statement {k0}")
        raise TErr("statement " + s[0])

    def vec_stmt(self, e, env):
        """statements on a Vec local:  v.append(vec![x; n].as_mut());"""
        if e[2] != "append" or e[1][0] != "path" or len(e[1][1]) != 1 or env.get(e[1][1][0], ("",))[0] not in ("msg", "list"):
            return None
        var = e[1][1][0]
        vty = env[var]
        a = e[3][0]
        while a[0] == "paren" or (a[0] == "unary" and a[1] in ("&", "&mut")) or (a[0] == "mcall" and a[2] in ("as_mut", "as_mut_slice")):
            a = a[1] if a[0] != "unary" else a[2]
        if a[0] != "macro" or a[1] != "vec":
            raise TErr("append of something that is not `vec![x; n]`")
        p = R.Parser(list(a[2]) + [("eof", "")])
        x = p.parse_expr()
        p.expect(";")
        n = p.parse_expr()
        ety = NAT() if vty[0] == "msg" else vty[1]
        xt, _ = self.tr(x, env, ety)
        nt, _ = self.tr(n, env, NAT(64))
        return f"let {lname(var)} := {lname(var)} ++ List.replicate {par(nt)} {par(xt)};\n"

    def map_base(self, e, env):
        """(variable, type) if `e` is a local of map type"""
        if e[0] == "path" and len(e[1]) == 1 and e[1][0] in env and env[e[1][0]][0] in ("hmap", "btmap"):
            return e[1][0], env[e[1][0]]
        return None

    def map_stmt(self, e, env):
        """statements on a HashMap local:  m.entry(k).and_modify(|p| ..).or_insert(v);  m.retain(|k, v| ..);  m.shrink_to_fit();"""
        name = e[2]
        if name == "shrink_to_fit" and self.map_base(e[1], env):
            return ""
        if name == "retain":
            mb = self.map_base(e[1], env)
            if not mb:
                return None
            var, mty = mb
            f, _ = self.closure_fun(e[3][0], [mty[1], mty[2]], env, BOOL)
            return f"let {lname(var)} := {lname(var)}.filter (fun kv_ => ({f}) kv_.1 kv_.2);\n"
        if name == "or_insert" and e[1][0] == "mcall" and e[1][2] == "and_modify" and e[1][1][0] == "mcall" and e[1][1][2] == "entry":
            mb = self.map_base(e[1][1][1], env)
            if not mb:
                return None
            var, mty = mb
            key, _ = self.tr(e[1][1][3][0], env, mty[1])
            cl = e[1][3][0]
            if cl[0] != "closure" or len(cl[1]) != 1 or cl[1][0][0] != "p_ident":
                raise TErr("and_modify closure")
            pv = cl[1][0][1]
            env2 = dict(env)
            env2[pv] = mty[2]
            body = cl[2] if cl[2][0] == "block" else ("block", [], cl[2])
            stmts = list(body[1]) + ([("expr", body[2])] if body[2] is not None else [])
            ftxt = self.seq(stmts, None, env2, (lambda env3: lname(pv)), None, {}, allow_return=False)
            ins, _ = self.tr(e[3][0], env, mty[2])
            return f"let {lname(var)} := hmUpsert {lname(var)} {par(key)} (fun {lname(pv)} =>\n{indent(ftxt, 2)}) {par(ins)};\n"
        return None

    def mut_call_stmt(self, e, env):
        """`x.f(&mut y, ..);` where f hands back more than its receiver"""
        recv_e, name, args = e[1], e[2], e[3]
        root = self.root_var(recv_e)
        rt = env.get(root) if root != "self" else self.self_ty
        if not rt or rt[0] != "struct":
            return None
        key = self.method_key(rt[1], name, args, env)
        mp = self.ctx.mutp.get(key, [])
        if key not in self.ctx.sigs or not mp:
            return None
        sig = self.ctx.sigs[key]
        targets = ([recv_e] if sig[3] == "mut" else []) + [self.strip_ref(args[i]) for i in mp]
        txt, rty_ = self.tr(e, env)
        if len(targets) == 1:
            return self.assign_text(targets[0], txt, env)
        v = self.fresh("r")
        out = f"let {v} := {txt};\n"
        tty = ("tuple", [None] * len(targets))
        for i, t in enumerate(targets):
            out += self.assign_text(t, self.proj(v, tty, i), env)
        return out

    def strip_ref(self, e):
        while e[0] in ("unary", "paren") and (e[0] == "paren" or e[1] in ("&", "*")):
            e = e[2] if e[0] == "unary" else e[1]
        return e

    def ret_state(self, env):
        """`return;` (or `continue` in a loop body) inside a function with mutable state: the result is the current state"""
        sv = self.state_vars()
        return self.state_tuple(sv) if sv else "()"

    def tail_value(self, tail, env, expect, box, allow_return):
        """the value of a block's tail expression (k is None)"""
        k0 = tail[0]
        if k0 == "return":
            return self.tail_value(tail[1], env, self.ret, box, True)
        if k0 == "try":
            inner, ity = self.tr(tail[1], env)
            if ity[0] == "opt" and ity[1][0] == "opt":
                box["ty"] = ity[1]
                return f"(match {inner} with | some v => v | none => none)"
            raise TErr("tail `?`")
        if k0 == "if":
            if self.contains_try(tail[1]):
                c = self.cond_opt(tail[1], env)
                a = self.block_tail(tail[2], env, expect, box, allow_return)
                b = self.block_tail(tail[3], env, expect, box, allow_return) if tail[3] is not None else "()"
                return f"(match {c} with\n| none => none\n| some c_ => if c_ = true then {a} else {b})"
            c = self.cond(tail[1], env)
            a = self.block_tail(tail[2], env, expect, box, allow_return)
            if tail[3] is None:
                raise TErr("tail if without else")
            b = self.block_tail(tail[3], env, expect, box, allow_return)
            return f"if {c} then {a} else {b}"
        if k0 == "iflet" or k0 == "match":
            m = tail if k0 == "match" else ("match", tail[2], [(tail[1], None, tail[3]), (("p_wild",), None, tail[4] if tail[4] is not None else ("tuple", []))])
            def arm(body, env2):
                b2 = {}
                t = self.block_tail(body, env2, expect, b2, allow_return)
                if "ty" in b2:
                    box["ty"] = self.join_ty(box["ty"], b2["ty"]) if "ty" in box else b2["ty"]
                return t, b2.get("ty", expect or UNIT)
            t, ty = self.tr_match(m, env, expect, arm_tr=arm)
            box.setdefault("ty", ty)
            return t
        if k0 == "block":
            return self.block_tail(tail, env, expect, box, allow_return)
        t, ty = self.tr(tail, env, expect)
        box["ty"] = self.join_ty(box["ty"], ty) if "ty" in box else ty
        return t

    def block_tail(self, b, env, expect, box, allow_return):
        if b[0] == "block":
            return par_block(self.seq(b[1], b[2], dict(env), None, expect, box, allow_return))
        return par_block(self.tail_value(b, env, expect, box, allow_return))

    def cond_opt(self, e, env):
        """a condition containing `?`: Option Bool, short-circuit respected"""
        if not self.contains_try(e):
            t, _ = self.tr(e, env, BOOL)
            return f"some ({t})"
        k = e[0]
        if k == "paren":
            return self.cond_opt(e[1], env)
        if k == "binary" and e[1] == "&&":
            a = self.cond_opt(e[2], env)
            b = self.cond_opt(e[3], env)
            return f"(match {a} with | none => none | some a_ => if a_ = true then {b} else some false)"
        if k == "binary" and e[1] == "||":
            a = self.cond_opt(e[2], env)
            b = self.cond_opt(e[3], env)
            return f"(match {a} with | none => none | some a_ => if a_ = true then some true else {b})"
        # hoist the `?` sub-expressions of a leaf, left to right
        tries = []
        def hoist(n):
            if isinstance(n, tuple):
                if n and n[0] == "try":
                    v = self.fresh("q")
                    tries.append((v, n[1]))
                    return ("path", [v])
                if n and n[0] in ("closure", "macro"):
                    return n
                return tuple(hoist(x) for x in n)
            if isinstance(n, list):
                return [hoist(x) for x in n]
            return n
        e2 = hoist(e)
        env2 = dict(env)
        wraps = []
        for v, inner in tries:
            it, ity = self.tr(inner, env2)
            if ity[0] != "opt":
                raise TErr("`?` on a non-Option")
            env2[v] = ity[1]
            wraps.append((v, it))
        t, _ = self.tr(e2, env2, BOOL)
        out = f"some ({t})"
        for v, it in reversed(wraps):
            out = f"(match {it} with | none => none | some {v} => {out})"
        return out

    def tr_opt(self, e, env, expect=None):
        """an expression containing `?`: Lean term of type Option τ (none = the function returns early with None/Err)"""
        if not self.contains_try(e):
            t, ty = self.tr(e, env, expect)
            return f"some {par(t)}", ty
        k = e[0]
        if k == "paren":
            return self.tr_opt(e[1], env, expect)
        if k == "try":
            t, ty = self.tr(e[1], env)
            if ty[0] != "opt":
                raise TErr("`?` on a non-Option")
            return t, ty[1]
        if k == "match":
            box = {}
            def arm(body, env2):
                if body[0] == "block":
                    if body[1]:
                        raise TErr("`?` inside a block with statements")
                    body = body[2]
                t, ty = self.tr_opt(body, env2, expect)
                box["ty"] = ty
                return t, OPT(ty)
            t, _ = self.tr_match(e, env, None, arm_tr=arm)
            return t, box.get("ty", expect)
        if k == "if":
            if self.contains_try(e[1]) or e[3] is None:
                raise TErr("`?` in an if condition of a value")
            c = self.cond(e[1], env)
            a, ta = self.tr_opt(e[2][2] if e[2][0] == "block" and not e[2][1] else e[2], env, expect)
            b, _ = self.tr_opt(e[3][2] if e[3][0] == "block" and not e[3][1] else e[3], env, expect)
            return f"(if {c} then {a} else {b})", ta
        # straight-line expression: hoist the `?` sub-expressions left to right
        tries = []
        def hoist(n):
            if isinstance(n, tuple):
                if n and n[0] == "try":
                    v = self.fresh("q")
                    tries.append((v, n[1]))
                    return ("path", [v])
                if n and n[0] in ("closure", "macro"):
                    return n
                if n and n[0] in ("match", "if", "iflet", "block") and self.contains_try(n):
                    raise TErr("`?` inside nested control flow")
                return tuple(hoist(x) for x in n)
            if isinstance(n, list):
                return [hoist(x) for x in n]
            return n
        e2 = hoist(e)
        env2 = dict(env)
        wraps = []
        for v, inner in tries:
            it, ity = self.tr(inner, env2)
            if ity[0] != "opt":
                raise TErr("`?` on a non-Option")
            env2[v] = ity[1]
            wraps.append((v, it))
        t, ty = self.tr(e2, env2, expect)
        out = f"some {par(t)}"
        for v, it in reversed(wraps):
            out = f"(match {it} with | none => none | some {v} => {out})"
        return out, ty

    def tr_assign(self, e, env, cont):
        _, lhs, op, rhs = e
        et = self.entry_target(lhs)
        if et:
            # *m.entry(k).or_insert(v) op= rhs     (a BTreeMap kept as a list sorted by key)
            m_e, k_e, v_e = et
            mtxt, mty = self.tr(m_e, env)
            if mty[0] != "btmap" or op not in ("+=", "-="):
                raise TErr("entry().or_insert() update on " + str(mty))
            ktxt, _ = self.tr(k_e, env, mty[1])
            vtxt, _ = self.tr(v_e, env, mty[2])
            rtxt, _ = self.tr(rhs, env, mty[2])
            new = f"btUpsert {par(mtxt)} {par(ktxt)} (fun c_ => c_ {op[0]} {par(rtxt)}) {par(vtxt)}"
            return self.assign_text(m_e, new, env) + cont(env)
        if op != "=":
            bop = op[:-1]
            cur = lhs
            new = ("binary", bop, cur, rhs)
            return self.tr_assign(("assign", lhs, "=", new), env, cont)
        if lhs[0] == "tuple":
            r, rty_ = self.tr(rhs, env, ("tuple", [None if (x[0] == "path" and x[1] == ["_"]) else self.lhs_type(x, env) for x in lhs[1]]))
            v = self.fresh("p")
            out = f"let {v} := {r};\n"
            for i, x in enumerate(lhs[1]):
                if x[0] == "path" and x[1] == ["_"]:
                    continue
                out += self.assign_text(x, self.proj(v, rty_, i), env)
            return out + cont(env)
        lty_ = self.lhs_type(lhs, env)
        acc = set()
        self.assigned(rhs, acc, env)
        acc = [v for v in sorted(acc) if v in env or v == "self"]
        if acc:
            val, vty = self.stateful_value(rhs, env, acc, lty_)
            v = self.fresh("v")
            return f"let ({self.state_tuple(acc)}, {v}) := {val};\n" + self.assign_text(lhs, v, env) + cont(env)
        r, _ = self.tr(rhs, env, lty_)
        return self.assign_text(lhs, r, env) + cont(env)

    def stateful_value(self, e, env, acc, expect):
        """an expression whose evaluation assigns the outer variables `acc`: Lean term of type (state × value)"""
        box = {}
        st = self.state_tuple(acc)
        def arm_block(b, env2):
            if b[0] != "block":
                t, ty = self.tr(b, env2, expect)
                box["ty"] = ty
                return f"({st}, {t})"
            def k(env3):
                raise TErr("stateful block without value")
            # value = tail of the block; thread the state through the statements
            stmts, tl = b[1], b[2]
            if tl is None:
                raise TErr("stateful block without a tail value")
            def fin(env3):
                t, ty = self.tr(tl, env3, expect)
                box["ty"] = ty
                return f"({st}, {t})"
            return par_block(self.seq(stmts, None, dict(env2), fin, expect, {}, allow_return=False))
        if e[0] == "match":
            def arm(body, env2):
                return arm_block(body, env2), None
            t, _ = self.tr_match(e, env, None, arm_tr=arm)
            return t, box.get("ty", expect)
        if e[0] == "if":
            c = self.cond(e[1], env)
            a = arm_block(e[2], env)
            b = arm_block(e[3], env)
            return f"(if {c} then {a} else {b})", box.get("ty", expect)
        if e[0] == "block":
            return arm_block(e, env), box.get("ty", expect)
        raise TErr("side effects inside expression " + e[0])

    def tr_stmt_compound(self, e, env, cont, allow_return):
        """if / if let / match / block / for used as a statement"""
        acc = set()
        self.assigned(e, acc, env)
        acc = [v for v in sorted(acc) if v in env or v == "self"]
        has_ret = self.contains_return(e)
        if e[0] == "for":
            return self.tr_for(e, env, cont, acc)
        if has_ret:
            # branches may leave the function: the rest of the function is the continuation of every branch
            return self.branches(e, env, cont, allow_return)
        if not acc:
            # pure statement without effect (e.g. an if whose body only logs): nothing in it may be a call we cannot see through
            if self.has_opaque_call(e):
                raise TErr("statement without visible effect contains a call whose effect is unknown")
            if self.contains_try(e):
                raise TErr("statement without visible effect contains `?` (it may leave the function)")
            return cont(env)
        st = self.state_tuple(acc)
        fin = lambda env2: st
        val = self.branches(e, env, fin, False)
        return f"let {st} := {par_block(val)};\n" + cont(env)

    def branches(self, e, env, k, allow_return):
        k0 = e[0]
        box = {}
        if k0 == "block":
            return self.seq(e[1], e[2], dict(env), k, None, box, allow_return)
        if k0 == "if":
            if self.contains_try(e[1]):
                raise TErr("`?` in a statement condition")
            c = self.cond(e[1], env)
            a = par_block(self.seq(e[2][1], e[2][2], dict(env), k, None, box, allow_return))
            if e[3] is None:
                b = par_block(k(env))
            elif e[3][0] == "block":
                b = par_block(self.seq(e[3][1], e[3][2], dict(env), k, None, box, allow_return))
            else:
                b = par_block(self.branches(e[3], env, k, allow_return))
            return f"if {c} then {a} else {b}"
        if k0 == "iflet":
            m = ("match", e[2], [(e[1], None, e[3]), (("p_wild",), None, e[4] if e[4] is not None else ("block", [], None))])
            return self.branches(m, env, k, allow_return)
        if k0 == "match":
            def arm(body, env2):
                if body[0] == "block":
                    return par_block(self.seq(body[1], body[2], dict(env2), k, None, box, allow_return)), None
                return par_block(self.seq([("expr", body)], None, dict(env2), k, None, box, allow_return)), None
            t, _ = self.tr_match(e, env, None, arm_tr=arm)
            return t
        raise TErr("compound statement " + k0)

    def let_hint(self, name, init, rest):
        """the element type of an unannotated `let NAME = [(a, b), ..]` whose integer literals Rust types from their use:
        `for &(x, y) in &NAME { .. return y; .. }` makes that component the function's return type (only a hint for the
        literals - a wrong one does not type-check in Lean)"""
        if init[0] != "array" or len(init[1]) < 3 or any(x[0] != "tuple" for x in init[1]):
            return None
        n = len(init[1][0][1])
        comp = [RAT if init[1][0][1][i][0] == "lit_float" else None for i in range(n)]
        def walk(node):
            if isinstance(node, list):
                for x in node:
                    walk(x)
            elif isinstance(node, tuple) and node:
                if node[0] == "for":
                    src = node[2]
                    while src[0] == "paren" or (src[0] == "unary" and src[1] == "&"):
                        src = src[1] if src[0] == "paren" else src[2]
                    p = node[1]
                    while p[0] == "p_ref":
                        p = p[1]
                    if src == ("path", [name]) and p[0] == "p_tuple" and len(p[1]) == n:
                        names = [q[1] if q[0] == "p_ident" else None for q in p[1]]
                        def rets(b):
                            if isinstance(b, list):
                                for x in b:
                                    rets(x)
                            elif isinstance(b, tuple) and b:
                                if b[0] == "return" and b[1] is not None and b[1][0] == "path" and len(b[1][1]) == 1 and b[1][1][0] in names:
                                    comp[names.index(b[1][1][0])] = self.ret
                                for x in b:
                                    rets(x)
                        rets(node[3])
                for x in node:
                    walk(x)
        walk(rest)
        if any(c is None for c in comp):
            return None
        return ("list", ("tuple", comp))

    def for_find(self, e, env, cont):
        """for PAT in &LIST { if COND { return E; } }   ->   the first element that meets COND decides"""
        _, pat, it, body = e
        src = it
        while src[0] in ("paren",) or (src[0] == "unary" and src[1] == "&") or (src[0] == "mcall" and src[2] == "iter"):
            src = src[1] if src[0] != "unary" else src[2]
        if body[2] is not None and not body[1]:
            st = body[2]
        elif body[2] is None and len(body[1]) == 1 and body[1][0][0] == "expr":
            st = body[1][0][1]
        else:
            return None
        if st[0] != "if" or st[3] is not None:
            return None
        blk = st[2]
        rets = [x for x in blk[1] if not (x[0] == "expr" and x[1][0] == "macro" and x[1][1] in LOG_MACROS)]
        if blk[2] is not None or len(rets) != 1 or rets[0][0] != "expr" or rets[0][1][0] != "return" or rets[0][1][1] is None:
            return None
        xs, xty = self.tr(src, env)
        if xty[0] != "list":
            return None
        env2 = dict(env)
        ptxt = self.pat(pat, xty[1], env2)
        c = self.cond(st[1], env2)
        val = self.tail_value(rets[0][1][1], env2, self.ret, {}, True)
        return f"match {par(xs)}.find? (fun {par(ptxt)} => decide ({c})) with\n| some {par(ptxt)} => {val}\n| none => {par_block(cont(env))}"

    def tr_for(self, e, env, cont, acc):
        _, pat, it, body = e
        inner = it[1] if it[0] == "paren" else it
        if self.contains_return(body) and not acc:
            ff = self.for_find(e, env, cont)
            if ff is not None:
                return ff
            raise TErr("for loop that leaves the function in a shape other than `if c { return e; }`")
        if inner[0] == "mcall" and inner[2] in ("iter", "enumerate"):
            enum = inner[2] == "enumerate"
            src = inner[1]
            while src[0] == "mcall" and src[2] == "iter":
                src = src[1]
            xs, xty = self.tr(src, env)
            if xty[0] not in ("msg", "list"):
                raise TErr("for over " + str(xty))
            et = NAT() if xty[0] == "msg" else xty[1]
            if not acc:
                return cont(env)
            st = self.state_tuple(acc)
            env2 = dict(env)
            if enum:
                if pat[0] != "p_tuple" or len(pat[1]) != 2:
                    raise TErr("enumerate pattern")
                ip = self.pat(pat[1][0], NAT(64), env2)
                xp = self.pat(pat[1][1], et, env2)
                ptxt = f"({xp}, {ip})"
                xs = f"{par(xs)}.zipIdx"
            else:
                ptxt = self.pat(pat, et, env2)
            fin = lambda env3: st
            b = self.seq(body[1], body[2], env2, fin, None, {}, allow_return=False)
            return (f"let {st} := {par(xs)}.foldl (fun st_ {par(ptxt)} =>\n  let {st} := st_;\n  {b}) {st};\n" + cont(env))
        if not acc:
            if inner[0] != "range" or inner[1] is None or inner[2] is None:
                raise TErr("for over something that is not a literal range")
            return cont(env)
        count, lam, st, _, _ = self.for_range_parts(e, env, acc)
        return f"let {st} := (List.range {count}).foldl {lam} {st};\n" + cont(env)

    def for_range_parts(self, e, env, acc):
        """`for PAT in lo..hi { body }` over the state `acc`: (number of iterations, the fold function, the state tuple,
        the Lean name of the loop variable or None, lo) - the loop is `(List.range count).foldl lam st`"""
        _, pat, it, body = e
        inner = it[1] if it[0] == "paren" else it
        if inner[0] != "range" or inner[1] is None or inner[2] is None:
            raise TErr("for over something that is not a literal range")
        lo, _ = self.tr(inner[1], env, NAT())
        hi, _ = self.tr(inner[2], env, NAT())
        count = f"({hi} + 1 - {lo})" if inner[3] else f"({hi} - {lo})"
        st = self.state_tuple(acc)
        env2 = dict(env)
        if pat[0] == "p_wild":
            var = "_"
        elif pat[0] == "p_ident":
            var = lname(pat[1]) + "_i"
            env2[pat[1]] = NAT()
        else:
            raise TErr("for pattern")
        fin = lambda env3: st
        b = self.seq(body[1], body[2], env2, fin, None, {}, allow_return=False)
        bind = "" if var == "_" else f"let {lname(pat[1])} := {lo} + {var};\n"
        lam = f"(fun st_ {var} =>\n  let {st} := st_;\n  {bind}{b})"
        return count, lam, st, (None if var == "_" else lname(pat[1])), lo

    # ---- whole function, one auxiliary definition per top-level block ---------------------------------
    def translate_split(self):
        """long `&mut self` methods: every top-level compound statement becomes its own definition `f.stepN` over the
        live variables, so that each block can be related to the model separately"""
        fn = self.fn
        env, order = {}, []
        extras = []
        for n in self.ctx.needs.get(self.ctx.key_of(fn), []):
            extras.append(("now", "Int") if n == "now" else ("tenv", "TEnv"))
        for p, t in fn.params:
            ty = rty(t, fn.impl_of)
            env[p[1]] = ty
            order.append(p[1])
        name = self.ctx.lean_name(fn)
        aux, lines = [], []
        stmts = fn.body[1] + ([("expr", fn.body[2])] if fn.body[2] is not None else [])
        for i, st in enumerate(stmts):
            e = st[1] if st[0] == "expr" else None
            if e is not None and e[0] == "macro" and e[1] in LOG_MACROS:
                continue
            acc = set()
            if e is not None and e[0] in ("if", "iflet", "match", "block"):
                self.assigned(e, acc, env)
            acc = [v for v in sorted(acc) if v in env or v == "self"]
            if acc and not self.contains_return(e):
                stt = self.state_tuple(acc)
                body = self.branches(e, env, (lambda env2: stt), False)
                live = [v for v in order if v in env]
                params = " ".join(f"({n} : {t})" for n, t in extras) + " (self : " + lty(self.self_ty) + ") " + \
                    " ".join(f"({lname(v)} : {lty(env[v])})" for v in live)
                rtype = " × ".join(par(lty(self.self_ty if v == "self" else env[v])) for v in acc)
                aux.append(f"def {name}.step{i} {params} : {rtype} :=\n" + indent(body, 2))
                args = " ".join([n for n, _ in extras] + ["self"] + [lname(v) for v in live])
                lines.append(f"let {stt} := {name}.step{i} {args};")
                continue
            got = {}
            def k(env2, got=got):
                got["env"] = env2
                return "\0"
            txt = self.seq([st], None, env, k, None, {})
            if not txt.endswith("\0"):
                raise TErr("statement with a continuation in the middle")
            lines.append(txt[:-1].rstrip("\n"))
            new_env = got.get("env", env)
            for v in new_env:
                if v not in env:
                    order.append(v)
            env = new_env
        params = " ".join(f"({n} : {t})" for n, t in extras) + " (self : " + lty(self.self_ty) + ") " + \
            " ".join(f"({lname(p[1])} : {lty(rty(t, fn.impl_of))})" for p, t in fn.params)
        main = f"def {name} {params} : {lty(self.self_ty)} :=\n" + indent("\n".join(lines) + "\nself", 2)
        return "\n\n".join(aux + [main])

    # ---- whole function ---------------------------------------------------------------------------
    def translate(self):
        if self.ctx.key_of(self.fn) in SPLIT:
            return self.translate_split()
        fn = self.fn
        env = {}
        params = []
        for n in self.ctx.needs.get(self.ctx.key_of(fn), []):
            params.append("(now : Int)" if n == "now" else "(tenv : TEnv)")
        if fn.self_kind:
            params.append(f"(self : {lty(self.self_ty)})")
        for p, t in fn.params:
            ty = rty(t, fn.impl_of)
            if ty == ("sstr",):
                ty = STR           # a `&str` parameter is text to be read (List Char); `&'static str` results stay String
            if p[0] != "p_ident":
                raise TErr("parameter pattern")
            env[p[1]] = ty
            params.append(f"({lname(p[1])} : {lty(ty)})")
        box = {}
        sv = self.state_vars()
        fn_body = desugar_locks(fn.body)
        if sv:
            if self.ret != UNIT:
                raise TErr("function with mutable state and a return value")
            body = self.seq(fn_body[1], fn_body[2], env, (lambda env2: self.state_tuple(sv)), None, box)
            ret = " × ".join(par(lty(self.self_ty if v == "self" else env[v])) for v in sv)
        elif False:
            pass
        else:
            body = self.seq(fn_body[1], fn_body[2], env, None, self.ret, box)
            ret = lty(self.ret)
        name = self.ctx.lean_name(fn)
        sig = f"def {name} " + " ".join(params) + f" : {ret} :="
        pre = "".join(t + "\n\n" for t in self.tables.values())
        if pre:
            pre += f"/-- `{fn.name}` itself (the definition above is its constant table) -/\n"
        return pre + sig + "\n" + indent(body, 2)


def desugar_locks(node):
    """`if let Ok(mut v) = X.write() { BODY }`  ->  `{ let mut v = X; BODY; X = v; }`   (the lock is always granted: a poisoned
    lock means a panic elsewhere, which C01 excludes).  `X.read()` likewise, without the write-back."""
    if isinstance(node, list):
        return [desugar_locks(x) for x in node]
    if not isinstance(node, tuple) or not node:
        return node
    node = tuple(desugar_locks(x) for x in node)
    if node[0] == "iflet" and node[1][0] == "p_ts" and node[1][1] == ["Ok"] and len(node[1][2]) == 1 and node[1][2][0][0] == "p_ident" \
            and node[2][0] == "mcall" and node[2][2] in ("write", "read") and not node[2][3] and node[4] is None and node[3][0] == "block":
        v = node[1][2][0][1]
        x = node[2][1]
        body = node[3]
        stmts = [("let", ("p_ident", v, True), None, x, None)] + list(body[1])
        if body[2] is not None:
            stmts.append(("expr", body[2]))
        if node[2][2] == "write":
            stmts.append(("expr", ("assign", x, "=", ("path", [v]))))
        return ("block", stmts, None)
    return node


SKIP_IF_MENTIONS = {"downlink_error_log_file", "display_flags", "headers"}


def mentions(node, names):
    if isinstance(node, (list, tuple)):
        if isinstance(node, tuple) and len(node) == 2 and node[0] == "path" and len(node[1]) == 1 and node[1][0] in names:
            return True
        return any(mentions(x, names) for x in node)
    return False


def prune(node, dropped):
    """drop the statements that only concern the -D log file and the screen refresh (not part of the decoding step): a leaf
    statement that mentions them, or a compound one whose condition / scrutinee does; otherwise look inside"""
    def head_mentions(e):
        if e[0] == "if":
            return mentions(e[1], SKIP_IF_MENTIONS)
        if e[0] == "iflet":
            return mentions(e[2], SKIP_IF_MENTIONS) or mentions(e[1], SKIP_IF_MENTIONS)
        if e[0] == "match":
            return mentions(e[1], SKIP_IF_MENTIONS)
        if e[0] == "block":
            return False
        return mentions(e, SKIP_IF_MENTIONS)
    if isinstance(node, tuple) and node and node[0] == "block":
        stmts = []
        for st in node[1]:
            e = st[1] if st[0] == "expr" else None
            if (e is not None and head_mentions(e)) or (e is None and mentions(st, SKIP_IF_MENTIONS)):
                dropped.append(st)
            else:
                stmts.append(prune(st, dropped))
        tail = node[2]
        if tail is not None and head_mentions(tail):
            dropped.append(tail)
            tail = None
        elif tail is not None:
            tail = prune(tail, dropped)
        return ("block", stmts, tail)
    if isinstance(node, tuple):
        return tuple(prune(x, dropped) for x in node)
    if isinstance(node, list):
        return [prune(x, dropped) for x in node]
    return node


def loop_step_fn(fns):
    """`read_lines`: the body of its `for line in reader.split(b'\\n').map_while(Result::ok)` loop as a function
    read_lines_step(line: &str, args: &Args, planes: &mut Planes, app_state: &mut AppCounters) of one decoded line"""
    fn = next((f for f in fns if f.name == "read_lines"), None)
    if fn is None:
        raise TErr("read_lines not found")
    loops = [st[1] for st in fn.body[1] if st[0] == "expr" and st[1][0] == "for"]
    if len(loops) != 1:
        raise TErr("read_lines: exactly one for loop expected")
    _, pat, it, body = loops[0]
    want_it = ("mcall", ("mcall", ("path", ["reader"]), "split", [("lit_char", 10)]), "map_while", [("path", ["Result", "ok"])])
    if pat != ("p_ident", "line", False) or it != want_it:
        raise TErr("read_lines: the loop is no longer `for line in reader.split(b'\\n').map_while(Result::ok)`")
    stmts = list(body[1])
    first = stmts[0] if stmts else None
    if not (first and first[0] == "let" and first[1] == ("p_ident", "line", False) and first[3][0] == "call"
            and first[3][1][1][-1] == "from_utf8_lossy"):
        raise TErr("read_lines: the loop no longer starts with `let line = String::from_utf8_lossy(&line)`")
    # state that lives across iterations must be what the step function is given: app_state, and nothing else declared `mut`
    muts = [st[1][1] for st in fn.body[1] if st[0] == "let" and st[1][0] == "p_ident" and st[1][2]]
    if muts != ["app_state"]:
        raise TErr(f"read_lines: mutable state across lines is {muts}, the model knows app_state only")
    dropped = []
    blk = prune(("block", stmts[1:], body[2]), dropped)
    step = R.Fn("read_lines_step",
                [(("p_ident", "line", False), ("ref", ("named", "str", []))),
                 (("p_ident", "args", False), ("ref", ("named", "Args", []))),
                 (("p_ident", "planes", False), ("ref", ("named", "Planes", []), "mut")),
                 (("p_ident", "app_state", False), ("ref", ("named", "AppCounters", []), "mut"))],
                None, blk, None, None, None)
    step.loop_step = True
    step.dropped = dropped
    return step


def par_block(t):
    t = t.strip()
    if "\n" in t or t.startswith(("let ", "if ", "match ")):
        return "(" + t + ")"
    return t


def indent(t, n):
    pad = " " * n
    return "\n".join(pad + l if l.strip() else l for l in t.split("\n"))


# ------------------------------------------------------------------------------------------------------------
# which functions are translated: (file, [function keys]); everything else referred to must be in BUILTIN_FNS
TRANSLATE_BITS = [
    ("src/decoder/utils/calc.rs", ["bit_location", "range_value", "flag_and_range_value", "status_flag_and_range_value"]),
    ("src/decoder/downlink.rs", ["get_downlink_format"]),
    ("src/decoder/utils/crc.rs", ["crc56", "crc112", "get_crc", "parity_ok", "reminder"]),
    ("src/decoder/utils/ma_code.rs", ["ma_code"]),
    ("src/decoder/adsb/altitude/graytobin.rs", ["extract_bit", "graytobin"]),
    ("src/decoder/utils/format.rs", ["clean_squitter"]),
]

TRANSLATE_FRAME = [
    ("src/decoder/utils.rs", ["get_message"]),
    ("src/decoder/adsb/icao.rs", ["get_icao"]),
]

TRANSLATE = [
    ("src/decoder/utils.rs", ["get_message_type", "get_capability"]),
    ("src/decoder/utils/me_code.rs", ["me_code"]),
    ("src/decoder/adsb/vertical_rate.rs", ["vertical_rate_value", "vertical_rate"]),
    ("src/decoder/adsb/version.rs", ["version"]),
    ("src/decoder/adsb/surveillance_status.rs", ["surveillance_status"]),
    ("src/decoder/adsb/ground_movement.rs", ["ground_movement"]),
    ("src/decoder/adsb/altitude/delta.rs", ["delta", "altitude_delta"]),
    ("src/decoder/adsb/altitude/gnss.rs", ["altitude_gnss"]),
    ("src/decoder/adsb/altitude.rs", ["altitude_value", "altitude"]),
    ("src/decoder/adsb/squawk.rs", ["squawk"]),
    ("src/decoder/adsb/acas.rs", ["threat_encounter"]),
    ("src/decoder/adsb/ais.rs", ["ia5", "ais"]),
    ("src/decoder/adsb/icao.rs", ["get_wake_turbulence_category"]),
    ("src/decoder/adsb/position.rs", ["cpr", "pmod", "fixed_lat", "signed_lon", "nl", "cpr_location"]),
    ("src/decoder/ehs/base.rs", ["ground_track", "heading"]),
    ("src/decoder/ehs/bds_4_0.rs", ["mcp_selected_altitude", "fms_selected_altitude", "barometric_pressure_setting", "target_altitude_source"]),
    ("src/decoder/ehs/bds_5_0.rs", ["roll_angle", "roll_angle_5_0", "track_angle", "track_angle_5_0", "track_angle_rate", "track_angle_rate_5_0",
                                    "ground_speed_5_0", "true_airspeed_5_0"]),
    ("src/decoder/ehs/bds_6_0.rs", ["magnetic_heading", "magnetic_heading_6_0", "indicated_airspeed_6_0", "mach_number_6_0",
                                    "barometric_altitude_rate", "barometric_altitude_rate_6_0", "internal_vertical_velocity",
                                    "internal_vertical_velocity_6_0"]),
    ("src/decoder/meteo.rs", ["temp_4_4", "temperature_4_4", "wind_speed", "wind_direction", "wind_4_4", "turbulence_4_4", "humidity_4_4",
                              "pressure_4_4", "temp_4_5", "temperature_4_5"]),
    ("src/decoder/bds.rs", ["bds", "goodflags"]),
    ("src/decoder/bds/bds_1_7.rs", ["Capability.new", "Capability.from_data", "is_bds_1_7"]),
    ("src/decoder/bds/bds_4_0.rs", ["SelectedVerticalIntention.new", "SelectedVerticalIntention.from_data", "is_bds_4_0"]),
    ("src/decoder/bds/bds_5_0.rs", ["TrackAndTurn.new", "TrackAndTurn.from_data", "is_bds_5_0"]),
    ("src/decoder/bds/bds_6_0.rs", ["HeadingAndSpeed.new", "HeadingAndSpeed.from_data", "is_bds_6_0"]),
    ("src/decoder/bds/bds_4_4.rs", ["Meteo.new", "Meteo.from_data", "is_bds_4_4"]),
    ("src/decoder/bds/bds_4_5.rs", ["is_bds_4_5"]),
]

TRANSLATE_PLANE = [
    ("src/decoder/downlink/short.rs", ["Srt.new", "Srt.update", "Srt.from_message"]),
    ("src/decoder/downlink/extended/ext.rs", ["Ext.new"]),
    ("src/decoder/downlink/extended/update.rs", ["Ext.update_mt_1_4", "Ext.update_mt_5_18", "Ext.update_mt_19", "Ext.update_mt_20_22",
                                                 "Ext.update_mt_31", "Ext.update", "Ext.from_message"]),
    ("src/decoder/downlink/mode_s.rs", ["Mds.new", "Mds.update", "Mds.from_message"]),
    ("src/decoder/downlink/dfs.rs", ["DF.from_message"]),
    ("src/decoder/plane/from_downlink.rs", ["Plane.update_from_downlink<DF>"]),
    ("src/decoder/plane.rs", ["Plane.new", "Plane.from_message", "Plane.from_downlink"]),
    ("src/decoder/plane/update_position.rs", ["Plane.update_position"]),
    ("src/decoder/plane/from_squitter.rs", ["Plane.update"]),
    ("src/decoder/plane/from_squitter/from_bcast.rs", ["Plane.update_from_bcast"]),
    ("src/decoder/plane/from_squitter/from_ext.rs", ["Plane.update_from_ext", "Plane.update_cpr", "Plane.update_from_ext_1_4",
                                                     "Plane.update_from_ext_5_8", "Plane.update_from_ext_9_18", "Plane.update_from_ext_19",
                                                     "Plane.update_from_ext_20_22", "Plane.update_from_ext_31"]),
    ("src/decoder/plane/from_squitter/from_mode_s.rs", ["Plane.update_from_mode_s"]),
    ("src/decoder/plane/from_downlink/from_ext.rs", ["Plane.update_from_downlink<Ext>", "Plane.amend_from_ext_1_4", "Plane.amend_from_ext_5_8",
                                                     "Plane.amend_from_ext_9_18", "Plane.amend_from_ext_19", "Plane.amend_from_ext_20_22",
                                                     "Plane.amend_from_ext_31", "Plane.amend_cpr"]),
    ("src/decoder/plane/from_downlink/from_srt.rs", ["Plane.update_from_downlink<Srt>"]),
    ("src/decoder/plane/from_downlink/from_mds.rs", ["Plane.update_from_downlink<Mds>"]),
]

TRANSLATE_TABLE = [
    ("src/arguments.rs", []),
    ("src/counters.rs", ["AppCounters.update_count", "AppCounters.reset_cleanup_count", "AppCounters.increment_cleanup_count",
                         "AppCounters.reset_timestamp", "AppCounters.is_time_to_refresh"]),
    ("src/decoder/planes.rs", ["Planes.update_aircraft", "Planes.cleanup"]),
    ("src/reader.rs", ["read_lines_step"]),
]

# (output file, imports, plan, structs emitted in this file)
PLANS = [
    ("TransBits.lean", "import SqModel.Model.RustPrimBits", TRANSLATE_BITS, []),
    ("TransFrame.lean", "import SqModel.Generated.TransBits\nimport SqModel.Model.Crc", TRANSLATE_FRAME, []),
    ("Trans.lean", "import SqModel.Model.RustPrim\nimport SqModel.Generated.TransFrame", TRANSLATE,
     ["Capability", "SelectedVerticalIntention", "TrackAndTurn", "HeadingAndSpeed", "Meteo"]),
    ("TransPlane.lean", "import SqModel.Generated.Trans", TRANSLATE_PLANE, ["Srt", "Ext", "Mds", "DF", "Plane"]),
    ("TransTable.lean", "import SqModel.Generated.TransPlane", TRANSLATE_TABLE, ["Args", "AppCounters", "Planes"]),
]


def load_all(repo, plans=None):
    ctx = Ctx()
    wanted = {}
    for out, _, plan, _ in (plans or PLANS):
        wanted[out] = []
        for rel, keys in plan:
            fns, structs = R.parse_file(open(os.path.join(repo, rel)).read())
            for st in structs:
                ctx.structs[st.name] = st
                st.file = rel
            byk = {}
            for fn in fns:
                byk[ctx.key_of(fn)] = fn
            if "read_lines_step" in keys:
                byk["read_lines_step"] = loop_step_fn(fns)
            for k in keys:
                if k not in byk:
                    raise TErr(f"{rel}: function {k} not found (renamed or removed?)")
                fn = byk[k]
                fn.file = rel
                fn.plan = out
                ctx.fns[k] = fn
                wanted[out].append(k)
            # every other non-test function of a translated file must be accounted for (translated in some plan, or listed)
            elsewhere = {k2 for _, _, plan2, _ in PLANS for rel2, keys2 in plan2 if rel2 == rel for k2 in keys2}
            for k in byk:
                if k == "read_lines_step":
                    continue
                if k not in elsewhere and k.split(".")[-1].split("<")[0] not in NOT_TRANSLATED.get(rel, ()):
                    raise TErr(f"{rel}: function {k} is neither translated nor listed as hand-modelled (new function?)")
    for ks in wanted.values():
        for k in ks:
            fn = ctx.fns[k]
            ptys = [STR if rty(t, fn.impl_of) == ("sstr",) else rty(t, fn.impl_of) for _, t in fn.params]
            ret = rty(fn.ret, fn.impl_of) if fn.ret is not None else UNIT
            st = ("struct", fn.impl_of) if fn.impl_of else None
            mutp = [i for i, (_, t) in enumerate(fn.params) if t[0] == "ref" and len(t) > 2 and t[2] == "mut" and ptys[i][0] == "struct"]
            if mutp:
                ctx.mutp[k] = mutp
            state = ([st] if fn.self_kind == "mut" else []) + [ptys[i] for i in mutp]
            if state:
                ret = state[0] if len(state) == 1 else ("tuple", state)
            ctx.sigs[k] = (ctx.lean_name(fn), ptys, ret, fn.self_kind, st)
    return ctx, wanted


# functions of translated files that stay hand-modelled (float arithmetic, iterators, formatting, I/O, enum dispatch)
NOT_TRANSLATED = {
    "src/decoder/utils.rs": ("get_hex_message",),
    "src/decoder/ehs/base.rs": ("track_and_groundspeed",),
    "src/decoder/bds/bds_1_7.rs": ("default",), "src/decoder/bds/bds_4_0.rs": ("default",), "src/decoder/bds/bds_5_0.rs": ("default",),
    "src/decoder/bds/bds_6_0.rs": ("default",), "src/decoder/bds/bds_4_4.rs": ("default",),
    "src/decoder/downlink/short.rs": ("default", "fmt", "icao"),
    "src/decoder/downlink/extended/ext.rs": ("default",),
    "src/decoder/downlink/extended/update.rs": ("icao",),
    "src/decoder/downlink/mode_s.rs": ("default", "fmt", "icao"),
    "src/decoder/downlink/dfs.rs": ("fmt", "log", "update", "icao"),
    "src/decoder/plane.rs": ("default", "fmt"),
    "src/decoder/plane/update_position.rs": ("degrees_to_radians", "haversine"),
    "src/counters.rs": ("from_update_interval", "print_df_count_line"),
    "src/decoder/planes.rs": ("new", "default", "print", "sort_printed_planes"),
    "src/reader.rs": ("read_lines", "display_legend", "display_planes", "spawn_reader_thread", "connect_and_read_tcp", "read_from_file", "clear_screen"),
}


def key_le(ty, a, b):
    """Lean Bool `a <= b` for a sort key of the given type (Rust's derived Ord)"""
    if ty[0] in ("nat", "int", "rat"):
        return f"decide ({a} ≤ {b})"
    if ty[0] == "opt" and ty[1][0] == "nat":
        return f"optNatLe {par(a)} {par(b)}"
    if ty[0] == "tuple" and len(ty[1]) == 2 and all(t[0] == "nat" for t in ty[1]):
        return f"decide ({par(a)}.1 < {par(b)}.1 ∨ ({par(a)}.1 = {par(b)}.1 ∧ {par(a)}.2 ≤ {par(b)}.2))"
    raise TErr(f"sort key of type {ty}")


def translate_sort(ctx, repo):
    """`sort_printed_planes`: one comparison per `-o` letter.  Every arm must have the shape
         v.sort_by_cached_key(|&(_, p)| KEY);  [v.reverse();]      or
         v.sort_by(|(_, p), (_, q)| { [let d = |x: &Plane| E;]  A.total_cmp(&B) });  [v.reverse();]"""
    rel = "src/decoder/planes.rs"
    fns, _ = R.parse_file(open(os.path.join(repo, rel)).read())
    fn = next((f for f in fns if f.name == "sort_printed_planes"), None)
    if fn is None:
        raise TErr("sort_printed_planes not found")
    def find_match(node):
        if isinstance(node, tuple):
            if node and node[0] == "match" and all(a[0][0] in ("p_lit", "p_wild") for a in node[2]):
                return node
            for x in node:
                r = find_match(x)
                if r:
                    return r
        elif isinstance(node, list):
            for x in node:
                r = find_match(x)
                if r:
                    return r
        return None
    m = find_match(fn.body)
    if m is None:
        raise TErr("sort_printed_planes: no match over the key letter")
    tr = FnTr(ctx, fn)
    PL = ("struct", "Plane")
    arms = []
    for pat, guard, body in m[2]:
        if pat[0] == "p_wild":
            stmts = body[1] if body[0] == "block" else [("expr", body)]
            if stmts or (body[0] == "block" and body[2] is not None):
                raise TErr("sort_printed_planes: the catch-all arm does something")
            continue
        if guard is not None or pat[1][0] != "lit_char":
            raise TErr("sort_printed_planes: arm pattern")
        letter = pat[1][1]
        stmts = list(body[1]) + ([("expr", body[2])] if body[2] is not None else [])
        if not stmts or len(stmts) > 2:
            raise TErr(f"sort arm {chr(letter)!r}: expected a sort and an optional reverse")
        call = stmts[0][1]
        rev = False
        if len(stmts) == 2:
            r = stmts[1][1]
            if not (r[0] == "mcall" and r[2] == "reverse" and not r[3]):
                raise TErr(f"sort arm {chr(letter)!r}: second statement is not .reverse()")
            rev = True
        if call[0] != "mcall" or call[2] not in ("sort_by_cached_key", "sort_by") or len(call[3]) != 1 or call[3][0][0] != "closure":
            raise TErr(f"sort arm {chr(letter)!r}: not a sort_by / sort_by_cached_key call")
        cl = call[3][0]
        def var_of(p):
            while p[0] == "p_ref":
                p = p[1]
            if p[0] != "p_tuple" or len(p[1]) != 2 or p[1][0][0] != "p_wild" or p[1][1][0] != "p_ident":
                raise TErr(f"sort arm {chr(letter)!r}: closure parameter")
            return p[1][1][1]
        if call[2] == "sort_by_cached_key":
            v = var_of(cl[1][0])
            ka, kty = tr.tr(cl[2], {v: PL})
            kb = ka  # same expression on the other row
            a, _ = tr.tr(cl[2], {v: PL})
            le = key_le(kty, a.replace(lname(v) + ".", "p."), a.replace(lname(v) + ".", "q.")) if v != "p" else None
            if le is None:
                a_p = a
                # rename p -> q textually is unsafe; translate again with the other name
                tr2 = FnTr(ctx, fn)
                def rename(n):
                    if isinstance(n, tuple):
                        if n and n[0] == "path" and n[1] == [v]:
                            return ("path", ["q"])
                        return tuple(rename(x) for x in n)
                    if isinstance(n, list):
                        return [rename(x) for x in n]
                    return n
                b_q, _ = tr2.tr(rename(cl[2]), {"q": PL})
                le = key_le(kty, a_p, b_q)
        else:
            if len(cl[1]) != 2:
                raise TErr(f"sort arm {chr(letter)!r}: comparator arity")
            v1, v2 = var_of(cl[1][0]), var_of(cl[1][1])
            if (v1, v2) != ("p", "q"):
                raise TErr(f"sort arm {chr(letter)!r}: comparator parameters are not (p, q)")
            body2 = cl[2]
            lets = {}
            if body2[0] == "block":
                for st in body2[1]:
                    if st[0] == "let" and st[1][0] == "p_ident" and st[3] is not None and st[3][0] == "closure":
                        lets[st[1][1]] = st[3]
                    else:
                        raise TErr(f"sort arm {chr(letter)!r}: statement in the comparator")
                body2 = body2[2]
            if body2 is None or body2[0] != "mcall" or body2[2] != "total_cmp" or len(body2[3]) != 1:
                raise TErr(f"sort arm {chr(letter)!r}: comparator is not a total_cmp")
            def side(e):
                while e[0] in ("unary", "paren"):
                    e = e[2] if e[0] == "unary" else e[1]
                if e[0] == "call" and e[1][0] == "path" and len(e[1][1]) == 1 and e[1][1][0] in lets:
                    c2 = lets[e[1][1][0]]
                    pv = c2[1][0]
                    while pv[0] == "p_ref":
                        pv = pv[1]
                    arg, aty = tr.tr(e[2][0], {"p": PL, "q": PL})
                    bt, bty = tr.tr(c2[2], {pv[1]: aty})
                    return f"(fun {lname(pv[1])} => {bt}) {par(arg)}", bty
                return tr.tr(e, {"p": PL, "q": PL})
            a, aty = side(body2[1])
            b, _ = side(body2[3][0])
            if aty[0] != "rat":
                raise TErr(f"sort arm {chr(letter)!r}: total_cmp on {aty}")
            le = f"decide ({a} ≤ {b})"
        arms.append((letter, le, rev))
    out = ["/-- translated from `src/decoder/planes.rs` :: `sort_printed_planes`: the comparison of one `-o` letter and whether the",
           "    vector is reversed afterwards (`f64::total_cmp` as `≤` on exact values) -/",
           "def T.sort_key (c : Char) : Option ((T.Plane → T.Plane → Bool) × Bool) :="]
    txt = "none"
    for letter, le, rev in reversed(arms):
        txt = f"if c = '{chr(letter)}' then some (fun p q => {le}, {'true' if rev else 'false'})\n  else {txt}"
    out.append("  " + txt)
    return "\n".join(out)


def emit_struct(st):
    if getattr(st, "variants", None):
        lines = [f"inductive T.{st.name} where"]
        for v, tys in st.variants:
            args = " ".join(f"(v{i} : {lty(rty(t, st.name))})" for i, t in enumerate(tys))
            lines.append(f"  | {v} {args}".rstrip())
        return "\n".join(lines)
    lines = [f"structure T.{st.name} where"]
    for f, t in st.fields:
        lines.append(f"  {lname(f)} : {lty(rty(t, st.name))}")
    lines.append("deriving DecidableEq" if st.name != "Plane" else "deriving DecidableEq")
    return "\n".join(lines)


def toposort(wanted, deps):
    order, seen = [], set()
    def visit(k, stack):
        if k in seen or k not in deps:
            return
        if k in stack:
            raise TErr("recursion between translated functions: " + " -> ".join(stack + [k]))
        for d in sorted(deps[k]):
            visit(d, stack + [k])
        seen.add(k)
        order.append(k)
    for k in wanted:
        visit(k, [])
    return order


# process-wide or interior-mutable state anywhere in the crate (non-test code).  The model has none except the observer
# position (a parameter of the model): a memo, cache, counter or flag that outlives one call makes a decoder's result
# depend on earlier calls, which no theorem about the pure model covers - so its appearance is a broken obligation.
GLOBAL_STATE_TOKENS = {"static", "lazy_static", "thread_local", "OnceLock", "OnceCell", "LazyLock", "LazyCell", "RefCell", "Cell", "unsafe"}
GLOBAL_STATE_EXPECTED = {("src/decoder/observer.rs", "lazy_static"), ("src/decoder/observer.rs", "static")}


def global_state_inventory(repo):
    found = set()
    for d, _, files in os.walk(os.path.join(repo, "src")):
        for f in sorted(files):
            if f.endswith(".rs"):
                path = os.path.join(d, f)
                for kind, v in R.tokenize(R.strip_tests(open(path).read())):
                    if kind == "ident" and (v in GLOBAL_STATE_TOKENS or v.startswith("Atomic")):
                        found.add((os.path.relpath(path, repo), v))
    return found


def translate_all(repo, header, errors, only=None):
    """-> {output file: text};  only: the output files wanted (a prefix of PLANS in dependency order)"""
    extra = global_state_inventory(repo) - GLOBAL_STATE_EXPECTED
    if extra:
        raise TErr("process-wide / interior-mutable state that the model does not have: " + ", ".join(f"{f} ({t})" for f, t in sorted(extra)))
    plans = [p for p in PLANS if only is None or p[0] in only]
    ctx, wanted = load_all(repo, plans)
    allk = [k for ks in wanted.values() for k in ks]
    # pass 1: what every function uses (clock, environment) and calls
    uses, deps = {}, {}
    for k in allk:
        tr = FnTr(ctx, ctx.fns[k])
        try:
            tr.translate()
        except (TErr, R.ParseError) as e:
            errors.append(f"{ctx.fns[k].file} :: {k}: {e}")
        uses[k], deps[k] = set(tr.uses), set(tr.calls)
    if errors:
        return {}, ctx
    changed = True
    while changed:
        changed = False
        for k in allk:
            for d in deps[k]:
                if d in uses and not uses[d] <= uses[k]:
                    uses[k] |= uses[d]
                    changed = True
    ctx.needs = {k: [n for n in ("now", "env") if n in uses[k]] for k in allk}
    # pass 2: with the extra parameters in place
    bodies = {}
    for k in allk:
        tr = FnTr(ctx, ctx.fns[k])
        try:
            bodies[k] = tr.translate()
        except (TErr, R.ParseError) as e:
            errors.append(f"{ctx.fns[k].file} :: {k}: {e}")
            bodies[k] = None
    texts = {}
    for out, imports, plan, structs in plans:
        lines = [header, imports, "", "namespace Sq", "set_option linter.unusedVariables false", ""]
        for sname in structs:
            if sname not in ctx.structs:
                raise TErr(f"struct {sname} not found")
            lines.append(f"-- {ctx.structs[sname].file}")
            lines.append(emit_struct(ctx.structs[sname]))
            lines.append("")
        for k in toposort(wanted[out], {x: deps[x] for x in wanted[out]}):
            if bodies[k] is None:
                continue
            lines.append(f"/-- translated from `{ctx.fns[k].file}` :: `{k}` -/")
            lines.append(bodies[k])
            lines.append("")
        if out == "TransPlane.lean":
            try:
                lines.append(translate_sort(ctx, repo))
                lines.append("")
            except (TErr, R.ParseError) as e:
                errors.append(f"src/decoder/planes.rs :: sort_printed_planes: {e}")
        lines.append(f"/-- the functions of this file, for the bridge-coverage obligation -/")
        lines.append(f"def T.translated_{out.split('.')[0]} : List String := [" + ", ".join(['"' + ctx.lean_name(ctx.fns[k]) + '"' for k in wanted[out]] + (['"T.sort_key"'] if out == "TransPlane.lean" else [])) + "]")
        lines.append("")
        lines.append("end Sq")
        texts[out] = "\n".join(lines) + "\n"
    if only is None and not errors:
        # trap-freedom obligations of everything translated (extract/rs2safe.py)
        import rs2safe
        lines = [header, "import SqModel.Generated.TransTable", "", "namespace Sq", "set_option linter.unusedVariables false", ""]
        total = 0
        names = []
        for out, imports, plan, structs in plans:
            for k in toposort(wanted[out], {x: deps[x] for x in wanted[out]}):
                try:
                    txt, n = rs2safe.safe_def(ctx, ctx.fns[k])
                except (TErr, R.ParseError) as e:
                    errors.append(f"{ctx.fns[k].file} :: {k}: safety pass: {e}")
                    continue
                total += n
                names.append(ctx.lean_name(ctx.fns[k]) + ".safe")
                lines.append(f"/-- what `{k}` needs in order not to trap (`{ctx.fns[k].file}`) -/")
                lines.append(txt)
                lines.append("")
        lines.append(f"/-- {total} obligations in {len(names)} propositions -/")
        lines.append("def T.safe_names : List String := [" + ", ".join('"' + n + '"' for n in names) + "]")
        lines.append("")
        lines.append("end Sq")
        texts["TransSafe.lean"] = "\n".join(lines) + "\n"
    return texts, ctx


if __name__ == "__main__":
    errors = []
    try:
        texts, _ = translate_all(os.environ.get("VERIF_REPO", "/repo"), "-- preview", errors)
    except (TErr, R.ParseError) as e:
        errors.append(str(e)); texts = {}
    only = sys.argv[1] if len(sys.argv) > 1 else None
    for out, text in texts.items():
        if only is None or only == out:
            sys.stdout.write(text)
    for e in errors:
        print("ERROR", e, file=sys.stderr)
    sys.exit(1 if errors else 0)
