"""Generators shared by the property checks: ops builders and a frame alphabet over every format."""
from fractions import Fraction
import frames as F

def line_op(data):
    if isinstance(data, str):
        data = data.encode("utf-8")
    return "line " + data.hex() if data else "line"

def seg(lines, nolf=False):
    """one file / feed of these lines, each followed by a line feed (nolf: all but the last)"""
    return ["seg"] + [line_op(l) for l in lines] + ["endnolf" if nolf else "end"]

def cfg_op(**kw):
    parts = []
    for k, v in kw.items():
        if isinstance(v, bool):
            v = int(v)
        if k == "filter":
            v = "-" if v is None else ",".join(str(x) for x in v)
        if k == "observer" and v is not None:
            v = v.replace(" ", "_")
        if k == "order" and v == "":
            v = "-"
        parts.append(f"{k}={v}")
    return "cfg " + " ".join(parts)

ALL_CFGS = [(u, r) for u in (False, True) for r in (False, True)]

FORMATS = ["df0", "df4", "df5", "df11", "df16", "df20", "df21",
           "tc0", "tc1", "tc2", "tc3", "tc4", "tc5", "tc8", "tc9", "tc11", "tc18", "tc19.1", "tc19.2", "tc19.3",
           "tc19.0", "tc20", "tc22", "tc23", "tc28", "tc29", "tc31", "df18", "df24", "df19"]
# every other value of the 5-bit format field that has no decoder of its own (their rows are keyed by bits 9-32)
FORMATS_OTHER = ["df22", "df25", "df28", "df31"]

def rand_ac13(rng, q1_prob=0.8):
    if rng.random() < q1_prob:
        return F.ac13_q1(rng.randrange(40, 2048))
    return rng.randrange(8192) & ~0x40   # M = 0

def rand_cpr(rng):
    return rng.randrange(1, 1 << 17), rng.randrange(1, 1 << 17)

def rand_frame(rng, kind, addr, ca=None):
    """a well-formed frame of the given format for the given address, random payload"""
    ca = rng.randrange(8) if ca is None else ca
    r = rng.randrange
    if kind == "df0":
        return F.df0(r(1 << 27), addr)
    if kind == "df4":
        return F.df4(r(8), r(32), r(64), rand_ac13(rng), addr)
    if kind == "df5":
        return F.df5(r(8), r(32), r(64), r(8192), addr)
    if kind == "df11":
        return F.df11(ca, addr, 0)
    if kind == "df16":
        return F.df16(r(1 << 83), addr)
    if kind == "df20":
        return F.df20(r(8), r(32), r(64), rand_ac13(rng), r(1 << 56), addr)
    if kind == "df21":
        return F.df21(r(8), r(32), r(64), r(8192), r(1 << 56), addr)
    if kind == "df18":
        return F.df17(r(8), addr, F.me_raw(r(32), r(1 << 51)), df=18)
    if kind == "df19":
        return F.hexs((19 << 107) | (r(1 << 83) << 24) | addr, 112)
    if kind == "df24":
        return F.hexs((24 << 107) | (r(1 << 83) << 24) | addr, 112)
    if kind in ("df22", "df23", "df25", "df26", "df27", "df28", "df29", "df30", "df31"):
        return F.hexs((int(kind[2:]) << 107) | (r(1 << 83) << 24) | addr, 112)
    if kind.startswith("tc"):
        t = kind[2:]
        if "." in t:
            tc, st = t.split(".")
            tc, st = int(tc), int(st)
        else:
            tc, st = int(t), None
        if 1 <= tc <= 4:
            me = F.me_ident(tc, r(8), [r(64) for _ in range(8)])
        elif 5 <= tc <= 8:
            la, lo = rand_cpr(rng)
            me = F.me_surface(tc, r(128), r(2), r(128), r(2), r(2), la, lo)
        elif 9 <= tc <= 18 or 20 <= tc <= 22:
            la, lo = rand_cpr(rng)
            ac12 = F.ac12_q1(r(40, 2048)) if rng.random() < 0.8 else r(4096)
            me = F.me_airpos(tc, r(4), r(2), ac12, r(2), r(2), la, lo)
        elif tc == 19:
            me = F.me_velocity(st if st is not None else r(8), r(2), r(2), r(8), r(2), r(1024), r(2), r(1024),
                               r(2), r(2), r(512), r(2), r(128))
        else:
            me = F.me_raw(tc, r(1 << 51))
        return F.df17(ca, addr, me)
    raise ValueError(kind)

def parse_dump(lines):
    """rows of a dump as {icao(int): {key: value}}"""
    import core
    rows = {}
    for l in lines:
        if l.startswith("row "):
            d = core.kvs(l)
            rows[int(l.split(" ", 2)[1])] = d
    return rows

# --- prior row states ---------------------------------------------------------------------------
# A frame under test is applied to rows with different pasts, not only to a row a DF11 has just created:
# what a frame does to a row must not depend on what the row saw before (C05-C07, C09, C10).
PRIORS = ["df11lo", "df11hi", "surface", "airpos", "ident", "velocity", "df4", "df5", "tc28", "tc31",
          "df20first", "surface+df11hi", "ident+df11hi", "airpos+velocity"]

def prior_frames(rng, addr, kind):
    """frames that give the row of `addr` one of several pasts (first element creates the row)"""
    out = []
    for part in kind.split("+"):
        if part == "df11lo":
            out.append(F.df11(rng.randrange(4), addr, 0))
        elif part == "df11hi":
            out.append(F.df11(4 + rng.randrange(4), addr, 0))
        elif part == "surface":
            out.append(rand_frame(rng, "tc%d" % rng.randrange(5, 9), addr))
        elif part == "airpos":
            out.append(rand_frame(rng, "tc%d" % rng.randrange(9, 19), addr))
        elif part == "ident":
            out.append(rand_frame(rng, "tc%d" % rng.randrange(1, 5), addr))
        elif part == "velocity":
            out.append(rand_frame(rng, "tc19.%d" % rng.randrange(1, 3), addr))
        elif part == "df4":
            out.append(rand_frame(rng, "df4", addr))
        elif part == "df5":
            out.append(rand_frame(rng, "df5", addr))
        elif part == "tc28":
            out.append(rand_frame(rng, "tc28", addr))
        elif part == "tc31":
            out.append(rand_frame(rng, "tc31", addr))
        elif part == "df20first":
            out.append(rand_frame(rng, "df20", addr))
        else:
            raise ValueError(part)
    return out
