"""C01 — no input line or option set can crash or wedge the decoder."""
import os, subprocess, itertools
import core, gen, frames as F
from props.base import PropBase


build_cli = core.build_cli

class C01(PropBase):
    id = "C01"
    corr_fields = []
    lean_modules = ["SqModel.Props.C01", "SqModel.Proofs.BridgeBits", "SqModel.Proofs.BridgeTable", "SqModel.Proofs.SafeCpr", "SqModel.Proofs.SafeReminder", "SqModel.Proofs.Safe", "SqModel.Proofs.TableInv"]
    extractors = ["trans_bits", "sites", "ma_code", "trans"]
    rule = ("the real reader thread (overflow checks on, catch_unwind) and the built CLI (debug profile; thorough: also release, "
            "panic=abort) on: every digit count 0..64, every DF against both lengths, exhaustive AC13/AC12/ID13/vertical-rate "
            "sweeps, velocity and CPR boundary fields, low altitudes followed by every negative GNSS-height difference, random and boundary Comm-B registers, non-hex / NUL / non-UTF-8 / lone CR / "
            "64 KiB-1 MiB lines, histories of up to 60 lines over 3 addresses on both update paths, option sets -U/-R x -f x -c x "
            "-i x -o x -d x -u (incl. values beyond chrono's range). A run counts as evaluated per line; non-trivial = stream that "
            "contains a hostile line followed by a well-formed one whose aircraft must appear; distinct by stream.")
    assumptions = ["allocation failure, stack exhaustion and counter overflow after 2^31 frames of one DF are outside the check"]

    def hostile(self, rng):
        yield from (("".join(rng.choice("0123456789ABCDEF") for _ in range(n))).encode() for n in range(0, 65))
        for df in range(32):
            yield F.hexs((df << 51) | rng.randrange(1 << 51), 56).encode()
            yield F.hexs((df << 107) | rng.randrange(1 << 107), 112).encode()
        yield b"\x00" * 50
        yield bytes(range(128, 256))
        yield b"\r"
        yield b"A" * 70000
        yield bytes(rng.randrange(256) for _ in range(300)).replace(b"\n", b" ")
        yield ("8D" + "F" * 26).encode()
        yield b"*" + b"0" * 28 + b";"
        yield b"F" * 28
        yield b"F" * 14
        # a byte that is not UTF-8 (three bytes after the lossy decoding) or a two / three / four byte character at every offset
        # 0..44 behind every line-style mark: wherever a line is cut by position, the cut may fall inside a character
        fr = F.df17(5, 0x3C6611, F.me_ident(4, 3, F.callsign_codes("UTF8")))
        body = "0123456789AB" + "1A" + fr
        for mark in (b"<", b"@", b"*", b"", b" ", b"<<", b"@*"):
            for k in range(45):
                for ch in (b"\xff", "\u00e9".encode(), "\u20ac".encode(), "\U0001F600".encode()):
                    yield mark + body[:k].encode() + ch + body[k:].encode() + b";"

    def sweeps(self, rng):
        a = lambda: rng.randrange(1, 1 << 24)
        for c in range(8192):
            yield F.df4(0, 0, 0, c, 0x100 + (c % 3))
        for c in range(0, 8192, 3):
            yield F.df20(0, 0, 0, c, rng.randrange(1 << 56), 0x100 + (c % 3))
            yield F.df21(0, 0, 0, c, rng.randrange(1 << 56), 0x100 + (c % 3))
            yield F.df5(0, 0, 0, c, 0x100 + (c % 3))
        for c in range(4096):
            yield F.df17(5, 0x100 + (c % 3), F.me_airpos(9 + c % 10, 0, 0, c, 0, c & 1, rng.choice([0, 1, 131071, rng.randrange(131072)]), rng.choice([0, 1, 131071, rng.randrange(131072)])))
        for v in range(1024):
            yield F.df17(5, 0x100 + (v % 3), F.me_velocity(1 + v % 4, 0, 0, 0, v & 1, rng.choice([0, 1, 1023, v]), (v >> 1) & 1, rng.choice([0, 1, 1023, v]), 0, (v >> 2) & 1, v % 512, v & 1, v % 128))
        # two-frame sequences: a low barometric altitude, then a velocity squitter whose GNSS-minus-baro difference is
        # negative and larger than it (every difference code, both ways of setting the altitude)
        for n in (40, 41, 44, 52, 60, 80, 100, 130, 166):
            for d in range(128):
                ad = 0x100 + (d % 3)
                if d & 1:
                    yield F.df17(5, ad, F.me_airpos(11, 0, 0, F.ac12_q1(n), 0, d & 1, 1 + d, 1 + d))
                else:
                    yield F.df4(0, 0, 0, F.ac13_q1(n), ad)
                yield F.df17(5, ad, F.me_velocity(1 + d % 2, 0, 0, 0, 0, 10, 0, 10, 0, 0, 5, 1, d))
        for tc in range(32):
            for _ in range(20):
                yield F.df17(rng.randrange(8), 0x100 + rng.randrange(3), F.me_raw(tc, rng.choice([0, (1 << 51) - 1, rng.randrange(1 << 51)])))
        for _ in range(3000):
            mb = rng.choice([rng.randrange(1 << 56), (1 << 56) - 1, 0, F.bds50(rng.randrange(-512, 512), rng.randrange(-1024, 1024), rng.randrange(1024), rng.randrange(-512, 512), rng.randrange(1024)),
                             F.bds60(rng.randrange(-1024, 1024), rng.randrange(1024), rng.randrange(1024), rng.randrange(-512, 512), rng.randrange(-512, 512)),
                             F.bds40(rng.randrange(4096), rng.randrange(4096), rng.randrange(4096)), F.bds17({7, 9, 13, 16, 24})])
            yield F.df20(0, 0, 0, F.ac13_q1(100), mb, 0x100 + rng.randrange(3))

    def explore(self, rep, run, rng, tier, driver_ok):
        # 0. the arithmetic / conversion / unwrap inventory against the reviewed list
        cur = open(os.path.join(core.WORK, "arith_sites.txt")).read().splitlines()
        rev = open(os.path.join(core.VERIF, "known", "arith_sites_reviewed.txt")).read().splitlines()
        new = [l for l in cur if l not in rev]
        rep.oblige("arithmetic / cast / unwrap sites match the reviewed inventory (known/arith_sites_reviewed.txt)", not new,
                   "; ".join(new[:5]))
        if new:
            rep.violation("source has arithmetic, cast or unwrap sites that were not reviewed: " + " | ".join(new[:6]),
                          {"property": "C01", "relation": "site inventory", "new_sites": new}, found_input=False)
        sweep = list(self.sweeps(rng))
        hostile = list(self.hostile(rng))
        streams = []
        # exhaustive sweeps, both paths, as streams of 2000 lines each followed by a sentinel
        for u, r in gen.ALL_CFGS if tier == "thorough" else ((False, False), (True, True)):
            for lo in range(0, len(sweep), 2000):
                streams.append((dict(use_update=u, relaxed=r), [l.encode() for l in sweep[lo:lo + 2000]]))
        # every hostile line once, in order, on both paths
        streams.append((dict(use_update=False, relaxed=False), list(hostile)))
        streams.append((dict(use_update=True, relaxed=True, count=True), list(hostile)))
        # hostile lines interleaved with histories
        for k in range(30 if tier == "quick" else 600):
            lines = []
            for _ in range(rng.randrange(5, 60)):
                lines.append(rng.choice(hostile) if rng.random() < 0.4 else gen.rand_frame(rng, rng.choice(gen.FORMATS), 0x200 + rng.randrange(3)).encode())
            opts = dict(use_update=bool(k & 1), relaxed=bool(k & 2), count=bool(k & 4), filter=rng.choice([None, [17], [4, 5, 11], [0, 16, 20, 21]]),
                        delete_after=rng.choice([0, 1, 60, -5]), groups=rng.choice(["", "aAews", "Q", "we", "xyz"]),
                        order=rng.choice(["", "sA", "aAcCdDNSWEsVv", "zz"]), update=rng.choice([-1, 0, 3, 10 ** 15, -10 ** 15]),
                        show=int(k % 3 == 0), elog=int(k % 4 == 1), dlog=int(k % 5 == 2), logm=rng.choice(["-", "17", "4,5,11,17,20,21"]))
            streams.append((opts, lines))
        # crowded screens: 24-40 aircraft, some with a decoded position (and so a distance, a track ..), some heard by a call sign
        # or an altitude only, the table printed after every frame under each ordering key - sorting, formatting and the
        # observer distance of a long, mixed table must not trap either (library sorts switch algorithm above 20 elements)
        from fractions import Fraction
        for k, order in enumerate(["d", "D", "W", "E", "N", "S", "a", "A", "v", "V", "c", "s", "aAcCdDNSWEsVv", "Dd", "x"]):
            if tier == "quick" and k % 2 == 1 and order not in ("D",):
                continue
            lines = []
            n = rng.randrange(24, 41)
            for a in range(n):
                addr = 0x4C0000 + rng.randrange(1 << 12) * 16 + a % 16
                kind = rng.randrange(3)
                if kind == 0:
                    la = Fraction(rng.randrange(-8000, 8000), 100); lo = Fraction(rng.randrange(-17900, 17900), 100)
                    for odd in (0, 1):
                        yz, xz = F.cpr_encode(la, lo, odd)
                        lines.append(F.df17(5, addr, F.me_airpos(11, 0, 0, F.ac12_q1(rng.randrange(40, 1800)), 0, odd, yz, xz)).encode())
                elif kind == 1:
                    lines.append(gen.rand_frame(rng, rng.choice(["tc4", "tc19.1", "df4"]), addr).encode())
                else:
                    lines.append(gen.rand_frame(rng, rng.choice(["df11", "df5", "tc31"]), addr).encode())
            rng.shuffle(lines)
            streams.append((dict(use_update=bool(k & 1), show=1, update=-1, order=order, groups=rng.choice(["aAews", "", "e"]), delete_after=600,
                                 observer=rng.choice([None, "52.0,4.0"])), lines))
        sentinel_addr = 0xABC000
        for si, (opts, lines) in enumerate(streams):
            sent = F.df11(5, sentinel_addr + si % 4096, 0)
            opts2 = dict(opts)
            if opts2.get("filter"):
                opts2["filter"] = list(opts2["filter"]) + [11]
            if opts2.get("delete_after", 60) <= 0:
                opts2["delete_after"] = 60
            ops = ["reset", gen.cfg_op(**opts2), "case 0"] + gen.seg(list(lines) + [sent.encode()]) + ["dump"]
            impl, so, model = run.execute(ops, model=driver_ok and len(lines) < 500)
            rep.evaluations += len(lines) + 1; rep.traces += 1
            bad = [l for l in impl if l.startswith(("PANIC", "ABORT")) or (l.startswith("seg ") and not l.endswith(" ok"))]
            if bad:
                rep.panics += 1
                # shrink to a single offending line if possible
                cur_lines = list(lines)
                while len(cur_lines) > 1:
                    half = cur_lines[: len(cur_lines) // 2]
                    i2, _, _ = run.execute(["reset", gen.cfg_op(**opts2)] + gen.seg(half), model=False)
                    if [l for l in i2 if l.startswith(("PANIC", "ABORT"))]:
                        cur_lines = half
                    else:
                        rest = cur_lines[len(cur_lines) // 2:]
                        i3, _, _ = run.execute(["reset", gen.cfg_op(**opts2)] + gen.seg(rest), model=False)
                        if [l for l in i3 if l.startswith(("PANIC", "ABORT"))]:
                            cur_lines = rest
                        else:
                            break
                self.fail(rep, f"the reader thread panicked: {bad[0][:200]}",
                          {"ops": ["reset", gen.cfg_op(**opts2)] + gen.seg(cur_lines) + ["dump"], "panic": bad[0], "options": opts2})
                return
            if len(lines) < 500:
                self.corr(rep, impl, model, {"stream": si})
            rows = gen.parse_dump(impl)
            if sentinel_addr + si % 4096 not in rows:
                self.fail(rep, "the well-formed last line of a stream with hostile lines was not processed",
                          {"ops": ops[:200], "options": opts2})
                return
            if any(l in hostile for l in lines):
                rep.nontriv(si)
        rep.exhaustive.append("all 8192 AC13 codes (DF4), all 4096 AC12 codes (TC 9..18), all 1024 vertical-rate/velocity code points through the reader with overflow checks")
        rep.sample({"hostile_examples": [h[:24].hex() for h in hostile[60:66]], "streams": len(streams)})
        # the built CLI: exit status 0 on files, for option sets
        cli = build_cli(False)
        clis = [cli] + ([build_cli(True)] if tier == "thorough" else [])
        tmp = os.path.join(run.dir, "cli-input.txt")
        with open(tmp, "wb") as f:
            for l in hostile[:80] + [x.encode() for x in sweep[:3000:7]] + [F.df11(5, 0xABCDEF, 0).encode()]:
                f.write(l + b"\n")
        combos = [[], ["-U"], ["-R", "-U", "-c"], ["-f", "17", "-f", "4"], ["-i", "Q"], ["-i", "aAews", "-o", "NWdD"], ["-d", "0"], ["-u=-1"],
                  ["-u=9223372036854775807"], ["-u=-9223372036854775808"], ["-d=-9223372036854775808"], ["-O", "garbage"], ["-O", " 52.1 , -8.2 "]]
        for exe in clis:
            for c in combos:
                p = subprocess.run([exe, "-s", tmp] + c, stdout=subprocess.DEVNULL, stderr=subprocess.PIPE, timeout=300)
                rep.evaluations += 1
                if p.returncode != 0:
                    rep.panics += 1
                    self.fail(rep, f"the CLI exited with status {p.returncode} under {c}: {p.stderr.decode(errors='replace')[-300:]}",
                              {"ops": [], "cli_args": c, "input_file_lines_hex": [l.hex() for l in hostile[:80]][:40], "stderr": p.stderr.decode(errors="replace")[-500:]})
                    return
                rep.nontriv(("cli", os.path.basename(os.path.dirname(exe)), tuple(c)))
        # the bundled recordings
        for fn in sorted(os.listdir(os.path.join(core.REPO, "rec"))):
            p = subprocess.run([cli, "-s", os.path.join(core.REPO, "rec", fn), "-i", "Q"], stdout=subprocess.DEVNULL, stderr=subprocess.PIPE, timeout=600)
            rep.evaluations += 1
            if p.returncode != 0:
                rep.panics += 1
                self.fail(rep, f"the CLI exited with status {p.returncode} on rec/{fn}: {p.stderr.decode(errors='replace')[-300:]}",
                          {"ops": [], "cli_args": ["-s", "rec/" + fn, "-i", "Q"]})
                return

    def judge_replay(self, rep, obj, impl, so, model):
        if [l for l in impl if l.startswith(("PANIC", "ABORT"))]:
            self.fail(rep, "replayed: the reader still panics", obj)

PROP = C01()
