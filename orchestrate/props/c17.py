"""C17 — registration country follows the ICAO address allocation for all 2^24 addresses."""
import core, gen, frames as F
from props.base import PropBase

class C17(PropBase):
    id = "C17"
    shown_columns = ('RG',)
    corr_fields = ['reg']
    lean_modules = ["SqModel.Props.C17"]
    extractors = ["country"]
    rule = ("all 16,777,216 addresses: row.reg of a row created for the address (Plane::from_downlink), run-length encoded, "
            "against the model's nested match over the extracted arms and against the frozen allocation table; plus rows "
            "created through the reader for block edges, and rows that went through histories of every format with silences around delete_after (0, 1, 5 s). Every address is a case; non-trivial = inside a block; "
            "distinct_nontrivial counts run-length segments (blocks), not addresses.")
    assumptions = ["Spec/Annex10.lean is the allocation table of the edition the repository cites; Malta's block width could not be confirmed offline"]

    def explore(self, rep, run, rng, tier, driver_ok):
        impl, _, model = run.execute(["sweep country"], model=driver_ok)
        rep.evaluations += 1 << 24
        rep.traces += 1
        ic = [l for l in impl if l.startswith("country ")]
        mc = [l for l in model if l.startswith("country ")]
        sc = [l.replace("spec-country", "country") for l in model if l.startswith("spec-country ")]
        self.panics(rep, impl, "sweep")
        def first_diff(a, b):
            for x, y in zip(a, b):
                if x != y:
                    return x, y
            return (a[len(b)] if len(a) > len(b) else None, b[len(a)] if len(b) > len(a) else None)
        if driver_ok and ic != mc:
            x, y = first_diff(ic, mc)
            rep.model_disagreements += 1
            rep.violation(f"model and implementation disagree on the country of an address range: impl {x} / model {y}",
                          {"property": "C17", "relation": "correspondence sweep country", "impl": x, "model": y, "ops": ["sweep country"]},
                          found_input=False)
        if driver_ok and ic != sc:
            x, y = first_diff(ic, sc)
            # the first address of the first differing segment is a concrete failing input
            addr = None
            for seg in (x, y):
                if seg:
                    lo = int(seg.split()[1])
                    addr = lo if addr is None else max(addr, lo)
            self.fail(rep, f"address {addr:06X}: implementation shows {x}, the allocation table says {y}",
                      {"ops": ["reset"] + gen.seg([F.df11(5, addr, 0)]) + ["dump"], "address": addr, "impl_segment": x, "spec_segment": y})
            return
        for l in ic:
            if not l.endswith(" ??"):
                rep.nontriv(l)
        rep.exhaustive.append("all 2^24 addresses through Plane::from_downlink")
        rep.sample(ic[:3] + ic[-2:])
        # through the reader: first / last address of every block and its neighbours
        addrs = set()
        for l in ic:
            _, lo, hi, _ = l.split()
            for a in (int(lo), int(hi)):
                if 0 < a < (1 << 24):
                    addrs.add(a)
        addrs = sorted(addrs)
        ops = ["reset", gen.cfg_op(delete_after=600, groups="e"), "case 0"] + gen.seg([F.df11(5, a, 0) for a in addrs]) + ["dump", "render"]
        impl, so_edges, model = run.execute(ops, model=driver_ok)
        rep.evaluations += len(addrs); rep.traces += 1
        self.corr(rep, impl, model, "rows created through the reader at block edges")
        rows = gen.parse_dump(impl)
        seg_of = {}
        for l in sc if driver_ok else ic:
            _, lo, hi, c = l.split()
            seg_of[(int(lo), int(hi))] = c
        for a in addrs:
            want = next(c for (lo, hi), c in seg_of.items() if lo <= a <= hi)
            got = rows.get(a, {}).get("reg")
            if got != want:
                self.fail(rep, f"row created by the reader for {a:06X} shows {got}, the allocation table says {want}",
                          {"ops": ["reset"] + gen.seg([F.df11(5, a, 0)]) + ["dump"], "address": a, "expected": want})
                return
        # .. and what the printed table shows in the RG column of those rows: the whole code of the block (the blocks ICAO keeps for
        # itself have five-character codes), left-aligned behind the address
        from props import render_common as RC
        blocks = RC.renders(so_edges)
        if not blocks:
            raise core.Broken("render markers missing in the implementation's stdout", so_edges[-200:])
        shown = {}
        for t in blocks[-1][2:]:
            if len(t) >= 8 and all(c in "0123456789ABCDEF" for c in t[:6]):
                shown[int(t[:6], 16)] = t[7:].split(" ")[0]
        for a in addrs:
            want = next(c for (lo, hi), c in seg_of.items() if lo <= a <= hi)
            if shown.get(a) != want:
                self.fail(rep, f"the printed row of {a:06X} shows country {shown.get(a)!r}, the allocation table says {want!r}",
                          {"ops": ["reset", gen.cfg_op(groups="e")] + gen.seg([F.df11(5, a, 0)]) + ["dump", "render"], "address": a, "expected": want})
                return
        # the code shown is a function of the address alone - whatever the row has been through: histories of every format,
        # silences on both sides of delete_after with few frames in between (a row may outlive its expiry until the next
        # sweep), retention periods 0 / 1 / 5 s, -U on and off; after every segment every row carries its block's code
        def want_of(a):
            return next(c for (lo, hi), c in seg_of.items() if lo <= a <= hi)
        pool = [a for a in addrs if want_of(a) != "??"]
        for h in range(24 if tier == "quick" else 400):
            da = [0, 1, 5, 5][h % 4]
            u = bool(h % 2)
            mine = rng.sample(pool, 3) + [rng.randrange(1, 1 << 24)]
            ops = ["reset", gen.cfg_op(use_update=u, relaxed=bool(h % 3 == 0), delete_after=da)]
            nseg = rng.randrange(3, 8)
            for si in range(nseg):
                lines = [gen.rand_frame(rng, rng.choice(gen.FORMATS), rng.choice(mine)) for _ in range(rng.randrange(1, 9))]
                ops += [f"case h{si}"] + gen.seg(lines) + ["dump", "adv %d" % rng.choice([500, da * 1000 + 500, max(da * 1000 - 500, 500), 3 * da * 1000 + 1500])]
            impl, _, model = run.execute(ops, model=driver_ok)
            rep.evaluations += nseg; rep.traces += 1
            self.corr(rep, impl, model, {"history": h, "delete_after": da, "use_update": u}, ops)
            ci = core.split_cases(impl)
            for si in range(nseg):
                for a, r in gen.parse_dump(ci.get(f"h{si}", [])).items():
                    if r.get("reg") != want_of(a):
                        self.fail(rep, f"after a history with silences (delete_after {da}) the row of {a:06X} shows country {r.get('reg')!r}, the allocation table says {want_of(a)!r}",
                                  {"ops": ops, "address": a, "expected": want_of(a), "segment": si})
                        return
            rep.nontriv(("history", h))

PROP = C17()
