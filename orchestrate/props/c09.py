"""C09 — ground speed, track and vertical rate follow the TC19 velocity encoding."""
import math
from decimal import Decimal, getcontext
import core, gen, frames as F
from props.base import PropBase

getcontext().prec = 60
PI = Decimal("3.14159265358979323846264338327950288419716939937510582097494")

def _atan(x):
    """arctan of a Decimal, |x| arbitrary, 50+ digits"""
    if x < 0:
        return -_atan(-x)
    if x > 1:
        return PI / 2 - _atan(1 / x)
    k = 0
    while x > Decimal("0.05"):
        x = x / (1 + (1 + x * x).sqrt()); k += 1
    term, s, n, x2 = x, x, 1, x * x
    while abs(term) > Decimal(10) ** -58:
        term = -term * x2; n += 2; s += term / n
    return s * (2 ** k)

def track_exact(x, y):
    """floor(atan2(x, y) in degrees) mod 360 for integers (x east, y north), exactly"""
    if x == 0 and y == 0:
        return 0
    if x == 0:
        return 0 if y > 0 else 180
    if y == 0:
        return 90 if x > 0 else 270
    if abs(x) == abs(y):
        return {(1, 1): 45, (1, -1): 135, (-1, -1): 225, (-1, 1): 315}[(x > 0) - (x < 0), (y > 0) - (y < 0)]
    a = _atan(Decimal(abs(x)) / Decimal(abs(y))) * 180 / PI       # 0 < a < 90, never an integer here
    if x > 0 and y > 0: deg = a
    elif x > 0 and y < 0: deg = 180 - a
    elif x < 0 and y < 0: deg = 180 + a
    else: deg = 360 - a
    return int(deg.to_integral_value(rounding="ROUND_FLOOR")) % 360

def same(got, want):
    return all(w == "*" and g not in ("-", None) or g == w for g, w in zip(got, want))

class C09(PropBase):
    id = "C09"
    shown_columns = ('GSP', 'TRK', 'VRATE')
    corr_fields = ['gs', 'track', 'vrate', 'vrs', 'trs']
    lean_modules = ["SqModel.Props.C09", "SqModel.Proofs.Bridge", "SqModel.Proofs.BridgePlane"]
    extractors = ["trans"]
    rule = ("TC19 subtype 1/2 squitters over a stratified grid of east/north sign+magnitude fields (all boundaries 0,1,2,1022,1023, "
            "the exact 45-degree directions, every pair of magnitudes whose track is within 2e-4 degrees of a whole degree (sweep over all 1022x1022), random), all 2x512 vertical-rate codes, random other bits; DF::from_message and the "
            "row after the frame (creating / after a DF11 / after another velocity squitter with different values / right after an accepted BDS 5,0 reply, -U/-R on/off). Expected values: exact integer square root and an exact "
            "(60-digit) floor(atan2) computed here, and the Lean spec line. Non-trivial = both components present; distinct by frame.")
    assumptions = ["f64 sqrt/atan2/to_degrees are modelled: the model takes atan2deg as a parameter; the implementation's track is "
                   "compared with a 60-digit evaluation on every generated frame"]

    def fields(self, rng, n):
        edge = [0, 1, 2, 3, 511, 512, 1022, 1023]
        out = []
        for few in edge:
            for fns in edge:
                for dew in (0, 1):
                    for dns in (0, 1):
                        out.append((dew, few, dns, fns))
        for k in list(range(1, 1024, 37)) + [2, 1023]:
            for dew in (0, 1):
                for dns in (0, 1):
                    out.append((dew, k, dns, k))          # |vew| = |vns|
                    out.append((dew, 1, dns, k))          # vew = 0
                    out.append((dew, k, dns, 1))          # vns = 0
        # directions that are numerically delicate: component pairs whose exact track lies within 2e-4 degrees of a whole
        # degree without being one - where a shorter float type, another atan2 or another rounding puts the floor on the
        # neighbouring degree (about 400 pairs per quadrant, found by a sweep over all 1022 x 1022 magnitudes)
        import math
        near = []
        for x in range(1, 1023):
            for y in range(1, 1023):
                if x == y:
                    continue
                d = math.degrees(math.atan2(x, y))
                f = abs(d - round(d))
                if f < 2e-4:
                    near.append((x, y))
        for (x, y) in near:
            for dew in (0, 1):
                for dns in (0, 1):
                    out.append((dew, x + 1, dns, y + 1))
        while len(out) < n:
            out.append((rng.randrange(2), rng.randrange(1024), rng.randrange(2), rng.randrange(1024)))
        return out

    def explore(self, rep, run, rng, tier, driver_ok):
        fl = self.fields(rng, 20000 if tier == "quick" else 400000)
        frames, exp = [], []
        # every third pair of consecutive squitters carries the same velocity bits under the two subtypes (and other
        # vertical-rate bits): nothing of one frame's decoding may leak into the next
        for i in range(1, len(fl), 2):
            if (i // 2) % 3 == 0:
                fl[i] = fl[i - 1]
        for i, (dew, few, dns, fns) in enumerate(fl):
            st = 1 + (i % 2)
            svr, fvr = (i // 2) % 2, (i // 4) % 512
            f = F.df17(rng.randrange(8), 0x700000 + (i % 4096), F.me_velocity(st, rng.randrange(2), rng.randrange(2), rng.randrange(8),
                                                                               dew, few, dns, fns, rng.randrange(2), svr, fvr, rng.randrange(2), rng.randrange(128)))
            frames.append(f)
            if few == 0 or fns == 0:
                tg = ("-", "-")
            else:
                x = -(few - 1) if dew else few - 1
                y = -(fns - 1) if dns else fns - 1
                # a zero vector has no direction: the track is then unconstrained ("*")
                tg = ("*" if x == 0 and y == 0 else str(track_exact(x, y)), str(math.isqrt(x * x + y * y) * (4 if st == 2 else 1)))
            vr = "-" if fvr == 0 else str((-1 if svr else 1) * 64 * (fvr - 1))
            exp.append((tg[0], tg[1], vr))
        for lo in range(0, len(frames), 50000):
            chunk = frames[lo:lo + 50000]
            impl, _, model = run.execute(["reset", "case 0"] + ["q frame " + f for f in chunk], model=driver_ok)
            rep.evaluations += len(chunk); rep.traces += 1
            self.corr(rep, impl, model, "q frame on TC19 squitters")
            il = [l for l in impl if l.startswith("frame")]
            sl = [l for l in model if l.startswith("spec ")]
            for k, (f, l) in enumerate(zip(chunk, il)):
                d = core.kvs(l)
                got = (d.get("track"), d.get("gs"), d.get("vrate"))
                if not same(got, exp[lo + k]):
                    self.fail(rep, f"velocity squitter {f}: decoder gives track/gs/vrate {got}, the encoding says {exp[lo+k]} (fields {fl[lo+k]})",
                              {"ops": ["q frame " + f], "frame": f, "expected": list(exp[lo + k]), "impl": list(got)})
                    return
                if driver_ok and k < len(sl):
                    s = core.kvs(sl[k])
                    if not same((s.get("track"), s.get("gs"), s.get("vrate")), exp[lo + k]):
                        raise core.Broken("Lean velocitySpec (with libm atan2) disagrees with the exact evaluation", f + " " + sl[k])
                if exp[lo + k][0] != "-":
                    rep.nontriv(f)
        rep.sample({"frame": frames[300], "fields(dew,few,dns,fns)": fl[300], "expected(track,gs,vrate)": exp[300]})
        # the row: creating frame and later frame, both paths
        sub = list(range(0, len(frames), max(1, len(frames) // (3000 if tier == "quick" else 40000))))
        for (u, r) in gen.ALL_CFGS:
            for first in (False, True, "tc19", "bds50"):
                addrs = [0x710000 + j for j in range(len(sub))]
                fs = []
                for j, i in enumerate(sub):
                    f = frames[i]
                    me = int(f[8:22], 16)
                    # the capability field of the squitter (and of what the aircraft sent before) runs over 0..7: a velocity squitter
                    # is applied whatever the transponder level
                    fs.append(F.df17(5 if first == "bds50" else (3 * j + 1) % 8, addrs[j], me))
                ops = ["reset", gen.cfg_op(use_update=u, relaxed=r), "case 0"]
                prior = (lambda a: F.df11(a % 8, a, 0)) if not first else \
                        (lambda a: F.df17((a // 8) % 8, a, F.me_velocity(1, 0, 0, 0, 1, 301, 0, 417, 0, 1, 14, 0, 9)))
                if first == "bds50":
                    # the row has just taken ground speed and track from a Comm-B BDS 5,0 reply (capability 5, register
                    # advertised by a BDS 1,7 report): the velocity squitter that follows at once still sets its own values
                    def prior50(a):
                        return [F.df11(5, a, 0), F.df20(0, 0, 0, F.ac13_q1(1000), F.bds17({7, 9, 16, 24}), a),
                                F.df20(0, 0, 0, F.ac13_q1(1000), F.bds50(40, 256, 150, 8, 150), a)]
                    ops += gen.seg([f for a in addrs[:400] for f in prior50(a)])
                    fs, addrs_used = fs[:400], addrs[:400]
                elif first is not True:
                    ops += gen.seg([prior(a) for a in addrs])
                ops += gen.seg(fs) + ["dump"]
                impl, _, model = run.execute(ops, model=driver_ok)
                rep.evaluations += len(fs); rep.traces += 1
                ctx = {"use_update": u, "relaxed": r, "creating_frame": first}
                self.corr(rep, impl, model, ctx)
                rows = gen.parse_dump(impl)
                for j, i in enumerate(sub[:len(fs)]):
                    d = rows.get(addrs[j], {})
                    got = (d.get("track"), d.get("gs"), d.get("vrate"))
                    if first == "bds50" and (exp[i][0] == "-" or exp[i][1] == "-"):
                        continue          # a squitter without velocity information may leave the Comm-B values
                    if not same(got, exp[i]):
                        self.fail(rep, f"row after velocity squitter {fs[j]} shows track/gs/vrate {got}, expected {exp[i]} ({ctx})",
                                  {"ops": ["reset", gen.cfg_op(use_update=u, relaxed=r)] + ([] if first is True else gen.seg(prior50(addrs[j]) if first == "bds50" else [prior(addrs[j])]))
                                   + gen.seg([fs[j]]) + ["dump"], "frame": fs[j], "expected": list(exp[i]), "address": addrs[j], "context": ctx})
                        return
                    rep.nontriv((fs[j], u, r, first))

    def judge_replay(self, rep, obj, impl, so, model):
        super().judge_replay(rep, obj, impl, so, model)
        if "expected" in obj and "address" in obj:
            d = gen.parse_dump(impl).get(obj["address"], {})
            got = [d.get("track"), d.get("gs"), d.get("vrate")]
            if not same(got, obj["expected"]):
                self.fail(rep, f"replayed: row shows {got}, expected {obj['expected']}", obj)

PROP = C09()
