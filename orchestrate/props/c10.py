"""C10 — Comm-B data are shown only when valid, advertised and correctly decoded."""
from fractions import Fraction
import math
import core, gen, frames as F
from props.base import PropBase

def bits(mb, a, b):
    """MB bits a..b (1-based, MSB first) of a 56-bit MB field"""
    return (mb >> (56 - b)) & ((1 << (b - a + 1)) - 1)

def twos(sign, value, n):
    return value - (1 << n) if sign else value

# --- Doc 9871 register rules, written from the layouts (independent of the code) ---------------------
def is17(mb):
    return bits(mb, 7, 7) == 1 and bits(mb, 29, 56) == 0

def valid40(mb):
    return bits(mb, 1, 1) == 1 and bits(mb, 14, 14) == 1 and bits(mb, 27, 27) == 1 and bits(mb, 40, 47) == 0 and bits(mb, 52, 53) == 0

def nonzero40(mb):
    return bits(mb, 2, 13) != 0 and bits(mb, 15, 26) != 0 and bits(mb, 28, 39) != 0

def dec40(mb):
    return {"selalt": Fraction(16 * bits(mb, 2, 13)), "baro": Fraction(bits(mb, 28, 39), 10) + 800}

def valid50(mb):
    return all(bits(mb, k, k) == 1 for k in (1, 12, 24, 35, 46))

def nonzero50(mb):
    # a signed field is sign + magnitude: the sign bit alone (the most negative value) is a non-zero field
    return bits(mb, 2, 11) != 0 and bits(mb, 13, 23) != 0 and bits(mb, 25, 34) != 0 and bits(mb, 36, 45) != 0 and bits(mb, 47, 56) != 0

def dec50(mb):
    trk = Fraction(90 * twos(bits(mb, 13, 13), bits(mb, 14, 23), 10), 512)
    return {"roll": Fraction(45 * twos(bits(mb, 2, 2), bits(mb, 3, 11), 9), 256), "track": trk + (360 if trk < 0 else 0),
            "gs": Fraction(2 * bits(mb, 25, 34)), "tar": Fraction(8 * twos(bits(mb, 36, 36), bits(mb, 37, 45), 9), 256),
            "tas": Fraction(2 * bits(mb, 47, 56))}

def plausible50(d):
    return abs(d["roll"]) <= 50 and d["gs"] <= 600 and d["tas"] <= 500 and abs(d["gs"] - d["tas"]) < 200

def borderline50(d):
    """the roll angle is the one BDS 5,0 value that is not a whole number (45/256 degree steps): between 50 and 51 degrees
    "|roll| <= 50" holds of the shown (truncated) value and not of the exact one - the statement does not say which, so such a
    register is neither required to be taken as BDS 5,0 nor required to be left to a later register"""
    return not plausible50(d) and plausible50(dict(d, roll=int(d["roll"])))

def valid60(mb):
    return all(bits(mb, k, k) == 1 for k in (1, 13, 24, 35, 46))

def nonzero60(mb):
    return bits(mb, 2, 12) != 0 and bits(mb, 14, 23) != 0 and bits(mb, 25, 34) != 0 and bits(mb, 36, 45) != 0 and bits(mb, 47, 56) != 0

def dec60(mb):
    h = Fraction(90 * twos(bits(mb, 2, 2), bits(mb, 3, 12), 10), 512)
    return {"hdg": h + (360 if h < 0 else 0), "ias": Fraction(bits(mb, 14, 23)), "mach": Fraction(bits(mb, 25, 34)),
            "vrate": Fraction(32 * twos(bits(mb, 36, 36), bits(mb, 37, 45), 9)), "ivv": Fraction(32 * twos(bits(mb, 47, 47), bits(mb, 48, 56), 9))}

def plausible60(d):
    return d["mach"] <= 250 and abs(d["vrate"]) <= 6000 and abs(d["ivv"]) <= 6000

def shown_ok(shown, exact):
    """'integers truncated', read weakly: within one unit of the exact value, equal when it is an integer"""
    if shown in (None, "-"):
        return False
    v = int(shown)
    return abs(v - exact) < 1 and (exact.denominator != 1 or v == exact)

EHS = ["selalt", "baro", "roll", "track", "tar", "gs", "tas", "hdg", "ias", "mach", "vrate", "ais", "threat", "cap1"]

class C10(PropBase):
    id = "C10"
    shown_columns = ('CALLSIGN', 'ALT S', 'BARO', 'RLL', 'TAR', 'TAS', 'IAS', 'HDG', 'MACH', 'TRK', 'GSP', 'VRATE')
    corr_fields = ['ais', 'threat', 'selalt', 'baro', 'tasrc', 'roll', 'track', 'tar', 'gs', 'tas', 'hdg', 'ias', 'mach', 'vrate', 'cap0', 'cap1', 'b50age', 'trs', 'vrs', 'hds', 'turn']
    lean_modules = ["SqModel.Props.C10", "SqModel.Props.C10b", "SqModel.Proofs.Dispatch", "SqModel.Proofs.Bridge", "SqModel.Proofs.BridgeRat", "SqModel.Proofs.BridgePlane"]
    extractors = ["dispatch", "trans"]
    rule = ("histories per aircraft (with DF18 frames of the same address and DF17 squitters announcing a capability in between; three in eight of them begin with a data reply, so that a Comm-B frame creates the row) of DF11 (CA 0..7), BDS 1,7 reports advertising random subsets of 4,0/5,0/6,0, and data "
            "replies (DF20 and DF21) whose MB is a BDS 4,0 / 5,0 / 6,0 register generated from physical values over the full "
            "range and both signs, every plausibility boundary +-1 LSB, registers with one status bit cleared / a reserved bit "
            "set / a zero field, and random MB fields; -R and -U on/off. After each reply the 14 Comm-B-derived row fields are "
            "compared with the Doc 9871 decoding written independently in this check (soundness: a change must be the decoding "
            "of a valid, advertised register; completeness: a valid, plausible, advertised register not matching an earlier one "
            "must be decoded) and with the model. Non-trivial = reply that changes at least one field; distinct by (reply, gate state).")
    assumptions = ["the register layouts and the weak reading of 'integers truncated' (DESIGN 5.10)"]

    def mbs(self, rng):
        r = rng.randrange
        out = []
        for _ in range(6):
            out.append(("50", F.bds50(r(-284, 285), r(-1024, 1024), r(1, 301), r(-512, 512), r(1, 251))))
            out.append(("60", F.bds60(r(-1024, 1024), r(1, 1024), r(1, 251), r(-187, 188), r(-187, 188))))
            out.append(("40", F.bds40(r(1, 4096), r(1, 4096), r(1, 4096), r(16), r(2), r(4))))
        # boundaries of the plausibility limits (+-1 LSB)
        for roll in (284, 285, 286, -284, -285, -286):
            out.append(("50", F.bds50(roll, r(-1024, 1024), 200, r(-512, 512), 190)))
        for gs, tas in ((300, 250), (301, 250), (300, 251), (299, 200), (300, 200), (150, 250), (151, 250), (1, 100), (1, 101)):
            out.append(("50", F.bds50(10, 10, gs, 10, tas)))
        for mach in (249, 250, 251):
            out.append(("60", F.bds60(100, 250, mach, 10, 10)))
        for rate in (187, 188, -187, -188, 511, -512):
            out.append(("60", F.bds60(100, 250, 180, rate, 10)))
            out.append(("60", F.bds60(100, 250, 180, 10, rate)))
        # sign bit set with an all-zero magnitude: the most negative value of each signed field (true track / heading 180 deg)
        out.append(("50", F.bds50(10, -1024, 200, 10, 190)))
        out.append(("50", F.bds50(-512, 100, 200, 10, 190)))
        out.append(("50", F.bds50(10, 100, 200, -512, 190)))
        out.append(("60", F.bds60(-1024, 250, 180, 10, 10)))
        out.append(("60", F.bds60(100, 250, 180, -512, 10)))
        out.append(("60", F.bds60(100, 250, 180, 10, -512)))
        # invalid variants: a status bit cleared, a reserved bit set, a zero value field
        good50 = F.bds50(-100, -500, 200, -40, 190)
        good60 = F.bds60(-300, 250, 180, -60, -58)
        good40 = F.bds40(2000, 2000, 2132, 0, 1, 1)
        for k in (1, 12, 24, 35, 46):
            out.append(("50x", good50 & ~(1 << (56 - k))))
        for k in (1, 13, 24, 35, 46):
            out.append(("60x", good60 & ~(1 << (56 - k))))
        for k in (1, 14, 27):
            out.append(("40x", good40 & ~(1 << (56 - k))))
        for k in (40, 47, 52, 53):
            out.append(("40x", good40 | (1 << (56 - k))))
        out.append(("50x", F.bds50(-100, -500, 0, -40, 190)))
        out.append(("60x", F.bds60(-300, 0, 180, -60, -58)))
        out.append(("60", F.bds60(-300, 250, 180, 0, -58)))      # baro rate field 0: falls back to the inertial rate
        for _ in range(6):
            out.append(("rand", r(1 << 56)))
        out.append(("20", F.bds20(F.callsign_codes("CSN123"))))
        out.append(("30", F.bds30(1, 1)))
        return out

    def explore(self, rep, run, rng, tier, driver_ok):
        ncase = 40 if tier == "quick" else 800
        for c in range(ncase):
            relaxed, u = bool(c & 1), bool(c & 2)
            a = 0x4B0000 + c
            ops = ["reset", gen.cfg_op(relaxed=relaxed, use_update=u, delete_after=600)]
            seq = []      # (kind, frame, mb)
            ca = rng.randrange(8)
            # every fourth history starts with a data reply: the row is created by a Comm-B frame, no capability recorded yet
            creating = (c % 4 == 3) or (c % 8 == 0)
            if not creating:
                seq.append(("ca", F.df11(ca, a, 0), ca))
            mbs = self.mbs(rng)
            rng.shuffle(mbs)
            if creating:
                # put a register that would decode under an open gate first (a callsign, or a valid 5,0 / 6,0 / 4,0)
                k0 = next(i for i, (kd, _) in enumerate(mbs) if kd == ("20", "50", "60", "40", "30")[(c // 4) % 5])
                mbs.insert(0, mbs.pop(k0))
            adv = rng.sample([9, 16, 24], rng.randrange(0, 4))
            insert17 = rng.randrange(1 if creating else 0, len(mbs) // 2)
            for i, (kind, mb) in enumerate(mbs):
                if i == insert17:
                    m17 = F.bds17({7} | set(adv))
                    seq.append(("17", F.df20(0, 0, 0, F.ac13_q1(500), m17, a), m17))
                if i == len(mbs) * 3 // 4:
                    ca2 = rng.randrange(8)
                    seq.append(("ca", F.df11(ca2, a, 0), ca2))
                if rng.random() < 0.25:
                    # a DF18 frame (non-transponder ADS-B / TIS-B) with the same 24-bit address: its CF field sits where a DF17 has
                    # CA, but it is not a transponder capability and must neither open nor close the Comm-B gate
                    seq.append(("df18", F.df17(rng.randrange(8), a, F.me_raw(rng.choice([0, 23, 24, 25, 26, 27, 30]), rng.randrange(1 << 51)), df=18), None))
                elif rng.random() < 0.1:
                    ca3 = rng.randrange(8)        # an extended squitter announces the capability too
                    seq.append(("ca", F.df17(ca3, a, F.me_raw(rng.choice([0, 23, 24, 25, 26, 27, 30]), rng.randrange(1 << 51))), ca3))
                fr = F.df20(0, 0, 0, F.ac13_q1(500), mb, a) if rng.random() < 0.5 else F.df21(0, 0, 0, 0o1234, mb, a)
                seq.append((kind, fr, mb))
            # a reference row created by a DF11: its Comm-B fields are the blank state
            ops += ["case blank"] + gen.seg([F.df11(0, a ^ 0x8000, 0)]) + ["dump"]
            for i, (kind, fr, mb) in enumerate(seq):
                ops += [f"case {i}"] + gen.seg([fr]) + ["dump"]
            impl, _, model = run.execute(ops, model=driver_ok)
            rep.evaluations += len(seq); rep.traces += 1
            self.corr(rep, impl, model, {"history": c, "relaxed": relaxed, "use_update": u}, ops)
            ci = core.split_cases(impl)
            cap = None
            adv_now = set()
            prev = None
            if creating:
                prev = gen.parse_dump(ci.get("blank", [])).get(a ^ 0x8000)
            for i, (kind, fr, mb) in enumerate(seq):
                rows = gen.parse_dump(ci.get(str(i), []))
                row = rows.get(a)
                if row is None:
                    self.fail(rep, "row missing", {"ops": ops})
                    return
                if creating and i == 0 and relaxed:
                    prev = row            # with -R the creating reply may or may not be decoded (it may contribute the address only)
                    continue
                if kind == "ca":
                    cap = mb
                    prev = row
                    continue
                if kind == "df18":
                    changed = [k for k in EHS if prev is not None and row.get(k) != prev.get(k)]
                    if changed:
                        self.fail(rep, f"DF18 frame {fr} changed the Comm-B fields {changed}",
                                  {"ops": ["reset", gen.cfg_op(relaxed=relaxed, use_update=u, delete_after=600)] + sum([gen.seg([f]) for _, f, _ in seq[:i + 1]], []) + ["dump"]})
                        return
                    prev = row
                    continue
                outer = relaxed or (cap is not None and cap >= 4)
                changed = [k for k in EHS if prev is not None and row.get(k) != prev.get(k)]
                replay = {"ops": ["reset", gen.cfg_op(relaxed=relaxed, use_update=u, delete_after=600)] + sum([gen.seg([f]) for _, f, _ in seq[:i + 1]], []) + ["dump"],
                          "reply": fr, "mb": "%014X" % mb, "capability": cap, "advertised": sorted(adv_now), "relaxed": relaxed}
                if not outer and changed:
                    self.fail(rep, f"Comm-B fields {changed} changed although capability is {cap} and -R is off", replay)
                    return
                # which register should decode, by the fixed precedence
                coded = (mb >> 48) in (0x10, 0x20, 0x30)
                expect = None
                if outer and not coded:
                    if is17(mb):
                        expect = "17"
                    elif (relaxed or 9 in adv_now) and valid40(mb) and nonzero40(mb):
                        expect = "40"
                    elif (relaxed or 16 in adv_now) and valid50(mb) and nonzero50(mb) and plausible50(dec50(mb)):
                        expect = "50"
                    elif (relaxed or 16 in adv_now) and valid50(mb) and nonzero50(mb) and borderline50(dec50(mb)):
                        expect = None
                    elif (relaxed or 24 in adv_now) and valid60(mb) and nonzero60(mb) and plausible60(dec60(mb)):
                        expect = "60"
                # soundness of whatever changed
                for k in changed:
                    if k in ("selalt", "baro"):
                        ok = (relaxed or 9 in adv_now) and valid40(mb) and (row[k] == "-" or shown_ok(row[k], dec40(mb)[k]))
                    elif k in ("roll", "tar", "tas"):
                        ok = (relaxed or 16 in adv_now) and valid50(mb) and shown_ok(row[k], dec50(mb)[k])
                    elif k in ("hdg", "ias", "mach"):
                        ok = (relaxed or 24 in adv_now) and valid60(mb) and shown_ok(row[k], dec60(mb)[k])
                    elif k in ("track", "gs"):
                        ok = (relaxed or 16 in adv_now) and valid50(mb) and shown_ok(row[k], dec50(mb)[k])
                    elif k == "vrate":
                        d = dec60(mb)
                        ok = (relaxed or 24 in adv_now) and valid60(mb) and (shown_ok(row[k], d["vrate"]) or shown_ok(row[k], d["ivv"]))
                    elif k == "ais":
                        ok = (mb >> 48) == 0x20
                    elif k == "threat":
                        ok = (mb >> 48) == 0x30
                    elif k == "cap1":
                        ok = is17(mb) or True
                    else:
                        ok = True
                    if not ok:
                        self.fail(rep, f"{k} changed to {row[k]} by reply MB={mb:014X}: not the decoding of a valid, advertised register "
                                       f"(capability {cap}, advertised {sorted(adv_now)}, -R {relaxed})", replay)
                        return
                # completeness
                if expect == "50":
                    d = dec50(mb)
                    for k in ("roll", "track", "tar", "gs", "tas"):
                        if not shown_ok(row.get(k), d[k]):
                            self.fail(rep, f"valid, plausible, advertised BDS 5,0 reply MB={mb:014X} not decoded: {k}={row.get(k)}, register says {float(d[k]):.3f}", replay)
                            return
                if expect == "60":
                    d = dec60(mb)
                    for k in ("hdg", "ias", "mach"):
                        if not shown_ok(row.get(k), d[k]):
                            self.fail(rep, f"valid, plausible, advertised BDS 6,0 reply MB={mb:014X} not decoded: {k}={row.get(k)}, register says {float(d[k]):.3f}", replay)
                            return
                    if bits(mb, 37, 45) != 0 and not shown_ok(row.get("vrate"), d["vrate"]):
                        self.fail(rep, f"BDS 6,0 reply MB={mb:014X}: vrate={row.get('vrate')}, barometric rate says {float(d['vrate'])}", replay)
                        return
                if expect == "40":
                    d = dec40(mb)
                    if not shown_ok(row.get("selalt"), d["selalt"]) or not shown_ok(row.get("baro"), d["baro"]):
                        self.fail(rep, f"valid, advertised BDS 4,0 reply MB={mb:014X} not decoded: selalt={row.get('selalt')} baro={row.get('baro')}", replay)
                        return
                if kind == "17" and outer:
                    adv_now = set(adv)
                elif outer and not coded and is17(mb):
                    adv_now = {k for k in (9, 16, 24) if bits(mb, k, k)}
                if changed:
                    rep.nontriv((fr, cap, tuple(sorted(adv_now)), relaxed))
                rep.count("expect=" + str(expect))
                prev = row
        rep.sample({"reply": fr, "mb": "%014X" % mb, "kind": kind})

PROP = C10()
