"""C15 — every refresh lists each aircraft once, ordered by the requested key."""
import itertools
from fractions import Fraction
import core, gen, frames as F
from props.base import PropBase
from props import render_common as RC

def keyfun(letter):
    """(value function on the dumped row, direction) for the key letters of the property; None value = blank"""
    num = lambda k: (lambda r: None if r.get(k) == "-" else float(r.get(k)))
    pos = lambda k: (lambda r: None if (r.get("lat") == "0.0000000000" or r.get("lon") == "0.0000000000") else float(r.get(k)))
    cat = lambda r: tuple(int(x) for x in r.get("cat").split("/"))
    return {"s": (num("squawk"), 1), "a": (num("alt"), 1), "A": (num("alt"), -1), "v": (num("vrate"), 1), "V": (num("vrate"), -1),
            "N": (pos("lat"), 1), "S": (pos("lat"), -1), "W": (pos("lon"), 1), "E": (pos("lon"), -1), "d": (num("dist"), 1), "D": (num("dist"), -1),
            "c": (cat, 1)}.get(letter)

class C15(PropBase):
    id = "C15"
    lean_modules = ["SqModel.Props.C15"]
    rule = ("table states of 18 aircraft with ties, blanks, negative rates and positions less than a degree / a kilometre / a hundred metres apart; "
            "all -o strings of length <= 2 over the key alphabet plus junk letters (quick: every ordered pair of the property's key letters, the rest sampled); row sequence parsed from the "
            "real Planes::print output: must be a permutation of the table's key set and monotone in the last recognised key among "
            "rows whose key is known; ascending addresses when no key is recognised; compared with the model's order. Non-trivial "
            "= at least 3 rows with distinct known keys; distinct by (table, -o string).")

    def table(self, rng):
        addrs, pre, body = RC.rich_rows(rng, 10, base=0x3C0000)
        # positions within a degree / a few hundred metres of each other, equal altitudes, equal squawks
        extra = []
        for i in range(4):
            a = 0x3C9000 + i
            addrs.append(a); pre.append(F.df11(5, a, 0))
            lat = Fraction(5266, 100) + Fraction(rng.randrange(-40, 40), 1000); lon = Fraction(-862, 100) + Fraction(rng.randrange(-40, 40), 1000)
            e = F.cpr_encode(lat, lon, 0); o = F.cpr_encode(lat, lon, 1)
            ac = F.ac12_q1(1560)
            extra += [F.df17(5, a, F.me_airpos(11, 0, 0, ac, 0, 0, *e)), F.df17(5, a, F.me_airpos(11, 0, 0, ac, 0, 1, *o)),
                      F.df5(0, 0, 0, F.id13_of_squawk(7, 0, 0, 0), a)]
        # a cluster within about a hundred metres, 20 km from the observer: keys that differ only in the second decimal
        for i in range(4):
            a = 0x3C9800 + i
            addrs.append(a); pre.append(F.df11(5, a, 0))
            lat = Fraction(5284, 100) + Fraction(rng.randrange(-8, 9), 10000); lon = Fraction(-862, 100) + Fraction(rng.randrange(-8, 9), 10000)
            e = F.cpr_encode(lat, lon, 0); o = F.cpr_encode(lat, lon, 1)
            ac = F.ac12_q1(1560 + i)
            extra += [F.df17(5, a, F.me_airpos(11, 0, 0, ac, 0, 0, *e)), F.df17(5, a, F.me_airpos(11, 0, 0, ac, 0, 1, *o))]
        return addrs, pre, body + extra

    def explore(self, rep, run, rng, tier, driver_ok):
        alpha = "saAvVNSWEdDcCxz"
        orders = [""] + list(alpha) + ["".join(p) for p in itertools.product(alpha, repeat=2)]
        if tier == "quick":
            # every ordered pair of property key letters (a later letter must not inherit anything from an earlier one), some with junk
            keys = "saAvVNSWEdDc"
            orders = [""] + list(alpha) + ["".join(p) for p in itertools.product(keys, repeat=2)] + rng.sample(orders[16:], 20) + ["sAs", "DvN", "AcS"]
        # every letter and digit that is not a key, alone and in groups (in particular the other case of each key letter)
        import string
        others = [c for c in string.ascii_letters + string.digits if c not in "saAvVNSWEdDcC"]
        orders += others + ["".join(rng.sample(others, 3)) for _ in range(6)] + ["nwe", "nsew"]
        # -o given several times (a+n stands for -o a -o n): the letters of all occurrences count, in order
        orders += ["a+n", "s+w", "sA+x", "a+s", "D+v", "x+c", "N+S+a", "A+"]
        ntab = 3 if tier == "quick" else 12
        for ti in range(ntab):
            addrs, pre, body = self.table(rng)
            ops = ["reset", gen.cfg_op(relaxed=True, groups="e", order="", delete_after=600, observer="52.66,-8.62"), "case 0"] + gen.seg(pre) + gen.seg(body) + ["dump"]
            for o in orders:
                ops += [gen.cfg_op(order=o), "render"]
            impl, so, model = run.execute(ops, model=driver_ok)
            rep.evaluations += len(orders); rep.traces += 1
            self.corr(rep, impl, model, {"table": ti})
            rows = gen.parse_dump(impl)
            ir, mr = RC.renders(so), RC.model_renders(model)
            if len(ir) != len(orders):
                raise core.Broken("render blocks missing", f"{len(ir)} of {len(orders)}")
            for oi, o in enumerate(orders):
                printed = [int(t[:6], 16) for t in ir[oi][2:] if len(t) >= 6]
                ctx = {"order": o, "table": ti}
                if sorted(printed) != sorted(rows):
                    self.fail(rep, f"-o {o!r}: printed aircraft {len(printed)} are not exactly the {len(rows)} tracked ones", {"ops": ops[:ops.index('dump') + 1] + [gen.cfg_op(order=o), "render"], "printed": printed})
                    return
                if driver_ok and oi < len(mr):
                    mp = [int(t[:6], 16) for t in mr[oi][2:] if len(t) >= 6]
                    if mp != printed:
                        rep.model_disagreements += 1
                        rep.violation(f"model and implementation order the rows differently for -o {o!r}",
                                      {"property": "C15", "relation": "correspondence row order", "impl": printed, "model": mp, "order": o}, found_input=False)
                last = next((c for c in reversed(o) if keyfun(c)), None)
                if last is None and not any(c in "C" for c in o):
                    if printed != sorted(printed):
                        self.fail(rep, f"-o {o!r} has no recognised key but the rows are not in ascending address order", {"ops": ops[:ops.index('dump') + 1] + [gen.cfg_op(order=o), "render"]})
                        return
                    continue
                if last is None or (o and o[-1] in "Cxz" and any(c == "C" for c in o[o.rfind(last):])):
                    continue   # 'C' is not among the property's keys: rows sorted by it are not constrained
                fn, direction = keyfun(last)
                vals = [fn(rows[a]) for a in printed]
                known = [v for v in vals if v is not None]
                ok = all((known[i] <= known[i + 1]) if direction == 1 else (known[i] >= known[i + 1]) for i in range(len(known) - 1))
                if not ok:
                    self.fail(rep, f"-o {o!r}: key {last} is not monotone down the table: {known}",
                              {"ops": ops[:ops.index('dump') + 1] + [gen.cfg_op(order=o), "render"], "key": last, "values": known, "order": o})
                    return
                if len(set(known)) >= 3:
                    rep.nontriv((ti, o))
        rep.sample({"orders": orders[:20], "printed_example": printed[:6]})

PROP = C15()
