"""C15 — every refresh lists each aircraft once, ordered by the requested key."""
import itertools
from fractions import Fraction
import re
import core, gen, frames as F
from props.base import PropBase
from props import render_common as RC

def keyfun(letter):
    """(value function on the dumped row, direction) for the key letters of the property; None value = blank"""
    num = lambda k: (lambda r: None if r.get(k) == "-" else float(r.get(k)))
    pos = lambda k: (lambda r: None if (r.get("lat") == "0.0000000000" or r.get("lon") == "0.0000000000") else float(r.get(k)))
    cat = lambda r: tuple(int(x) for x in r.get("cat").split("/"))
    return {"s": (num("squawk"), 1), "a": (num("alt"), 1), "A": (num("alt"), -1), "v": (num("vrate"), 1), "V": (num("vrate"), -1),
            "N": (pos("lat"), 1), "S": (pos("lat"), -1), "W": (pos("lon"), 1), "E": (pos("lon"), -1), "d": (num("dist"), 1), "D": (num("dist"), -1),
            "c": (cat, 1)}.get(letter)

class C15(PropBase):
    id = "C15"
    lean_modules = ["SqModel.Props.C15"]
    rule = ("table states of 18 aircraft with ties, blanks, negative rates and positions less than a degree / a kilometre / a hundred metres apart; "
            "all -o strings of length <= 2 over the key alphabet plus junk letters (quick: every ordered pair of the property's key letters, the rest sampled); row sequence parsed from the "
            "real Planes::print output: must be a permutation of the table's key set and monotone in the last recognised key among "
            "rows whose key is known; ascending addresses when no key is recognised; compared with the model's order. Non-trivial "
            "= at least 3 rows with distinct known keys; distinct by (table, -o string). Plus the refreshes the real reader prints over streams of 36-60 frames "
            "in which new aircraft appear on and around the sweep ticks (12th, 23rd, 34th frame): duplicate-free, growing, ordered, the last one complete. Also through the built binary: no -o, one, several, empty, unknown letters, long name - its last refresh monotone in the key.")

    def table(self, rng):
        addrs, pre, body = RC.rich_rows(rng, 10, base=0x3C0000)
        # positions within a degree / a few hundred metres of each other, equal altitudes, equal squawks
        extra = []
        for i in range(4):
            a = 0x3C9000 + i
            addrs.append(a); pre.append(F.df11(5, a, 0))
            lat = Fraction(5266, 100) + Fraction(rng.randrange(-40, 40), 1000); lon = Fraction(-862, 100) + Fraction(rng.randrange(-40, 40), 1000)
            e = F.cpr_encode(lat, lon, 0); o = F.cpr_encode(lat, lon, 1)
            ac = F.ac12_q1(1560)
            extra += [F.df17(5, a, F.me_airpos(11, 0, 0, ac, 0, 0, *e)), F.df17(5, a, F.me_airpos(11, 0, 0, ac, 0, 1, *o)),
                      F.df5(0, 0, 0, F.id13_of_squawk(7, 0, 0, 0), a)]
        # a cluster within about a hundred metres, 20 km from the observer: keys that differ only in the second decimal
        for i in range(4):
            a = 0x3C9800 + i
            addrs.append(a); pre.append(F.df11(5, a, 0))
            lat = Fraction(5284, 100) + Fraction(rng.randrange(-8, 9), 10000); lon = Fraction(-862, 100) + Fraction(rng.randrange(-8, 9), 10000)
            e = F.cpr_encode(lat, lon, 0); o = F.cpr_encode(lat, lon, 1)
            ac = F.ac12_q1(1560 + i)
            extra += [F.df17(5, a, F.me_airpos(11, 0, 0, ac, 0, 0, *e)), F.df17(5, a, F.me_airpos(11, 0, 0, ac, 0, 1, *o))]
        return addrs, pre, body + extra

    def explore(self, rep, run, rng, tier, driver_ok):
        self.reader_refreshes(rep, run, core.rng_for(rep.seed + 15, "C15r"), tier)
        if rep.violations:
            return
        alpha = "saAvVNSWEdDcCxz"
        orders = [""] + list(alpha) + ["".join(p) for p in itertools.product(alpha, repeat=2)]
        if tier == "quick":
            # every ordered pair of property key letters (a later letter must not inherit anything from an earlier one), some with junk
            keys = "saAvVNSWEdDc"
            orders = [""] + list(alpha) + ["".join(p) for p in itertools.product(keys, repeat=2)] + rng.sample(orders[16:], 20) + ["sAs", "DvN", "AcS"]
        # every letter and digit that is not a key, alone and in groups (in particular the other case of each key letter)
        import string
        others = [c for c in string.ascii_letters + string.digits if c not in "saAvVNSWEdDcC"]
        orders += others + ["".join(rng.sample(others, 3)) for _ in range(6)] + ["nwe", "nsew"]
        # -o given several times (a+n stands for -o a -o n): the letters of all occurrences count, in order
        orders += ["a+n", "s+w", "sA+x", "a+s", "D+v", "x+c", "N+S+a", "A+"]
        ntab = 3 if tier == "quick" else 12
        for ti in range(ntab):
            addrs, pre, body = self.table(rng)
            # the table is printed right away, or 31 / 45 / 95 s after the last position (the aircraft kept talking: a DF11 each) -
            # the key the rows are ordered by is the key the rows show, however old it is
            age = [0, 31000, 45000, 95000][ti % 4]
            later = (["adv %d" % age] + gen.seg([F.df11(5, a, 0) for a in addrs])) if age else []
            ops = ["reset", gen.cfg_op(relaxed=True, groups="e", order="", delete_after=600, observer="52.66,-8.62"), "case 0"] + gen.seg(pre) + gen.seg(body) + later + ["dump"]
            for o in orders:
                ops += [gen.cfg_op(order=o), "render"]
            impl, so, model = run.execute(ops, model=driver_ok)
            rep.evaluations += len(orders); rep.traces += 1
            self.corr(rep, impl, model, {"table": ti})
            rows = gen.parse_dump(impl)
            ir, mr = RC.renders(so), RC.model_renders(model)
            if len(ir) != len(orders):
                raise core.Broken("render blocks missing", f"{len(ir)} of {len(orders)}")
            for oi, o in enumerate(orders):
                printed = [int(t[:6], 16) for t in ir[oi][2:] if len(t) >= 6]
                ctx = {"order": o, "table": ti}
                if sorted(printed) != sorted(rows):
                    self.fail(rep, f"-o {o!r}: printed aircraft {len(printed)} are not exactly the {len(rows)} tracked ones", {"ops": ops[:ops.index('dump') + 1] + [gen.cfg_op(order=o), "render"], "printed": printed})
                    return
                if driver_ok and oi < len(mr):
                    mp = [int(t[:6], 16) for t in mr[oi][2:] if len(t) >= 6]
                    if mp != printed:
                        rep.model_disagreements += 1
                        rep.violation(f"model and implementation order the rows differently for -o {o!r}",
                                      {"property": "C15", "relation": "correspondence row order", "impl": printed, "model": mp, "order": o}, found_input=False)
                last = next((c for c in reversed(o) if keyfun(c)), None)
                if last is None and not any(c in "C" for c in o):
                    if printed != sorted(printed):
                        self.fail(rep, f"-o {o!r} has no recognised key but the rows are not in ascending address order", {"ops": ops[:ops.index('dump') + 1] + [gen.cfg_op(order=o), "render"]})
                        return
                    continue
                if last is None or (o and o[-1] in "Cxz" and any(c == "C" for c in o[o.rfind(last):])):
                    continue   # 'C' is not among the property's keys: rows sorted by it are not constrained
                fn, direction = keyfun(last)
                vals = [fn(rows[a]) for a in printed]
                # the key cell of a row is blank exactly when the row has no value for the key: an ordering by a value the row
                # does not show (or the other way round) is not "this key monotone down the table"
                col = {"s": "SQWK", "a": "ALT B", "A": "ALT B", "v": "VRATE", "V": "VRATE", "N": "LATITUDE", "S": "LATITUDE", "W": "LONGITUDE",
                       "E": "LONGITUDE", "d": "DIST", "D": "DIST"}.get(last)
                hc = {n: (p_, w_) for n, p_, w_ in RC.header_cells(ir[oi][0])}
                if col in hc:
                    p_, w_ = hc[col]
                    for t, a, v in zip([t for t in ir[oi][2:] if len(t) >= 6], printed, vals):
                        cell = t[p_:p_ + w_].strip()
                        if len(t.rstrip("\n")) != len(ir[oi][0].rstrip("\n")):
                            continue      # a value wider than its column shifts the cells after it (C14 says when rows line up)
                        if (cell == "") != (v is None):
                            self.fail(rep, f"-o {o!r}: aircraft {a:06X} is placed by {col} = {v}, its {col} cell shows {cell!r}",
                                      {"ops": ops[:ops.index('dump') + 1] + [gen.cfg_op(order=o), "render"], "key": last, "order": o, "address": a})
                            return
                known = [v for v in vals if v is not None]
                ok = all((known[i] <= known[i + 1]) if direction == 1 else (known[i] >= known[i + 1]) for i in range(len(known) - 1))
                if not ok:
                    self.fail(rep, f"-o {o!r}: key {last} is not monotone down the table: {known}",
                              {"ops": ops[:ops.index('dump') + 1] + [gen.cfg_op(order=o), "render"], "key": last, "values": known, "order": o})
                    return
                if len(set(known)) >= 3:
                    rep.nontriv((ti, o))
        rep.sample({"orders": orders[:20], "printed_example": printed[:6]})
        # the same through the built binary (the -o values take the way a user's take): the rows of its last refresh are in the order
        # the library prints them in for the same key string
        cli = core.build_cli(False)
        addrs, pre, body = self.table(rng)
        lines = pre + body
        for argv, o in (([], None), (["-o", "N"], "N"), (["-o", "s", "-o", "d"], "s+d"), (["--order-by=W"], "W"), (["-o", "Av"], "Av"), (["-o", ""], ""),
                        (["-o", "x"], "x"), (["-o", "D", "--order-by", "a"], "D+a")):
            rc, screens, err = core.cli_screens(cli, ["-i", "e", "-O", "52.66,-8.62", "-R"] + argv, lines, run.dir)
            rep.evaluations += 1
            tables = [sc for sc in screens if sc and re.match(r"\s*ICAO +RG ", sc[0])]
            if rc != 0 or not tables:
                self.fail(rep, f"squitterator {' '.join(argv)!r}: exit status {rc}, {len(tables)} tables printed ({err[-200:]!r})", {"ops": [], "cli_args": argv})
                return
            got = [int(t[:6], 16) for t in tables[-1][2:] if re.match(r"^[0-9A-F]{6} ", t)]
            cfg = dict(relaxed=True, groups="e", delete_after=600, observer="52.66,-8.62")
            if o is not None:
                cfg["order"] = o
            ops = ["reset", gen.cfg_op(**cfg)] + gen.seg(lines) + ["dump", "render"]
            impl, so, _ = run.execute(ops, model=False)
            want = [int(t[:6], 16) for t in RC.renders(so)[-1][2:] if len(t) >= 6]
            if sorted(got) != sorted(want):
                self.fail(rep, f"squitterator {' '.join(argv)!r} lists {len(got)} aircraft, the table holds {len(want)}", {"ops": ops, "cli_args": argv})
                return
            # rows with equal keys may come in any order (the table is a hash map): judged by the key, not against the other listing
            rows = gen.parse_dump(impl)
            keys = "sA" if o is None else o.replace("+", "")
            last = next((c for c in reversed(keys) if keyfun(c)), None)
            if last is None:
                if got != sorted(got):
                    self.fail(rep, f"squitterator {' '.join(argv)!r} has no recognised key but the rows are not in ascending address order", {"ops": ops, "cli_args": argv})
                    return
            else:
                fn, direction = keyfun(last)
                known = [v for v in (fn(rows[a]) for a in got) if v is not None]
                if not all((known[i] <= known[i + 1]) if direction == 1 else (known[i] >= known[i + 1]) for i in range(len(known) - 1)):
                    self.fail(rep, f"squitterator {' '.join(argv)!r}: key {last} is not monotone down the table: {known}", {"ops": ops, "cli_args": argv, "key": last})
                    return
            rep.nontriv(("cli-order", tuple(argv)))

    def reader_refreshes(self, rep, run, rng, tier):
        """the tables the real reader prints while it reads (refresh after every accepted frame): every refresh lists each aircraft
        heard so far exactly once, in the requested order - whatever frame number an aircraft's first frame has (the expiry sweep
        runs at the 12th, 23rd, 34th .. frame) and however the table grew.  One reader, one `Planes` for the whole stream."""
        import re as _re
        for si in range(4 if tier == "quick" else 40):
            n = rng.randrange(36, 60)
            order = rng.choice(["", "x", "a", "s", "A"])
            # new aircraft appear at chosen frame numbers, in particular on and around the sweep ticks
            newat = sorted(set([0, 1] + rng.sample([4, 10, 11, 12, 13, 22, 23, 24, 33, 34, 35], 5)))
            addrs, lines, seen = [], [], []
            for i in range(n):
                if i in newat:
                    addrs.append(0x3D0000 + 16 * si + len(addrs) * rng.choice([1, 3, 0x100]) + rng.randrange(3) * 0x10000)
                    a = addrs[-1]
                else:
                    a = rng.choice(addrs)
                lines.append(rng.choice([F.df11(5, a, 0), F.df4(0, 0, 0, F.ac13_q1(rng.randrange(40, 2000)), a),
                                         F.df5(0, 0, 0, rng.randrange(8192), a)]))
                if a not in seen:
                    seen.append(a)
            ops = ["reset", gen.cfg_op(show=1, update=-1, groups="", order=order, delete_after=600)] + gen.seg(lines) + ["dump"]
            impl, so, _ = run.execute(ops, model=False)
            rep.evaluations += n; rep.traces += 1
            m = _re.search(r"@@SEG \d+ BEGIN\n(.*?)\n@@SEG \d+ END", so, _re.S)
            if not m:
                raise core.Broken("the reader printed nothing with the display on", so[-300:])
            screens = m.group(1).split("\x1b[2J\x1b[H\x1b[3J")
            tables = []
            for sc in screens:
                rows = [l for l in sc.split("\n") if _re.match(r"^[0-9A-F]{6} ", l)]
                if rows or "ICAO" in sc:
                    tables.append([int(r[:6], 16) for r in rows])
            final = sorted(gen.parse_dump(impl))
            # the last refresh must list exactly the final table, every refresh a duplicate-free list, in ascending address
            # order when no key is given, that only ever grows
            prev = []
            for ti, t in enumerate(tables):
                if len(set(t)) != len(t):
                    self.fail(rep, f"refresh {ti} of the reader lists an aircraft twice: {[hex(x) for x in t]}", {"ops": ops, "refresh": ti})
                    return
                if order in ("", "x") and t != sorted(t):
                    self.fail(rep, f"refresh {ti} of the reader (-o {order!r}) is not in ascending address order", {"ops": ops, "refresh": ti})
                    return
                if not set(prev) <= set(t):
                    self.fail(rep, f"refresh {ti} of the reader no longer lists {[hex(x) for x in set(prev) - set(t)]} (nothing can have expired)", {"ops": ops, "refresh": ti})
                    return
                prev = t
            if tables and sorted(tables[-1]) != final:
                missing = sorted(set(final) - set(tables[-1]))
                self.fail(rep, f"the last refresh of the reader lists {len(tables[-1])} aircraft, the table holds {len(final)}: "
                               f"{[('%06X' % x) for x in missing]} tracked but not listed (-o {order!r}, {n} frames, first frames at {newat})",
                          {"ops": ops, "missing": missing})
                return
            if len(tables) >= n - 2:
                rep.nontriv(("reader", si))

PROP = C15()
