"""C04 — squitters with failing parity never change the table."""
import core, gen, frames as F
from props.base import PropBase

def syndrome(hexframe):
    n = len(hexframe) * 4
    return F.poly_rem(int(hexframe, 16), n)

def must_reject(hexframe):
    df = int(hexframe[:2], 16) >> 3
    s = syndrome(hexframe)
    if df in (17, 18):
        return s != 0
    if df == 11:
        return (s & 0xFFFF80) != 0
    return False

def flip(hexframe, bits):
    """flip 1-based bit positions"""
    n = len(hexframe) * 4
    v = int(hexframe, 16)
    for b in bits:
        v ^= 1 << (n - b)
    return F.hexs(v, n)

class C04(PropBase):
    id = "C04"
    corr_fields = []
    lean_modules = ["SqModel.Props.C04", "SqModel.Proofs.BridgeBits"]
    extractors = ["trans_bits", "crc"]
    rule = ("valid DF11/17/18 squitters x error patterns confined to bits 6..n: all single-bit, all double-bit (quick: 3 "
            "squitters, thorough: 40), every whole byte, every aligned 16-bit word and six nibbles inverted on 150 (thorough: 1500) squitters, random bursts of <= 24 bits and random heavy patterns; each corrupted frame asked of "
            "get_message and fed at a random point of a history of valid frames, table compared with the history without it. "
            "Non-trivial = pattern with non-zero remainder; distinct by (squitter, pattern).")

    def squitters(self, rng, n):
        out = []
        for i in range(n):
            addr = rng.randrange(1, 1 << 24)
            k = i % 3
            if k == 0:
                out.append(F.df17(rng.randrange(8), addr, F.me_airpos(11, 0, 0, F.ac12_q1(rng.randrange(40, 2000)), 0, rng.randrange(2), *gen.rand_cpr(rng))))
            elif k == 1:
                out.append(F.df11(rng.randrange(8), addr, rng.choice([0, 0, 5, 127])))
            else:
                out.append(F.df17(rng.randrange(8), addr, F.me_ident(4, 3, F.callsign_codes("ABC123")), df=18))
        # frames whose data block has a prefix that is a CRC code word itself, followed by a byte of zeros: the division
        # register runs empty half-way through such a frame (and fills again from the bits that follow)
        for i in range(max(2, n // 3)):
            k = rng.randrange(8, 57)
            df = rng.choice([17, 18])
            head = (df << (k - 5)) | rng.randrange(1 << (k - 5))
            r = F.crc24(head, k)
            rest_bits = 88 - (k + 32)
            rest = rng.randrange(1, 1 << rest_bits) if rest_bits > 0 else 0
            data = (((head << 24) | r) << 8) << rest_bits | rest
            out.append(F.hexs((data << 24) | F.crc24(data, 88), 112))
        return out

    def patterns(self, rng, sq, tier, full):
        n = len(sq) * 4
        pats = []
        if full:
            pats += [(b,) for b in range(6, n + 1)]
            pats += [(a, b) for a in range(6, n + 1) for b in range(a + 1, n + 1)]
        # the parity field wiped out / inverted / replaced by the parity of a shorter block
        v = int(sq, 16)
        pi = v & 0xFFFFFF
        pats += [tuple(n - 23 + i for i in range(24) if (pi >> (23 - i)) & 1), tuple(range(n - 23, n + 1))]
        pats = [p for p in pats if p]
        nb = 300 if tier == "quick" else 3000
        for _ in range(nb):
            L = rng.randrange(1, 25)
            s = rng.randrange(6, n - L + 2)
            bits = tuple(b for b in range(s, s + L) if b in (s, s + L - 1) or rng.random() < 0.5)
            pats.append(bits)
        for _ in range(nb):
            k = rng.randrange(3, 40)
            pats.append(tuple(sorted(rng.sample(range(6, n + 1), k))))
        return pats

    def aligned(self, rep, run, rng, tier, driver_ok):
        """solid errors aligned with the byte / half-byte / two-byte grid of the frame - what a table-driven or word-wise CRC
        consumes in one step - on many squitters: every whole data or parity byte inverted, every nibble, every aligned
        16-bit word (a defect in one table entry shows on about one squitter in 25, at one byte position)"""
        many = self.squitters(rng, 150 if tier == "quick" else 1500)
        cases = []
        for sq in many:
            n = len(sq) * 4
            for m in range(1, n // 8):
                cases.append((sq, tuple(range(8 * m + 1, 8 * m + 9))))
            for m in range(1, n // 16):
                cases.append((sq, tuple(range(16 * m + 1, 16 * m + 17))))
            for m in rng.sample(range(2, n // 4), 6):
                cases.append((sq, tuple(range(4 * m + 1, 4 * m + 5))))
        bad = [flip(sq, p) for sq, p in cases]
        for lo in range(0, len(bad), 4000):
            ops = ["reset", "case 0"] + ["q msg " + b.encode().hex() for b in bad[lo:lo + 4000]]
            impl, _, model = run.execute(ops, model=driver_ok)
            rep.evaluations += len(ops) - 2; rep.traces += 1
            self.corr(rep, impl, model, "aligned solid errors")
            ans = [l for l in impl if l.startswith("msg")]
            if len(ans) != len(ops) - 2:
                raise core.Broken("harness answer count mismatch", "")
            for (sq, p), b, a in zip(cases[lo:lo + 4000], bad[lo:lo + 4000], ans):
                if must_reject(b) and a != "msg -":
                    self.fail(rep, f"squitter {sq} with bits {p[0]}..{p[-1]} inverted has non-zero remainder but is taken as a frame",
                              {"ops": ["reset"] + gen.seg([sq]) + ["dump"] + gen.seg([b]) + ["dump"], "valid": sq, "line": b,
                               "flipped_bits": list(p), "corrupted": b, "remainder": "%06X" % syndrome(b)})
                    return False
        return True

    def explore(self, rep, run, rng, tier, driver_ok):
        if not self.aligned(rep, run, rng, tier, driver_ok):
            return
        sqs = self.squitters(rng, 6 if tier == "quick" else 60)
        n_full = 3 if tier == "quick" else 40
        for si, sq in enumerate(sqs):
            pats = self.patterns(rng, sq, tier, si < n_full)
            bad = [flip(sq, p) for p in pats]
            # the corrupted frame arrives in every line style a receiver may produce: the check is about the digits, whatever
            # surrounds them (first character: any printable non-hex ASCII; with and without a 12-digit time stamp)
            def styled(b, k):
                LEADS = "*:%@#$!&<>[](){}=+-_.,;/|~^' "
                lead = LEADS[k % len(LEADS)] if k % 5 else ""
                ts = "".join(rng.choice("0123456789ABCDEF") for _ in range(12)) if k % 3 == 0 else ""
                return (lead + ts + b + (";" if k % 2 else "")).encode()
            # the intact squitter is asked first, and again now and then: what was accepted before decides nothing about a damaged copy
            ops = ["reset", "case 0", "q msg " + sq.encode().hex()]
            again = set()
            for k, b in enumerate(bad):
                if k % 97 == 50:
                    ops.append("q msg " + sq.encode().hex()); again.add(len(ops) - 3)
                ops.append("q msg " + styled(b, k).hex())
            impl, _, model = run.execute(ops, model=driver_ok)
            rep.evaluations += len(bad)
            rep.traces += 1
            self.corr(rep, impl, model, f"corruptions of {sq}")
            ans = [l for l in impl if l.startswith("msg")]
            if len(ans) != len(bad) + 1 + len(again):
                raise core.Broken("harness answer count mismatch", "")
            if ans[0] == "msg -":
                self.fail(rep, f"the intact squitter {sq} is not taken as a frame", {"ops": ["q msg " + sq.encode().hex()], "valid": sq})
                return
            ans = [a for i, a in enumerate(ans) if i != 0 and i not in again]
            for p, b, a in zip(pats, bad, ans):
                if must_reject(b):
                    rep.nontriv((sq, p))
                    if a != "msg -":
                        self.fail(rep, f"squitter {sq} with bits {p} flipped has non-zero remainder but is taken as a frame",
                                  {"ops": ["reset"] + gen.seg([sq]) + ["dump"] + gen.seg([styled(b, bad.index(b))]) + ["dump"], "valid": sq,
                                   "line": styled(b, bad.index(b)).decode(),
                                   "flipped_bits": list(p), "corrupted": b, "remainder": "%06X" % syndrome(b)})
                        return
                else:
                    rep.count("pattern_with_zero_remainder")
            rep.sample({"squitter": sq, "flipped_bits": list(pats[len(pats) // 3]), "corrupted": bad[len(pats) // 3]}, limit=3)
            if si < n_full:
                rep.exhaustive.append(f"all 1- and 2-bit errors in bits 6..{len(sq)*4} of {sq}")
            # in a history: corrupted frames interleaved leave the table as the clean history leaves it
            hist = [gen.rand_frame(rng, rng.choice(gen.FORMATS), rng.choice([0x123456, 0x654321, int(sq[2:8], 16)])) for _ in range(30)]
            inject = [b for b in rng.sample(bad, min(40, len(bad))) if must_reject(b)]
            mixed = list(hist)
            for b in inject:
                mixed.insert(rng.randrange(len(mixed) + 1), styled(b, rng.randrange(1000)))
            for (u, r) in ((False, False), (True, True)):
                ops = ["reset", gen.cfg_op(use_update=u, relaxed=r), "case clean"] + gen.seg([sq] + hist) + ["dump", "reset",
                       gen.cfg_op(use_update=u, relaxed=r), "case mixed"] + gen.seg([sq] + mixed) + ["dump"]
                impl, _, model = run.execute(ops, model=driver_ok)
                rep.evaluations += len(mixed)
                rep.traces += 1
                self.corr(rep, impl, model, "history with corrupted squitters", None)
                ci = core.split_cases(impl)
                a = [l for l in ci.get("clean", []) if l.startswith(("row", "enddump"))]
                b2 = [l for l in ci.get("mixed", []) if l.startswith(("row", "enddump"))]
                if a != b2:
                    self.fail(rep, "a history with corrupted squitters interleaved ends in a different table",
                              {"ops": ops, "clean": [sq] + hist, "mixed": [sq] + mixed})
                    return
            # ... and must not advance the expiry sweep: a silent aircraft, a pause, then few good and many corrupted squitters
            bads = [b for b in bad if must_reject(b)]
            for (u, r) in ((False, False), (True, True)):
                da = rng.choice([1, 2, 5])
                k = rng.randrange(1, 10)
                few = [gen.rand_frame(rng, rng.choice(["df11", "tc4", "tc11", "tc19.1"]), 0x4C0000 + rng.randrange(3)) for _ in range(k)]
                many = list(few)
                for b in rng.sample(bads, min(25, len(bads))):
                    many.insert(rng.randrange(len(many) + 1), b)
                ops = []
                for tag, lines in (("clean", few), ("mixed", many)):
                    ops += ["reset", gen.cfg_op(use_update=u, relaxed=r, delete_after=da), f"case {tag}"] + gen.seg([sq]) \
                        + [f"adv {da * 1000 + 1500}"] + gen.seg(lines) + ["dump"]
                impl, _, model = run.execute(ops, model=driver_ok)
                rep.evaluations += len(many); rep.traces += 1
                self.corr(rep, impl, model, "silent aircraft, then corrupted squitters", None)
                ci = core.split_cases(impl)
                a = [l for l in ci.get("clean", []) if l.startswith(("row", "enddump"))]
                b2 = [l for l in ci.get("mixed", []) if l.startswith(("row", "enddump"))]
                if a != b2:
                    self.fail(rep, f"corrupted squitters change when a silent aircraft is removed: {len(a) - 1} rows without them, {len(b2) - 1} with them",
                              {"ops": ops, "clean": few, "mixed": many, "delete_after": da})
                    return

PROP = C04()
