"""C08 — airborne position is the correct global CPR decode or is left unchanged."""
import math
from fractions import Fraction
import core, gen, frames as F
from props.base import PropBase

NB = 1 << 17
OBSERVERS = [None, "52.0,4.0", " 52.0 , 4.0 ", "-33.9,151.2", "0,0", "64.13,-21.9 ", "-54.8, -68.3"]

def encoded_rlat(lat, odd):
    """the latitude a frame of the given parity encodes for true latitude lat (exact)"""
    lat = Fraction(lat)
    dlat = Fraction(360, 60 - odd)
    yz = math.floor(NB * F.fmod_pos(lat, dlat) / dlat + Fraction(1, 2))
    return dlat * (Fraction(yz, NB) + math.floor(lat / dlat))

def surf_encode(lat, lon, odd):
    lat = Fraction(lat); lon = Fraction(lon)
    dlat = Fraction(90, 60 - odd)
    yz = math.floor(NB * F.fmod_pos(lat, dlat) / dlat + Fraction(1, 2))
    rlat = dlat * (Fraction(yz, NB) + math.floor(lat / dlat))
    n = F.nl(rlat) - odd
    dlon = Fraction(90, n) if n > 0 else Fraction(90)
    xz = math.floor(NB * F.fmod_pos(lon, dlon) / dlon + Fraction(1, 2))
    return yz % NB, xz % NB

def to_frac(x, digits=7):
    return Fraction(round(x * 10 ** digits), 10 ** digits)

def strat_lat(rng, c):
    """stratified true latitude (Fraction), |lat| < 87"""
    k = c % 8
    if k in (0, 1):                           # just beside an NL transition latitude
        b = F.NL_FR[rng.randrange(len(F.NL_FR) - 1)]
        eps = Fraction(rng.choice([1, 7, 100, 2000, 30000]), 10 ** 6) * rng.choice([-1, 1])
        v = (b + eps) * rng.choice([-1, 1])
    elif k == 2:                              # beside an even or odd latitude-zone edge
        odd = rng.randrange(2)
        dlat = Fraction(360, 60 - odd)
        z = rng.randrange(-14, 15)
        v = dlat * z + Fraction(rng.choice([-3000, -40, -1, 0, 1, 40, 3000]), 10 ** 6)
    elif k == 3:                              # equator and the 87-degree limits
        v = rng.choice([Fraction(0), Fraction(1, 10 ** 5), Fraction(-1, 10 ** 5), Fraction(8690, 100), Fraction(-8690, 100),
                        Fraction(869999, 10 ** 4), Fraction(-869999, 10 ** 4)])
    else:
        v = to_frac(rng.uniform(-86.95, 86.95))
    if abs(v) >= Fraction(8699, 100):
        v = Fraction(8698, 100) * (1 if v > 0 else -1)
    return v

def strat_lon(rng, c, lat):
    k = (c // 8) % 6
    if k == 0:                                # antimeridian
        return Fraction(rng.choice([-1, 1])) * (180 - Fraction(rng.choice([0, 1, 30, 900, 20000]), 10 ** 5))
    if k == 1:                                # Greenwich
        return Fraction(rng.choice([-20000, -900, -30, -1, 0, 1, 30, 900, 20000]), 10 ** 5)
    if k == 2:                                # beside a longitude-zone edge of this latitude
        n = max(F.nl(lat) - rng.randrange(2), 1)
        return F.fmod_pos(Fraction(360, n) * rng.randrange(n) + Fraction(rng.choice([-50, -1, 1, 50]), 10 ** 5) + 180, 360) - 180
    return to_frac(rng.uniform(-180, 180))

def displaced(rng, lat, lon, km):
    brg = rng.uniform(0, 2 * math.pi)
    dlat = km * math.cos(brg) / 111.19
    dlon = km * math.sin(brg) / (111.19 * max(math.cos(math.radians(float(lat))), 0.02))
    la = lat + to_frac(dlat)
    lo = lon + to_frac(dlon)
    if abs(la) >= Fraction(8699, 100):
        la = lat
    lo = F.fmod_pos(lo + 180, 360) - 180
    return la, lo

class RefRow:
    """what the property says about one aircraft: the two slots and whether the shown position may move"""
    def __init__(self):
        self.slot = {0: None, 1: None}        # parity -> dict(t, lat, lon, zero, surface)
    def frame(self, t, odd, lat, lon, yz, xz, surface):
        self.slot[odd] = {"t": t, "lat": lat, "lon": lon, "zero": yz == 0 or xz == 0, "surface": surface, "odd": odd}
        a, b = self.slot[0], self.slot[1]
        if a is None or b is None:
            return ("unchanged", "single frame")
        if a["zero"] or b["zero"]:
            return ("unchanged", "a CPR field is 0")
        if a["surface"] != b["surface"]:
            return ("unchanged", "surface frame paired with airborne frame")
        if a["surface"]:
            return ("unconstrained", "surface pair")
        if abs(a["t"] - b["t"]) // 1000 >= 10:
            return ("unchanged", "frames 10 s or more apart")
        if F.nl(encoded_rlat(a["lat"], 0)) != F.nl(encoded_rlat(b["lat"], 1)):
            return ("unchanged", "zone-straddling pair")
        # the property quantifies over a small displacement between the two frames (global CPR decoding is
        # unambiguous only within about half a zone difference, 5.5 km in latitude): same-parity frames in
        # between can add up to more than that, and such a pair is outside the property
        if F.haversine_km(float(a["lat"]), float(a["lon"]), float(b["lat"]), float(b["lon"])) > 3.0:
            return ("unconstrained", "pair more than 3 km apart")
        return ("decode", "valid pair")

class C08(PropBase):
    id = "C08"
    shown_columns = ('LATITUDE', 'LONGITUDE', 'DIST')
    corr_fields = ['lat', 'lon', 'dist', 'cpr', 'cprage', 'posage']
    lean_modules = ["SqModel.Props.C08", "SqModel.Props.C08Math", "SqModel.Proofs.Dispatch", "SqModel.Proofs.Bridge", "SqModel.Proofs.BridgeCpr", "SqModel.Proofs.BridgePlane"]
    extractors = ["nl", "dispatch", "trans"]
    rule = ("histories of 2-7 airborne-position squitters (TC 9-18, DF17) of one aircraft among others: true positions stratified over "
            "every NL transition latitude +-1e-6..3e-2 deg, even/odd latitude-zone edges, equator, +-86.9/86.9999, antimeridian, Greenwich, "
            "longitude-zone edges, uniform; both hemispheres; every sixth aircraft flying back and forth across the equator (the zone index wraps there), an NL transition latitude or a zone edge so that the frames of a pair lie on either side; either parity first; displacement 0-3 km between frames; delays 0, 2, 9.4, "
            "9.5, 10.5, 10.6, 3600 s; identification / velocity / DF4 / DF11 / DF20 frames and surface frames (TC 5-8) and frames with a CPR field of exactly 0 (same or other parity) interleaved; -U on/off; "
            "observers None and six 'lat,lon' strings with blanks; pairs with identical raw CPR fields sent back to back by two aircraft as surface/airborne, airborne/surface/airborne and airborne/airborne. After every frame the row is compared with a reference that knows "
            "only the true positions, receive times and the rule of the property (encoded-zone equality computed exactly): shown position "
            "within 20 m of the newer frame's true position, in range, distance = haversine(R=6371) of the shown position, or exactly as "
            "before; and with the Lean model line (1e-9 deg). Non-trivial = a history with at least one committed decode and one "
            "refusal; distinct by (NL zone, parity order, refusal reason).")
    assumptions = ["chrono wall clock simulated by shifting the public time stamps (margins >= 0.4 s around the 10 s limit; an alarm must be raised by two identical passes)",
                   "IEEE-754 evaluation of cpr_location/haversine is compared numerically (1e-9 deg / 2e-6 km), not proved (DESIGN 5.8)"]

    def explore(self, rep, run, rng, tier, driver_ok):
        n = 600 if tier == "quick" else 40000
        batch = 60
        c = 0
        while c < n:
            ops = ["reset"]
            plan = []
            obs = OBSERVERS[(c // batch) % len(OBSERVERS)]
            cur_obs = None
            if obs is not None:
                ops.append(gen.cfg_op(observer=obs))
                cur_obs = tuple(float(x.strip()) for x in obs.split(","))
            for b in range(batch):
                cc = c + b
                u = bool(cc % 2)
                addr = 0x400000 + cc
                ops.append(gen.cfg_op(use_update=u, relaxed=bool(cc % 5 == 0), delete_after=100000))
                lat = strat_lat(rng, cc)
                lon = strat_lon(rng, cc, lat)
                ref = RefRow()
                t = 0
                odd = rng.randrange(2)
                nfr = rng.randrange(2, 8)
                steps = []
                # every sixth aircraft flies back and forth ACROSS a boundary latitude - the equator (where the latitude zone index
                # wraps: even frame just north, odd frame just south and the other way round), an NL transition latitude, a
                # latitude-zone edge - so that the two frames of a pair lie on either side of it, in both orders
                cross = None
                if cc % 6 == 5:
                    bk = rng.randrange(4)
                    if bk in (0, 1):
                        base = Fraction(0)
                    elif bk == 2:
                        base = F.NL_FR[rng.randrange(len(F.NL_FR) - 1)] * rng.choice([-1, 1])
                    else:
                        base = Fraction(360, 60 - rng.randrange(2)) * rng.randrange(-14, 15)
                    cross = (base, rng.choice([-1, 1]))
                    lat = base + cross[1] * Fraction(rng.choice([2, 6, 11]), 1000)
                for i in range(nfr):
                    kind = "air"
                    r = rng.random()
                    if cross is not None:
                        r = 1.0
                    if i > 0 and r < 0.10:
                        kind = "surface"
                    elif i > 0 and r < 0.18:
                        kind = "same-parity"
                    elif i > 0 and r < 0.30 and cc % 3 == 0:
                        # a frame with a CPR field of exactly 0 ("not received"), often of the same parity as the frame before,
                        # so that a stale non-zero field of that parity is still around
                        kind = "zero-same" if rng.random() < 0.6 else "zero"
                    if kind not in ("same-parity", "zero-same") and i > 0:
                        odd = 1 - odd
                    la, lo = displaced(rng, lat, lon, rng.choice([0, 0.05, 0.4, 1.5, 3.0])) if i > 0 else (lat, lon)
                    if cross is not None and i > 0:
                        la = cross[0] + cross[1] * (-1) ** i * Fraction(rng.choice([2, 6, 11]), 1000)
                        lo = F.fmod_pos(lon + Fraction(rng.randrange(-5, 6), 1000) + 180, 360) - 180
                    lat, lon = la, lo
                    df = 17
                    tc = rng.randrange(9, 19)
                    if kind == "surface":
                        yz, xz = surf_encode(la, lo, odd)
                        tc = rng.randrange(5, 9)
                        fr = F.df17(5, addr, F.me_surface(tc, rng.randrange(128), 1, rng.randrange(128), 0, odd, yz, xz), df=df)
                    else:
                        yz, xz = F.cpr_encode(la, lo, odd)
                        if kind.startswith("zero"):
                            z = rng.randrange(3)
                            yz, xz = (0 if z in (0, 2) else yz), (0 if z in (1, 2) else xz)
                        fr = F.df17(5, addr, F.me_airpos(tc, rng.randrange(4), 0, F.ac12_q1(rng.randrange(40, 1800)), rng.randrange(2),
                                                       odd, yz, xz), df=df)
                    lines = [fr]
                    if rng.random() < 0.5:
                        k = rng.choice(["tc19.1", "tc4", "df4", "df11", "df20", "df5", "tc31", "tc29"])
                        other = gen.rand_frame(rng, k, addr)
                        if rng.random() < 0.5:
                            lines.append(other)
                        else:
                            lines.insert(0, other)
                    if rng.random() < 0.3:
                        lines.append(gen.rand_frame(rng, rng.choice(["tc11", "tc9", "df11"]), 0x700000 + rng.randrange(50)))
                    verdict = ref.frame(t, odd, la, lo, yz, xz, kind == "surface")
                    ops += [f"case {cc}.{i}"] + gen.seg(lines) + ["dump"]
                    steps.append((i, verdict, float(la), float(lo), t, kind, tc, u))
                    gap = rng.choice([0, 2000, 2000, 9400, 9500, 10500, 10600, 3600000])     # >= 0.4 s of margin to the 10 s window
                    if cross is not None:
                        gap = rng.choice([0, 1000, 2000, 2000])
                    ops.append(f"adv {gap}")
                    t += gap
                plan.append((cc, addr, steps, cur_obs, F.nl(encoded_rlat(lat, 0))))
            impl, _, model = run.execute(ops, model=driver_ok)
            rep.traces += 1
            ok = self.corr(rep, impl, model, {"batch": c, "observer": obs}, None)
            if not ok:
                # find the first disagreeing case to keep the replay small
                self.localise(rep, run, ops, impl, model, driver_ok)
            ci = core.split_cases(impl)
            for (cc, addr, steps, ob, zone) in plan:
                prev = None
                commits = refusals = 0
                reasons = set()
                for (i, verdict, la, lo, t, kind, tc, u) in steps:
                    rep.evaluations += 1
                    rows = gen.parse_dump(ci.get(f"{cc}.{i}", []))
                    if addr not in rows:
                        self.fail(rep, f"no row for {addr:06X} after its position frame", {"ops": self.case_ops(ops, cc), "case": f"{cc}.{i}"})
                        return
                    r = rows[addr]
                    shown = (r["lat"], r["lon"], r["dist"], r["posage"] == "-")
                    what, why = verdict
                    rep.count(why)
                    ctx = {"case": f"{cc}.{i}", "use_update": u, "true_lat": la, "true_lon": lo, "type_code": tc, "kind": kind,
                           "rule": why, "observer": ob, "row": {k: r[k] for k in ("lat", "lon", "dist", "posage", "cpr", "cprage")}}
                    if what == "unchanged":
                        before = prev if prev is not None else ("0.0000000000", "0.0000000000", "-", True)
                        if shown[:3] != before[:3] or (before[3] and not shown[3]):
                            self.fail(rep, f"position moved although the pair is not valid ({why}): {before[:3]} -> {shown[:3]}",
                                      {"ops": self.case_ops(ops, cc), "context": ctx})
                            return
                        refusals += 1; reasons.add(why)
                    elif what == "decode":
                        slat, slon = float(r["lat"]), float(r["lon"])
                        d = F.haversine_km(slat, slon, la, lo)
                        if not (-90 <= slat <= 90 and -180 <= slon <= 180) or d > 0.020 or r["posage"] != "0":
                            self.fail(rep, f"valid pair: shown ({slat}, {slon}) is {d * 1000:.1f} m from the encoded position ({la}, {lo}), posage {r['posage']}",
                                      {"ops": self.case_ops(ops, cc), "context": ctx})
                            return
                        if ob is None:
                            if r["dist"] != "-":
                                self.fail(rep, "distance shown without an observer", {"ops": self.case_ops(ops, cc), "context": ctx})
                                return
                        else:
                            want = F.haversine_km(slat, slon, ob[0], ob[1])
                            if r["dist"] == "-" or abs(float(r["dist"]) - want) > 2e-6 * max(1.0, want):
                                self.fail(rep, f"distance column {r['dist']} km, great-circle distance to the observer {want:.7f} km",
                                          {"ops": self.case_ops(ops, cc), "context": ctx})
                                return
                        commits += 1
                    prev = shown
                if commits and refusals:
                    for why in reasons:
                        rep.nontriv((zone, steps[0][5], why))
            rep.sample({"batch": c, "observer": obs, "ops_head": ops[:14]})
            c += batch
        self.twins(rep, run, rng, tier, driver_ok)

    def twins(self, rep, run, rng, tier, driver_ok):
        """the same raw CPR fields in two different roles, back to back: a surface pair (TC 5-8) of one aircraft and then an
        airborne pair (TC 9-18) of another with identical 17-bit fields and the same parity order (and the other way round,
        and the same airborne pair for two aircraft).  The decode of a pair must depend on nothing but that pair and its
        kind: whatever was decoded just before - by any aircraft - must not leak into it."""
        n = 40 if tier == "quick" else 1500
        ops = ["reset", gen.cfg_op(delete_after=100000)]
        plan = []
        for c in range(n):
            lat = strat_lat(rng, 4 + c % 4); lon = strat_lon(rng, 24 + c, lat)
            first = rng.randrange(2)
            f0 = F.cpr_encode(lat, lon, first); f1 = F.cpr_encode(lat, lon, 1 - first)
            if 0 in f0 or 0 in f1 or F.nl(encoded_rlat(lat, 0)) != F.nl(encoded_rlat(lat, 1)):
                continue
            a, b = 0x480000 + 2 * c, 0x480001 + 2 * c
            def air(addr, odd, fl):
                return F.df17(5, addr, F.me_airpos(rng.randrange(9, 19), 0, 0, F.ac12_q1(rng.randrange(40, 1800)), 0, odd, fl[0], fl[1]))
            def surf(addr, odd, fl):
                return F.df17(5, addr, F.me_surface(rng.randrange(5, 9), rng.randrange(128), 1, rng.randrange(128), 0, odd, fl[0], fl[1]))
            order = c % 3
            if order == 0:
                lines = [surf(a, first, f0), surf(a, 1 - first, f1), air(b, first, f0), air(b, 1 - first, f1)]
            elif order == 1:
                lines = [air(a, first, f0), air(a, 1 - first, f1), surf(b, first, f0), surf(b, 1 - first, f1), air(a, first, f0), air(a, 1 - first, f1)]
            else:
                lines = [air(a, first, f0), air(a, 1 - first, f1), air(b, first, f0), air(b, 1 - first, f1)]
            ops += [gen.cfg_op(use_update=bool(c % 2)), f"case tw{c}"] + gen.seg(lines) + ["dump"]
            plan.append((c, [[b], [a], [a, b]][order], float(lat), float(lon), lines))
        impl, _, model = run.execute(ops, model=driver_ok)
        rep.traces += 1
        self.corr(rep, impl, model, {"scenario": "raw-field twins"}, None)
        ci = core.split_cases(impl)
        for (c, addrs, la, lo, lines) in plan:
            rows = gen.parse_dump(ci.get(f"tw{c}", []))
            for ad in addrs:
                rep.evaluations += 1
                r = rows.get(ad)
                if r is None:
                    continue
                slat, slon = float(r["lat"]), float(r["lon"])
                d = F.haversine_km(slat, slon, la, lo)
                if d > 0.020:
                    self.fail(rep, f"valid airborne pair of {ad:06X} sent right after another pair with the same raw CPR fields: shown ({slat}, {slon}) is "
                                   f"{d * 1000:.0f} m from the encoded position ({la}, {lo})",
                              {"ops": ["reset", gen.cfg_op(delete_after=100000, use_update=bool(c % 2))] + gen.seg(lines) + ["dump"], "case": f"tw{c}"})
                    return
            rep.count("raw-field twin scenarios")

    def case_ops(self, ops, cc):
        """the ops of one aircraft's history (plus the configuration lines before it)"""
        out = ["reset"]
        keep = False
        last_cfg = []
        for o in ops:
            if o.startswith("cfg "):
                if "observer=" in o:
                    out.append(o)
                last_cfg = [o]
                if keep:
                    keep = False
                continue
            if o.startswith("case "):
                was = keep
                keep = o.split()[1].split(".")[0] == str(cc)
                if keep and not was:
                    out += last_cfg
            if keep:
                out.append(o)
        return out

    def localise(self, rep, run, ops, impl, model, driver_ok):
        ci, cm = core.split_cases(impl), core.split_cases(model)
        for k in ci:
            if core.compare_streams(ci[k], cm.get(k, [])):
                cc = k.split(".")[0]
                small = self.case_ops(ops, int(cc))
                i2, _, m2 = run.execute(small, model=driver_ok)
                ds = core.compare_streams(i2, m2)
                if ds:
                    rep.violation(f"model and implementation disagree on {ds[0][3]} (case {k})",
                                  {"property": self.id, "relation": "correspondence (impl output line = model output line)",
                                   "impl": ds[0][1], "model": ds[0][2], "ops": small}, found_input=False)
                return

PROP = C08()
