"""C14 — printed rows render the table faithfully under their column headers."""
import core, gen, frames as F
from props.base import PropBase
from props import render_common as RC

def expect_cell(name, row):
    """independent rendering of one column from the row state (dump): (text or None for 'not checked', align)"""
    g = row.get
    opt = lambda k: "" if g(k) == "-" else g(k)
    ch = lambda k: chr(int(g(k)))
    if name == "ICAO": return "%06X" % int(g("icao")), "r"
    if name == "RG": return g("reg"), "l"
    if name == "SQWK": return ("" if g("squawk") == "-" else "%04d" % int(g("squawk"))), "l"
    if name == "CALLSIGN": return ("" if g("ais") == "-" else g("ais").strip('"')), "l"
    if name == "ALT B": return opt("alt"), "r"
    if name == "ALT G": return opt("altg"), "r"
    if name == "ALT S": return opt("selalt"), "r"
    if name == "BARO": return opt("baro"), "r"
    if name == "VRATE": return opt("vrate"), "r"
    if name == "TRK": return opt("track"), "r"
    if name == "HDG": return opt("hdg"), "r"
    if name == "GSP": return opt("gs"), "r"
    if name == "TAS": return opt("tas"), "r"
    if name == "IAS": return opt("ias"), "r"
    if name == "RLL": return opt("roll"), "r"
    if name == "TAR": return opt("tar"), "r"
    if name == "WND": return ("" if g("wind") == "-" else g("wind").split("/")[0]), "r"
    if name == "WDR": return ("" if g("wind") == "-" else g("wind").split("/")[1]), "r"
    if name == "HUM": return opt("hum"), "r"
    if name == "PRES": return opt("pres"), "r"
    if name == "TB": return opt("turb"), "r"
    if name == "VX": return g("cat").replace("/", ""), "l"
    if name == "DF": return ("" if g("df") == "0" else g("df")), "r"
    if name == "TC": return ("" if g("tc") == "0" else g("tc")), "r"
    if name == "V": return opt("ver"), "r"
    if name == "S": return ch("ss"), "l"
    if name == "LC": return g("age"), "r"
    if name == "PTH":     # one upper-case hex digit per datum: tens of seconds since the last position / track / heading, mod 16
        return "".join(" " if g(k) in ("-", None) else "%X" % ((int(g(k)) // 10) % 16) for k in ("posage", "trkage", "hdgage")), "l"
    if name == "W":
        tc, ca = g("cat").split("/")
        return ({"1": "L", "2": "S", "3": "M", "4": "H", "5": "J", "7": "R"}.get(ca, " ") if tc == "4" else " "), "l"
    if name == "LATITUDE": return (None if g("lat") != "0.0000000000" and g("lon") != "0.0000000000" else ""), "r"
    if name == "LONGITUDE": return (None if g("lat") != "0.0000000000" and g("lon") != "0.0000000000" else ""), "r"
    if name in ("DIST", "MACH", "TEMP"):
        k = {"DIST": "dist", "MACH": "mach", "TEMP": "temp"}[name]
        return ("" if g(k) == "-" else None), "r"
    return None, "r"

class C14(PropBase):
    id = "C14"
    lean_modules = ["SqModel.Props.C14"]
    extractors = ["header"]
    rule = ("all 32 combinations of the five -i groups x table states of 12 aircraft built from frames so that every column occurs "
            "filled and blank (negative rates, extreme in-range values); the text printed by the real Planes::print and "
            "LegendHeaders (stdout of the harness) against the model's rendering and against an independent rendering of the "
            "dumped row state, cell by cell at the header's column offsets; widths of header, separator and rows; the table the reader thread itself prints "
            "(display on) for -i given once and several times. Non-trivial = "
            "a printed row with at least 6 filled columns; distinct by (group set, row text). Also through the built binary: no -i, empty -i, several -i, long option name - the groups in the header it prints.")
    assumptions = ["std::fmt of floats is not modelled: float cells compared numerically to the last printed digit"]

    def explore(self, rep, run, rng, tier, driver_ok):
        letters = "Aaswe"
        reps = 3 if tier == "quick" else 20
        for mask in range(32):
            groups = "".join(l for i, l in enumerate(letters) if mask >> i & 1)
            for _ in range(reps):
                addrs, pre, body = RC.rich_rows(rng, 12)
                ops = ["reset", gen.cfg_op(relaxed=True, use_update=bool(mask & 1), groups=groups if groups else "x", order="", delete_after=600,
                                             observer="52.66,-8.62"), "case 0"] + gen.seg(pre) + gen.seg(body) + [f"adv {rng.choice([0, 87000, 99500, 105000, 131000, 147000, 161000, 325000])}"] \
                    + gen.seg([F.df11(5, a, 0) for a in addrs]) + ["adv 12500", "dump", "render"]    # position / track / heading ages 12 .. 337 s, last contact 12 s
                impl, so, model = run.execute(ops, model=driver_ok)
                rep.evaluations += len(addrs); rep.traces += 1
                self.corr(rep, impl, model, {"groups": groups})
                ir = RC.renders(so)
                mr = RC.model_renders(model)
                if len(ir) != 1:
                    raise core.Broken("render markers missing in the implementation's stdout", so[-300:])
                il = ir[0]
                header, sep, rows_txt = il[0], il[1], il[2:]
                cells = RC.header_cells(header)
                rows = gen.parse_dump(impl)
                ctx = {"groups": groups}
                # groups present iff letter given
                present = {n for n, _, _ in cells}
                for letter, cols in (("A", ["ALT G", "ALT S", "BARO"]), ("s", ["TAS", "IAS", "MACH"]), ("a", ["RLL", "TAR"]),
                                     ("w", ["TEMP", "WND", "WDR", "HUM", "PRES", "TB"]), ("e", ["VX", "DF", "TC", "V", "S", "PTH"])):
                    if (letter in groups) != all(c in present for c in cols) or (letter not in groups and any(c in present for c in cols)):
                        self.fail(rep, f"-i {groups!r}: columns {cols} present={[c in present for c in cols]}", {"ops": ops, "header": header})
                        return
                if len(header) != len(sep):
                    self.fail(rep, f"header width {len(header)} != separator width {len(sep)} for -i {groups!r}", {"ops": ops, "header": header, "separator": sep})
                    return
                if driver_ok and mr:
                    if mr[0][0] != header or mr[0][1] != sep:
                        rep.model_disagreements += 1
                        rep.violation(f"model and implementation disagree on header/separator for -i {groups!r}",
                                      {"property": "C14", "relation": "correspondence header", "impl": header, "model": mr[0][0]}, found_input=False)
                    for a, b in zip(rows_txt, mr[0][2:]):
                        bad = RC.rows_agree(a, b, cells)
                        if bad:
                            rep.model_disagreements += 1
                            rep.violation(f"model and implementation print different rows: {bad[:3]}",
                                          {"property": "C14", "relation": "correspondence row text", "impl": a, "model": b, "ops": ops}, found_input=False)
                            break
                by_icao = {int(t[:6], 16): t for t in rows_txt if len(t) >= 6}
                for a in addrs:
                    t = by_icao.get(a)
                    if t is None:
                        self.fail(rep, f"aircraft {a:06X} is in the table but not printed", {"ops": ops})
                        return
                    row = rows[a]
                    fits = True
                    for n, pos, w in cells:
                        want, _ = expect_cell(n, row)
                        if want is None:
                            k = {"LATITUDE": ("lat", "%.5f", 1), "LONGITUDE": ("lon", "%.5f", 1), "DIST": ("dist", "%.1f", 1),
                                 "MACH": ("mach", "%.2f", 0.004), "TEMP": ("temp", "%.1f", 0.25)}.get(n)
                            if k and row.get(k[0]) not in (None, "-"):
                                want = k[1] % (float(row[k[0]]) * k[2])
                        if want is not None and len(want) > w:
                            fits = False
                    if fits and len(t) != len(header):
                        self.fail(rep, f"row width {len(t)} != header width {len(header)}: {t!r}", {"ops": ops, "row": t, "header": header})
                        return
                    filled = 0
                    if not fits:
                        rep.count("row with a value wider than its column (offsets not checked)")
                        continue
                    for n, pos, w in cells:
                        want, al = expect_cell(n, row)
                        got = t[pos:pos + w]
                        if want is None:
                            filled += 1
                            # a number with decimals: right-aligned like every number, and the row's value to the last printed digit
                            k = {"LATITUDE": ("lat", 1e-5 * 1.01, 1), "LONGITUDE": ("lon", 1e-5 * 1.01, 1), "DIST": ("dist", 0.101, 1),
                                 "MACH": ("mach", 0.0101, 0.004), "TEMP": ("temp", 0.101, 0.25)}.get(n)
                            if k and row.get(k[0]) not in (None, "-"):
                                try:
                                    okv = abs(float(got) - float(row[k[0]]) * k[2]) <= k[1]
                                except ValueError:
                                    okv = False
                                if not okv or got != got.strip().rjust(w):
                                    self.fail(rep, f"column {n} of aircraft {a:06X} shows {got!r}: the row holds {float(row[k[0]]) * k[2]:g}, numbers are right-aligned (-i {groups!r})",
                                              {"ops": ops, "row_text": t, "header": header, "column": n, "row_state": row})
                                    return
                            continue
                        if want:
                            filled += 1
                        exp = want.rjust(w) if al == "r" else want.ljust(w)
                        # "blank when unknown": the source mark that follows a value (altitude, selected altitude, vertical rate,
                        # track, heading) belongs to it - no mark without a value (SQWK is followed by the ACAS mark, a parameter of its own)
                        if want == "" and n in ("ALT B", "ALT S", "VRATE", "TRK", "HDG") and t[pos + w:pos + w + 1] not in ("", " "):
                            self.fail(rep, f"column {n} of aircraft {a:06X} is unknown but a source mark {t[pos + w:pos + w + 1]!r} is printed after it (-i {groups!r})",
                                      {"ops": ops, "row_text": t, "header": header, "column": n, "row_state": row})
                            return
                        # ... and a known value is followed by the mark recorded for THAT parameter (its own source field)
                        mk = {"ALT B": "alts", "ALT S": "tasrc", "VRATE": "vrs", "TRK": "trs", "HDG": "hds"}.get(n)
                        if want and mk and row.get(mk, "-").isdigit():
                            wm = chr(int(row[mk]))
                            gm_ = t[pos + w:pos + w + 1] or " "
                            if gm_ != wm:
                                self.fail(rep, f"column {n} of aircraft {a:06X} is followed by the source mark {gm_!r}, the row state records {wm!r} for it (-i {groups!r})",
                                          {"ops": ops, "row_text": t, "header": header, "column": n, "row_state": row})
                                return
                        if got != exp:
                            self.fail(rep, f"column {n} of aircraft {a:06X} shows {got!r}, the row state says {exp!r} (-i {groups!r})",
                                      {"ops": ops, "row_text": t, "header": header, "column": n, "expected": exp, "row_state": row})
                            return
                    if filled >= 6:
                        rep.nontriv((groups, t))
        # the table as the reader itself prints it (display on, a refresh after every frame): the groups follow the letters of
        # ALL occurrences of -i (a+w stands for -i a -i w)
        import re as _re
        for spec in ["a+w", "ae+ew", "e+A", "s+x", "a+A+e+w+s", "aw+aw", "aAews", "x", "w", "A+s", "", "+", "+a"]:     # "" is -i '' : no group at all
            a1 = 0x480100
            frames = [F.df11(5, a1, 0), F.df17(5, a1, F.me_ident(4, 3, F.callsign_codes("GRP1"))), F.df5(0, 0, 0, F.id13_of_squawk(1, 2, 3, 4), a1)]
            ops = ["reset", gen.cfg_op(show=1, update=-1, groups=spec, order="", delete_after=600)] + gen.seg(frames) + ["dump"]
            impl, so, model = run.execute(ops, model=driver_ok)
            rep.evaluations += 1; rep.traces += 1
            m = _re.search(r"@@SEG \d+ BEGIN\n(.*?)\n@@SEG \d+ END", so, _re.S)
            if not m:
                raise core.Broken("reader display: segment markers missing in the harness output", so[-300:])
            screens = [x for x in m.group(1).split("\x1b[2J\x1b[H\x1b[3J") if x.strip()]
            table_screens = [x for x in screens if _re.match(r"\s*ICAO +RG ", x)]
            if not table_screens:
                self.fail(rep, f"-i {spec.split('+')}: the reader printed no table although the display is on", {"ops": ops})
                return
            lines = table_screens[-1].lstrip("\n").split("\n")
            header = lines[0]
            present = {n for n, _, _ in RC.header_cells(header)}
            given = set(spec.replace("+", ""))
            for letter, cols in (("A", ["ALT G", "ALT S", "BARO"]), ("s", ["TAS", "IAS", "MACH"]), ("a", ["RLL", "TAR"]),
                                 ("w", ["TEMP", "WND", "WDR", "HUM", "PRES", "TB"]), ("e", ["VX", "DF", "TC", "V", "S", "PTH"])):
                if (letter in given) != all(c in present for c in cols) or (letter not in given and any(c in present for c in cols)):
                    self.fail(rep, f"-i {' -i '.join(spec.split('+'))}: group {letter!r} {'missing from' if letter in given else 'present in'} the table the reader prints (header {header!r})",
                              {"ops": ops, "header": header, "groups": spec})
                    return
            if len(lines) > 2 and len(lines[1]) != len(header):
                self.fail(rep, f"reader display: separator width {len(lines[1])} != header width {len(header)}", {"ops": ops})
                return
            rep.nontriv(("reader-display", spec))
        # the same through the built binary, so that the options take the way a user's take (clap): no -i at all means all five
        # groups, an empty -i none, several -i add up
        cli = core.build_cli(False)
        a1 = 0x480180
        frames = [F.df11(5, a1, 0), F.df17(5, a1, F.me_ident(4, 3, F.callsign_codes("CLI1"))), F.df5(0, 0, 0, F.id13_of_squawk(1, 2, 3, 4), a1)]
        for argv, given in (([], "aAews"), (["-i", ""], ""), (["-i", "a", "-i", "w"], "aw"), (["-i", "ews"], "ews"), (["--display-info=A"], "A"),
                            (["-i", "x"], ""), (["-i", "", "-i", "s"], "s"), (["--display-info", "we", "-i", "e"], "we")):
            rc, screens, err = core.cli_screens(cli, argv, frames, run.dir)
            rep.evaluations += 1
            tables = [sc for sc in screens if sc and _re.match(r"\s*ICAO +RG ", sc[0])]
            if rc != 0 or not tables:
                self.fail(rep, f"squitterator {' '.join(argv)!r}: exit status {rc}, {len(tables)} tables printed ({err[-200:]!r})", {"ops": [], "cli_args": argv})
                return
            header = tables[-1][0]
            present = {n for n, _, _ in RC.header_cells(header)}
            for letter, cols in (("A", ["ALT G", "ALT S", "BARO"]), ("s", ["TAS", "IAS", "MACH"]), ("a", ["RLL", "TAR"]),
                                 ("w", ["TEMP", "WND", "WDR", "HUM", "PRES", "TB"]), ("e", ["VX", "DF", "TC", "V", "S", "PTH"])):
                if (letter in given) != all(c in present for c in cols) or (letter not in given and any(c in present for c in cols)):
                    self.fail(rep, f"squitterator {' '.join(repr(x) for x in argv)}: group {letter!r} {'missing from' if letter in given else 'present in'} the table (header {header!r})",
                              {"ops": [], "cli_args": argv, "header": header, "frames": frames})
                    return
            rep.nontriv(("cli-display", tuple(argv)))
        # every refresh the reader prints is: header, separator, exactly one line of the header's width per aircraft then in the
        # table, separator - also when the table is empty at that refresh (retention periods 0 and negative empty it at every sweep)
        for da in (600, 1, 0, -5):
            for spec in ("aAews", "e", ""):
                fl = [rng.choice([F.df11(5, 0x480200 + i % 3, 0), F.df4(0, 0, 0, F.ac13_q1(500 + i), 0x480200 + i % 3)]) for i in range(26)]
                ops = ["reset", gen.cfg_op(show=1, update=-1, groups=spec, order="", delete_after=da)] + gen.seg(fl) + ["dump"]
                impl, so, model = run.execute(ops, model=False)
                rep.evaluations += len(fl); rep.traces += 1
                m = _re.search(r"@@SEG \d+ BEGIN\n(.*?)\n@@SEG \d+ END", so, _re.S)
                if not m:
                    raise core.Broken("reader display: segment markers missing in the harness output", so[-300:])
                screens = [x for x in m.group(1).split("\x1b[2J\x1b[H\x1b[3J") if _re.match(r"\s*ICAO +RG ", x)]
                for si, sc in enumerate(screens):
                    ls = sc.lstrip("\n").split("\n")
                    while ls and ls[-1] == "":
                        ls.pop()
                    header, sep = ls[0], ls[1]
                    body = ls[2:]
                    closing = [i for i, l in enumerate(body) if l == sep]
                    if not closing:
                        self.fail(rep, f"refresh {si} of the reader (delete_after {da}, -i {spec!r}) has no closing separator", {"ops": ops, "screen": sc})
                        return
                    rows_ = body[:closing[0]]
                    bad = [l for l in rows_ if not _re.match(r"^[0-9A-F]{6} ", l) or len(l) != len(header)]
                    if bad:
                        self.fail(rep, f"refresh {si} of the reader (delete_after {da}, -i {spec!r}) prints a line between the separators that is not an "
                                       f"aircraft row of the header's width: {bad[0]!r} ({len(rows_)} line(s) in all)", {"ops": ops, "screen": sc})
                        return
                rep.nontriv(("reader-refreshes", da, spec))
        rep.exhaustive.append("all 32 combinations of the -i groups")
        rep.sample({"header": header, "row": rows_txt[0] if rows_txt else ""})

PROP = C14()
