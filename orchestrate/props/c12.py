"""C12 — rows live exactly as long as the aircraft is being heard."""
import core, gen, frames as F
from props.base import PropBase

REFRESH = [k for k in gen.FORMATS if k not in ("df19", "df24")]

class C12(PropBase):
    id = "C12"
    shown_columns = ('LC',)
    corr_fields = ['age']
    lean_modules = ["SqModel.Props.C12", "SqModel.Proofs.BridgePlane", "SqModel.Proofs.BridgeTable"]
    extractors = ["trans"]
    rule = ("schedules of reader runs (segments of 1..40 lines) and silences for 2-5 aircraft; silence lengths delete_after-0.5, "
            "+0.5, 0.5 and 10x delete_after (virtual clock: the time stamps of all rows are shifted back between runs); "
            "delete_after in {1,5,60,600} (and one-year .. 2^63-1 retention periods, under which nothing heard may ever go); every format as the refreshing frame; -U on/off; a quarter of the schedules with the table display on and a refresh after every frame, the others with refresh intervals -1, 3, 7, 1e5, 2^62 s (on both sides of delete_after). After each run: key set and "
            "last-contact ages against a reference that knows only when each aircraft was last heard, and against the model. "
            "Non-trivial = a schedule in which at least one aircraft expires or survives by less than a second; distinct by schedule.")
    assumptions = ["chrono wall clock is simulated by shifting the public time-stamp fields (DESIGN 4.3); margins of 0.5 s"]

    def realtime(self, rep, run, rng, tier):
        """the built binary fed in real time (stdin as the file): an aircraft is heard, a sweep runs while it is still young, it
        grows older than delete_after in the same clock second, 40 more frames of another aircraft arrive - the sweep cadence counts
        accepted frames, not clock seconds, so the silent aircraft is gone from the last table.  Late delivery can only make the row
        older (a correct decoder still removes it): slow machines cannot raise a false alarm here."""
        import subprocess, time
        cli = core.build_cli(False)
        for attempt in range(2 if tier == "quick" else 6):
            a, b = 0x4C7000 + attempt, 0x4C7100 + attempt
            fa = F.df17(5, a, F.me_ident(4, 3, F.callsign_codes("QUIET")))
            fb = [gen.rand_frame(rng, rng.choice(["tc4", "tc19.1", "df11"]), b) for _ in range(54)]
            p = subprocess.Popen([cli, "-s", "/dev/stdin", "-d", "1", "--update=-1", "-i", "e"], stdin=subprocess.PIPE, stdout=subprocess.PIPE,
                                 stderr=subprocess.DEVNULL, env=core.ENV)
            time.sleep(0.8)                 # the process is up and reading before the first frame is written
            def at(frac, nxt=0):
                now = time.time()
                base = int(now) + (1 if (now % 1) > frac - 0.02 else 0)
                return base + frac
            t0 = at(0.40)
            time.sleep(max(0, t0 - time.time()))
            sec = int(t0)
            p.stdin.write((fa + "\n").encode()); p.stdin.flush()
            time.sleep(max(0, sec + 1.03 - time.time()))
            p.stdin.write(("\n".join(fb[:14]) + "\n").encode()); p.stdin.flush()        # a sweep: the quiet aircraft is 0.6 s old
            time.sleep(max(0, sec + 1.75 - time.time()))
            p.stdin.write(("\n".join(fb[14:]) + "\n").encode()); p.stdin.flush()        # 40 frames: it is 1.35 s old now
            p.stdin.close()
            out = p.stdout.read().decode("utf-8", "replace")
            p.wait(timeout=30)
            rep.evaluations += 55; rep.traces += 1
            screens = [x for x in out.split("\x1b[2J\x1b[H\x1b[3J") if x.strip()]
            last = screens[-1] if screens else ""
            if p.returncode != 0 or not screens:
                self.fail(rep, f"the binary fed in real time exited with status {p.returncode} and printed {len(screens)} screens", {"ops": [], "cli_args": ["-s", "/dev/stdin", "-d", "1"]})
                return False
            if ("%06X " % b) not in last:
                raise core.Broken("real-time run: the talking aircraft is not in the last table", last[-300:])
            row_a = next((l for l in last.split("\n") if l.startswith("%06X " % a)), None)
            # judged by what the table itself says: the row is stale only if its last-contact age (LC, the last cell) has reached
            # delete_after - on a machine so slow that the first frame was taken late the row may rightly still be there
            stale = False
            if row_a is not None:
                try:
                    stale = int(row_a.split()[-1]) >= 1
                except ValueError:
                    stale = False
            if stale:
                self.fail(rep, f"aircraft {a:06X}, silent for more than delete_after = 1 s, is still listed after 40 further accepted frames (real-time feed: "
                               f"heard at x.40, a sweep at x+1.03, 40 frames at x+1.75)",
                          {"ops": ["reset", gen.cfg_op(delete_after=1)] + gen.seg([fa]) + ["adv 630"] + gen.seg(fb[:14]) + ["adv 570"] + gen.seg(fb[14:]) + ["dump"],
                           "note": "needs real time: the two later batches must be processed in the same clock second", "frames": [fa] + fb})
                return False
            rep.nontriv(("realtime", attempt))
        return True

    def explore(self, rep, run, rng, tier, driver_ok):
        if not self.realtime(rep, run, rng, tier):
            return
        n = 120 if tier == "quick" else 3000
        for c in range(n):
            da = rng.choice([1, 5, 60, 600])
            u = bool(c % 2)
            addrs = rng.sample(range(1, 1 << 24), rng.randrange(2, 6))
            # every fourth schedule runs with the table display on and a refresh after every frame (-u -1 / -u 0):
            # the refresh path shares the counters with the sweep and must not disturb it
            show = (c % 4 == 1)
            ops = ["reset", gen.cfg_op(use_update=u, relaxed=bool(c % 3 == 0), delete_after=da, show=show,
                                       update=(-1 if c % 8 == 1 else 0) if show else rng.choice([-1, 3, 7, 100000, 2 ** 62]))]
            t = 0                       # virtual ms
            last = {}                   # addr -> time last heard
            removed_ok = {}             # addr -> True once a sweep that must remove it has happened
            checks = []
            nseg = rng.randrange(3, 9)
            interesting = False
            for si in range(nseg):
                k = rng.randrange(1, 41)
                lines, acc = [], 0
                stale_before = {a for a, tl in last.items() if (t - tl) // 1000 >= da}
                heard_after_stale = {}
                for j in range(k):
                    a = rng.choice(addrs)
                    if rng.random() < 0.1:
                        lines.append("junk")
                        continue
                    f = gen.rand_frame(rng, rng.choice(REFRESH), a)
                    lines.append(f)
                    acc += 1
                    last[a] = t
                ops += [f"case {si}"] + gen.seg(lines) + ["dump"]
                checks.append((si, t, dict(last), acc, set(stale_before)))
                gap = rng.choice([da * 1000 - 500, da * 1000 + 500, 500, 10 * da * 1000 + 500, 1500])
                ops.append(f"adv {gap}")
                t += gap
            impl, _, model = run.execute(ops, model=driver_ok)
            rep.evaluations += nseg; rep.traces += 1
            ctx = {"delete_after": da, "use_update": u, "schedule": c, "display_on": show}
            self.corr(rep, impl, model, ctx, ops)
            ci = core.split_cases(impl)
            for (si, tt, lastd, acc, stale) in checks:
                rows = gen.parse_dump(ci.get(str(si), []))
                for a, tl in lastd.items():
                    age = (tt - tl) // 1000
                    if age < da:
                        if a not in rows:
                            self.fail(rep, f"aircraft {a:06X} heard {age} s ago (delete_after {da}) is missing after run {si}",
                                      {"ops": ops, "context": ctx, "run": si, "address": a})
                            return
                        if rows[a].get("age") != str(age):
                            self.fail(rep, f"aircraft {a:06X}: last-contact age {rows[a].get('age')}, heard {age} s ago",
                                      {"ops": ops, "context": ctx, "run": si, "address": a})
                            return
                        if age in (da - 1, 0) and len(stale) > 0:
                            interesting = True
                    elif acc >= 12 and a in stale and a in rows:
                        self.fail(rep, f"aircraft {a:06X} silent for {age} s (delete_after {da}) still listed after a run with {acc} accepted frames",
                                  {"ops": ops, "context": ctx, "run": si, "address": a})
                        return
                    elif a in stale and a not in rows:
                        interesting = True
                ghosts = set(rows) - set(lastd)
                if ghosts:
                    self.fail(rep, f"rows for aircraft never heard: {sorted(ghosts)}", {"ops": ops, "context": ctx, "run": si})
                    return
            if interesting:
                rep.nontriv(c)
            rep.count(f"delete_after={da}")
        rep.sample({"ops_head": ops[:12], "delete_after": da})
        # a large table: the sweep comes after at most 12 accepted frames whatever the number of rows
        for n in (100, 400):
            crowd = [F.df11(5, 0x500000 + i, 0) for i in range(n)]
            other = [gen.rand_frame(rng, "df11", 0x4CB000) for _ in range(12)]
            ops = ["reset", gen.cfg_op(delete_after=5), "case 0"] + gen.seg(crowd) + ["adv 5500", "case 1"] + gen.seg(other) + ["dump"]
            impl, _, model = run.execute(ops, model=driver_ok)
            rep.evaluations += n + 12; rep.traces += 1
            self.corr(rep, impl, model, {"large_table": n}, None)
            rows = gen.parse_dump(core.split_cases(impl).get("1", []))
            left = [a for a in rows if 0x500000 <= a < 0x500000 + n]
            if left:
                self.fail(rep, f"{len(left)} of {n} aircraft silent for 5 s (delete_after 5) are still listed after 12 further accepted frames",
                          {"ops": ops, "rows": n})
                return
            rep.nontriv(("large", n))
        # retention periods at the far end of the option's range ("never delete"): nothing that is being heard may go,
        # whatever the arithmetic on `now - delete_after` does with values chrono cannot represent
        for da in [86400 * 366, 10 ** 10, 8 * 10 ** 12, 10 ** 13, 10 ** 15, 10 ** 16, 2 ** 63 - 1]:
            for u in (False, True):
                a1, a2 = 0x4CB001, 0x4CB002
                lines = [F.df11(5, a1, 0)] + [gen.rand_frame(rng, rng.choice(["df11", "df4", "df5", "tc11"]), a2) for _ in range(36)]
                ops = ["reset", gen.cfg_op(use_update=u, delete_after=da), "case 0"] + gen.seg(lines) + ["dump"]
                impl, _, model = run.execute(ops, model=driver_ok)
                rep.evaluations += len(lines); rep.traces += 1
                self.corr(rep, impl, model, {"extreme_delete_after": da, "use_update": u}, ops)
                rows = gen.parse_dump(core.split_cases(impl).get("0", []))
                if a1 not in rows or a2 not in rows:
                    self.fail(rep, f"delete_after {da}: aircraft {'%06X' % (a1 if a1 not in rows else a2)} heard less than a second ago is missing after {len(lines)} accepted frames",
                              {"ops": ops, "delete_after": da})
                    return
                rep.nontriv(("extreme", da, u))
        # a frame after expiry starts a fresh row
        for (u, show, upd) in [(False, False, -1), (True, False, -1), (False, True, -1), (True, True, 0), (False, False, 100000),
                               (True, False, 7), (False, True, 3), (True, False, 2 ** 62)]:
            a = 0x4CA123
            ident = F.df17(5, a, F.me_ident(4, 3, F.callsign_codes("OLDCALL")))
            sq = F.df5(0, 0, 0, F.id13_of_squawk(7, 1, 2, 3), a)
            other = [gen.rand_frame(rng, "df11", 0x4CA200 + i) for i in range(13)]
            ops = ["reset", gen.cfg_op(use_update=u, delete_after=5, show=show, update=upd), "case 0"] + gen.seg([ident, sq]) + ["dump", "adv 5500", "case 1"] \
                + gen.seg(other) + ["dump", "case 2"] + gen.seg([F.df11(5, a, 0)]) + ["dump"]
            impl, _, model = run.execute(ops, model=driver_ok)
            rep.evaluations += 3; rep.traces += 1
            self.corr(rep, impl, model, {"fresh_after_expiry": True, "use_update": u, "display_on": show, "update": upd}, ops)
            ci = core.split_cases(impl)
            r0, r1, r2 = (gen.parse_dump(ci.get(str(i), [])) for i in range(3))
            if a not in r0 or a in r1 or a not in r2:
                self.fail(rep, "expiry / re-creation sequence did not behave: present, removed after 13 frames, present again",
                          {"ops": ops, "present": [a in r0, a in r1, a in r2]})
                return
            if r2[a].get("ais") != "-" or r2[a].get("squawk") != "-":
                self.fail(rep, f"row re-created after expiry remembers ais={r2[a].get('ais')} squawk={r2[a].get('squawk')}", {"ops": ops})
                return
            rep.nontriv(("fresh", u, show, upd))

PROP = C12()
