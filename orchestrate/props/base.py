"""Common behaviour of the property checks."""
import core, gen

class PropBase:
    id = "C00"
    lean_modules = []
    extractors = []
    leanchecker = True

    def corr(self, rep, impl, model, ctx, ops=None, ignore=()):
        """correspondence of the two output streams; a disagreement is a broken obligation, reported
        (at the end) only if the search finds no concrete input on which the property fails"""
        ds = core.compare_streams(impl, model, ignore=ignore)
        for d in ds[:1]:
            rep.model_disagreements += 1
            rep.violation(f"model and implementation disagree on {d[3]}: {ctx}",
                          {"property": self.id, "relation": "correspondence (impl output line = model output line)",
                           "context": ctx, "impl": d[1], "model": d[2], "ops": ops or []}, found_input=False)
        self.panics(rep, impl, ctx, ops)
        return not ds

    def panics(self, rep, impl, ctx, ops=None):
        for l in impl:
            if l.startswith(("PANIC", "ABORT")):
                rep.panics += 1
                rep.count("impl_panic")

    def fail(self, rep, what, replay):
        rep.impl_spec_failures += 1
        replay = dict(replay)
        replay.setdefault("property", self.id)
        rep.violation(what, replay, found_input=True)

    def replay(self, rep, run, obj, driver_ok):
        ops = obj.get("ops")
        if not ops:
            print("replay file names a broken obligation and carries no input:")
            print(obj)
            return
        impl, so, model = run.execute(ops, model=driver_ok)
        for l in impl:
            print("impl  | " + l)
        for l in model:
            print("model | " + l)
        self.judge_replay(rep, obj, impl, so, model)

    def judge_replay(self, rep, obj, impl, so, model):
        ds = core.compare_streams(impl, model)
        if ds:
            rep.violation("replayed: model and implementation still disagree on " + str(ds[0][3]), obj, found_input=False)
