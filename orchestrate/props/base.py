"""Common behaviour of the property checks."""
import core, gen

class PropBase:
    id = "C00"
    lean_modules = []
    extractors = []
    leanchecker = True

    # the row fields this property's theorems speak about: the *generic* correspondence (random histories, run by every
    # check) compares the set of rows and these fields only, so that a change which cannot touch the property does not
    # break its obligations.  None = every field.  The property's own scenarios always compare whole lines.
    corr_fields = None

    def corr(self, rep, impl, model, ctx, ops=None, ignore=(), only=None):
        """correspondence of the two output streams; a disagreement is a broken obligation, reported
        (at the end) only if the search finds no concrete input on which the property fails"""
        ds = core.compare_streams(impl, model, ignore=ignore, only=only)
        for d in ds[:1]:
            rep.model_disagreements += 1
            rep.violation(f"model and implementation disagree on {d[3]}: {ctx}",
                          {"property": self.id, "relation": "correspondence (impl output line = model output line)",
                           "context": ctx, "impl": d[1], "model": d[2], "ops": ops or []}, found_input=False)
        PropBase.panics(self, rep, impl, ctx, ops)
        return not ds

    def generic_corr(self, rep, run, rng, tier, driver_ok):
        """model/implementation correspondence on random histories under widely varied option sets - run by every check,
        whatever its own scenarios are: a behavioural change somewhere else in the pipeline (an option that starts to
        matter, a format handled differently) shows up here as a broken correspondence even if this property's own
        generator does not go there"""
        if not driver_ok:
            return
        import frames as F
        n = 6 if tier == "quick" else 60
        for h in range(n):
            da = rng.choice([1, 2, 5, 60, 600])
            opts = dict(use_update=bool(rng.randrange(2)), relaxed=bool(rng.randrange(2)), count=bool(rng.randrange(2)),
                        filter=rng.choice([None, None, [17], [4, 5, 11, 17], [21, 20, 4], [0, 16, 18, 19, 24]]),
                        delete_after=da, update=rng.choice([-1, 0, 3, 7, 100000, 2 ** 62]), show=int(rng.random() < 0.3),
                        groups=rng.choice(["", "aAews", "we", "e"]), order=rng.choice(["", "sA", "Dv", "cN"]))
            addrs = [0x4A0000 + rng.randrange(1 << 12) for _ in range(3)]
            ops = ["reset", gen.cfg_op(**opts)]
            for si in range(rng.randrange(4, 10)):
                lines = []
                for _ in range(rng.randrange(1, 16)):
                    r = rng.random()
                    if r < 0.08:
                        lines.append(rng.choice([b"", b"junk", b"\xff\xfe", b"8D", b"F" * 27]))
                    else:
                        lines.append(gen.rand_frame(rng, rng.choice(gen.FORMATS), rng.choice(addrs)))
                ops += [f"case g{h}.{si}"] + gen.seg(lines) + ["dump"]
                ops.append("adv %d" % rng.choice([500, 1500, 9500, 10500, da * 1000 - 500, da * 1000 + 500]))
            ops += [f"case g{h}.shown", "dump", "render"]
            impl, so, model = run.execute(ops, model=True)
            if getattr(self, "shown_columns", ()):
                if not PropBase.check_shown(self, rep, [l for l in core.split_cases(impl).get(f"g{h}.shown", [])], so, opts["groups"], ops):
                    return
            rep.evaluations += sum(1 for o in ops if o.startswith("line")); rep.traces += 1
            rep.count("generic_corr_histories")
            only = None if self.corr_fields is None else set(self.corr_fields) | {"icao"}
            PropBase.corr(self, rep, impl, model, {"generic_history": h, "options": opts, "fields": sorted(only) if only else "all"}, ops, only=only)

    # the columns of the printed table that show this property's parameters: where a property speaks of what is shown, the
    # printed cell is compared with the row state too (the rendering itself is C14's subject)
    shown_columns = ()

    def check_shown(self, rep, dump_lines, stdout, groups, ops):
        """the last table printed between @@RENDER markers against the row state dumped just before it, for `shown_columns`"""
        from props import render_common as RC
        from props.c14 import expect_cell
        blocks = RC.renders(stdout)
        if not blocks or len(blocks[-1]) < 2:
            raise core.Broken("render markers missing in the implementation's stdout", stdout[-200:])
        header, rows_txt = blocks[-1][0], blocks[-1][2:]
        cells = {n: (p_, w_) for n, p_, w_ in RC.header_cells(header)}
        rows = gen.parse_dump(dump_lines)
        for t in rows_txt:
            if len(t) < 6 or not all(c in "0123456789ABCDEF" for c in t[:6]):
                continue
            a = int(t[:6], 16)
            row = rows.get(a)
            if row is None:
                PropBase.fail(self, rep, f"the printed table lists {a:06X}, which is not in the table", {"ops": ops})
                return False
            if len(t) != len(header):
                continue                      # a value wider than its column shifts what follows (C14 says when rows line up)
            for n in self.shown_columns:
                if n not in cells:
                    continue
                p_, w_ = cells[n]
                want, al = expect_cell(n, row)
                got = t[p_:p_ + w_]
                if want is None:
                    k = {"LATITUDE": ("lat", 1e-5 * 1.01, 1), "LONGITUDE": ("lon", 1e-5 * 1.01, 1), "DIST": ("dist", 0.101, 1),
                         "MACH": ("mach", 0.0101, 0.004), "TEMP": ("temp", 0.101, 0.25)}.get(n)
                    if k is None or row.get(k[0]) in (None, "-"):
                        continue
                    try:
                        ok = abs(float(got) - float(row[k[0]]) * k[2]) <= k[1]
                    except ValueError:
                        ok = False
                    if not ok:
                        PropBase.fail(self, rep, f"aircraft {a:06X}: column {n} shows {got!r}, the row holds {row[k[0]]} (-i {groups!r})",
                                  {"ops": ops, "row_text": t, "header": header, "column": n})
                        return False
                    continue
                exp = want.rjust(w_) if al == "r" else want.ljust(w_)
                if got != exp:
                    PropBase.fail(self, rep, f"aircraft {a:06X}: column {n} shows {got!r}, the row holds {exp!r} (-i {groups!r})",
                              {"ops": ops, "row_text": t, "header": header, "column": n})
                    return False
        return True

    def panics(self, rep, impl, ctx, ops=None):
        for l in impl:
            if l.startswith(("PANIC", "ABORT")):
                rep.panics += 1
                rep.count("impl_panic")

    def fail(self, rep, what, replay):
        rep.impl_spec_failures += 1
        replay = dict(replay)
        replay.setdefault("property", self.id)
        rep.violation(what, replay, found_input=True)

    def replay(self, rep, run, obj, driver_ok):
        ops = obj.get("ops")
        if obj.get("cli_args") is not None:
            # found through the built binary: run it again on the same lines with the same options and show its last screen
            lines = obj.get("frames") or [bytes.fromhex(o.split(" ", 1)[1]) for o in (ops or []) if o.startswith("line ") and len(o) > 5]
            try:
                rc, screens, err = core.cli_screens(core.build_cli(False), obj["cli_args"], lines, run.dir)
                print(f"squitterator {' '.join(obj['cli_args'])}: exit status {rc}; last screen:")
                print("\n".join(screens[-1]) if screens else "(nothing printed)")
                if err.strip():
                    print("stderr: " + err.strip()[-500:])
            except Exception as e:          # showing the screen is a convenience of the replay, not a judgement
                print("could not run the binary: %s" % e)
        if not ops and obj.get("cli_args") is not None:
            return
        if not ops:
            print("replay file names a broken obligation and carries no input:")
            print(obj)
            return
        impl, so, model = run.execute(ops, model=driver_ok)
        for l in impl:
            print("impl  | " + l)
        for l in model:
            print("model | " + l)
        self.judge_replay(rep, obj, impl, so, model)

    def judge_replay(self, rep, obj, impl, so, model):
        ds = core.compare_streams(impl, model)
        if ds:
            rep.violation("replayed: model and implementation still disagree on " + str(ds[0][3]), obj, found_input=False)
