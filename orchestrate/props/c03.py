"""C03 — every frame is attributed to exactly the address it encodes; rows are isolated."""
import core, gen, frames as F
from props.base import PropBase

NINE = ["df0", "df4", "df5", "df11", "df16", "tc11", "df18", "df20", "df21"]

class C03(PropBase):
    id = "C03"
    shown_columns = ('ICAO',)
    corr_fields = ['df']
    lean_modules = ["SqModel.Props.C03", "SqModel.Proofs.BridgeBits", "SqModel.Proofs.BridgeTable"]
    extractors = ["trans_bits", "crc", "trans"]
    rule = ("frames of the nine formats built from (format, random payload, address in {1, 2^24-1, 0, random}); get_icao and "
            "DF::from_message asked directly, compared with the address the frame was built from and with Spec.addressOf; "
            "interleaved histories of 2-4 aircraft with a dump after every frame: key set and every other row unchanged; pairs of aircraft whose addresses differ in one or two bits, every format. "
            "Non-trivial = non-zero address; distinct by frame.")

    def explore(self, rep, run, rng, tier, driver_ok):
        n = 3000 if tier == "quick" else 200000
        frames, exp = [], []
        for i in range(n):
            kind = NINE[i % len(NINE)]
            addr = rng.choice([1, 0xFFFFFF, 0, rng.randrange(1 << 24), rng.randrange(1 << 24)])
            frames.append(gen.rand_frame(rng, kind, addr))
            exp.append(addr)
        # long address-parity frames (DF16/20/21) whose data block has a prefix that is a CRC code word itself, followed by a
        # byte of zeros: the division register runs empty half-way through such a frame and fills again from what follows -
        # the address is still the parity of the WHOLE data block
        for i in range(n // 10):
            k = rng.randrange(8, 57)
            df = rng.choice([16, 20, 21])
            head = (df << (k - 5)) | rng.randrange(1 << (k - 5))
            rest_bits = 88 - (k + 32)
            rest = rng.randrange(1, 1 << rest_bits) if rest_bits > 0 else 0
            data = (((head << 24) | F.crc24(head, k)) << 8) << rest_bits | rest
            addr = rng.randrange(1, 1 << 24)
            frames.append(F.hexs((data << 24) | (F.crc24(data, 88) ^ addr), 112))
            exp.append(addr)
        n = len(frames)
        kinds = [NINE[i % len(NINE)] for i in range(n)]
        for lo in range(0, n, 50000):
            chunk = frames[lo:lo + 50000]
            ops = ["reset", "case 0"] + ["q frame " + f for f in chunk]
            impl, _, model = run.execute(ops, model=driver_ok)
            rep.evaluations += len(chunk)
            rep.traces += 1
            self.corr(rep, impl, model, "q frame over the nine formats")
            fl = [l for l in impl if l.startswith("frame")]
            sp = [l for l in model if l.startswith("spec ")]
            for k, (f, il) in enumerate(zip(chunk, fl)):
                want = exp[lo + k]
                got = il.split(" icao=", 1)[1].split(" ", 1)[0]   # get_icao's answer (the record repeats the key)
                w = "-" if want == 0 else str(want)
                rep.count(kinds[lo + k] if lo + k < 10 * (n // 11) else "code-word prefix")
                if got != w:
                    self.fail(rep, f"frame {f} built for address {want:06X} is attributed to {got}",
                              {"ops": ["q frame " + f], "frame": f, "expected_address": want, "impl": il})
                    return
                if driver_ok and k < len(sp) and core.kvs(sp[k]).get("addr") != w:
                    raise core.Broken("Spec.addressOf disagrees with the frame builder", f + " " + sp[k])
                if want:
                    rep.nontriv(f)
        rep.sample({"frame": frames[7], "address": exp[7]})
        # a frame with a non-zero address puts its aircraft into the table whatever it carries: every 13-bit altitude / identity
        # code (also the ones that decode to nothing: below -1000 ft .. illegal Gillham patterns), every flight status, as the first
        # frame ever heard of that aircraft, on both paths
        for (u, r) in ((False, False), (True, True)):
            first, owners = [], []
            for code in range(0, 8192, 1 if tier == "thorough" else 3):
                a = 0x500000 + code
                first.append(rng.choice([F.df4, F.df5])(rng.randrange(8), rng.randrange(32), rng.randrange(64), code, a)); owners.append(a)
                if code % 4 == 0:
                    a2 = 0x510000 + code
                    first.append(rng.choice([F.df20, F.df21])(rng.randrange(8), rng.randrange(32), rng.randrange(64), code, rng.randrange(1 << 56), a2)); owners.append(a2)
            for k in range(300):
                a3 = 0x520000 + k
                first.append(gen.rand_frame(rng, NINE[k % len(NINE)], a3)); owners.append(a3)
            ops = ["reset", gen.cfg_op(use_update=u, relaxed=r, delete_after=600)] + gen.seg(first) + ["dump"]
            impl, _, model = run.execute(ops, model=driver_ok)
            rep.evaluations += len(first); rep.traces += 1
            self.corr(rep, impl, model, {"creating frames": len(first), "use_update": u})
            have = set(gen.parse_dump(impl))
            for f, a in zip(first, owners):
                if a not in have:
                    self.fail(rep, f"frame {f} is the first frame of aircraft {a:06X}: the table has no row for it afterwards",
                              {"ops": ["reset", gen.cfg_op(use_update=u, relaxed=r)] + gen.seg([f]) + ["dump"], "frame": f, "expected_address": a})
                    return
            if have - set(owners):
                self.fail(rep, f"rows of aircraft nobody sent a frame for: {sorted('%06X' % x for x in have - set(owners))[:5]}", {"ops": ops[:2000]})
                return
        # isolation
        nh = 40 if tier == "quick" else 1500
        for h in range(nh):
            addrs = rng.sample(range(1, 1 << 24), rng.randrange(2, 5))
            u, r = rng.choice(gen.ALL_CFGS)
            ops = ["reset", gen.cfg_op(use_update=u, relaxed=r)]
            seq = []
            for i in range(rng.randrange(6, 16)):
                a = rng.choice(addrs)
                f = gen.rand_frame(rng, rng.choice([k for k in gen.FORMATS if k not in ("df24", "df19", "df22", "df25", "df28", "df31")]), a)
                seq.append((a, f))
                ops += [f"case {i}"] + gen.seg([f]) + ["dump"]
            impl, _, model = run.execute(ops, model=driver_ok)
            rep.evaluations += len(seq)
            rep.traces += 1
            self.corr(rep, impl, model, f"interleaved history {h}", ops)
            ci = core.split_cases(impl)
            prev = {}
            for i, (a, f) in enumerate(seq):
                rows = {int(l.split(" ", 2)[1]): l for l in ci.get(str(i), []) if l.startswith("row ")}
                if len(rows) != len([l for l in ci.get(str(i), []) if l.startswith("row ")]):
                    self.fail(rep, "two rows for one address", {"ops": ops})
                    return
                for k, l in prev.items():
                    if k != a and rows.get(k) != l:
                        self.fail(rep, f"frame {f} for {a:06X} changed the row of {k:06X}",
                                  {"ops": ops, "step": i, "before": l, "after": rows.get(k)})
                        return
                extra = set(rows) - set(prev) - {a}
                if extra:
                    self.fail(rep, f"frame {f} for {a:06X} created rows {sorted(extra)}", {"ops": ops, "step": i})
                    return
                if a not in rows:
                    self.fail(rep, f"frame {f} for {a:06X} did not create / keep its row", {"ops": ops, "step": i})
                    return
                prev = rows
                rep.nontriv(("iso", f))

        # neighbouring frames that share most of their bits: a frame is attributed by ITS OWN bits, whatever came just before.
        # Each pair is (frame for A1, the same frame with bits 6..48 changed): for the AP formats the changed frame encodes
        # another address (same AP field, other CRC); both must get their own row, in the same reader run.
        for h in range(30 if tier == "quick" else 600):
            a1 = rng.randrange(1, 1 << 24)
            kind = rng.choice(["df20", "df21", "df16", "df4", "df5", "df0"])
            f1 = gen.rand_frame(rng, kind, a1)
            n = len(f1) * 4
            v = int(f1, 16)
            for b in rng.sample(range(6, min(48, n - 24) + 1), rng.randrange(1, 4)):
                v ^= 1 << (n - b)
            if kind in ("df20", "df21") and rng.random() < 0.3:
                v ^= 1 << (n - 5)                 # DF20 <-> DF21
            f2 = F.hexs(v, n)
            data2 = v >> 24
            a2 = (v & 0xFFFFFF) ^ F.crc24(data2, n - 24)
            if a2 == 0 or a2 == a1:
                continue
            u, r = rng.choice(gen.ALL_CFGS)
            ops = ["reset", gen.cfg_op(use_update=u, relaxed=r)] + gen.seg([f1, f2]) + ["dump"]
            impl, _, model = run.execute(ops, model=driver_ok)
            rep.evaluations += 2; rep.traces += 1
            self.corr(rep, impl, model, f"neighbouring frames {h}", ops)
            rows = gen.parse_dump(impl)
            if set(rows) != {a1, a2}:
                self.fail(rep, f"frames {f1} (address {a1:06X}) and {f2} (address {a2:06X}) in a row: the table holds {sorted('%06X' % k for k in rows)}",
                          {"ops": ops, "frames": [f1, f2], "addresses": [a1, a2]})
                return
            rep.nontriv(("neighbours", f1, f2))


        # neighbouring ADDRESSES: aircraft whose addresses differ in one or two bits (consecutive fleet addresses). Whatever
        # rows exist already, a frame of every format is attributed to the address it encodes: it creates / updates its own
        # row and leaves the neighbour's row as it was.
        for h in range(40 if tier == "quick" else 800):
            b = rng.randrange(1, 1 << 24)
            a = b ^ (1 << rng.randrange(24))
            if rng.random() < 0.3:
                a ^= 1 << rng.randrange(24)
            if a == 0 or a == b:
                continue
            u, r = rng.choice(gen.ALL_CFGS)
            first_b = gen.rand_frame(rng, rng.choice(["df11", "df4", "tc11", "df20"]), b)
            kinds = rng.sample(["df0", "df4", "df5", "df16", "df20", "df21", "df11", "tc11", "df18"], 4)
            fa = [gen.rand_frame(rng, k, a) for k in kinds]
            ops = ["reset", gen.cfg_op(use_update=u, relaxed=r), "case b"] + gen.seg([first_b]) + ["dump"]
            for i, f in enumerate(fa):
                ops += [f"case a{i}"] + gen.seg([f]) + ["dump"]
            impl, _, model = run.execute(ops, model=driver_ok)
            rep.evaluations += 1 + len(fa); rep.traces += 1
            self.corr(rep, impl, model, f"neighbouring addresses {h}", ops)
            ci = core.split_cases(impl)
            rowb = {int(l.split(" ", 2)[1]): l for l in ci.get("b", []) if l.startswith("row ")}.get(b)
            for i, f in enumerate(fa):
                rows = {int(l.split(" ", 2)[1]): l for l in ci.get(f"a{i}", []) if l.startswith("row ")}
                if a not in rows or rows.get(b) != rowb or set(rows) != {a, b}:
                    self.fail(rep, f"{kinds[i]} frame {f} of {a:06X} while {b:06X} (one or two bits away) has a row: the table holds "
                                   f"{sorted('%06X' % k for k in rows)}, the row of {b:06X} {'changed' if rows.get(b) != rowb else 'is unchanged'}",
                              {"ops": ops, "frame": f, "addresses": [a, b]})
                    return
            rep.nontriv(("neighbour-addresses", a, b))

PROP = C03()
