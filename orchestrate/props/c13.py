"""C13 — unusable lines affect nothing but themselves."""
import core, gen, frames as F
from props.base import PropBase

def may_be_frame(j):
    """a line with 14/28 (or 26/40) hex digits whose format fits that length may be a frame by C02: such a line is not junk"""
    d = "".join(chr(c) for c in j if chr(c) in "0123456789abcdefABCDEF")
    if len(d) in (26, 40):
        d = d[12:]
    if len(d) not in (14, 28):
        return False
    return (int(d[:2], 16) >> 3 < 16) == (len(d) == 14)

def junk_lines(rng):
    big = bytes(rng.randrange(256) for _ in range(3000)).replace(b"\n", b"x") * 25     # > 64 KiB, no newline
    f = gen.rand_frame(rng, "tc11", 0x123456)
    cand = [b"", b"\r", b"\x00", b"\x00\x00\x00", bytes([0x80]), bytes([0xFF, 0xFE]), b"\xc3\x28", b"\xe2\x82", b"\xf0\x9f\x92",
            b"hello world", b"*;", b"@;", f[:13].encode(), f[:27].encode(), (f + "0").encode(), (f[:-1]).encode(),
            b"GGGGGGGGGGGGGG", "日本語".encode(), big, b"8D\x00\xff", b"*" + f[:20].encode() + b"\x9f" + b";",
            bytes(rng.randrange(128, 256) for _ in range(40)), b"\r\r\r", b"\t \t"]
    # records cut off in every line style a feed uses: an opening mark without the closing one, a closing mark alone, a time
    # stamp without its frame, the cut anywhere in the frame - what a serial bridge or a dropped packet leaves behind
    g = gen.rand_frame(rng, rng.choice(["df4", "df11", "tc19.1", "df20"]), 0x654321)
    ts = "%012X" % rng.randrange(1 << 48)
    for k in sorted(set([1, 2, len(g) // 2, len(g) - 1, len(g) - 3, rng.randrange(1, len(g))])):
        cand += [("*" + g[:k]).encode(), ("@" + ts + g[:k]).encode(), ("@" + ts[:k % 12 + 1]).encode(), (g[k:] + ";").encode(),
                 ("*" + g[:k] + "\r").encode(), ("<" + ts + "1A" + g[:k]).encode()]
    cand += [b"*", b"@", b";", b"*\r", b"**", b"@@", b"*;*", b";*"]
    # lines whose length sits on and around the sizes buffers are made of (a line is a line, whatever its length)
    for n in rng.sample([4095, 4096, 4097, 8191, 8192, 8193, 16383, 16384, 32767, 32768, 65533, 65534, 65535, 65536, 65537, 131071, 131072], 4) + [65535, 65536]:
        cand.append(bytes(rng.choice(b"ghijklmnopqrstuvwxyz #") for _ in range(n)))
        cand.append(bytes(rng.choice(b"ghijklmnopqrstuvwxyz #") for _ in range(n - 1)) + b"\r")
    # an extended squitter cut after 56 bits (14 digits whose format says "112 bits"), bare, framed and time-stamped; a long line
    # whose format says "56 bits": right length for SOME frame, wrong for this one
    for kind in ("tc11", "tc19.1", "df18", "df20", "df21"):
        h = gen.rand_frame(rng, kind, 0x3C0000 + rng.randrange(1 << 10))
        cand += [h[:14].encode(), ("*" + h[:14] + ";").encode(), ("@" + ts + h[:14] + ";").encode(), h[:14].lower().encode() + b"\r"]
    for kind in ("df4", "df11", "df0"):
        h = gen.rand_frame(rng, kind, 0x3C0000 + rng.randrange(1 << 10))
        cand += [(h + h).encode(), ("*" + h + h + ";").encode()]
    return [j for j in cand if not may_be_frame(j)]

class C13(PropBase):
    id = "C13"
    lean_modules = ["SqModel.Props.C13", "SqModel.Proofs.BridgeTable"]
    rule = ("valid streams of 20-80 frames of every format for 3 aircraft in mixed line styles (bare, *..;, @time stamp..;, lower case + CR); junk lines (empty, NUL, 0x80-0xFF, invalid UTF-8 "
            "sequences, lone CR, > 64 KiB, lengths on and around 4 KiB .. 128 KiB buffer sizes (65535, 65536 always), truncated / over-long frames, records cut off in every line style (opening mark without the closing one, bare time stamp ..), non-hex) inserted at random positions; the table after "
            "the real reader thread ran over the junk-laden file against the table after the clean file (impl vs impl), and "
            "against the model; the same with a silent aircraft, a pause longer than delete_after and 11-30 junk / bad-parity lines among 1-25 accepted ones (junk must not advance the sweep); file source (thorough: also the TCP source through the loopback peer of C18). Non-trivial = at "
            "least one junk line of a kind that is not valid UTF-8 precedes a valid line; distinct by stream.")
    assumptions = ["BufRead::split and String::from_utf8_lossy are modelled as byte-wise line splitting and ASCII hex-digit filtering"]

    def explore(self, rep, run, rng, tier, driver_ok):
        n = 60 if tier == "quick" else 1200
        for c in range(n):
            addrs = [0x400100, 0x400200, 0xABCDEF]
            def styled(f):
                k = rng.randrange(4)
                return (f if k == 0 else "*" + f + ";" if k == 1 else "@%012X%s;" % (rng.randrange(1 << 48), f) if k == 2 else f.lower() + "\r").encode()
            clean = [styled(gen.rand_frame(rng, rng.choice(gen.FORMATS), rng.choice(addrs))) for _ in range(rng.randrange(20, 80))]
            # merged feeds repeat frames: a fifth of the lines repeat the line before (as it is, or in another line style), and one
            # such pair gets a junk line right between its two halves - what is junk must not even separate two frames
            for i in range(1, len(clean)):
                if rng.random() < 0.2:
                    clean[i] = clean[i - 1]
            rp = rng.randrange(0, len(clean) - 1)
            twin_frame = gen.rand_frame(rng, rng.choice(["df20", "df21", "df4", "tc11", "tc19.1", "df11"]), 0x400300 + rng.randrange(4))
            clean[rp] = styled(twin_frame); clean[rp + 1] = styled(twin_frame)
            mixed = list(clean)
            jl = junk_lines(rng)
            jl_big = max(jl, key=len)
            nonutf_before_valid = False
            if c % 3 == 0:
                # the very first bytes of the stream look like another protocol (Beast binary escape + type, BOM, gzip, HTTP, JSON, SBS)
                mixed.insert(0, rng.choice([b"\x1a1\x00\x01", b"\x1a2abc", b"\x1a3\xff\xff", b"\x1a4", b"\xef\xbb\xbf", b"\x1f\x8b\x08", b"GET / HTTP/1.1",
                                            b"{\"now\":1}", b"MSG,3,1,1", b"#", b"\x00\x00"]))
            # binary noise of a few hundred to a few thousand bytes without a line end (what a feed in another protocol looks like),
            # in every stream; the 75 KB line in every fifth
            forced = [bytes(rng.choice([rng.randrange(128, 256), rng.randrange(128, 256), rng.randrange(1, 128)]) for _ in range(rng.choice([300, 511, 512, 513, 700, 1500, 3000]))).replace(b"\n", b"x")]
            forced = [j for j in forced if not may_be_frame(j)]
            if c % 5 == 0:
                forced.append(jl_big)
            picks = forced + [rng.choice(jl) for _ in range(rng.randrange(1, 15))]
            if c == 1:
                picks = forced + list(jl)          # every kind of junk line once (the other streams draw from them)
            between = rng.choice([j for j in jl if len(j) < 200])
            mixed.insert(rp + 1, between)          # first, so that the positions drawn below cannot move it away from the pair
            for j in picks:
                pos = rng.randrange(len(mixed) + 1)
                if pos == rp + 1 or pos == rp + 2:
                    pos = 0
                mixed.insert(pos, j)
                try:
                    j.decode("utf-8")
                except UnicodeDecodeError:
                    if pos < len(mixed) - 1:
                        nonutf_before_valid = True
            u, r = rng.choice(gen.ALL_CFGS)
            ops = ["reset", gen.cfg_op(use_update=u, relaxed=r), "case clean"] + gen.seg(clean) + ["dump", "reset",
                   gen.cfg_op(use_update=u, relaxed=r), "case mixed"] + gen.seg(mixed) + ["dump"]
            impl, _, model = run.execute(ops, model=driver_ok)
            rep.evaluations += len(mixed); rep.traces += 1
            self.corr(rep, impl, model, {"stream": c}, None)
            ci = core.split_cases(impl)
            a = [l for l in ci.get("clean", []) if l.startswith(("row", "enddump"))]
            b = [l for l in ci.get("mixed", []) if l.startswith(("row", "enddump"))]
            if [l for l in impl if l.startswith(("PANIC", "ABORT"))]:
                self.fail(rep, "the reader panicked on a junk-laden stream", {"ops": ops, "impl": [l for l in impl if l.startswith(("PANIC", "ABORT"))]})
                return
            if a != b:
                # shrink: remove junk lines one at a time while the difference persists
                cur = list(mixed)
                changed = True
                while changed:
                    changed = False
                    for i, l in enumerate(cur):
                        if l in clean:
                            continue
                        trial = cur[:i] + cur[i + 1:]
                        o2 = ["reset", gen.cfg_op(use_update=u, relaxed=r), "case mixed"] + gen.seg(trial) + ["dump"]
                        i2, _, _ = run.execute(o2, model=False)
                        b2 = [x for x in i2 if x.startswith(("row", "enddump"))]
                        if b2 != a:
                            cur = trial; changed = True
                            break
                junk = [l for l in cur if l not in clean]
                self.fail(rep, f"junk lines change the table: {[j[:40] for j in junk]}",
                          {"ops": ["reset", gen.cfg_op(use_update=u, relaxed=r)] + gen.seg(cur) + ["dump"],
                           "clean_ops": ["reset", gen.cfg_op(use_update=u, relaxed=r)] + gen.seg(clean) + ["dump"],
                           "junk_hex": [j[:200].hex() for j in junk]})
                return
            if nonutf_before_valid:
                rep.nontriv(c)
        rep.sample({"junk_kinds": [j[:16].hex() for j in jl[:8]], "clean_lines": len(clean), "mixed_lines": len(mixed)})
        # junk must not advance the expiry sweep either: a silent aircraft, then a run with few accepted lines and many junk lines
        for c in range(40 if tier == "quick" else 600):
            da = rng.choice([1, 2, 5])
            u, r = rng.choice(gen.ALL_CFGS)
            first = [gen.rand_frame(rng, rng.choice(["df11", "tc4", "df4", "tc11"]), 0x4A0001 + i).encode() for i in range(rng.randrange(1, 4))]
            k = rng.randrange(1, 26)
            second = [gen.rand_frame(rng, rng.choice(gen.FORMATS), 0x4B0000 + rng.randrange(3)).encode() for _ in range(k)]
            mixed = list(second)
            jl = [j for j in junk_lines(rng) if len(j) < 1000] + [b"8D4840D6202CC371C32CE0576099", b"5D4840D6FFFFFF"]   # also frames with a bad parity
            for _ in range(rng.randrange(11, 31)):
                mixed.insert(rng.randrange(len(mixed) + 1), rng.choice(jl))
            ops = []
            for tag, lines in (("clean", second), ("mixed", mixed)):
                ops += ["reset", gen.cfg_op(use_update=u, relaxed=r, delete_after=da), f"case {tag}"] + gen.seg(first) \
                    + [f"adv {da * 1000 + 1500}"] + gen.seg(lines) + ["dump"]
            impl, _, model = run.execute(ops, model=driver_ok)
            rep.evaluations += len(mixed); rep.traces += 1
            self.corr(rep, impl, model, {"stale-stream": c}, None)
            ci = core.split_cases(impl)
            a = [l for l in ci.get("clean", []) if l.startswith(("row", "enddump"))]
            b = [l for l in ci.get("mixed", []) if l.startswith(("row", "enddump"))]
            if a != b:
                self.fail(rep, f"junk lines change when silent aircraft are removed: {len(a) - 1} rows after the clean run, {len(b) - 1} after the junk-laden one "
                               f"({k} accepted lines, delete_after {da})",
                          {"ops": ops[len(ops) // 2:], "clean_ops": ops[:len(ops) // 2], "accepted_lines": k, "delete_after": da})
                return
            rep.nontriv(("stale", c))

    def judge_replay(self, rep, obj, impl, so, model):
        super().judge_replay(rep, obj, impl, so, model)
        if "clean_ops" in obj:
            run = core.Run("C13-replay")
            i2, _, _ = run.execute(obj["clean_ops"], model=False)
            run.cleanup()
            a = [x for x in i2 if x.startswith(("row", "enddump"))]
            b = [x for x in impl if x.startswith(("row", "enddump"))]
            if a != b:
                self.fail(rep, "replayed: junk-laden stream still ends in a different table", obj)

PROP = C13()
