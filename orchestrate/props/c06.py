"""C06 — squawk equals the octal identity code of the latest DF5/DF21 reply."""
import core, gen, frames as F

def squawk_of(id13):
    """the four octal digits A B C D of the identity field C1 A1 C2 A2 C4 A4 X B1 D1 B2 D2 B4 D4, as the number ABCD"""
    b = [(id13 >> (12 - k)) & 1 for k in range(13)]
    c1, a1, c2, a2, c4, a4, _x, b1, d1, b2, d2, b4, d4 = b
    return (a4 * 4 + a2 * 2 + a1) * 1000 + (b4 * 4 + b2 * 2 + b1) * 100 + (c4 * 4 + c2 * 2 + c1) * 10 + (d4 * 4 + d2 * 2 + d1)

class C06:
    id = "C06"
    shown_columns = ('SQWK',)
    corr_fields = ['squawk']
    lean_modules = ["SqModel.Props.C06", "SqModel.Proofs.BridgeBits", "SqModel.Proofs.Bridge", "SqModel.Proofs.BridgePlane"]
    extractors = ["ma_code", "trans"]
    rule = ("all 8192 ID13 fields x {DF5, DF21} x {-U,-R on/off} embedded in random payloads, applied to an "
            "existing row and as creating frame; rows with a squawk hit by every other format. A case is "
            "non-trivial when the row's squawk is present after the frame; distinct = distinct (format, field, cfg).")
    assumptions = ["squawkSpec is the reading of Annex 10 ID-code bit order given in the property statement"]

    def sweep(self, rep, run, rng, codes, label):
        base = 0x100000
        for (u, r) in gen.ALL_CFGS:
            for df in (5, 21):
                for first in (False, True):
                    ops = ["reset", gen.cfg_op(use_update=u, relaxed=r), "case 0"]
                    exp = {}
                    frames = []
                    for code in codes:
                        addr = base + code
                        a, b, c, d = (code >> 9) & 7, (code >> 6) & 7, (code >> 3) & 7, code & 7
                        x = (code >> 12) & 1
                        id13 = F.id13_of_squawk(a, b, c, d, x)
                        exp[addr] = 1000 * a + 100 * b + 10 * c + d
                        if df == 5:
                            frames.append(F.df5(rng.randrange(8), rng.randrange(32), rng.randrange(64), id13, addr))
                        else:
                            frames.append(F.df21(rng.randrange(8), rng.randrange(32), rng.randrange(64), id13, rng.randrange(1 << 56), addr))
                    if not first:
                        ops += gen.seg([F.df11(rng.randrange(8), base + code, 0) for code in codes])
                    ops += gen.seg(frames) + ["dump"]
                    # the Lean spec on the same frames
                    ops += ["case 1"] + ["q frame " + f for f in frames[:256]]
                    impl, _, model = run.execute(ops)
                    ci, cm = core.split_cases(impl), core.split_cases(model)
                    rep.evaluations += len(frames)
                    rep.traces += 1
                    ctx = {"df": df, "use_update": u, "relaxed": r, "creating_frame": first}
                    for d_ in core.compare_streams(impl, model):
                        rep.model_disagreements += 1
                        rep.violation(f"model and implementation disagree ({d_[3]}) on squawk sweep {ctx}",
                                      {"property": "C06", "relation": "correspondence dump/q frame", "context": ctx,
                                       "impl": d_[1], "model": d_[2], "ops": ops[:3]}, found_input=False)
                        break
                    rows = gen.parse_dump(ci.get("0", []))
                    for addr, want in exp.items():
                        got = rows.get(addr, {}).get("squawk")
                        ok = got == str(want) or (first and df == 21 and got in ("-", None) and addr in rows)
                        if got == str(want):
                            rep.nontriv((df, addr - base, u, r, first))
                        if not ok:
                            rep.impl_spec_failures += 1
                            fr = frames[codes.index(addr - base)]
                            rep.violation(f"squawk {got} shown for identity code {want:04d} ({ctx})",
                                          {"property": "C06", "ops": ["reset", gen.cfg_op(use_update=u, relaxed=r)]
                                           + ([] if first else gen.seg([F.df11(5, addr, 0)])) + gen.seg([fr]) + ["dump"],
                                           "expected_squawk": want, "impl_squawk": got, "frame": fr, "context": ctx})
                            return
                    # Lean spec vs generator's expectation vs implementation's per-frame decoder
                    specs = [l for l in cm.get("1", []) if l.startswith("spec ")]
                    for f, sl in zip(frames[:256], specs):
                        s = core.kvs(sl).get("squawk")
                        addr = int(core.kvs(sl).get("addr", "0"))
                        if s != str(exp.get(addr)):
                            raise core.Broken("Lean squawkSpec disagrees with the generator", f"{f} {sl} {exp.get(addr)}")
                    rep.sample({"frame": frames[len(frames) // 2], "expected": exp[base + codes[len(codes) // 2]], **ctx}, limit=4)
        rep.exhaustive.append(label)

    def others(self, rep, run, rng, n):
        """frames of every other format never change the squawk"""
        kinds = [k for k in gen.FORMATS if k not in ("df5", "df21")]
        for (u, r) in gen.ALL_CFGS:
            addrs = [0x200000 + i for i in range(n)]
            ops = ["reset", gen.cfg_op(use_update=u, relaxed=r), "case 0"]
            ops += gen.seg([F.df11(5, a, 0) for a in addrs])
            ops += gen.seg([F.df5(0, 0, 0, rng.randrange(8192), a) for a in addrs]) + ["dump", "case 1"]
            hits = [gen.rand_frame(rng, kinds[i % len(kinds)], a) for i, a in enumerate(addrs)]
            ops += gen.seg(hits) + ["dump"]
            impl, _, model = run.execute(ops)
            rep.evaluations += len(hits)
            rep.traces += 1
            for d_ in core.compare_streams(impl, model):
                rep.model_disagreements += 1
                rep.violation(f"model and implementation disagree ({d_[3]}) after other-format frames",
                              {"property": "C06", "relation": "correspondence", "impl": d_[1], "model": d_[2]}, found_input=False)
                break
            ci = core.split_cases(impl)
            before, after = gen.parse_dump(ci.get("0", [])), gen.parse_dump(ci.get("1", []))
            for i, a in enumerate(addrs):
                if a in before and a in after and before[a].get("squawk") != after[a].get("squawk"):
                    rep.impl_spec_failures += 1
                    rep.violation(f"a {kinds[i % len(kinds)]} frame changed the squawk {before[a].get('squawk')} -> {after[a].get('squawk')}",
                                  {"property": "C06", "ops": ["reset", gen.cfg_op(use_update=u, relaxed=r)] + gen.seg([F.df11(5, a, 0)])
                                   + gen.seg([F.df5(0, 0, 0, 0, a)]) + gen.seg([hits[i]]) + ["dump"], "frame": hits[i]})
                    return
                rep.nontriv(("other", kinds[i % len(kinds)], u, r))
            # .. and as the FIRST frame of an aircraft a frame of another format leaves the squawk blank (a DF20 / DF4 reply carries an
            # altitude code where DF21 / DF5 carry the identity code: the same 13 bits)
            addrs2 = [0x280000 + i for i in range(n)]
            firsts = [gen.rand_frame(rng, kinds[i % len(kinds)], a) for i, a in enumerate(addrs2)]
            ops = ["reset", gen.cfg_op(use_update=u, relaxed=r), "case 0"] + gen.seg(firsts) + ["dump"]
            impl, _, model = run.execute(ops)
            rep.evaluations += len(firsts); rep.traces += 1
            for d_ in core.compare_streams(impl, model):
                rep.model_disagreements += 1
                rep.violation(f"model and implementation disagree ({d_[3]}) after creating frames of other formats",
                              {"property": "C06", "relation": "correspondence", "impl": d_[1], "model": d_[2]}, found_input=False)
                break
            rows = gen.parse_dump(impl)
            for i, a in enumerate(addrs2):
                if a in rows and rows[a].get("squawk") != "-":
                    rep.impl_spec_failures += 1
                    rep.violation(f"a {kinds[i % len(kinds)]} frame that created the row of {a:06X} set the squawk to {rows[a].get('squawk')}",
                                  {"property": "C06", "ops": ["reset", gen.cfg_op(use_update=u, relaxed=r)] + gen.seg([firsts[i]]) + ["dump"], "frame": firsts[i]})
                    return

    def same_ap(self, rep, run, rng, tier, driver_ok):
        """two different DF5 (or DF4 then DF5) replies of one aircraft whose 32 header bits differ by a multiple of the CRC generator
        have the same AP field: the later one still decides the squawk"""
        G = F.GEN
        for h in range(20 if tier == "quick" else 400):
            a = rng.randrange(1, 1 << 24)
            f1 = F.df5(rng.randrange(8), rng.randrange(32), rng.randrange(64), rng.randrange(8192), a)
            h1 = int(f1, 16) >> 24
            q = rng.randrange(1, 8)
            d = 0
            for k in range(3):
                if q >> k & 1:
                    d ^= G << k
            h2 = h1 ^ d
            f2 = F.hexs((h2 << 24) | (int(f1, 16) & 0xFFFFFF), 56)
            if (h2 >> 27) != 5:
                continue
            want = squawk_of(h2 & 0x1FFF)
            for (u, r) in ((False, False), (True, False)):
                ops = ["reset", gen.cfg_op(use_update=u, relaxed=r)] + gen.seg([F.df11(5, a, 0), f1, f2]) + ["dump"]
                impl, _, model = run.execute(ops, model=driver_ok)
                rep.evaluations += 3; rep.traces += 1
                got = gen.parse_dump(impl).get(a, {}).get("squawk")
                if got is None or got == "-" or int(got) != want:
                    rep.impl_spec_failures += 1
                    rep.violation(f"DF5 replies {f1} then {f2} of aircraft {a:06X} (same AP field): squawk {got} shown, the later reply says {want:04d}",
                                  {"property": "C06", "ops": ops, "frames": [f1, f2], "expected": want}, found_input=True)
                    return False
                rep.nontriv(("same-ap", f2, u))
        return True

    def explore(self, rep, run, rng, tier, driver_ok):
        codes = list(range(8192))  # four octal digits and the X bit
        self.sweep(rep, run, rng, codes, "all 8192 ID13 fields x DF5/DF21 x -U/-R x first/later frame")
        if tier == "thorough":
            for _ in range(3):
                self.sweep(rep, run, rng, codes, "repeat with fresh payloads")
        self.others(rep, run, rng, 300 if tier == "quick" else 3000)
        self.same_ap(rep, run, rng, tier, driver_ok)

    def replay(self, rep, run, obj, driver_ok):
        ops = obj.get("ops")
        if not ops:
            print("replay file carries no ops (broken-obligation report)")
            return
        impl, _, model = run.execute(ops)
        print("\n".join("impl  | " + l for l in impl))
        print("\n".join("model | " + l for l in model))
        if "expected_squawk" in obj:
            rows = gen.parse_dump(impl)
            for a, d in rows.items():
                if d.get("squawk") != str(obj["expected_squawk"]):
                    rep.impl_spec_failures += 1
                    rep.violation("replayed: squawk differs from identity code", obj)

PROP = C06()
