"""C19 — presentation options never change what is decoded; -U is decode-neutral."""
import os
import core, gen, frames as F
from props.base import PropBase

ULIST = ["ais", "alt", "squawk", "lat", "lon", "gs", "track", "vrate", "cat", "ss"]

def valid_frame(rng, a):
    """DF4/5/11/17 frames whose carried values are all valid"""
    k = rng.randrange(10)
    r = rng.randrange
    if k == 0: return F.df4(0, 0, 0, F.ac13_q1(r(40, 2000)), a)
    if k == 1: return F.df5(0, 0, 0, r(8192), a)
    if k == 2: return F.df11(r(8), a, 0)
    if k == 3: return F.df17(r(8), a, F.me_ident(r(1, 5), r(8), F.callsign_codes("VLD%03d" % r(1000))))
    if k in (4, 5):
        lat = F.Fraction(r(-8000, 8000), 100); lon = F.Fraction(r(-17900, 17900), 100)
        odd = r(2)
        la, lo = F.cpr_encode(lat, lon, odd)
        if r(8) == 0:
            # a position exactly on a zone edge: a CPR field of 0 is a valid value (the code reads it as "nothing received")
            la, lo = rng.choice([(0, lo), (la, 0), (0, 0)])
        return F.df17(r(8), a, F.me_airpos(r(9, 19), r(4), 0, F.ac12_q1(r(40, 2000)), 0, odd, la, lo))
    if k == 9:
        la, lo = gen.rand_cpr(rng)
        return F.df17(r(8), a, F.me_surface(r(5, 9), r(128), 1, r(128), 0, r(2), la or 1, lo or 1))
    if k == 6: return F.df17(r(8), a, F.me_velocity(r(1, 3), 0, 0, 0, r(2), r(1, 1024), r(2), r(1, 1024), 0, r(2), r(1, 512), 0, r(128)))
    if k == 7: return F.df17(r(8), a, F.me_airpos(r(20, 23), r(4), 0, r(4096), 0, r(2), *gen.rand_cpr(rng)))
    return F.df17(r(8), a, F.me_raw(rng.choice([0, 23, 28, 29, 31]), r(1 << 51)))

class C19(PropBase):
    id = "C19"
    shown_columns = ('CALLSIGN', 'ALT B', 'SQWK', 'LATITUDE', 'LONGITUDE', 'GSP', 'TRK', 'VRATE', 'W', 'S')
    lean_modules = ["SqModel.Props.C19", "SqModel.Props.C19Table", "SqModel.Props.C19Obs", "SqModel.Proofs.Dispatch", "SqModel.Proofs.Bridge", "SqModel.Proofs.BridgePlane", "SqModel.Proofs.BridgeTable"]
    extractors = ["dispatch", "trans"]
    rule = ("histories of 30-200 generated frames of every format (and the first 3000 lines of three recorded files) run through "
            "the real reader under pairs of option sets differing only in -i, -o, -c, -u, -M, -D, -l: dumps must be identical; short histories with back-to-back repeated frames after a silent aircraft under the logging options; pairs "
            "differing in -O: identical except dist; histories of valid DF4/5/11/17 frames (a third of them verbatim repeats of one of the six frames before) with and without -U (x -R): the nine "
            "listed parameters identical. Non-trivial = history in which at least one row has a position or a velocity; distinct by history.")
    assumptions = ["-l: the harness installs the logger once per process before the reader starts, as main() does"]

    VARIANTS = [dict(groups="Q"), dict(groups="", order="c"), dict(groups="aAews", order="NWd"), dict(count=True),
                dict(update=0), dict(update=3600), dict(logm="4,17"), dict(dlog=1), dict(show=1, groups="e", update=-1), dict(elog=1),
                dict(dlog=1, elog=1, logm="0,4,5,11,16,17,18,20,21", count=True)]

    def explore(self, rep, run, rng, tier, driver_ok):
        nh = 12 if tier == "quick" else 200
        hists = []
        for h in range(nh):
            addrs = rng.sample(range(1, 1 << 24), 3)
            lines = [gen.rand_frame(rng, rng.choice(gen.FORMATS + gen.FORMATS_OTHER), rng.choice(addrs)) for _ in range(rng.randrange(30, 200))]
            lines += [valid_frame(rng, rng.choice(addrs)) for _ in range(40)]
            rng.shuffle(lines)
            hists.append(lines)
        if tier == "thorough":
            for fn in ("squitters.txt", "sbs2.txt", "raw1.txt"):
                hists.append(open(os.path.join(core.REPO, "rec", fn), "rb").read().split(b"\n")[:3000])
        for hi, lines in enumerate(hists):
            base = dict(use_update=bool(hi % 2), relaxed=bool(hi % 3 == 0), delete_after=600, observer="52.66,-8.62")
            ops = ["reset", gen.cfg_op(**base), "case base"] + gen.seg(lines) + ["dump"]
            for vi, v in enumerate(self.VARIANTS):
                ops += ["reset", gen.cfg_op(**{**base, **v}), f"case v{vi}"] + gen.seg(lines) + ["dump"]
            ops += ["reset", gen.cfg_op(**{**base, "observer": "-33.9, 151.2"}), "case obs"] + gen.seg(lines) + ["dump"]
            impl, _, model = run.execute(ops, model=driver_ok)
            rep.evaluations += len(lines) * (len(self.VARIANTS) + 2); rep.traces += len(self.VARIANTS) + 2
            self.corr(rep, impl, model, {"history": hi})
            ci = core.split_cases(impl)
            b = [l for l in ci.get("base", []) if l.startswith(("row", "enddump"))]
            for vi, v in enumerate(self.VARIANTS):
                x = [l for l in ci.get(f"v{vi}", []) if l.startswith(("row", "enddump"))]
                if x != b:
                    d = next((p, q) for p, q in zip(b + [None] * len(x), x + [None] * len(b)) if p != q)
                    self.fail(rep, f"option change {v} alters the table: {core.lines_agree(d[0] or '', d[1] or '')}",
                              {"ops": ["reset", gen.cfg_op(**base)] + gen.seg(lines) + ["dump", "reset", gen.cfg_op(**{**base, **v})] + gen.seg(lines) + ["dump"],
                               "variant": v})
                    return
            o = [l for l in ci.get("obs", []) if l.startswith(("row", "enddump"))]
            # .. and in a process in which no observer position was ever set (what an -O value that does not parse leaves behind:
            # main() logs the error and goes on) - "garbage" and "1,2,3" are given, and rejected, on the way
            nob = {k: v for k, v in base.items() if k != "observer"}
            ops_n = ["reset", gen.cfg_op(**{**nob, "observer": rng.choice(["garbage", "52.66;-8.62", "1,2,3", "91,0x"])}), "case none"] + gen.seg(lines) + ["dump"]
            impl_n, _, model_n = run.execute(ops_n, model=driver_ok)
            self.corr(rep, impl_n, model_n, {"history": hi, "observer": "never set"})
            on = [l for l in core.split_cases(impl_n).get("none", []) if l.startswith(("row", "enddump"))]
            for other, what in ((o, "another -O"), (on, "an -O that does not parse (no observer position)")):
                if len(other) != len(b):
                    self.fail(rep, f"{what} changes which aircraft are in the table ({len(b)} rows -> {len(other)})", {"ops": ops_n if other is on else ops[:3] + ["..."]})
                    return
                for p, q in zip(b, other):
                    d = [k for k in core.lines_agree(p, q) if k != "dist"]
                    if d:
                        self.fail(rep, f"{what} changes more than the distance: {d}", {"ops": ops_n if other is on else ops[:3] + ["..."], "lines": [l if isinstance(l, str) else l.hex() for l in lines[:50]]})
                        return
            if any(" lat=" in l and " lat=0.0000000000" not in l for l in b):
                rep.nontriv(("opts", hi))
        # the logging options with repeated frames and a silent aircraft: what is logged (or not logged twice) must not decide
        # which frames are applied or when the expiry sweep runs
        for hi in range(6 if tier == "quick" else 60):
            stale = 0x4E0000 + hi
            addrs = [0x4E1000 + hi, 0x4E2000 + hi]
            distinct = [gen.rand_frame(rng, rng.choice(["df11", "df4", "df5", "tc4", "tc11", "tc19.1", "df20"]), rng.choice(addrs)) for _ in range(rng.randrange(5, 10))]
            lines = []
            for f in distinct:
                lines += [f] * rng.choice([1, 2, 2, 3])          # back-to-back repeats, as merged feeds deliver them
            base = dict(use_update=bool(hi % 2), delete_after=5)
            ops = []
            variants = [dict(), dict(dlog=1), dict(logm="4,5,11,17,20"), dict(elog=1), dict(dlog=1, elog=1, count=True)]
            for vi, v in enumerate(variants):
                ops += ["reset", gen.cfg_op(**{**base, **v})] + gen.seg([F.df11(5, stale, 0)]) + ["adv 5500", f"case w{vi}"] + gen.seg(lines) + ["dump"]
            impl, _, model = run.execute(ops, model=driver_ok)
            rep.evaluations += len(lines) * len(variants); rep.traces += len(variants)
            self.corr(rep, impl, model, {"repeat-history": hi})
            ci = core.split_cases(impl)
            b = [l for l in ci.get("w0", []) if l.startswith(("row", "enddump"))]
            for vi, v in enumerate(variants[1:], 1):
                x = [l for l in ci.get(f"w{vi}", []) if l.startswith(("row", "enddump"))]
                if x != b:
                    self.fail(rep, f"logging options {v} alter the table of a history with repeated frames ({len(b) - 1} rows without them, {len(x) - 1} with them)",
                              {"ops": ops, "variant": v})
                    return
            rep.nontriv(("repeat", hi))
        # -U neutrality
        nU = 40 if tier == "quick" else 800
        for hi in range(nU + nU // 2):
            addrs = rng.sample(range(1, 1 << 24), 2)
            lines = [valid_frame(rng, rng.choice(addrs)) for _ in range(rng.randrange(10, 120))]
            if hi >= nU:
                # position histories of one slowly moving aircraft in which every fourth half carries a CPR field of exactly 0
                # (on a zone edge), so that zero halves follow and precede non-zero halves of either parity within the pairing window
                lat = F.Fraction(rng.randrange(-8000, 8000), 100); lon = F.Fraction(rng.randrange(-17900, 17900), 100)
                lines = []
                for _ in range(rng.randrange(8, 30)):
                    odd = rng.randrange(2)
                    la, lo = F.cpr_encode(lat, lon, odd)
                    if rng.randrange(4) == 0:
                        la, lo = rng.choice([(0, lo), (la, 0), (0, 0)])
                    lines.append(F.df17(5, addrs[0], F.me_airpos(11, 0, 0, F.ac12_q1(rng.randrange(40, 2000)), 0, odd, la, lo)))
                    lat += F.Fraction(rng.randrange(-3, 4), 1000); lon += F.Fraction(rng.randrange(-3, 4), 1000)
            # aircraft repeat themselves: a parked or slow aircraft sends the very same position half, the same identification
            # and the same altitude again and again, with its other frames in between - a third of the frames are verbatim
            # copies of an earlier frame of the history
            for i in range(3, len(lines)):
                if rng.random() < 0.33:
                    lines[i] = lines[rng.randrange(max(0, i - 6), i)]
            ops = []
            chunk = rng.choice([1, 2, 7])
            gaps = [rng.choice([1500, 1500, 4000, 9500, 10500, 12000]) for _ in range(len(lines))]     # around the 10 s pairing window too
            for (u, r) in gen.ALL_CFGS:
                ops += ["reset", gen.cfg_op(use_update=u, relaxed=r, delete_after=600, observer="52.66,-8.62"), f"case {int(u)}{int(r)}"]
                for i in range(0, len(lines), chunk):
                    ops += gen.seg(lines[i:i + chunk]) + [f"adv {gaps[i]}"]
                ops += ["dump"]
            impl, _, model = run.execute(ops, model=driver_ok)
            rep.evaluations += len(lines) * 4; rep.traces += 4
            self.corr(rep, impl, model, {"U-history": hi})
            ci = core.split_cases(impl)
            ref = gen.parse_dump(ci.get("00", []))
            for tag in ("01", "10", "11"):
                rows = gen.parse_dump(ci.get(tag, []))
                if set(rows) != set(ref):
                    self.fail(rep, f"-U/-R change which aircraft are in the table: {sorted(set(rows) ^ set(ref))}", {"ops": ops})
                    return
                for a in ref:
                    for k in ULIST:
                        if rows[a].get(k) != ref[a].get(k):
                            self.fail(rep, f"aircraft {a:06X}: {k} is {ref[a].get(k)} without -U and {rows[a].get(k)} with options U={tag[0]} R={tag[1]}",
                                      {"ops": ops, "param": k, "address": a})
                            return
            if any(r.get("lat") != "0.0000000000" or r.get("gs") != "-" for r in ref.values()):
                rep.nontriv(("U", hi))
        rep.sample({"valid_history_head": lines[:5], "variants": self.VARIANTS})

PROP = C19()
