"""C18 — TCP feed interruptions never stop decoding or lose the table."""
import itertools, threading
import core, gen, frames as F
from props.base import PropBase

KINDS = ["refuse", "close", "frames", "partial", "junk", "long", "reset0", "cut", "longjunk"]

class C18(PropBase):
    id = "C18"
    corr_fields = []
    lean_modules = ["SqModel.Props.C18", "SqModel.Proofs.BridgeBits"]
    extractors = ["tcp", "trans_bits"]
    rule = ("fault sequences over {refuse, accept+close, accept+frames+close, accept+partial line+reset, accept+junk bytes+close, accept+frames+6.5 s up+close, accept+immediate reset, accept+1 KiB..70 KiB without a line end+close, accept+frames+line cut inside the time stamp / after the opening mark / inside the frame+close} "
            "of length <= 2 (quick: 10 sequences, thorough: all 42 plus 40 of length 3), each followed by a healthy connection, "
            "played by a scripted loopback peer against the real connect_and_read_tcp loop (real 5 s pauses, sequences run in "
            "parallel processes); a first connection teaches an aircraft before the faults; every second sequence with the -l error log, every third with the -D downlink log; sequences with the long-lived connection run with delete_after = 5 s, shorter than that connection, the others with delete_after 600 / 0 / 1 / 2^62 and refresh intervals -1 / 0 / 3 / 2^62. Observed: the reader reconnects after "
            "every fault (liveness), the pause after k refusals is about 5k s, the table after the healthy connection holds the "
            "earlier and the new aircraft and equals the model's table for the same trace. Non-trivial = sequence with at least "
            "one refusal or reset; distinct by sequence.")
    assumptions = ["PARTIAL: the kernel's socket behaviour and std's TcpStream/BufReader/sleep are validated by this run, not proved"]

    def script(self, rng, seq, idx):
        base = 0x4C0000 + idx * 16
        before = (F.df11(5, base + 1, 0) + "\n" + F.df17(5, base + 1, F.me_ident(4, 3, F.callsign_codes("BEFORE"))) + "\n").encode()
        steps = ["data:%s:eof" % before.hex()]
        expect = {base + 1}
        for j, k in enumerate(seq):
            if k == "refuse":
                steps.append("refuse")
            elif k == "close":
                steps.append("close")
            elif k == "frames":
                a = base + 2 + j
                steps.append("data:%s:eof" % (F.df11(5, a, 0) + "\n").encode().hex()); expect.add(a)
            elif k == "partial":
                a = base + 6 + j
                data = (F.df11(5, a, 0) + "\n" + F.df11(5, base + 10 + j, 0)[:9]).encode()     # complete line + partial line, then RST
                steps.append("data:%s:reset" % data.hex()); expect.add(a)
            elif k == "long":      # a connection that stays up longer than the retry pause before the peer closes it
                a = base + 11 + (j % 3)
                steps.append("data:%s:eof:6500" % (F.df11(5, a, 0) + "\n").encode().hex()); expect.add(a)
            elif k == "cut":
                # the peer closes (FIN, so the bytes are delivered) in the middle of a line of any style: inside the time stamp of
                # an `@` line, right after the opening mark, inside the frame - the rest of a line is a malformed line like any other
                a = base + 6 + j
                g = F.df17(5, base + 10 + j, F.me_ident(4, 3, F.callsign_codes("CUT")))
                ts = "%012X" % rng.randrange(1 << 48)
                styles = ["@" + ts[:rng.randrange(1, 12)], "@", "*" + g[:rng.randrange(1, 28)], "@" + ts + g[:rng.randrange(1, 28)], "*", "@" + ts,
                          g[:rng.randrange(1, 28)], "<" + ts + "1A" + g[:5]]
                self.cut_no = getattr(self, "cut_no", 0) + 1
                tail = styles[self.cut_no % len(styles)]          # every style in turn
                data = (F.df11(5, a, 0) + "\n" + tail).encode()
                steps.append("data:%s:eof" % data.hex()); expect.add(a)
            elif k == "longjunk":
                # a kilobyte or more of bytes without a single line end (a feed in another protocol), then the peer closes cleanly
                n = rng.choice([1023, 1024, 1025, 3000, 4096, 9000, 70000])
                steps.append("data:%s:eof" % bytes(rng.choice([rng.randrange(128, 256), rng.randrange(11, 128), 0]) for _ in range(n)).replace(b"\n", b"x").hex())
            elif k == "reset0":    # accepted and reset at once, before a single byte was sent (a forwarder whose far end is down)
                steps.append("data::reset")
            elif k == "junk":
                steps.append("data:%s:eof" % (b"\x00\xff garbage \x80\n" + bytes(range(128, 200)) + b"\nGGGG").hex())
        healthy = base + 15
        # the first line of the healthy connection is the only frame of its aircraft: nothing left over from a dropped
        # connection (a partial line, say) may be glued to it
        first = base + 14
        steps.append("data:%s:eof" % (F.df11(5, first, 0) + "\n" + F.df11(5, healthy, 0) + "\n" + F.df17(5, healthy, F.me_ident(4, 3, F.callsign_codes("AFTER"))) + "\n").encode().hex())
        expect.add(healthy); expect.add(first)
        return ";".join(steps), expect

    def explore(self, rep, run, rng, tier, driver_ok):
        seqs = [("refuse",), ("close",), ("frames",), ("partial",), ("junk",), ("long",), ("refuse", "partial"), ("partial", "refuse"), ("refuse", "refuse"), ("long", "partial"), ("reset0",), ("reset0", "refuse"),
                # connections that delivered nothing, then a port that stays closed across TWO attempts: the pause after a failed attempt
                # is about 5 s whatever came before (a single closed window of 2.5 s cannot tell a late first attempt from a refused one)
                ("close", "refuse", "refuse"), ("reset0", "junk", "refuse", "refuse"), ("cut",), ("cut", "cut"), ("cut", "refuse"), ("cut", "cut", "cut"), ("longjunk",), ("longjunk", "refuse"), ("longjunk", "longjunk", "frames")]
        if tier == "thorough":
            seqs = [()] + [(k,) for k in KINDS] + list(itertools.product(KINDS, repeat=2)) + rng.sample(list(itertools.product(KINDS, repeat=3)), 40)
        results = {}
        def work(i, seq):
            r = core.Run(f"C18-{tier}-{i}")
            try:
                script, expect = self.script(rng, seq, i)
                # a connection that outlives delete_after (5 s < 6.5 s) must not cost the table anything by itself:
                # rows go only through the sweep, which needs 12 accepted frames on one connection
                # the other options at both ends of their ranges too (no connection carries 12 frames, so no sweep runs and the
                # retention period must not matter at all): whatever a connection is configured with, it is read
                da = 5 if "long" in seq else [600, 0, 600, 2 ** 62, 1][i % 5]
                ops = ["reset", gen.cfg_op(delete_after=da, elog=int(i % 2 == 1), dlog=int(i % 3 == 2),
                                           update=[-1, 0, 2 ** 62, 3][i % 4], use_update=bool(i % 2)), "tcp " + script, "dump"]
                impl, so, model = r.execute(ops, model=driver_ok, timeout=600)
                results[i] = (seq, ops, expect, impl, model)
            except Exception as e:           # noqa
                results[i] = (seq, [], set(), ["ERROR " + repr(e)], [])
            finally:
                r.cleanup()
        # scripts are generated sequentially (one PRNG), executed 16 at a time
        jobs = [(i, s) for i, s in enumerate(seqs)]
        for lo in range(0, len(jobs), 16):
            ths = [threading.Thread(target=work, args=j) for j in jobs[lo:lo + 16]]
            for t in ths: t.start()
            for t in ths: t.join()
        for i, (seq, ops, expect, impl, model) in sorted(results.items()):
            rep.evaluations += 1; rep.traces += 1
            ctx = {"sequence": list(seq)}
            self.corr(rep, impl, model, ctx, ops, ignore=("age", "cprage"))
            tl = [l for l in impl if l.startswith("tcp ")]
            if not tl or "alive=1" not in tl[0]:
                self.fail(rep, f"after the fault sequence {list(seq)} the reader did not come back for another connection: {tl or impl[:2]}",
                          {"ops": ops, "sequence": list(seq)})
                return
            if [l for l in impl if l.startswith(("PANIC", "ABORT", "ERROR"))]:
                self.fail(rep, f"fault sequence {list(seq)}: {[l for l in impl if l.startswith(('PANIC', 'ABORT', 'ERROR'))][0][:200]}", {"ops": ops})
                return
            ml = [l for l in model if l.startswith("tcp ")]
            if driver_ok and ml:
                mk = core.kvs(ml[0])
                if int(mk["sleeps"]) != list(seq).count("refuse") or int(mk["reads"]) != len(seq) - list(seq).count("refuse") + 2:
                    raise core.Broken("model's TCP loop does not sleep once per refusal / read once per connection", ml[0])
            gaps = core.kvs(tl[0]).get("gaps", "")
            for g in [x for x in gaps.split(",") if x]:
                k, ms = (int(x) for x in g.split(":"))
                if not (5000 * k - 400 <= ms <= 5000 * k + 2600):
                    self.fail(rep, f"{k} refused connection(s) held the reader up for {ms} ms; a pause of about 5 s after each failed attempt is expected",
                              {"ops": ops, "sequence": list(seq), "gap_ms": ms})
                    return
            rows = gen.parse_dump(impl)
            missing = expect - set(rows)
            if missing:
                self.fail(rep, f"fault sequence {list(seq)}: aircraft {sorted('%06X' % a for a in missing)} missing from the table after the healthy connection",
                          {"ops": ops, "sequence": list(seq)})
                return
            ghosts = set(rows) - expect
            if ghosts:
                self.fail(rep, f"fault sequence {list(seq)}: unexpected aircraft {sorted('%06X' % a for a in ghosts)} (a partial line was taken as a frame?)",
                          {"ops": ops, "sequence": list(seq)})
                return
            if "refuse" in seq or "partial" in seq:
                rep.nontriv(tuple(seq))
        rep.sample({"sequence": list(seqs[5]), "result": [l for l in results[5][3] if l.startswith("tcp ")]})

    def judge_replay(self, rep, obj, impl, so, model):
        tl = [l for l in impl if l.startswith("tcp ")]
        if not tl or "alive=1" not in tl[0]:
            self.fail(rep, "replayed: the reader did not come back", obj)

PROP = C18()
