"""C05 — barometric altitude equals the Mode S altitude-code decoding."""
import os
import core, gen, frames as F
from props.base import PropBase

def load_legacy():
    t = {}
    for l in open(os.path.join(core.VERIF, "known", "C05_gillham_legacy.txt")):
        if l.startswith("#") or not l.strip():
            continue
        a, b = l.split()
        t[int(a)] = b
    return t

class C05(PropBase):
    id = "C05"
    corr_fields = ['alt', 'alts']
    lean_modules = ["SqModel.Props.C05", "SqModel.Proofs.BridgeBits", "SqModel.Proofs.Bridge", "SqModel.Proofs.BridgeRat"]
    extractors = ["ma_code", "trans"]
    rule = ("all 8192 AC13 codes x {DF4, DF20} and all 4096 AC12 codes x TC 9..18 (quick: 3 type codes), each in a random "
            "payload/address, applied to existing rows with 14 different pasts (created by DF11 / surface / position / identification / velocity / DF4 / DF5 / DF20 ...) and as creating frame, x {-U, -R}; row.altitude against the Lean "
            "altitude-code specification printed for the same frame. Non-trivial = the specification prescribes an altitude; "
            "distinct by (format, code, options, first/later).")
    assumptions = ["altSpec13/altSpec12 (Spec/Altitude.lean) is the reading of the Annex 10 altitude code incl. Gillham",
                   "M=1 (metric) codes are unconstrained, as in the property"]

    def batch(self, rep, run, rng, kind, codes, u, r, first, legacy, known, driver_ok):
        base = 0x300000
        frames, addrs = [], []
        for i, c in enumerate(codes):
            addr = base + ((i * 2654435761) % (1 << 20))      # distinct per code
            addrs.append(addr)
            if kind == "df4":
                frames.append(F.df4(rng.randrange(8), rng.randrange(32), rng.randrange(64), c, addr))
            elif kind == "df20":
                frames.append(F.df20(rng.randrange(8), rng.randrange(32), rng.randrange(64), c, rng.randrange(1 << 56), addr))
            else:
                tc = int(kind[2:])
                la, lo = gen.rand_cpr(rng)
                frames.append(F.df17(rng.randrange(8), addr, F.me_airpos(tc, rng.randrange(4), rng.randrange(2), c, rng.randrange(2), rng.randrange(2), la, lo)))
        if len(set(addrs)) != len(addrs):
            raise core.Broken("generator produced duplicate addresses", "")
        ops = ["reset", gen.cfg_op(use_update=u, relaxed=r), "case p"]
        priors = {}
        if not first:
            # rows with different pasts (a DF11, a surface squitter that blanked the altitude, an earlier altitude, ...)
            for i, a in enumerate(addrs):
                priors[a] = gen.prior_frames(rng, a, gen.PRIORS[(i + i // len(gen.PRIORS)) % len(gen.PRIORS)])
            ops += gen.seg([f for a in addrs for f in priors[a]])
        ops += ["dump", "case 0"] + gen.seg(frames) + ["dump", "case 1"] + ["q frame " + f for f in frames]
        impl, _, model = run.execute(ops, model=driver_ok)
        rep.evaluations += len(frames)
        rep.traces += 1
        ctx = {"format": kind, "use_update": u, "relaxed": r, "creating_frame": first}
        self.corr(rep, impl, model, ctx)
        ci, cm = core.split_cases(impl), core.split_cases(model)
        rows = gen.parse_dump(ci.get("0", []))
        before = gen.parse_dump(ci.get("p", []))
        specs = [core.kvs(l) for l in cm.get("1", []) if l.startswith("spec ")]
        if driver_ok and len(specs) != len(frames):
            raise core.Broken("driver returned %d spec lines for %d frames" % (len(specs), len(frames)), "")
        for i, (f, a) in enumerate(zip(frames, addrs)):
            if not driver_ok:
                break
            want = specs[i].get("alt")
            got = rows.get(a, {}).get("alt")
            if want == "*":
                rep.count("metric(unconstrained)")
                continue
            if want != "-":
                rep.nontriv((kind, codes[i], u, r, first))
            if got == want:
                continue
            if want == "-" and not first and got == before.get(a, {}).get("alt"):
                continue      # a code that carries no altitude may blank the altitude or leave it as it was (C11)
            if a in rows and got == "-" and first and kind == "df20":
                continue      # the creating DF20 frame may contribute the address only
            w13 = (int(f, 16) >> (len(f) * 4 - 32)) & 0x1FFF
            leg = legacy.get(w13)
            if specs[i].get("q") == "0" and (got == leg or (leg == "-" and not first and got == before.get(a, {}).get("alt"))):
                fid = "gillham-df4-df20" if kind in ("df4", "df20") else "gillham-tc9-18"
                known[fid] = known.get(fid, 0) + 1
                continue
            self.fail(rep, f"{kind} altitude code {codes[i]:#x}: row shows {got}, the altitude code says {want} ({ctx})",
                      {"ops": ["reset", gen.cfg_op(use_update=u, relaxed=r)] + ([] if first else gen.seg(priors[a]))
                       + gen.seg([f]) + ["dump", "q frame " + f], "frame": f, "code": codes[i], "spec_alt": want, "impl_alt": got,
                       "context": ctx, "address": a})
            return False
        rep.sample({"frame": frames[len(frames) // 2], "code": codes[len(frames) // 2], **ctx}, limit=5)
        return True

    def explore(self, rep, run, rng, tier, driver_ok):
        legacy = load_legacy()
        known = {}
        tcs = [9, 11, 18] if tier == "quick" else list(range(9, 19))
        kinds = [("df4", list(range(8192))), ("df20", list(range(8192)))] + [("tc%d" % t, list(range(4096))) for t in tcs]
        for kind, codes in kinds:
            for (u, r) in gen.ALL_CFGS:
                for first in (False, True):
                    if tier == "quick" and ((u, r) not in ((False, False), (True, True)) or (first and u)):
                        continue
                    if not self.batch(rep, run, rng, kind, codes, u, r, first, legacy, known, driver_ok):
                        return
            rep.exhaustive.append(f"all {len(codes)} altitude codes in {kind}")
        for e in core.load_known("C05"):
            if known.get(e["id"]):
                rep.known_finding(f"{e['id']}: {e['what']} [{known[e['id']]} listed failing inputs reproduced; witness: {e['witness']}]")
        rep.hist.update({"known:" + k: v for k, v in known.items()})

    def judge_replay(self, rep, obj, impl, so, model):
        super().judge_replay(rep, obj, impl, so, model)
        if "spec_alt" in obj:
            rows = gen.parse_dump(impl)
            got = rows.get(obj.get("address"), {}).get("alt")
            if got != obj["spec_alt"]:
                self.fail(rep, f"replayed: row shows {got}, altitude code says {obj['spec_alt']}", obj)

PROP = C05()
