"""C05 — barometric altitude equals the Mode S altitude-code decoding."""
import os
import core, gen, frames as F
from props.base import PropBase

def load_legacy():
    t = {}
    for l in open(os.path.join(core.VERIF, "known", "C05_gillham_legacy.txt")):
        if l.startswith("#") or not l.strip():
            continue
        a, b = l.split()
        t[int(a)] = b
    return t

class C05(PropBase):
    id = "C05"
    shown_columns = ('ALT B', 'ALT G')
    corr_fields = ['alt', 'alts']
    lean_modules = ["SqModel.Props.C05", "SqModel.Proofs.BridgeBits", "SqModel.Proofs.Bridge", "SqModel.Proofs.BridgeRat", "SqModel.Proofs.BridgePlane"]
    extractors = ["ma_code", "trans"]
    rule = ("all 8192 AC13 codes x {DF4, DF20} and all 4096 AC12 codes x TC 9..18 (quick: 3 type codes), each in a random "
            "payload/address, applied to existing rows with 14 different pasts (created by DF11 / surface / position / identification / velocity / DF4 / DF5 / DF20 ...) and as creating frame, x {-U, -R}; row.altitude against the Lean "
            "altitude-code specification printed for the same frame. Non-trivial = the specification prescribes an altitude; "
            "distinct by (format, code, options, first/later).")
    assumptions = ["altSpec13/altSpec12 (Spec/Altitude.lean) is the reading of the Annex 10 altitude code incl. Gillham",
                   "M=1 (metric) codes are unconstrained, as in the property"]

    def batch(self, rep, run, rng, kind, codes, u, r, first, legacy, known, driver_ok):
        base = 0x300000
        frames, addrs = [], []
        for i, c in enumerate(codes):
            addr = base + ((i * 2654435761) % (1 << 20))      # distinct per code
            addrs.append(addr)
            if kind == "df4":
                frames.append(F.df4(rng.randrange(8), rng.randrange(32), rng.randrange(64), c, addr))
            elif kind == "df20":
                frames.append(F.df20(rng.randrange(8), rng.randrange(32), rng.randrange(64), c, rng.randrange(1 << 56), addr))
            else:
                tc = int(kind[2:])
                la, lo = gen.rand_cpr(rng)
                frames.append(F.df17(rng.randrange(8), addr, F.me_airpos(tc, rng.randrange(4), rng.randrange(2), c, rng.randrange(2), rng.randrange(2), la, lo)))
        if len(set(addrs)) != len(addrs):
            raise core.Broken("generator produced duplicate addresses", "")
        ops = ["reset", gen.cfg_op(use_update=u, relaxed=r), "case p"]
        priors = {}
        if not first:
            # rows with different pasts (a DF11, a surface squitter that blanked the altitude, an earlier altitude, ...)
            for i, a in enumerate(addrs):
                priors[a] = gen.prior_frames(rng, a, gen.PRIORS[(i + i // len(gen.PRIORS)) % len(gen.PRIORS)])
            ops += gen.seg([f for a in addrs for f in priors[a]])
        ops += ["dump", "case 0"] + gen.seg(frames) + ["dump", "case 1"] + ["q frame " + f for f in frames]
        impl, _, model = run.execute(ops, model=driver_ok)
        rep.evaluations += len(frames)
        rep.traces += 1
        ctx = {"format": kind, "use_update": u, "relaxed": r, "creating_frame": first}
        self.corr(rep, impl, model, ctx)
        ci, cm = core.split_cases(impl), core.split_cases(model)
        rows = gen.parse_dump(ci.get("0", []))
        before = gen.parse_dump(ci.get("p", []))
        specs = [core.kvs(l) for l in cm.get("1", []) if l.startswith("spec ")]
        if driver_ok and len(specs) != len(frames):
            raise core.Broken("driver returned %d spec lines for %d frames" % (len(specs), len(frames)), "")
        for i, (f, a) in enumerate(zip(frames, addrs)):
            if not driver_ok:
                break
            want = specs[i].get("alt")
            got = rows.get(a, {}).get("alt")
            if want == "*":
                rep.count("metric(unconstrained)")
                continue
            if want != "-":
                rep.nontriv((kind, codes[i], u, r, first))
            if got == want:
                continue
            if want == "-" and not first and got == before.get(a, {}).get("alt"):
                continue      # a code that carries no altitude may blank the altitude or leave it as it was (C11)
            if a in rows and got == "-" and first and kind == "df20":
                continue      # the creating DF20 frame may contribute the address only
            w13 = (int(f, 16) >> (len(f) * 4 - 32)) & 0x1FFF
            leg = legacy.get(w13)
            if specs[i].get("q") == "0" and (got == leg or (leg == "-" and not first and got == before.get(a, {}).get("alt"))):
                fid = "gillham-df4-df20" if kind in ("df4", "df20") else "gillham-tc9-18"
                known[fid] = known.get(fid, 0) + 1
                continue
            self.fail(rep, f"{kind} altitude code {codes[i]:#x}: row shows {got}, the altitude code says {want} ({ctx})",
                      {"ops": ["reset", gen.cfg_op(use_update=u, relaxed=r)] + ([] if first else gen.seg(priors[a]))
                       + gen.seg([f]) + ["dump", "q frame " + f], "frame": f, "code": codes[i], "spec_alt": want, "impl_alt": got,
                       "context": ctx, "address": a})
            return False
        rep.sample({"frame": frames[len(frames) // 2], "code": codes[len(frames) // 2], **ctx}, limit=5)
        return True

    def aba(self, rep, run, rng, tier, driver_ok):
        """A-B-A: a reply / squitter with altitude code X, then a frame of *another* format that writes (or blanks) the altitude,
        then the first frame's code again - the altitude after a frame is a function of that frame, whatever the row heard
        before, and in particular of an identical code heard earlier through the same route."""
        n = 60 if tier == "quick" else 1500
        kindsA = ["df4", "df20", "tc11", "tc18"]
        ops, plan = [], []
        for c in range(n):
            u, r = gen.ALL_CFGS[c % 4]
            a = 0x310000 + c
            nx = rng.randrange(40, 2040)
            ny = rng.choice([v for v in (nx + rng.randrange(1, 40), nx - rng.randrange(1, 30)) if 40 <= v < 2048] or [nx + 1])
            def mk(kind, N):
                if kind == "df4":
                    return F.df4(rng.randrange(8), 0, 0, F.ac13_q1(N), a)
                if kind == "df20":
                    return F.df20(rng.randrange(8), 0, 0, F.ac13_q1(N), rng.randrange(1 << 56), a)
                la, lo = gen.rand_cpr(rng)
                return F.df17(5, a, F.me_airpos(int(kind[2:]), 0, 0, F.ac12_q1(N), 0, rng.randrange(2), la, lo))
            ka = kindsA[c % 4]
            kb = rng.choice([k for k in kindsA + ["surface"] if k != ka])
            fa1, fa2 = mk(ka, nx), mk(ka, nx)
            fb = gen.rand_frame(rng, "tc%d" % rng.randrange(5, 9), a) if kb == "surface" else mk(kb, ny)
            lines = [F.df11(5, a, 0), fa1, fb, fa2]
            ops += ["reset", gen.cfg_op(use_update=u, relaxed=r), f"case aba{c}"] + gen.seg(lines) + ["dump"]
            plan.append((c, a, 25 * nx - 1000, ka, kb, u, r, lines))
        impl, _, model = run.execute(ops, model=driver_ok)
        rep.evaluations += n; rep.traces += 1
        self.corr(rep, impl, model, {"scenario": "A-B-A"})
        ci = core.split_cases(impl)
        for (c, a, want, ka, kb, u, r, lines) in plan:
            got = gen.parse_dump(ci.get(f"aba{c}", [])).get(a, {}).get("alt")
            if got != str(want):
                self.fail(rep, f"{ka} frame with altitude {want} ft, then a {kb} frame, then the same {ka} code again: row shows {got}, the code says {want} "
                               f"(use_update={u}, relaxed={r})",
                          {"ops": ["reset", gen.cfg_op(use_update=u, relaxed=r)] + gen.seg(lines) + ["dump"], "address": a, "spec_alt": str(want)})
                return False
            rep.nontriv(("aba", ka, kb, u, r))
        return True

    def explore(self, rep, run, rng, tier, driver_ok):
        legacy = load_legacy()
        known = {}
        if not self.aba(rep, run, core.rng_for(rep.seed + 5, "C05aba"), tier, driver_ok):
            return
        tcs = [9, 11, 18] if tier == "quick" else list(range(9, 19))
        kinds = [("df4", list(range(8192))), ("df20", list(range(8192)))] + [("tc%d" % t, list(range(4096))) for t in tcs]
        for kind, codes in kinds:
            for (u, r) in gen.ALL_CFGS:
                for first in (False, True):
                    if tier == "quick" and ((u, r) not in ((False, False), (True, True)) or (first and u)):
                        continue
                    if not self.batch(rep, run, rng, kind, codes, u, r, first, legacy, known, driver_ok):
                        return
            rep.exhaustive.append(f"all {len(codes)} altitude codes in {kind}")
        for e in core.load_known("C05"):
            if known.get(e["id"]):
                rep.known_finding(f"{e['id']}: {e['what']} [{known[e['id']]} listed failing inputs reproduced; witness: {e['witness']}]")
        rep.hist.update({"known:" + k: v for k, v in known.items()})

    def judge_replay(self, rep, obj, impl, so, model):
        super().judge_replay(rep, obj, impl, so, model)
        if "spec_alt" in obj:
            rows = gen.parse_dump(impl)
            got = rows.get(obj.get("address"), {}).get("alt")
            if got != obj["spec_alt"]:
                self.fail(rep, f"replayed: row shows {got}, altitude code says {obj['spec_alt']}", obj)

PROP = C05()
