"""C02 — a line is a frame iff its hex digits form a 56/112-bit frame of matching DF."""
import core, gen, frames as F
from props.base import PropBase

DECOR = [
    lambda rng, d: d,
    lambda rng, d: "*" + d + ";",
    lambda rng, d: "@" + "".join(rng.choice("0123456789ABCDEF") for _ in range(12)) + d + ";",
    lambda rng, d: d.lower(),
    lambda rng, d: " ".join(d),
    lambda rng, d: "\t" + d + "\r",
    lambda rng, d: "".join(c + rng.choice(["", " ", "-", ":", "G", "z", "é", "１", "٣", "́"]) for c in d),
    lambda rng, d: "".join(rng.choice([c.lower(), c.upper()]) for c in d),
]

def decorate_bytes(rng, d):
    """interleave bytes that are not valid UTF-8 / NUL"""
    out = bytearray()
    for c in d.encode():
        out.append(c)
        if rng.random() < 0.2:
            out += bytes([rng.choice([0, 0x80, 0xBF, 0xC0, 0xFF, 0xE2, 0x0D])])
    return bytes(out)

def address_of(digits):
    """the aircraft address of a frame of the nine formats that carry one (by Annex 10: the AA field, or AP xor parity)"""
    n = len(digits) * 4
    v = int(digits, 16)
    df = v >> (n - 5)
    if df in (11, 17, 18):
        return (v >> (n - 32)) & 0xFFFFFF
    if df in (0, 4, 5, 16, 20, 21):
        return (v & 0xFFFFFF) ^ F.crc24(v >> 24, n - 24)
    return None

class C02(PropBase):
    id = "C02"
    shown_columns = ('ICAO',)
    corr_fields = ['df']
    lean_modules = ["SqModel.Props.C02", "SqModel.Proofs.BridgeBits"]
    extractors = ["trans_bits", "crc"]
    rule = ("q msg on lines of every digit count 0..64, random and valid frames of every DF 0..31 at both lengths, with and "
            "without 12-digit timestamp, under 9 decoration schemes (case, separators, Unicode digits, non-UTF-8 bytes) and with every single non-hex byte value 0..255 inserted (in valid frames, in frames one digit short, after an 11-digit time stamp); "
            "one-line segments for table equality of decorated vs plain lines. Non-trivial = accepted, or rejected for a "
            "reason other than the digit count; distinct by (digit string, decoration).")
    assumptions = ["char::to_digit(16) accepts ASCII only (exercised with full-width and Arabic-Indic digits)"]

    def lines(self, rng, tier):
        out = []   # (bytes, tag)
        n_rand = 20 if tier == "quick" else 200
        for n in range(0, 65):
            for _ in range(n_rand):
                d = "".join(rng.choice("0123456789ABCDEF") for _ in range(n))
                dec = rng.randrange(len(DECOR) + 1)
                b = decorate_bytes(rng, d) if dec == len(DECOR) else DECOR[dec](rng, d).encode("utf-8")
                out.append((b, f"rand{n}"))
        # every byte value that is not an ASCII hex digit (nor the line feed), one at a time: inside a valid frame it must
        # change nothing; next to a frame that is one digit short (or carries one digit too many) it must not complete it
        hexb = set(b"0123456789abcdefABCDEF")
        for v in range(256):
            if v in hexb or v == 10:
                continue
            for fr in (F.df11(5, 0x4B0000 + v, 0), F.df17(5, 0x4B0000 + v, F.me_ident(4, 3, F.callsign_codes("BYTE%03d" % v)))):
                raw = fr.encode()
                for pos in sorted({0, 1, len(raw) // 2, len(raw) - 1, len(raw), rng.randrange(len(raw) + 1)}):
                    out.append((raw[:pos] + bytes([v]) + raw[pos:], f"byte{v:02x}"))
                cut = rng.randrange(len(raw))
                short = raw[:cut] + raw[cut + 1:]                     # one digit removed
                p2 = rng.randrange(len(short) + 1)
                out.append((short[:p2] + bytes([v]) + short[p2:], f"byte{v:02x}/short"))
                out.append((b"@" + b"0123456789A" + bytes([v]) + raw + b";", f"byte{v:02x}/stamp"))   # 11-digit stamp + the byte
        reps = 6 if tier == "quick" else 60
        for df in range(32):
            for _ in range(reps):
                addr = rng.randrange(1, 1 << 24)
                short = F.hexs((df << 51) | (rng.randrange(1 << 27) << 24) | 0, 56)
                # short with valid AP / PI for its DF
                if df == 11:
                    short = F.df11(rng.randrange(8), addr, rng.randrange(128) if rng.random() < 0.5 else 0)
                elif df < 16:
                    short = F.short_frame(df, rng.randrange(1 << 27), addr)
                else:
                    head = (df << 27) | rng.randrange(1 << 27)
                    short = F.hexs((head << 24) | (F.crc24(head, 32) ^ (0 if df in (17, 18) else addr)), 56)
                if df in (17, 18):
                    longf = F.df17(rng.randrange(8), addr, rng.randrange(1 << 56), df=df)
                elif df == 11:
                    head = (11 << 83) | rng.randrange(1 << 83)
                    longf = F.hexs((head << 24) | F.crc24(head, 88), 112)
                else:
                    longf = F.long_frame(df, rng.randrange(1 << 83), addr)
                for fr, tag in ((short, f"df{df}/56"), (longf, f"df{df}/112")):
                    for k in range(len(DECOR) + 1):
                        b = decorate_bytes(rng, fr) if k == len(DECOR) else DECOR[k](rng, fr).encode("utf-8")
                        out.append((b, tag))
                    # parity damaged
                    bad = list(fr); i = rng.randrange(2, len(bad)); bad[i] = "0123456789ABCDEF"[(int(bad[i], 16) ^ (1 << rng.randrange(4)))]
                    out.append(("".join(bad).encode(), tag + "/bitflip"))
        return out

    def explore(self, rep, run, rng, tier, driver_ok):
        lines = self.lines(rng, tier)
        ops = ["reset", "case 0"] + ["q msg " + b.hex() if b else "q msg" for b, _ in lines]
        impl, _, model = run.execute(ops, model=driver_ok)
        rep.evaluations += len(lines)
        rep.traces += 1
        self.corr(rep, impl, model, "q msg sweep")
        im = [l for l in impl if l.startswith("msg")]
        specs = [l for l in model if l.startswith("spec ")]
        if len(im) != len(lines):
            raise core.Broken("harness returned %d answers for %d q msg ops" % (len(im), len(lines)), "\n".join(impl[-3:]))
        for k, ((b, tag), il) in enumerate(zip(lines, im)):
            got = il.split(" ", 1)[1]
            rep.count(("accepted " if got != "-" else "rejected ") + tag.split("/")[0][:6].rstrip("0123456789") )
            if driver_ok and k < len(specs):
                want = core.kvs(specs[k]).get("accept")
                if want != got:
                    self.fail(rep, f"get_message takes {got!r}, the frame rule says {want!r} for line {b[:80]!r} ({tag})",
                              {"ops": ["q msg " + b.hex()], "line_hex": b.hex(), "impl": got, "spec": want, "tag": tag})
                    return
            ndig = sum(1 for c in b if chr(c) in "0123456789abcdefABCDEF")
            if got != "-" or ndig in (14, 28, 26, 40):
                rep.nontriv((b.hex(), tag))
        rep.sample({"line": lines[len(lines) // 2][0].decode("utf-8", "replace"), "impl": im[len(lines) // 2]})
        # table level: decorated vs plain, one-line segments
        accepted = [(b, t) for (b, t), il in zip(lines, im) if il != "msg -"]
        rng.shuffle(accepted)
        # frames of aircraft at the ends of the address space: all ones and one are addresses like any other
        ends = [(gen.rand_frame(rng, k, a).encode(), "address %06X" % a) for k in ("df11", "tc11", "df4", "df20", "df5", "df21") for a in (0xFFFFFF, 1, 0xFFFFFE)]
        for (b, tag) in ends + accepted[: 60 if tier == "quick" else 600]:
            digits = "".join(chr(c) for c in b if chr(c) in "0123456789abcdefABCDEF").upper()
            for (u, r) in ((False, False), (True, True)):
                # .. and the same line as the last line of a file that does not end in a line feed (case c: plain, case d: decorated)
                ops = ["reset", gen.cfg_op(use_update=u, relaxed=r), "case a"] + gen.seg([b]) + ["dump", "reset",
                       gen.cfg_op(use_update=u, relaxed=r), "case b"] + gen.seg([digits]) + ["dump", "reset",
                       gen.cfg_op(use_update=u, relaxed=r), "case c"] + gen.seg([digits], nolf=True) + ["dump", "reset",
                       gen.cfg_op(use_update=u, relaxed=r), "case d"] + gen.seg([b], nolf=True) + ["dump"]
                impl, _, model = run.execute(ops, model=driver_ok)
                rep.evaluations += 4
                rep.traces += 1
                self.corr(rep, impl, model, f"decorated line {b[:60]!r}", ops)
                ci = core.split_cases(impl)
                if [l for l in ci.get("a", []) if not l.startswith("seg")] != [l for l in ci.get("b", []) if not l.startswith("seg")]:
                    self.fail(rep, f"decoration changes the result of processing: {b[:80]!r} vs {digits}",
                              {"ops": ops, "decorated_hex": b.hex(), "plain": digits})
                    return
                # "processed": the aircraft the frame is from is in the table afterwards (address zero is no aircraft)
                adr = address_of(digits[-28:] if len(digits) in (28, 40) else digits[-14:])
                if adr:
                    got_rows = gen.parse_dump(ci.get("b", []))
                    if adr not in got_rows:
                        self.fail(rep, f"the line {digits} is a frame of aircraft {adr:06X}, but after it was read the table holds {sorted('%06X' % x for x in got_rows)}",
                                  {"ops": ["reset", gen.cfg_op(use_update=u, relaxed=r)] + gen.seg([digits]) + ["dump"], "plain": digits, "address": adr})
                        return
                for tag2 in ("c", "d"):
                    if [l for l in ci.get(tag2, []) if not l.startswith("seg")] != [l for l in ci.get("b", []) if not l.startswith("seg")]:
                        self.fail(rep, f"a frame on the last line of a file without a final line feed is processed differently: "
                                       f"{(digits if tag2 == 'c' else b[:80])!r}", {"ops": ops, "decorated_hex": b.hex(), "plain": digits})
                        return
                rep.nontriv(("table", b.hex(), u))
        # rejected lines leave a populated table untouched
        rejected = [b for (b, t), il in zip(lines, im) if il == "msg -"]
        rng.shuffle(rejected)
        base = [F.df11(5, 0x400000 + i, 0) for i in range(5)] + [F.df17(5, 0x400001, F.me_ident(4, 3, F.callsign_codes("TEST123")))]
        chunk = rejected[: 400 if tier == "quick" else 5000]
        # the rows are older than delete_after when the rejected lines arrive: not even the expiry sweep may be driven by them
        ops = ["reset"] + gen.seg(base) + ["adv 61500", "case a", "dump", "case b"] + gen.seg(chunk) + ["dump"]
        impl, _, model = run.execute(ops, model=driver_ok)
        rep.evaluations += len(chunk)
        self.corr(rep, impl, model, "rejected lines against a populated table", None)
        ci = core.split_cases(impl)
        a = [l for l in ci.get("a", []) if l.startswith(("row", "enddump"))]
        b2 = [l for l in ci.get("b", []) if l.startswith(("row", "enddump"))]
        if a != b2:
            # find the culprit by bisection
            lo = chunk
            while len(lo) > 1:
                half = lo[: len(lo) // 2]
                o2 = ["reset"] + gen.seg(base) + ["adv 61500", "case a", "dump", "case b"] + gen.seg(half) + ["dump"]
                i2, _, _ = run.execute(o2, model=False)
                c2 = core.split_cases(i2)
                same = [l for l in c2.get("a", []) if l.startswith(("row", "enddump"))] == [l for l in c2.get("b", []) if l.startswith(("row", "enddump"))]
                lo = lo[len(lo) // 2:] if same else half
            self.fail(rep, f"a line that is not a frame changed the table: {lo[0][:80]!r}",
                      {"ops": ["reset"] + gen.seg(base) + ["adv 61500", "dump"] + gen.seg(lo) + ["dump"], "line_hex": lo[0].hex()})

        # .. and a line that is not a frame stays one when it is the unterminated last line of a file (a digit too many must not
        # become a frame by losing its last character)
        odd = [b for b in rejected if sum(1 for c in b if chr(c) in "0123456789abcdefABCDEF") in (15, 27, 29, 41)]
        pick = odd[:30] + rejected[:30]
        ops = ["reset"] + gen.seg(base) + ["adv 61500", "case base", "dump"]
        for k, b in enumerate(pick):
            ops += ["reset"] + gen.seg(base) + ["adv 61500", f"case n{k}"] + gen.seg([b], nolf=True) + ["dump"]
        impl, _, model = run.execute(ops, model=driver_ok)
        rep.evaluations += len(pick)
        self.corr(rep, impl, model, "rejected lines as unterminated last line", None)
        ci = core.split_cases(impl)
        want = sorted(gen.parse_dump(ci.get("base", [])))
        for k, b in enumerate(pick):
            got = sorted(gen.parse_dump(ci.get(f"n{k}", [])))
            if got != want:
                self.fail(rep, f"a line that is not a frame changed the table when it was the last line of a file without a final line feed: {b[:80]!r}",
                          {"ops": ["reset"] + gen.seg(base) + ["adv 61500"] + gen.seg([b], nolf=True) + ["dump"], "line_hex": b.hex()})
                return

    def judge_replay(self, rep, obj, impl, so, model):
        super().judge_replay(rep, obj, impl, so, model)
        if "spec" in obj:
            got = [l for l in impl if l.startswith("msg")]
            if got and got[0].split(" ", 1)[1] != obj["spec"]:
                self.fail(rep, "replayed: get_message still differs from the frame rule", obj)

PROP = C02()
