"""Shared by C14/C15: rich table states built from frames, and parsing of what the real display prints."""
import re
from fractions import Fraction
import core, gen, frames as F

def rich_rows(rng, n, base=0x480000):
    """frames that fill a random subset of the columns of n aircraft (needs -R for the Comm-B ones)"""
    pre, body = [], []
    addrs = [base + i * 7 + 1 for i in range(n)]
    for a in addrs:
        r = rng.random
        pre.append(F.df11(rng.randrange(8), a, 0))
        if r() < 0.7:
            body.append(F.df17(5, a, F.me_ident(rng.choice([4, 4, 2, 3]), rng.randrange(8), F.callsign_codes(rng.choice(["BAW224U", "X", "AB12CD34", "KLM1"])))))
        if r() < 0.7:
            body.append(F.df5(0, 0, 0, F.id13_of_squawk(*[rng.randrange(8) for _ in range(4)]), a))
        if r() < 0.7:
            lat = Fraction(rng.randrange(-8600, 8600), 100); lon = Fraction(rng.randrange(-17999, 17999), 100)
            ac = F.ac12_q1(rng.choice([40, 41, 1560, 2047]))
            e = F.cpr_encode(lat, lon, 0); o = F.cpr_encode(lat, lon, 1)
            if 0 not in e and 0 not in o:
                body.append(F.df17(5, a, F.me_airpos(11, rng.randrange(4), 0, ac, 0, 0, *e)))
                body.append(F.df17(5, a, F.me_airpos(11, rng.randrange(4), 0, ac, 0, 1, *o)))
        elif r() < 0.5:
            body.append(F.df4(0, 0, 0, F.ac13_q1(rng.choice([40, 2047, 1000])), a))
        if r() < 0.7:
            # component / rate fields of 0 ("no information") included: a source mark may be recorded while the value is unknown
            body.append(F.df17(5, a, F.me_velocity(rng.choice([1, 2, 3]), 0, 0, 0, rng.randrange(2), rng.choice([0, 1, 2, 500, 1023]), rng.randrange(2),
                                                   rng.choice([0, 1, 2, 500, 1023]), 0, rng.randrange(2), rng.choice([0, 1, 2, 100, 511]), rng.randrange(2), rng.randrange(128))))
        if r() < 0.25:
            # a surface squitter, ground-track status bit 0 or 1
            body.append(F.df17(5, a, F.me_surface(rng.randrange(5, 9), rng.randrange(128), rng.randrange(2), rng.randrange(128), 0, rng.randrange(2), *gen.rand_cpr(rng))))
        if r() < 0.5:
            body.append(F.df20(0, 0, 0, F.ac13_q1(1000), F.bds40(rng.randrange(1, 4096), rng.randrange(1, 4096), rng.randrange(1, 4096), 0, 1, rng.randrange(4)), a))
        if r() < 0.5:
            body.append(F.df20(0, 0, 0, F.ac13_q1(1000), F.bds50(rng.choice([-280, -1, 1, 280]), rng.choice([-1000, -1, 1, 1000]), rng.randrange(100, 290),
                                                               rng.choice([-500, -1, 1, 500]), rng.randrange(100, 250)), a))
        if r() < 0.5:
            body.append(F.df21(0, 0, 0, 0o1200, F.bds60(rng.choice([-1000, -1, 1, 1000]), rng.randrange(1, 1024), rng.randrange(1, 251),
                                                         rng.choice([-180, -1, 1, 180]), rng.choice([-180, 1, 180])), a))
        if r() < 0.4:
            body.append(F.df20(0, 0, 0, F.ac13_q1(1000), F.bds44(rng.randrange(9, 16), rng.randrange(1, 300), rng.randrange(1, 512), rng.randrange(2),
                                                               rng.randrange(1, 240), rng.randrange(1, 2047), rng.randrange(1, 4), rng.randrange(1, 64)), a))
        if r() < 0.3:
            body.append(F.df20(0, 0, 0, F.ac13_q1(1000), F.bds30(rng.randrange(2), 1), a))
        if r() < 0.4:
            body.append(F.df17(5, a, F.me_raw(31, rng.randrange(1 << 51))))
        if r() < 0.3:
            body.append(F.df17(5, a, F.me_airpos(21, 0, 0, rng.randrange(4096), 0, 0, *gen.rand_cpr(rng))))
    rng.shuffle(body)
    return addrs, pre, body

def renders(stdout):
    """blocks printed between @@RENDER markers -> list of line lists"""
    out = []
    for m in re.finditer(r"@@RENDER BEGIN\n(.*?)@@RENDER END", stdout, re.S):
        out.append(m.group(1).split("\n")[:-1] if m.group(1).endswith("\n") else m.group(1).split("\n"))
    return out

def model_renders(model_lines):
    out, cur = [], None
    for l in model_lines:
        if l.startswith("R|"):
            if cur is None:
                cur = []
            cur.append(l[2:])
        elif l == "endrender":
            out.append(cur or [])
            cur = None
    return out

def header_cells(header):
    """[(name, start, width)] from a header line: every name is right-aligned in its column, one blank between"""
    names = ["ICAO", "RG", "SQWK", "W", "CALLSIGN", "LATITUDE", "LONGITUDE", "DIST", "ALT B", "ALT G", "ALT S", "BARO", "VRATE", "TRK", "HDG",
             "GSP", "TAS", "IAS", "MACH", "RLL", "TAR", "TEMP", "WND", "WDR", "HUM", "PRES", "TB", "VX", "DF", "TC", "V", "S", "PTH", "LC"]
    widths = {"ICAO": 6, "RG": 2, "SQWK": 4, "W": 1, "CALLSIGN": 8, "LATITUDE": 9, "LONGITUDE": 11, "DIST": 5, "ALT B": 5, "ALT G": 5, "ALT S": 5,
              "BARO": 4, "VRATE": 5, "TRK": 3, "HDG": 3, "GSP": 3, "TAS": 3, "IAS": 3, "MACH": 4, "RLL": 3, "TAR": 3, "TEMP": 5, "WND": 3, "WDR": 3,
              "HUM": 3, "PRES": 4, "TB": 2, "VX": 2, "DF": 2, "TC": 2, "V": 1, "S": 1, "PTH": 3, "LC": 2}
    cells, pos = [], 0
    rest = header
    for n in names:
        w = widths[n]
        seg = header[pos:pos + w]
        if seg.strip() == n:
            cells.append((n, pos, w))
            pos += w + 1
    return cells

FLOATCOLS = {"LATITUDE": 1e-5 * 1.01, "LONGITUDE": 1e-5 * 1.01, "DIST": 0.101, "MACH": 0.0101, "TEMP": 0.101}

def rows_agree(impl_line, model_line, cells):
    if impl_line == model_line:
        return []
    bad = []
    for n, pos, w in cells:
        a, b = impl_line[pos:pos + w + 1], model_line[pos:pos + w + 1]
        if a == b:
            continue
        if n in FLOATCOLS:
            try:
                if abs(float(a.strip()) - float(b.strip())) <= FLOATCOLS[n]:
                    continue
            except ValueError:
                pass
        bad.append((n, a, b))
    if not bad and len(impl_line) != len(model_line):
        bad.append(("<length>", len(impl_line), len(model_line)))
    return bad
