"""C11 — each parameter shows the latest value its own frames carried; no cross-talk."""
import itertools
import core, gen, frames as F
from props.base import PropBase

PARAMS = ["alt", "squawk", "ais", "cat", "gs", "track", "vrate", "ss", "ver"]

def alphabet(rng, addrs):
    """well-formed frames of every supported format; altitude codes Q=1 only (the Gillham branch is C05's known finding)"""
    out = []
    for a in addrs:
        out += [
            ("df0", F.df0(rng.randrange(1 << 27), a)),
            ("df4", F.df4(0, 0, 0, F.ac13_q1(rng.randrange(40, 2000)), a)),
            ("df4z", F.df4(0, 0, 0, 0, a)),
            ("df5", F.df5(0, 0, 0, rng.randrange(8192), a)),
            ("df11", F.df11(rng.randrange(4), a, 0)),
            ("df16", F.df16(rng.randrange(1 << 83), a)),
            ("df20", F.df20(0, 0, 0, F.ac13_q1(rng.randrange(40, 2000)), rng.randrange(1 << 56), a)),
            ("df21", F.df21(0, 0, 0, rng.randrange(8192), rng.randrange(1 << 56), a)),
            ("tc0", F.df17(rng.randrange(4), a, F.me_raw(0, rng.randrange(1 << 51)))),
            ("tc2", F.df17(rng.randrange(4), a, F.me_ident(2, rng.randrange(8), [rng.randrange(64) for _ in range(8)]))),
            ("tc4", F.df17(rng.randrange(4), a, F.me_ident(4, rng.randrange(8), F.callsign_codes("TST%03d" % rng.randrange(1000))))),
            ("tc6", F.df17(rng.randrange(4), a, F.me_surface(6, rng.randrange(128), 1, rng.randrange(128), 0, rng.randrange(2), *gen.rand_cpr(rng)))),
            ("tc11e", F.df17(rng.randrange(4), a, F.me_airpos(11, rng.randrange(4), 0, F.ac12_q1(rng.randrange(40, 2000)), 0, 0, *gen.rand_cpr(rng)))),
            ("tc11o", F.df17(rng.randrange(4), a, F.me_airpos(11, rng.randrange(4), 0, F.ac12_q1(rng.randrange(40, 2000)), 0, 1, *gen.rand_cpr(rng)))),
            ("tc19.1", F.df17(rng.randrange(4), a, F.me_velocity(1, 0, 0, 0, rng.randrange(2), rng.randrange(2, 900), rng.randrange(2), rng.randrange(2, 900), 0, rng.randrange(2), rng.randrange(1, 512), 0, rng.randrange(128)))),
            ("tc19.2", F.df17(rng.randrange(4), a, F.me_velocity(2, 0, 0, 0, rng.randrange(2), rng.randrange(2, 900), rng.randrange(2), rng.randrange(2, 900), 0, rng.randrange(2), rng.randrange(1, 512), 0, 0))),
            ("tc19.0v", F.df17(rng.randrange(4), a, F.me_velocity(1, 0, 0, 0, 0, 0, 0, 0, 0, 0, 0, 0, 0))),
            ("tc19.3", F.df17(rng.randrange(4), a, F.me_velocity(3, 0, 0, 0, 1, rng.randrange(1024), 0, rng.randrange(1024), 0, 0, rng.randrange(512), 0, 0))),
            ("tc21", F.df17(rng.randrange(4), a, F.me_airpos(21, rng.randrange(4), 0, rng.randrange(4096), 0, 0, *gen.rand_cpr(rng)))),
            ("tc28", F.df17(rng.randrange(4), a, F.me_raw(28, rng.randrange(1 << 51)))),
            # the edges of every type-code class
            ("tc1", F.df17(rng.randrange(4), a, F.me_ident(1, rng.randrange(8), F.callsign_codes("EDG%03d" % rng.randrange(1000))))),
            ("tc5", F.df17(rng.randrange(4), a, F.me_surface(5, rng.randrange(128), 1, rng.randrange(128), 0, rng.randrange(2), *gen.rand_cpr(rng)))),
            ("tc8", F.df17(rng.randrange(4), a, F.me_surface(8, rng.randrange(128), 1, rng.randrange(128), 0, rng.randrange(2), *gen.rand_cpr(rng)))),
            ("tc9", F.df17(rng.randrange(4), a, F.me_airpos(9, rng.randrange(4), 0, F.ac12_q1(rng.randrange(40, 2000)), 0, rng.randrange(2), *gen.rand_cpr(rng)))),
            ("tc18", F.df17(rng.randrange(4), a, F.me_airpos(18, rng.randrange(4), 0, F.ac12_q1(rng.randrange(40, 2000)), 0, rng.randrange(2), *gen.rand_cpr(rng)))),
            ("tc20", F.df17(rng.randrange(4), a, F.me_airpos(20, rng.randrange(4), 0, rng.randrange(4096), 0, 0, *gen.rand_cpr(rng)))),
            ("tc22", F.df17(rng.randrange(4), a, F.me_airpos(22, rng.randrange(4), 0, rng.randrange(4096), 0, 0, *gen.rand_cpr(rng)))),
            ("tc23", F.df17(rng.randrange(4), a, F.me_raw(23, rng.randrange(1 << 51)))),
            # the Comm-B gate: capability 4 and 7 (lowest / highest value that opens it), and a reply that carries a callsign
            ("df11c4", F.df11(4, a, 0)),
            ("tc4c7", F.df17(7, a, F.me_ident(4, rng.randrange(8), F.callsign_codes("CAP%03d" % rng.randrange(1000))))),
            ("df21b20", F.df21(0, 0, 0, rng.randrange(8192), F.bds20(F.callsign_codes("BDS%03d" % rng.randrange(1000))), a)),
            ("tc31", F.df17(rng.randrange(4), a, F.me_raw(31, rng.randrange(1 << 51)))),
            # two identification squitters with the same characters but different type code / category, and a BDS 2,0 reply
            # carrying those characters too: "unchanged callsign" must not suppress the rest of the frame
            ("tc4same", F.df17(5, a, F.me_ident(4, 3, F.callsign_codes("SAME%03d" % (a % 1000))))),
            ("tc3same", F.df17(5, a, F.me_ident(3, 6, F.callsign_codes("SAME%03d" % (a % 1000))))),
            ("df21same", F.df21(0, 0, 0, rng.randrange(8192), F.bds20(F.callsign_codes("SAME%03d" % (a % 1000))), a)),
            # DF18 (non-transponder ADS-B, TIS-B): the three bits after the format are CF, not a transponder capability -
            # a DF18 frame of the same address carries none of the parameters and must leave the recorded capability alone
            ("df18cf2", F.df17(2, a, F.me_raw(0, rng.randrange(1 << 51)), df=18)),
            ("df18cf6", F.df17(6, a, F.me_raw(23, rng.randrange(1 << 51)), df=18)),
        ]
    return out

CLASS = {"df11c4": "df11", "tc4c7": "tc4", "tc4same": "tc4", "tc3same": "tc2", "df21same": "df21b20", "tc1": "tc2", "tc5": "tc6", "tc8": "tc6", "tc9": "tc11e", "tc18": "tc11e", "tc20": "tc21", "tc22": "tc21", "tc23": "tc28"}

def carried(kind, spec, impl_frame):
    """what the specification says the frame carries: {param: value or None (no valid value)}"""
    c = {}
    kind = CLASS.get(kind, kind)
    if kind in ("df4", "df4z", "df20", "tc11e", "tc11o"):
        c["alt"] = None if spec["alt"] in ("-", "*") else spec["alt"]
    if kind == "tc6":
        c["alt"] = "BLANK"
    if kind in ("df5", "df21", "df21b20"):
        c["squawk"] = spec["squawk"]
    if kind in ("tc2", "tc4"):
        c["ais"] = spec["callsign"]; c["cat"] = spec["cat"]
    if kind in ("tc19.1", "tc19.2", "tc19.0v"):
        c["gs"] = None if spec["gs"] == "-" else spec["gs"]
        c["track"] = None if spec["track"] == "-" else spec["track"]
        c["vrate"] = None if spec["vrate"] == "-" else spec["vrate"]
    if kind == "tc31":
        c["ver"] = spec["ver"]
    if kind in ("tc11e", "tc11o", "tc21"):
        c["ss"] = spec["ss"]
    if kind == "tc19.3":
        c["vrate"] = None if impl_frame.get("vrate") == "-" else impl_frame.get("vrate")
    return c

class C11(PropBase):
    id = "C11"
    shown_columns = ('ALT B', 'SQWK', 'CALLSIGN', 'GSP', 'TRK', 'VRATE', 'W')
    lean_modules = ["SqModel.Props.C11", "SqModel.Proofs.Dispatch", "SqModel.Proofs.Bridge", "SqModel.Proofs.BridgeRat", "SqModel.Proofs.BridgePlane", "SqModel.Proofs.BridgeTable"]
    extractors = ["dispatch", "trans"]
    rule = ("sequences over an alphabet of 37 well-formed frame kinds (incl. DF18 frames with CF 2 / 6) (every supported format, both edges of every type-code class, capability 4 and 7, a BDS 2,0 reply) x 2 aircraft (every supported format; altitude codes with Q=1), "
            "bounded-exhaustive for length 2 and sampled for length 3 (1500 quick / 12000 thorough of 37^3), plus random sequences of "
            "50-300 frames with time steps; -U on/off; dump after every frame; compared with the model and with a reference fold "
            "('latest value of the last frame that carries the parameter, or blank/previous if it carried none') built from the Lean "
            "spec line of each frame; every frame is also fed twice in a row (re-feed changes nothing); BDS 5,0 replies whose bits would also pass as BDS 6,0 after a velocity squitter / a 6,0 reply (one register per reply). Non-trivial = sequence in "
            "which a later frame of another format follows a frame that set a parameter; distinct by sequence.")

    def run_seqs(self, rep, run, rng, alpha, seqs, u, driver_ok, specs, implf):
        ops = []
        for si, seq in enumerate(seqs):
            ops += ["reset", gen.cfg_op(use_update=u, relaxed=False, delete_after=600)]
            for j, k in enumerate(seq):
                ops += [f"case {si}.{j}"] + gen.seg([alpha[k][1]]) + ["dump"]
                ops += [f"case {si}.{j}r"] + gen.seg([alpha[k][1]]) + ["dump"]     # re-feed
        impl, _, model = run.execute(ops, model=driver_ok)
        rep.evaluations += sum(len(s) for s in seqs); rep.traces += len(seqs)
        self.corr(rep, impl, model, {"use_update": u, "sequences": len(seqs)})
        ci = core.split_cases(impl)
        for si, seq in enumerate(seqs):
            ref = {}      # addr -> {param: latest}
            caps = {}     # addr -> capability last reported by DF11 / DF17
            bds_names = {k: alpha[k][1] for k in range(len(alpha))}
            bds_names = {k: self.names.get(alpha[k][1], "") for k in range(len(alpha))}
            for j, k in enumerate(seq):
                kind, fr = alpha[k]
                addr = int(specs[k]["addr"])
                rows = gen.parse_dump(ci.get(f"{si}.{j}", []))
                rows_r = gen.parse_dump(ci.get(f"{si}.{j}r", []))
                prefix_ops = ["reset", gen.cfg_op(use_update=u)] + sum([gen.seg([alpha[x][1]]) * 2 for x in seq[:j]], [])
                # "re-feeding the frame just applied to an EXISTING row": not for the frame that created the row
                if addr in ref and rows != rows_r:
                    diff = {a: {x: (rows.get(a, {}).get(x), rows_r.get(a, {}).get(x)) for x in rows.get(a, {}) if rows.get(a, {}).get(x) != rows_r.get(a, {}).get(x)} for a in rows}
                    self.fail(rep, f"re-feeding {kind} frame {fr} changes the row: {diff}",
                              {"ops": prefix_ops + gen.seg([fr]) + ["dump"] + gen.seg([fr]) + ["dump"]})
                    return False
                for (dump_rows, tag) in ((rows, "first"), (rows_r, "refeed")):
                    created = addr not in ref
                    cur = ref.setdefault(addr, {})
                    car = carried(kind, specs[k], implf[k])
                    if CLASS.get(kind, kind) == "df21b20" and caps.get(addr, 0) >= 4:
                        car["ais"] = '"' + bds_names[k] + '"'       # capability >= 4 recorded: the BDS 2,0 callsign is taken
                    if created and CLASS.get(kind, kind) in ("df20", "df21", "df21b20"):
                        car = {}          # the creating DF20/21 frame may contribute the address only
                    if tag == "refeed" and fr[0] in "58" and int(fr[0:2], 16) >> 3 in (11, 17):
                        caps[addr] = int(fr[0:2], 16) & 7          # CA of DF11 / DF17, in force from the next frame on
                    row = dump_rows.get(addr)
                    if row is None:
                        self.fail(rep, f"no row for {addr:06X} after its frame", {"ops": prefix_ops + gen.seg([fr]) + ["dump"]})
                        return False
                    for prm in PARAMS:
                        got = row.get(prm)
                        if prm in car:
                            v = car[prm]
                            if v == "BLANK":
                                ok = got == "-"
                                cur[prm] = "-"
                            elif v is None:
                                ok = got in ("-", cur.get(prm, "-"))
                                cur[prm] = got
                            else:
                                ok = got == v
                                cur[prm] = v
                            if not ok:
                                self.fail(rep, f"after {kind} frame {fr} ({tag}): {prm}={got}, the frame carries {v}",
                                          {"ops": prefix_ops + gen.seg([fr]) * (1 if tag == "first" else 2) + ["dump"],
                                           "param": prm, "expected": v, "sequence": [alpha[x][0] for x in seq[:j + 1]]})
                                return False
                        elif prm in ("alt", "squawk", "ais", "cat", "gs", "vrate", "ver", "ss") or (prm == "track" and CLASS.get(kind, kind) not in ("tc6",)):
                            want = cur.get(prm, "0/0" if prm == "cat" else ("32" if prm == "ss" else "-"))
                            if got != want:
                                self.fail(rep, f"{kind} frame {fr} ({tag}) does not carry {prm} but changed it {want} -> {got}",
                                          {"ops": prefix_ops + gen.seg([fr]) * (1 if tag == "first" else 2) + ["dump"],
                                           "param": prm, "sequence": [alpha[x][0] for x in seq[:j + 1]]})
                                return False
                        else:
                            cur[prm] = got
            if len(seq) >= 2:
                rep.nontriv((tuple(seq), u))
        return True

    def explore(self, rep, run, rng, tier, driver_ok):
        addrs = [0x4B1234, 0xA54321]
        alpha = alphabet(rng, addrs)
        impl, _, model = run.execute(["reset", "case 0"] + ["q frame " + f for _, f in alpha], model=driver_ok)
        specs = [core.kvs(l) for l in model if l.startswith("spec ")]
        implf = [core.kvs(l) for l in impl if l.startswith("frame")]
        if not driver_ok or len(specs) != len(alpha):
            raise core.Broken("spec lines unavailable for the alphabet", "")
        self.names = {}
        for kind, fr in alpha:
            if CLASS.get(kind, kind) == "df21b20":
                mb = (int(fr, 16) >> 24) & ((1 << 56) - 1)
                codes = [(mb >> (42 - 6 * i)) & 63 for i in range(8)]
                self.names[fr] = "".join(chr(64 + c) if 1 <= c <= 26 else (chr(c) if 48 <= c <= 57 else "") for c in codes)
        n = len(alpha)
        pairs = list(itertools.product(range(n), repeat=2))
        triples = list(itertools.product(range(n), repeat=3))
        # every frame is a file of its own for the real reader (a thread, a file, two dumps): all 37^3 sequences of length 3 take
        # more than an hour of mostly system time - the thorough tier samples 12000 of them, the quick tier 1500
        triples = rng.sample(triples, 1500 if tier == "quick" else 12000)
        for u in (False, True):
            for chunk in (pairs, triples):
                for lo in range(0, len(chunk), 1000):
                    if not self.run_seqs(rep, run, rng, alpha, chunk[lo:lo + 1000], u, driver_ok, specs, implf):
                        return
            longs = [[rng.randrange(n) for _ in range(rng.randrange(50, 300))] for _ in range(6 if tier == "quick" else 60)]
            if not self.run_seqs(rep, run, rng, alpha, longs, u, driver_ok, specs, implf):
                return
        if not self.precedence(rep, run, rng, driver_ok):
            return
        rep.exhaustive.append(f"all {len(pairs)} sequences of length 2 over the {n}-frame alphabet, both paths")
        rep.sample({"alphabet_kinds": [k for k, _ in alpha[:32]], "example_sequence": [alpha[i][0] for i in triples[0]]})

    def precedence(self, rep, run, rng, driver_ok):
        """a Comm-B reply is decoded as ONE register: a BDS 5,0 reply whose bits would also pass as BDS 6,0 carries ground
        speed / track, not heading / airspeed / vertical rate (fixed precedence 1,7 > 4,0 > 5,0 > 6,0)"""
        from props import c10 as X
        both = []
        for _ in range(40):
            mb = F.bds50(rng.randrange(1, 250), -rng.randrange(1, 1000), rng.randrange(20, 250), rng.choice([rng.randrange(1, 187), -rng.randrange(1, 187)]), rng.randrange(20, 187))
            if X.valid50(mb) and X.nonzero50(mb) and X.plausible50(X.dec50(mb)) and X.valid60(mb) and X.nonzero60(mb) and X.plausible60(X.dec60(mb)):
                both.append(mb)
        if len(both) < 5:
            raise core.Broken("could not build registers valid as both BDS 5,0 and 6,0", str(len(both)))
        for ci, mb in enumerate(both[:12]):
            for u in (False, True):
                for relaxed in (False, True):
                    a = 0x4D0000 + ci
                    vel = F.df17(5, a, F.me_velocity(1, 0, 0, 0, 0, 200, 1, 150, 0, 1, 21, 0, 0))
                    r60 = F.df20(0, 0, 0, F.ac13_q1(500), F.bds60(-300, 250, 180, -40, -38), a)
                    x50 = (F.df20(0, 0, 0, F.ac13_q1(500), mb, a) if ci % 2 else F.df21(0, 0, 0, 0o1234, mb, a))
                    pre = [F.df11(5, a, 0), F.df20(0, 0, 0, F.ac13_q1(500), F.bds17({7, 9, 16, 24}), a), vel] + ([r60] if ci % 3 else [])
                    ops = ["reset", gen.cfg_op(use_update=u, relaxed=relaxed, delete_after=600), "case 0"] + gen.seg(pre) + ["dump", "case 1"] + gen.seg([x50]) + ["dump"]
                    impl, _, model = run.execute(ops, model=driver_ok)
                    rep.evaluations += len(pre) + 1; rep.traces += 1
                    self.corr(rep, impl, model, {"precedence": ci, "use_update": u, "relaxed": relaxed}, ops)
                    ci_ = core.split_cases(impl)
                    before = gen.parse_dump(ci_.get("0", [])).get(a, {})
                    after = gen.parse_dump(ci_.get("1", [])).get(a, {})
                    d = X.dec50(mb)
                    for k in ("vrate", "hdg", "ias", "mach"):
                        if after.get(k) != before.get(k):
                            self.fail(rep, f"BDS 5,0 reply MB={mb:014X} changed {k} {before.get(k)} -> {after.get(k)}: a reply decoded as 5,0 carries no {k} (it is not also decoded as 6,0)",
                                      {"ops": ops, "param": k, "mb": "%014X" % mb})
                            return False
                    for k in ("gs", "track"):
                        if not X.shown_ok(after.get(k), d[k]):
                            self.fail(rep, f"BDS 5,0 reply MB={mb:014X}: {k}={after.get(k)}, the register says {float(d[k]):.2f}", {"ops": ops, "param": k})
                            return False
                    rep.nontriv(("precedence", mb, u, relaxed))
        return True

PROP = C11()
