"""C07 — callsign and emitter category are decoded character-exactly."""
import core, gen, frames as F
from props.base import PropBase

def expect_callsign(codes):
    out = ""
    for c in codes:
        if 1 <= c <= 26:
            out += chr(64 + c)
        elif 48 <= c <= 57:
            out += chr(c)
    return out

class C07(PropBase):
    id = "C07"
    shown_columns = ('W', 'CALLSIGN')
    corr_fields = ['ais', 'cat']
    lean_modules = ["SqModel.Props.C07", "SqModel.Proofs.Bridge", "SqModel.Proofs.BridgePlane"]
    extractors = ["trans"]
    rule = ("every 6-bit code 0..63 in each of the 8 character positions (512 frames) plus random 48-bit strings, TC 1..4 x "
            "CA 0..7, as creating frame, after a DF11, after an identification squitter with the same characters but another type code and category, and after two identification squitters that differ in one character (each position), -U/-R on/off; BDS 2,0 via DF20 and DF21 under capability 0..7 x -R, for rows with and without an earlier identification squitter, and after earlier replies with BDS 1,0 (any content), 3,0 and 1,7 reports. "
            "row.ais / row.category against the expectation computed from the generated codes and against the Lean spec "
            "line. Non-trivial = callsign with at least one character; distinct by (frame, options).")

    def explore(self, rep, run, rng, tier, driver_ok):
        sets = []
        for pos in range(8):
            for c in range(64):
                codes = [rng.choice([1, 2, 20, 48, 57, 26]) for _ in range(8)]
                codes[pos] = c
                sets.append(codes)
        for _ in range(500 if tier == "quick" else 20000):
            sets.append([rng.randrange(64) for _ in range(8)])
        for (u, r) in gen.ALL_CFGS:
            for first in (False, True, "same-callsign", "one-char"):
                addrs, frames, exp = [], [], []
                priors = {}
                for i, codes in enumerate(sets):
                    a = 0x500000 + i
                    tc, ca = 1 + (i % 4), (i // 4) % 8
                    addrs.append(a); exp.append((expect_callsign(codes), tc, ca))
                    frames.append(F.df17(rng.randrange(8), a, F.me_ident(tc, ca, codes)))
                    # an earlier identification squitter with the same characters but another type code / category
                    if first == "same-callsign":
                        priors[a] = F.df17(5, a, F.me_ident(1 + ((tc + rng.randrange(3)) % 4), (ca + 1 + rng.randrange(7)) % 8, codes))
                    elif first == "one-char":
                        # the earlier identification differs in exactly one character (every position in turn); two such
                        # squitters precede the one under test so that both have gone through the update path
                        pc = list(codes); pc[i % 8] = (pc[i % 8] % 26) + 1 if pc[i % 8] != ((pc[i % 8] % 26) + 1) else 48
                        priors[a] = F.df17(5, a, F.me_ident(tc, ca, pc))
                    else:
                        priors[a] = F.df11(5, a, 0)
                ops = ["reset", gen.cfg_op(use_update=u, relaxed=r), "case 0"]
                if first is not True:
                    ops += gen.seg([priors[a] for a in addrs])
                if first == "one-char":
                    ops += gen.seg([priors[a] for a in addrs])
                ops += gen.seg(frames) + ["dump", "case 1"] + ["q frame " + f for f in frames[:700]]
                impl, _, model = run.execute(ops, model=driver_ok)
                rep.evaluations += len(frames); rep.traces += 1
                ctx = {"use_update": u, "relaxed": r, "creating_frame": first}
                self.corr(rep, impl, model, ctx)
                ci, cm = core.split_cases(impl), core.split_cases(model)
                rows = gen.parse_dump(ci.get("0", []))
                for a, f, (cs, tc, ca) in zip(addrs, frames, exp):
                    d = rows.get(a, {})
                    if d.get("ais") != '"%s"' % cs or d.get("cat") != f"{tc}/{ca}":
                        self.fail(rep, f"identification squitter {f}: row shows ais={d.get('ais')} cat={d.get('cat')}, expected \"{cs}\" {tc}/{ca} ({ctx})",
                                  {"ops": ["reset", gen.cfg_op(use_update=u, relaxed=r)] + ([] if first is True else gen.seg([priors[a]] * (2 if first == "one-char" else 1))) + gen.seg([f]) + ["dump"],
                                   "frame": f, "expected_ais": cs, "expected_cat": f"{tc}/{ca}", "address": a})
                        return
                    if cs:
                        rep.nontriv((f, u, r, first))
                for f, sl, (cs, tc, ca) in zip(frames, [l for l in cm.get("1", []) if l.startswith("spec ")], exp):
                    k = core.kvs(sl)
                    if k.get("callsign") != '"%s"' % cs or k.get("cat") != f"{tc}/{ca}":
                        raise core.Broken("Lean callsignSpec disagrees with the generator", f + " " + sl)
        rep.exhaustive.append("all 64 character codes in each of the 8 positions")
        rep.sample({"frame": frames[100], "expected": exp[100]})
        # BDS 2,0 under the capability gate
        n = 200 if tier == "quick" else 4000
        for r in (False, True):
            for u in (False, True):
                ops = ["reset", gen.cfg_op(use_update=u, relaxed=r), "case 0"]
                cases = []
                pre, rep_frames = [], []
                mine = {}
                for i in range(n):
                    a = 0x600000 + i
                    ca = i % 8
                    codes = [rng.randrange(64) for _ in range(8)]
                    df = 20 + (i // 8) % 2
                    mb = F.bds20(codes)
                    fr = F.df20(0, 0, 0, F.ac13_q1(1000), mb, a) if df == 20 else F.df21(0, 0, 0, 0o1234, mb, a)
                    pre.append(F.df11(ca, a, 0)); rep_frames.append(fr)
                    prev, prevcat = "-", "0/0"
                    if i % 3 == 1:
                        # the row already has a callsign and a category from an identification squitter (same CA)
                        pc = [rng.choice([1, 5, 20, 26, 48, 57]) for _ in range(8)]
                        pre.append(F.df17(ca, a, F.me_ident(1 + i % 4, 1 + i % 7, pc)))
                        prev = '"%s"' % expect_callsign(pc)
                        prevcat = "%d/%d" % (1 + i % 4, 1 + i % 7)
                    if i % 5 == 2:
                        # the aircraft has answered with other registers before: a data link capability report (BDS 1,0, any
                        # content - also with "no aircraft identification capability"), an ACAS report (3,0), a BDS 1,7 report.
                        # What another register said decides nothing about the call sign of a BDS 2,0 reply.
                        for mb0 in (0x10 << 48 | (rng.randrange(1 << 48) & ~(0x1F << 42) & ~(rng.randrange(2) << 23)),
                                    0x30 << 48 | rng.randrange(1 << 48), rng.randrange(1 << 24) << 32):
                            pre.append(F.df20(0, 0, 0, F.ac13_q1(1000), mb0, a) if rng.randrange(2) else F.df21(0, 0, 0, 0o1234, mb0, a))
                            mine.setdefault(a, []).append(pre[-1])
                    cases.append((a, ca, codes, fr, prev, prevcat))
                ops += gen.seg(pre) + gen.seg(rep_frames) + ["dump"]
                impl, _, model = run.execute(ops, model=driver_ok)
                rep.evaluations += n; rep.traces += 1
                self.corr(rep, impl, model, {"bds20": True, "relaxed": r, "use_update": u})
                rows = gen.parse_dump(impl)
                for a, ca, codes, fr, prev, prevcat in cases:
                    want = ('"%s"' % expect_callsign(codes)) if (r or ca >= 4) else prev
                    got = rows.get(a, {}).get("ais")
                    # the emitter category is carried by identification squitters only: a Comm-B reply never changes it
                    if rows.get(a, {}).get("cat") != prevcat:
                        self.fail(rep, f"BDS 2,0 reply {fr} changed the emitter category of {a:06X} from {prevcat} to {rows.get(a, {}).get('cat')} "
                                       f"(capability {ca}, relaxed={r}, use_update={u})",
                                  {"ops": ["reset", gen.cfg_op(use_update=u, relaxed=r)] + gen.seg([f for f in pre if f[2:8] == "%06X" % a] + mine.get(a, [])) + gen.seg([fr]) + ["dump"],
                                   "frame": fr, "address": a})
                        return
                    if got != want:
                        self.fail(rep, f"BDS 2,0 reply {fr} for capability {ca}, relaxed={r}: row shows ais={got}, expected {want}",
                                  {"ops": ["reset", gen.cfg_op(use_update=u, relaxed=r)] + gen.seg([f for f in pre if f[2:8] == "%06X" % a] + mine.get(a, [])) + gen.seg([fr]) + ["dump"],
                                   "frame": fr, "expected_ais": want.strip('"'), "address": a})
                        return
                    rep.nontriv(("bds20", fr, r, u))

        if not self.shown(rep, run, rng, tier, driver_ok):
            return

    def shown(self, rep, run, rng, tier, driver_ok):
        """the W and CALLSIGN cells of the printed rows: wake class L,S,M,H,J,R for type code 4 with category 1,2,3,4,5,7, blank for
        anything else - also for aircraft that carry an ACAS threat mark (the cell before W), a squawk, a position; call sign as
        recorded"""
        from props import render_common as RC
        WAKE = {(4, 1): "L", (4, 2): "S", (4, 3): "M", (4, 4): "H", (4, 5): "J", (4, 7): "R"}
        for rnd in range(2 if tier == "quick" else 12):
            for u in (False, True):
                pre, want = [], {}
                i = 0
                for tc in (1, 2, 3, 4):
                    for ca in range(8):
                        for threat in (0, 1, 2):
                            a = 0x610000 + i; i += 1
                            codes = [rng.choice([1, 5, 20, 26, 48, 57, 32]) for _ in range(8)]
                            pre.append(F.df11(5, a, 0))
                            pre.append(F.df17(5, a, F.me_ident(tc, ca, codes)))
                            if threat:
                                pre.append(F.df20(0, 0, 0, F.ac13_q1(1000), F.bds30(threat_multi=int(threat == 2), ara_first=int(threat == 1)), a))
                            if rng.random() < 0.3:
                                pre.append(F.df5(0, 0, 0, rng.randrange(8192), a))
                            want[a] = (WAKE.get((tc, ca), " "), expect_callsign(codes))
                # an aircraft with a threat mark and no identification squitter at all
                a = 0x610000 + i
                pre += [F.df11(5, a, 0), F.df20(0, 0, 0, F.ac13_q1(1000), F.bds30(threat_multi=1, ara_first=1), a)]
                want[a] = (" ", "")
                groups = rng.choice(["aAews", "", "e"])
                ops = ["reset", gen.cfg_op(use_update=u, relaxed=bool(rnd % 2), groups=groups if groups else "x", order="", delete_after=600), "case 0"] \
                    + gen.seg(pre) + ["dump", "render"]
                impl, so, model = run.execute(ops, model=driver_ok)
                rep.evaluations += len(want); rep.traces += 1
                self.corr(rep, impl, model, {"shown": True, "use_update": u})
                ir = RC.renders(so)
                if len(ir) != 1:
                    raise core.Broken("render markers missing in the implementation's stdout", so[-300:])
                header, rows_txt = ir[0][0], ir[0][2:]
                cells = {n: (pos, w) for n, pos, w in RC.header_cells(header)}
                if "W" not in cells or "CALLSIGN" not in cells:
                    self.fail(rep, f"the header has no W / CALLSIGN column: {header!r}", {"ops": ops, "header": header})
                    return False
                seen = set()
                for t in rows_txt:
                    if len(t) < 6 or not all(c in "0123456789ABCDEF" for c in t[:6]):
                        continue
                    a = int(t[:6], 16)
                    if a not in want:
                        continue
                    seen.add(a)
                    wcell = t[cells["W"][0]:cells["W"][0] + 1]
                    ccell = t[cells["CALLSIGN"][0]:cells["CALLSIGN"][0] + 8].rstrip()
                    if wcell != want[a][0]:
                        self.fail(rep, f"aircraft {a:06X}: the W column shows {wcell!r}, the emitter category says {want[a][0]!r} (row {t[:40]!r})",
                                  {"ops": ["reset", gen.cfg_op(use_update=u, relaxed=bool(rnd % 2))] + gen.seg(pre) + ["dump", "render"], "address": a, "row": t})
                        return False
                    if ccell != want[a][1]:
                        self.fail(rep, f"aircraft {a:06X}: the CALLSIGN column shows {ccell!r}, the identification squitter says {want[a][1]!r}",
                                  {"ops": ["reset", gen.cfg_op(use_update=u, relaxed=bool(rnd % 2))] + gen.seg(pre) + ["dump", "render"], "address": a, "row": t})
                        return False
                if seen != set(want):
                    raise core.Broken("rendered table does not list every aircraft of the scenario", str(len(seen)))
                rep.nontriv(("shown", rnd, u))
        return True

    def judge_replay(self, rep, obj, impl, so, model):
        super().judge_replay(rep, obj, impl, so, model)
        if "expected_ais" in obj:
            d = gen.parse_dump(impl).get(obj.get("address"), {})
            want = '"%s"' % obj["expected_ais"] if obj["expected_ais"] != "-" else "-"
            if d.get("ais") != want:
                self.fail(rep, f"replayed: ais={d.get('ais')} expected {want}", obj)

PROP = C07()
