"""C16 — DF filter admits only the listed formats; DF counters are exact."""
import re
import core, gen, frames as F
from props.base import PropBase

KINDS = {"df0": 0, "df4": 4, "df5": 5, "df11": 11, "df16": 16, "tc11": 17, "tc4": 17, "tc19.1": 17, "df18": 18, "df20": 20, "df21": 21, "df24": 24,
         "df19": 19, "df22": 22, "df25": 25, "df28": 28, "df31": 31}

def last_counter_line(stdout, seg_no):
    m = re.search(r"@@SEG %d BEGIN(.*?)@@SEG %d END" % (seg_no, seg_no), stdout, re.S)
    if not m:
        return None
    lines = [l.strip() for l in m.group(1).replace("\x1b[2J\x1b[H\x1b[3J", "\n").splitlines()]
    c = [l for l in lines if re.fullmatch(r"(DF\d+:-?\d+ ?)*", l) and l]
    return c[-1] if c else ""

class C16(PropBase):
    id = "C16"
    corr_fields = ['df']
    lean_modules = ["SqModel.Props.C16", "SqModel.Proofs.BridgeTable"]
    rule = ("streams of 40-120 lines mixing all formats (incl. zero-address frames, squitters with damaged parity and junk) "
            "for 3 aircraft; -f over random subsets of {0,4,5,11,16,17,18,20,21,24} plus none/all/single; -c on/off; -M lists overlapping -f partly in half of the cases. Counter "
            "line of the real display (last 'DFn:count' line printed during the reader run) against the count of generated "
            "accepted frames per DF and against the model; table with -f against the table of the stream restricted to the "
            "listed formats; the same with a silent aircraft due to expire and 12-30 rejected frames among 1-8 listed ones (rejected frames must not advance the sweep). Non-trivial = at least one frame counted / filtered out; distinct by stream and option set. Also through the built binary: -c with several -f, long names, a -f value that names no format - its last counter line.")

    def stream(self, rng, n):
        addrs = [0x4B0001, 0x4B0002, 0xA00003]
        out = []   # (line, df or None if not accepted)
        for _ in range(n):
            k = rng.random()
            if k < 0.75:
                kind = rng.choice(list(KINDS))
                out.append((gen.rand_frame(rng, kind, rng.choice(addrs)), KINDS[kind]))
            elif k < 0.82:
                out.append((gen.rand_frame(rng, rng.choice(["df4", "df5", "df20"]), 0), None))      # address zero
            elif k < 0.90:
                f = gen.rand_frame(rng, "tc11", rng.choice(addrs))
                out.append((f[:-1] + "0123456789ABCDEF"[(int(f[-1], 16) + 1) % 16], None))            # parity damaged
            else:
                out.append((rng.choice(["", "hello", "8D4B", "*;", "\x00\xff"]), None))
        return out

    def explore(self, rep, run, rng, tier, driver_ok):
        ncase = 60 if tier == "quick" else 1500
        universe = [0, 4, 5, 11, 16, 17, 18, 20, 21, 24]
        for c in range(ncase):
            st = self.stream(rng, rng.randrange(40, 120))
            r = c % 6
            flt = None if r == 0 else universe if r == 1 else [rng.choice(universe)] if r == 2 else rng.sample(universe, rng.randrange(1, 9))
            if c % 7 == 3 and flt is not None:
                # numbers that name no downlink format (>= 32) are legal -f values and match nothing
                flt = list(flt) + rng.sample([32, 36, 49, 53, 64, 81, 4294967295], 2)
            count = (c % 5) != 4
            u = bool(c % 2)
            lines = [l for l, _ in st]
            # -M (log frames of the named formats) in half of the cases, overlapping -f only partly: logging a frame decides nothing
            logm = "-" if c % 2 == 0 else ",".join(str(x) for x in rng.sample(universe + [19, 31], rng.randrange(1, 6)))
            ops = ["reset", gen.cfg_op(use_update=u, count=count, filter=flt, show=1, groups="e", delete_after=600, logm=logm, elog=int(c % 4 == 1)), "case a"] + gen.seg(lines) + ["dump"]
            kept = [l for l, d in st if d is not None and (flt is None or d in flt)]
            ops += ["reset", gen.cfg_op(use_update=u, count=False, filter=None, show=0, delete_after=600), "case b"] + gen.seg(kept) + ["dump"]
            impl, so, model = run.execute(ops, model=driver_ok)
            rep.evaluations += len(lines); rep.traces += 1
            ctx = {"filter": flt, "count": count, "use_update": u, "log_messages": logm}
            self.corr(rep, impl, model, ctx, ops)
            exp = {}
            for l, d in st:
                if d is not None and (flt is None or d in flt):
                    exp[d] = exp.get(d, 0) + 1
            want = "".join(f"DF{k}:{exp[k]} " for k in sorted(exp)).strip() if count else ""
            seg_no = 1 + 2 * 0  # first segment of this harness process
            got = last_counter_line(so, 1)
            if got is None:
                raise core.Broken("segment markers missing in the implementation's stdout", so[-300:])
            mc = [l for l in model if l.startswith("counts")]
            if driver_ok and mc and mc[0][6:].strip() != want:
                raise core.Broken("model counters disagree with the generator's count", f"{mc[0]!r} vs {want!r}")
            if got != want:
                self.fail(rep, f"counter line shows {got!r}, the accepted frames are {want!r} ({ctx})",
                          {"ops": ops[:ops.index('dump') + 1], "expected_counter_line": want, "impl_counter_line": got, "context": ctx})
                return
            ci = core.split_cases(impl)
            a = [l for l in ci.get("a", []) if l.startswith(("row", "enddump"))]
            b = [l for l in ci.get("b", []) if l.startswith(("row", "enddump"))]
            if a != b:
                self.fail(rep, f"table under -f {flt} differs from the table of the listed formats alone",
                          {"ops": ops, "context": ctx})
                return
            if exp or len(kept) < len(lines):
                rep.nontriv((tuple(lines), str(flt), count, u))
            rep.count("filter=" + ("none" if flt is None else str(len(flt))))
        rep.sample({"lines": [l for l, _ in st][:6], "filter": flt, "expected_counter_line": want})
        # the same through the built binary: -c / -f given the way a user gives them (several -f, long names, a value that names no format)
        cli = core.build_cli(False)
        for argv, flt2, cnt in ((["-c"], None, True), (["-c", "-f", "17", "-f", "4"], [17, 4], True), (["-f", "17", "-c", "-f", "11"], [17, 11], True),
                                (["--count-df", "--filter", "5"], [5], True), (["-c", "-f", "4294967295", "-f", "20"], [4294967295, 20], True),
                                (["-f", "17"], [17], False)):
            st2 = self.stream(rng, rng.randrange(40, 120))
            rc, screens, err = core.cli_screens(cli, ["-i", "e", "-d", "600"] + argv, [l for l, _ in st2], run.dir)
            rep.evaluations += len(st2)
            if rc != 0 or not screens:
                self.fail(rep, f"squitterator {' '.join(argv)!r}: exit status {rc}, {len(screens)} screens ({err[-200:]!r})", {"ops": [], "cli_args": argv})
                return
            exp2 = {}
            for l, d in st2:
                if d is not None and (flt2 is None or d in flt2):
                    exp2[d] = exp2.get(d, 0) + 1
            want2 = "".join(f"DF{k}:{exp2[k]} " for k in sorted(exp2)).strip() if cnt else ""
            cl = [l.strip() for l in screens[-1] if re.fullmatch(r"(DF\d+:-?\d+ ?)+", l.strip())]
            got2 = cl[-1] if cl else ""
            if got2 != want2:
                self.fail(rep, f"squitterator {' '.join(argv)!r}: the counter line shows {got2!r}, the accepted frames are {want2!r}",
                          {"ops": ["reset", gen.cfg_op(count=cnt, filter=flt2, show=1, groups="e", delete_after=600)] + gen.seg([l for l, _ in st2]) + ["dump"],
                           "cli_args": argv, "expected_counter_line": want2})
                return
            rep.nontriv(("cli-count", tuple(argv)))
        # frames the filter rejects leave table AND counters untouched - also the sweep counter: with a silent aircraft older
        # than delete_after in the table, many rejected frames among few listed ones must not bring the expiry sweep forward
        for c in range(12 if tier == "quick" else 200):
            u = bool(c % 2)
            silent, live = 0x4B1000 + c, 0x4B2000 + c
            flt = [17] if c % 3 else [17, 11]
            rejected = [gen.rand_frame(rng, rng.choice(["df4", "df5", "df0", "df20", "df21", "df16"]), rng.choice([live, 0x4B3000 + c]))
                        for _ in range(rng.randrange(12, 30))]
            listed = [gen.rand_frame(rng, rng.choice(["tc4", "tc11", "tc19.1"]), live) for _ in range(rng.randrange(1, 9))]
            mixed = list(rejected)
            for f in listed:
                mixed.insert(rng.randrange(len(mixed) + 1), f)
            kept = [f for f in mixed if f in listed]
            ops = []
            for tag, lines in (("whole", mixed), ("listed", kept)):
                ops += ["reset", gen.cfg_op(use_update=u, filter=flt, count=True, delete_after=5), f"case pre-{tag}"] \
                    + gen.seg([F.df17(5, silent, F.me_ident(4, 1, F.callsign_codes("SILENT")))]) + ["adv 5500", f"case {tag}"] + gen.seg(lines) + ["dump"]
            impl, so, model = run.execute(ops, model=driver_ok)
            rep.evaluations += len(mixed) + len(kept); rep.traces += 2
            self.corr(rep, impl, model, {"filter": flt, "rejected": len(rejected), "listed": len(listed)}, ops)
            ci = core.split_cases(impl)
            a = sorted(gen.parse_dump(ci.get("whole", [])))
            b = sorted(gen.parse_dump(ci.get("listed", [])))
            if a != b:
                self.fail(rep, f"-f {flt}: {len(rejected)} frames of other formats among {len(listed)} listed ones change which aircraft are in the table: "
                               f"{['%06X' % x for x in a]} with them, {['%06X' % x for x in b]} without (a silent aircraft was due to expire)",
                          {"ops": ops, "filter": flt})
                return
            rep.nontriv(("filter-sweep", c))

    def judge_replay(self, rep, obj, impl, so, model):
        super().judge_replay(rep, obj, impl, so, model)
        if "expected_counter_line" in obj:
            got = last_counter_line(so, 1)
            if got != obj["expected_counter_line"]:
                self.fail(rep, f"replayed: counter line {got!r}, expected {obj['expected_counter_line']!r}", obj)

PROP = C16()
