"""Frame builders: valid Mode S frames from field values (independent CRC-24 implementation)."""
from fractions import Fraction
import math

GEN = 0x1FFF409  # x^24 + x^23 + ... + x^10 + x^3 + 1

def poly_rem(value, nbits):
    """remainder of the nbits-bit polynomial `value` modulo GEN (no extra shift)"""
    for i in range(nbits - 1, 23, -1):
        if (value >> i) & 1:
            value ^= GEN << (i - 24)
    return value & 0xFFFFFF

def crc24(data, nbits):
    """CRC-24 of nbits of data: remainder of data * x^24"""
    return poly_rem(data << 24, nbits + 24)

def hexs(value, nbits):
    return f"{value:0{nbits // 4}X}"

def short_frame(df, payload27, addr):
    """DF0/4/5: 5 + 27 + AP(24); AP = crc(first 32 bits) xor address"""
    head = ((df & 31) << 27) | (payload27 & ((1 << 27) - 1))
    return hexs((head << 24) | (crc24(head, 32) ^ addr), 56)

def long_frame(df, payload83, addr):
    """DF16/20/21: 5 + 83 + AP(24)"""
    head = ((df & 31) << 83) | (payload83 & ((1 << 83) - 1))
    return hexs((head << 24) | (crc24(head, 88) ^ addr), 112)

def df11(ca, icao, iid=0):
    head = (11 << 27) | ((ca & 7) << 24) | (icao & 0xFFFFFF)
    return hexs((head << 24) | (crc24(head, 32) ^ (iid & 0x7F)), 56)

def df17(ca, icao, me, df=17):
    head = ((df & 31) << 83) | ((ca & 7) << 80) | ((icao & 0xFFFFFF) << 56) | (me & ((1 << 56) - 1))
    return hexs((head << 24) | crc24(head, 88), 112)

def df4(fs, dr, um, ac13, addr):
    return short_frame(4, ((fs & 7) << 24) | ((dr & 31) << 19) | ((um & 63) << 13) | (ac13 & 0x1FFF), addr)

def df5(fs, dr, um, id13, addr):
    return short_frame(5, ((fs & 7) << 24) | ((dr & 31) << 19) | ((um & 63) << 13) | (id13 & 0x1FFF), addr)

def df0(payload27, addr):
    return short_frame(0, payload27, addr)

def df16(payload83, addr):
    return long_frame(16, payload83, addr)

def df20(fs, dr, um, ac13, mb, addr):
    p = ((fs & 7) << 80) | ((dr & 31) << 75) | ((um & 63) << 69) | ((ac13 & 0x1FFF) << 56) | (mb & ((1 << 56) - 1))
    return long_frame(20, p, addr)

def df21(fs, dr, um, id13, mb, addr):
    p = ((fs & 7) << 80) | ((dr & 31) << 75) | ((um & 63) << 69) | ((id13 & 0x1FFF) << 56) | (mb & ((1 << 56) - 1))
    return long_frame(21, p, addr)

# --- ME fields ----------------------------------------------------------------------------
def me_ident(tc, ca, chars):
    """TC 1-4: 5 + 3 + 8*6"""
    v = ((tc & 31) << 51) | ((ca & 7) << 48)
    for i, c in enumerate(chars[:8]):
        v |= (c & 63) << (42 - 6 * i)
    return v

def callsign_codes(s):
    out = []
    for ch in s.ljust(8)[:8]:
        if 'A' <= ch <= 'Z':
            out.append(ord(ch) - 64)
        elif '0' <= ch <= '9':
            out.append(ord(ch))
        else:
            out.append(32)
    return out

def me_airpos(tc, ss, saf, ac12, t, f, lat17, lon17):
    """TC 9-18 (and 20-22 with the 12 bits as GNSS height): 5+2+1+12+1+1+17+17"""
    return ((tc & 31) << 51) | ((ss & 3) << 49) | ((saf & 1) << 48) | ((ac12 & 0xFFF) << 36) | ((t & 1) << 35) \
        | ((f & 1) << 34) | ((lat17 & 0x1FFFF) << 17) | (lon17 & 0x1FFFF)

def me_surface(tc, mov, trk_status, trk, t, f, lat17, lon17):
    """TC 5-8: 5 + 7 + 1 + 7 + 1 + 1 + 17 + 17"""
    return ((tc & 31) << 51) | ((mov & 127) << 44) | ((trk_status & 1) << 43) | ((trk & 127) << 36) | ((t & 1) << 35) \
        | ((f & 1) << 34) | ((lat17 & 0x1FFFF) << 17) | (lon17 & 0x1FFFF)

def me_velocity(st, ic, ifr, nac, dew, vew, dns, vns, vrsrc, svr, vr, dsign, dalt):
    """TC19: 5+3+1+1+3 | 1+10 | 1+10 | 1+1+9 | 2 | 1+7"""
    return (19 << 51) | ((st & 7) << 48) | ((ic & 1) << 47) | ((ifr & 1) << 46) | ((nac & 7) << 43) \
        | ((dew & 1) << 42) | ((vew & 1023) << 32) | ((dns & 1) << 31) | ((vns & 1023) << 21) \
        | ((vrsrc & 1) << 20) | ((svr & 1) << 19) | ((vr & 511) << 10) | ((dsign & 1) << 7) | (dalt & 127)

def me_raw(tc, rest51):
    return ((tc & 31) << 51) | (rest51 & ((1 << 51) - 1))

# --- altitude codes -----------------------------------------------------------------------
def ac13_q1(n, m=0):
    """13-bit AC with Q=1: N = 11 bits; layout b1..b6 M b7 Q b8..b11 (field bits 20..32)"""
    hi6 = (n >> 5) & 0x3F
    b7 = (n >> 4) & 1
    lo4 = n & 0xF
    return (hi6 << 7) | ((m & 1) << 6) | (b7 << 5) | (1 << 4) | lo4

def ac12_q1(n):
    hi7 = (n >> 4) & 0x7F
    lo4 = n & 0xF
    return (hi7 << 5) | (1 << 4) | lo4

def alt_to_n(ft):
    return (ft + 1000) // 25

# --- squawk -------------------------------------------------------------------------------
def id13_of_squawk(a, b, c, d, x=0):
    """C1 A1 C2 A2 C4 A4 X B1 D1 B2 D2 B4 D4"""
    bit = lambda v, k: (v >> k) & 1
    bits = [bit(c, 0), bit(a, 0), bit(c, 1), bit(a, 1), bit(c, 2), bit(a, 2), x & 1,
            bit(b, 0), bit(d, 0), bit(b, 1), bit(d, 1), bit(b, 2), bit(d, 2)]
    v = 0
    for t in bits:
        v = (v << 1) | t
    return v

# --- CPR encoding (DO-260B), exact rational arithmetic --------------------------------------
NL_TABLE = [10.47047130, 14.82817437, 18.18626357, 21.02939493, 23.54504487, 25.82924707, 27.93898710,
            29.91135686, 31.77209708, 33.53993436, 35.22899598, 36.85025108, 38.41241892, 39.92256684,
            41.38651832, 42.80914012, 44.19454951, 45.54626723, 46.86733252, 48.16039128, 49.42776439,
            50.67150166, 51.89342469, 53.09516153, 54.27817472, 55.44378444, 56.59318756, 57.72747354,
            58.84763776, 59.95459277, 61.04917774, 62.13216659, 63.20427479, 64.26616523, 65.31845310,
            66.36171008, 67.39646774, 68.42322022, 69.44242631, 70.45451075, 71.45986473, 72.45884545,
            73.45177442, 74.43893416, 75.42056257, 76.39684391, 77.36789461, 78.33374083, 79.29428225,
            80.24923213, 81.19801349, 82.13956981, 83.07199445, 83.99173563, 84.89166191, 85.75541621,
            86.53536998, 87.00000000]
NL_FR = [Fraction(int(round(x * 10**8)), 10**8) for x in NL_TABLE]

def nl(lat):
    a = abs(Fraction(lat))
    for i, bnd in enumerate(NL_FR):
        if a < bnd:
            return 59 - i
    return 1

def fmod_pos(x, y):
    return x - y * math.floor(x / y)

def cpr_encode(lat, lon, odd):
    """airborne CPR encoding of (lat, lon) in degrees (Fractions), 17 bits"""
    lat = Fraction(lat); lon = Fraction(lon)
    nb = 2 ** 17
    dlat = Fraction(360, 60 - odd)
    yz = math.floor(nb * fmod_pos(lat, dlat) / dlat + Fraction(1, 2))
    rlat = dlat * (Fraction(yz, nb) + math.floor(lat / dlat))
    n = nl(rlat) - odd
    dlon = Fraction(360, n) if n > 0 else Fraction(360)
    xz = math.floor(nb * fmod_pos(lon, dlon) / dlon + Fraction(1, 2))
    return yz % nb, xz % nb

def haversine_km(lat1, lon1, lat2, lon2):
    r = 6371.0
    p1, p2 = math.radians(lat1), math.radians(lat2)
    dphi = p2 - p1
    dl = math.radians(lon2 - lon1)
    a = math.sin(dphi / 2) ** 2 + math.cos(p1) * math.cos(p2) * math.sin(dl / 2) ** 2
    return 2 * r * math.asin(min(1.0, math.sqrt(a)))

# --- BDS registers (MB, 56 bits; bit 1 = MSB = frame bit 33) ---------------------------------
def mb_set(mb, first, last, value):
    """set MB bits first..last (1-based, MSB first) to value"""
    w = last - first + 1
    shift = 56 - last
    mask = ((1 << w) - 1) << shift
    return (mb & ~mask) | ((value & ((1 << w) - 1)) << shift)

def bds17(bits):
    """common usage GICB capability report: `bits` = set of MB bit numbers (1..28) that are set"""
    mb = 0
    for k in bits:
        mb = mb_set(mb, k, k, 1)
    return mb

def bds20(chars):
    mb = 0x20 << 48
    for i, c in enumerate(chars[:8]):
        mb |= (c & 63) << (42 - 6 * i)
    return mb

def bds40(mcp=None, fms=None, baro=None, mode_bits=0, src_status=0, src=0, reserved1=0, reserved2=0):
    mb = 0
    if mcp is not None:
        mb = mb_set(mb, 1, 1, 1); mb = mb_set(mb, 2, 13, mcp)
    if fms is not None:
        mb = mb_set(mb, 14, 14, 1); mb = mb_set(mb, 15, 26, fms)
    if baro is not None:
        mb = mb_set(mb, 27, 27, 1); mb = mb_set(mb, 28, 39, baro)
    mb = mb_set(mb, 40, 47, reserved1)
    mb = mb_set(mb, 48, 51, mode_bits)
    mb = mb_set(mb, 52, 53, reserved2)
    mb = mb_set(mb, 54, 54, src_status)
    mb = mb_set(mb, 55, 56, src)
    return mb

def twos(value, bits):
    return value & ((1 << bits) - 1)

def bds50(roll=None, track=None, gs=None, rate=None, tas=None):
    """raw field values: roll 10-bit two's complement (sign+9), track 11-bit (sign+10), gs 10, rate 10 (sign+9), tas 10"""
    mb = 0
    if roll is not None:
        mb = mb_set(mb, 1, 1, 1); mb = mb_set(mb, 2, 11, twos(roll, 10))
    if track is not None:
        mb = mb_set(mb, 12, 12, 1); mb = mb_set(mb, 13, 23, twos(track, 11))
    if gs is not None:
        mb = mb_set(mb, 24, 24, 1); mb = mb_set(mb, 25, 34, gs)
    if rate is not None:
        mb = mb_set(mb, 35, 35, 1); mb = mb_set(mb, 36, 45, twos(rate, 10))
    if tas is not None:
        mb = mb_set(mb, 46, 46, 1); mb = mb_set(mb, 47, 56, tas)
    return mb

def bds60(hdg=None, ias=None, mach=None, baro_rate=None, ivv=None):
    """raw: hdg 11-bit two's complement (sign+10), ias 10, mach 10, rates 10-bit two's complement (sign+9)"""
    mb = 0
    if hdg is not None:
        mb = mb_set(mb, 1, 1, 1); mb = mb_set(mb, 2, 12, twos(hdg, 11))
    if ias is not None:
        mb = mb_set(mb, 13, 13, 1); mb = mb_set(mb, 14, 23, ias)
    if mach is not None:
        mb = mb_set(mb, 24, 24, 1); mb = mb_set(mb, 25, 34, mach)
    if baro_rate is not None:
        mb = mb_set(mb, 35, 35, 1); mb = mb_set(mb, 36, 45, twos(baro_rate, 10))
    if ivv is not None:
        mb = mb_set(mb, 46, 46, 1); mb = mb_set(mb, 47, 56, twos(ivv, 10))
    return mb

def bds44(fom, wind_speed, wind_dir, temp_sign, temp, pressure, turb, humidity):
    """meteorological routine report as squitterator reads it: FOM 1-4, wind status 5 + speed 6-14 + dir 15-23,
    temperature sign 24 + value 25-34, pressure status 35 + 36-46, turbulence status 47 + 48-49, humidity status 50 + 51-56"""
    mb = 0
    mb = mb_set(mb, 1, 4, fom)
    mb = mb_set(mb, 5, 5, 1); mb = mb_set(mb, 6, 14, wind_speed); mb = mb_set(mb, 15, 23, wind_dir)
    mb = mb_set(mb, 24, 24, temp_sign); mb = mb_set(mb, 25, 34, temp)
    mb = mb_set(mb, 35, 35, 1); mb = mb_set(mb, 36, 46, pressure)
    mb = mb_set(mb, 47, 47, 1); mb = mb_set(mb, 48, 49, turb)
    mb = mb_set(mb, 50, 50, 1); mb = mb_set(mb, 51, 56, humidity)
    return mb

def bds30(threat_multi=0, ara_first=0):
    mb = 0x30 << 48
    mb = mb_set(mb, 9, 9, ara_first)      # frame bit 41
    mb = mb_set(mb, 28, 28, threat_multi)  # frame bit 60
    return mb
