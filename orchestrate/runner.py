"""./check entry point: ./check <id> [--tier quick|thorough] [--replay file] | --setup"""
import argparse, importlib, json, os, sys, time, traceback
sys.path.insert(0, os.path.dirname(os.path.abspath(__file__)))
import core
from core import Broken, Report

def setup():
    t0 = time.time()
    res = core.run_extractors()
    print("extract:", json.dumps(res))
    ok, out = core.lake_build([], timeout=6000)
    print(out[-3000:])
    if not ok:
        print("setup: lake build failed")
        return 1
    core.build_harness()
    print(f"setup done in {time.time()-t0:.0f}s")
    return 0

def obligations(prop, rep):
    """the proof side: extractors, theorem build, forbidden tokens, axioms"""
    broken = []
    ex = core.run_extractors(getattr(prop, "extractors", None) or None)
    for name, r in ex.items():
        ok = r.get("ok", False)
        rep.oblige(f"extract:{name}", ok, r.get("error", "regenerated" if r.get("changed") else "unchanged"))
        if not ok:
            broken.append(f"extractor {name}: {r.get('error')}")
    if "trans" in (getattr(prop, "extractors", None) or []):
        missing = core.bridge_coverage()
        rep.oblige("every translated function occurs in a bridge theorem (Proofs/Bridge*.lean)", not missing, ", ".join(missing[:8]))
        if missing:
            broken.append("translated functions without a bridge theorem: " + ", ".join(missing[:8]))
    mods = prop.lean_modules
    ok, out = core.lake_build(mods)
    rep.oblige("lake build " + " ".join(mods), ok, "" if ok else out[-1500:])
    if not ok:
        broken.append("theorem file no longer checks: " + " ".join(mods) + "\n" + out[-1500:])
        return broken
    hits = core.lean_forbidden_tokens()
    rep.oblige("no sorry/admit/axiom/native_decide/bv_decide/implemented_by/unsafe/maxHeartbeats 0", not hits, "; ".join(hits[:5]))
    if hits:
        broken.append("forbidden token in Lean tree: " + "; ".join(hits[:5]))
    names = []
    for m in mods:
        names += core.theorems_of(m.replace(".", "/") + ".lean")
    try:
        ax = core.audit_axioms(prop.id, mods, names)
        for n in names:
            rep.oblige("theorem " + n, True, "axioms: " + (", ".join(ax[n]) or "none"))
    except Broken as e:
        for n in names:
            rep.oblige("theorem " + n, False, e.what)
        broken.append(e.what + " " + e.detail[:500])
    if getattr(prop, "leanchecker", False) and rep.tier == "thorough":
        for m in mods:
            rc, out = core.sh(["lake", "env", "leanchecker", m], cwd=core.LEAN, timeout=3000)
            rep.oblige("leanchecker " + m, rc == 0, out[-500:])
            if rc != 0:
                broken.append("leanchecker rejects " + m)
    return broken

def main():
    ap = argparse.ArgumentParser()
    ap.add_argument("prop", nargs="?")
    ap.add_argument("--tier", default=os.environ.get("VERIF_TIER", "quick"))
    ap.add_argument("--replay")
    ap.add_argument("--setup", action="store_true")
    a = ap.parse_args()
    if a.setup:
        sys.exit(setup())
    seed = int(os.environ.get("VERIF_SEED", "1"))
    tier = a.tier if a.tier in ("quick", "thorough") else "quick"
    mod = importlib.import_module("props." + a.prop.lower())
    prop = mod.PROP
    rep = Report(prop.id, tier, seed)
    rep.trusted = list(getattr(prop, "trusted", [])) + [
        "Lean 4.33.0 kernel; axioms per theorem listed in obligation_list (allowed: propext, Classical.choice, Quot.sound)",
        "extract/extract.py (source -> Generated/*.lean) and the translator extract/rs2lean.py + rsparse.py (Rust subset -> Lean, semantics of the mapping in DESIGN 13)",
        "correspondence check: harness/src/main.rs, lean/Driver.lean, orchestrate/*.py",
        "Spec/*.lean: reading of the cited standards",
    ]
    rep.assumptions = list(getattr(prop, "assumptions", []))
    rep.rule = getattr(prop, "rule", "")
    broken = []
    try:
        broken = obligations(prop, rep)
    except Broken as e:
        broken = [e.what + " " + e.detail[:800]]
        rep.oblige(e.what, False, e.detail[:300])
    core.build_harness()
    driver_ok = True
    try:
        core.build_driver()
    except Broken as e:
        driver_ok = False
        broken.append(e.what + " " + e.detail[:800])
    run = core.Run(prop.id + "-" + tier)
    try:
        if a.replay:
            prop.replay(rep, run, json.load(open(a.replay)), driver_ok)
        else:
            prop.explore(rep, run, core.rng_for(seed, prop.id), tier, driver_ok)
            if not getattr(prop, "no_generic_corr", False):
                from props.base import PropBase
                PropBase.generic_corr(prop, rep, run, core.rng_for(seed + 7919, prop.id), tier, driver_ok)
    except Broken as e:
        broken.append(e.what + " " + e.detail[:800])
        rep.oblige(e.what, False, e.detail[:300])
    except Exception:
        tb = traceback.format_exc()
        print(tb)
        broken.append("check machinery raised: " + tb[-800:])
        rep.oblige("check machinery ran to completion", False, tb[-300:])
    finally:
        for d in run.logdiffs[:1]:
            try:
                ops = open(d["ops_file"]).read().splitlines()
            except OSError:
                ops = []
            rep.impl_spec_failures += 1
            rep.violation("the result depends on the logging configuration: with the -l logger installed and RUST_LOG=trace the "
                          f"implementation gives '{str(d['with_debug_logging'])[:200]}' where it gives '{str(d['without'])[:200]}' without "
                          f"({len(run.logdiffs)} batch(es) of operations differ)",
                          {"property": prop.id, "ops": ops, "env": {"RUST_LOG": "trace", "SQH_DEBUG_LOG": "1"}, "first_difference": d}, found_input=True)
        rep.count("debug_log_twin_runs", run.n if run.debug_log_twin else 0)
        if not os.environ.get("VERIF_KEEP"):
            run.cleanup()
    if broken:
        rep.violation("obligation no longer checks, and the search found no input on which the property fails: "
                      + " | ".join(b[:400] for b in broken),
                      {"property": prop.id, "broken_obligations": broken, "searched": rep.evaluations,
                       "note": "the theorem / correspondence named above no longer checks"}, found_input=False)
    sys.exit(rep.finish())

if __name__ == "__main__":
    main()
