#!/usr/bin/env python3
"""Writes MANIFEST.json from the table below (kept in one place so that it is always valid)."""
import json, os
VERIF = os.path.dirname(os.path.dirname(os.path.abspath(__file__)))
ALL = [f"C{i:02d}" for i in range(1, 20)]

CLAIMS = {
 "C06": dict(
   text="Lean 4 theorems (Props/C06.lean): the squawk decoder equals the octal identity of bits 20..32 for every digit vector "
        "(all 8192 field values enumerated in the kernel, lifted over the other bits by the field lemma), an existing row hit by "
        "DF5/DF21 shows it on both update paths, no other format changes it, creating frame: DF5 sets it, others leave it blank. "
        "The hand-written model is tied to the code by running both on every ID field x format x option set.",
   note="trusted: Lean kernel (axioms propext, Classical.choice, Quot.sound); extractor for ma_code bit positions; correspondence "
        "harness and driver; squawkSpec as reading of the ID-code bit order. Modelled, not verified: HashMap, chrono clock.",
   technique="Lean 4 proof (decide +kernel over the 13-bit field, field lemma, modifies theorems) + model/implementation correspondence",
   ref="5.6"),
}

NOT_YET = "check not built yet in this revision; listed so that the manifest stays truthful while the framework grows"

def main():
    checks = []
    for pid in ALL:
        if pid not in CLAIMS:
            continue
        c = CLAIMS[pid]
        checks.append({
            "property_id": pid,
            "quick_cmd": f"./check {pid} --tier quick",
            "thorough_cmd": f"./check {pid} --tier thorough",
            "evidence_file": f"evidence/{pid}.json",
            "replay_cmd_template": f"./check {pid} --replay {{path}}",
            "engine": "lean+harness",
            "level_claimed": {"category": c.get("category", "proof"), "text": c["text"], "design_ref": "DESIGN.md section " + c["ref"]},
            "level_note": c["note"],
            "technique": c["technique"],
        })
    man = {
        "version": 1,
        "setup_cmd": "./check --setup",
        "hooks": {
            "guard": "squitterator_verif",
            "enable": "none needed: every observable is reachable through pub items; checks build /repo as a path dependency of harness/",
            "baseline_off_cmd": "cd /repo && cargo test --workspace --no-fail-fast --offline",
            "source_commits": [],
            "add_only": True,
        },
        "engines": [
            {"name": "lean", "path": "lean/", "serves_properties": sorted(CLAIMS), "kind_free_text": "Lean 4 model, specifications, proofs, compiled model driver"},
            {"name": "harness", "path": "harness/", "serves_properties": sorted(CLAIMS), "kind_free_text": "Rust correspondence harness driving the real code in-process (overflow checks on)"},
            {"name": "extract", "path": "extract/", "serves_properties": sorted(CLAIMS), "kind_free_text": "source -> Lean tables, regenerated on every run"},
            {"name": "orchestrate", "path": "orchestrate/", "serves_properties": sorted(CLAIMS), "kind_free_text": "generators, comparison, evidence, violation protocol"},
        ],
        "checks": checks,
        "not_applicable": [{"property_id": p, "reason": NOT_YET} for p in ALL if p not in CLAIMS],
        "notes": "See DESIGN.md. Fix commits in /repo are listed in known_findings.json (fixed:) and DESIGN.md section 11.",
    }
    with open(os.path.join(VERIF, "MANIFEST.json"), "w") as f:
        json.dump(man, f, indent=1)
        f.write("\n")

if __name__ == "__main__":
    main()
