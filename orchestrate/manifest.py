#!/usr/bin/env python3
"""Writes MANIFEST.json from the table below (kept in one place so that it is always valid)."""
import json, os
VERIF = os.path.dirname(os.path.dirname(os.path.abspath(__file__)))
ALL = [f"C{i:02d}" for i in range(1, 20)]

# properties whose model functions are bridged to translator output (DESIGN 13)
BRIDGED = {"C01", "C02", "C03", "C04", "C05", "C06", "C07", "C08", "C09", "C10", "C11", "C12", "C13", "C16", "C19"}
# properties whose model is (also) hand-written against source text that is fingerprinted (extract/shapes.py)
SHAPED = {f"C{i:02d}" for i in range(1, 20)}

CLAIMS = {
 "C06": dict(
   text="Lean 4 theorems (Props/C06.lean): the squawk decoder equals the octal identity of bits 20..32 for every digit vector "
        "(all 8192 field values enumerated in the kernel, lifted over the other bits by the field lemma), an existing row hit by "
        "DF5/DF21 shows it on both update paths, no other format changes it, creating frame: DF5 sets it, others leave it blank. "
        "The hand-written model is tied to the code by running both on every ID field x format x option set.",
   note="trusted: Lean kernel (axioms propext, Classical.choice, Quot.sound); extractor for ma_code bit positions; correspondence "
        "harness and driver; squawkSpec as reading of the ID-code bit order. Modelled, not verified: HashMap, chrono clock.",
   technique="Lean 4 proof (decide +kernel over the 13-bit field, field lemma, modifies theorems) + model/implementation correspondence",
   ref="5.6"),
}

CLAIMS["C02"] = dict(
   text="Lean 4 theorems (Props/C02.lean): getMessage line = some m iff the ASCII hex digits of the line are 14/28 digits or 26/40 with a "
        "12-digit prefix, the length matches the DF and the squitter parity rule holds (getMessage_iff, for every byte string); inserting "
        "non-hex bytes or changing case never changes the digits; processing depends on the digits only; a non-frame leaves the whole "
        "reader state unchanged. The model's get_message is tied to the code by q msg on every digit count, DF, length and decoration.",
   note="trusted: Lean kernel and standard axioms; extractor for CRC constants; correspondence harness. Modelled, not verified: "
        "String::from_utf8_lossy and char::to_digit(16) (ASCII only) - exercised with non-UTF-8 bytes and Unicode digits.",
   technique="Lean 4 proof (iff theorem over all byte strings) + model/implementation correspondence", ref="5.2")
CLAIMS["C03"] = dict(
   text="Lean 4 theorems (Props/C03.lean): the u32 register divisions crc56/crc112 equal the bit-list CRC-24 with generator 0x1FFF409 for "
        "all 2^32 / 2^88 data blocks (GF(2)-linearity + unit vectors evaluated in the kernel); get_icao is the AA field resp. AP xor CRC-24, "
        "zero dropped; row_isolation, creates_if_absent and keys_nodup as one-step lemmas about every state lifted over segments.",
   note="trusted: Lean kernel and standard axioms; CRC constants extractor; correspondence harness; Spec/Crc.lean as the reading of the "
        "Mode S parity definition. Modelled, not verified: HashMap (association list with a proved distinct-keys invariant).",
   technique="Lean 4 proof (refinement of the CRC registers to polynomial division; table invariants by induction) + correspondence", ref="5.3")
CLAIMS["C04"] = dict(
   text="Lean 4 theorems (Props/C04.lean): whatever get_message lets through has remainder zero (DF17/18) resp. zero upper 17 bits (DF11); "
        "a DF11/17/18 frame failing that leaves the reader state unchanged at any point of any history; the remainder is linear, so any "
        "detected error pattern on a valid squitter is rejected; every non-zero error confined to 24 consecutive bits and every double-bit "
        "error within 112 bits has non-zero remainder (proved, not sampled).",
   note="trusted: Lean kernel and standard axioms; CRC constants extractor; correspondence harness (all 1- and 2-bit errors of sample "
        "squitters, bursts, heavy patterns, injected into histories).",
   technique="Lean 4 proof (linearity and injectivity of the CRC register map; decide over the 111 double-bit distances) + correspondence", ref="5.4")

CLAIMS["C05"] = dict(
   text="Lean 4 theorems (Props/C05.lean): for DF4/DF20 with M=0 and Q=1 or the all-zero code, and for TC 9-18 with Q=1, the row altitude is "
        "25*N-1000 ft (none if negative) of the altitude field - all 8192 / 4096 codes enumerated in the kernel and lifted over the other bits; "
        "depends on the field only; row effect on both update paths. The Q=0 (Gillham) branch is a genuine defect that cannot be repaired "
        "without editing pinned tests: it is a KNOWN FINDING (two entries), with the machine-checked witness gillham_branch_wrong; the full-strength "
        "statements FullDF4_20 / FullTC9_18 stay visible. The check compares every code in every carrying format with the Annex 10 spec and "
        "reports any failing input that is not exactly the recorded legacy behaviour.",
   note="trusted: Lean kernel and standard axioms; ma_code extractor; harness; Spec/Altitude.lean incl. Gillham table reading; "
        "known/C05_gillham_legacy.txt identifies the listed failing inputs. Modelled, not verified: f32 multiply of the metric branch (unconstrained by C05).",
   technique="Lean 4 proof (partial: Q=1 and zero code; decide +kernel over the whole field) + exhaustive model/implementation/spec comparison; known finding for Q=0", ref="5.5")
CLAIMS["C07"] = dict(
   text="Lean 4 theorems (Props/C07.lean): ais m = the letters/digits among the eight 6-bit fields of bits 41..88, in order, for every 112-bit frame "
        "(nibble slicing = bit fields by a general lemma, character set by enumeration of all 64 codes); wake letters for all 32x8 pairs; an "
        "identification squitter sets callsign and category on both update paths and as creating frame; BDS 2,0 sets the callsign exactly under "
        "the capability gate. Correspondence: every code in every position, TC1-4 x CA0-7, BDS 2,0 via DF20/21 under capability 0..7 x -R.",
   note="trusted: Lean kernel and standard axioms; harness; Spec/Ident.lean. W/CALLSIGN cells are covered by the rendering model (C14).",
   technique="Lean 4 proof (field lemmas + finite enumeration) + model/implementation correspondence", ref="5.7")
CLAIMS["C08"] = dict(
   text="Lean 4 theorems (Props/C08.lean): an accepted TC 9-18 frame acts on the position state exactly as storeCpr on a row stamped with the "
        "current time, on both update paths; the position either stays exactly as it was or is cprLocation of the stored pair anchored on the "
        "frame just received, and only when all four CPR fields are non-zero, both slots were filled by airborne frames (or both by surface "
        "frames), the receive times are < 10 whole seconds apart, the two candidate latitudes are in the same NL zone and the result is in "
        "range; distance = the configured distance function of that position; frames of other formats leave position state unchanged. "
        "cpr_location, nl, pmod, fixed_lat, signed_lon themselves are regenerated from position.rs on every run (f64 as exact rationals) and "
        "proved equal to that model for every argument (Proofs/BridgeCpr.lean: cpr_location_eq), incl. the saturating `as i32` and the f64 `%`; "
        "their trap-freedom for one-bit formats and coefficients 1 / 4 is proved (Proofs/SafeCpr.lean). "
        "Arithmetic (Props/C08Math.lean, exact rationals): see DESIGN 5.8. Correspondence and oracle: histories stratified over every NL "
        "transition latitude, zone edges, antimeridian, delays around 10 s, interleaved and surface frames; shown position within 20 m of truth.",
   note="partial: the 20 m clause and the great-circle distance involve f64 trigonometry and are compared numerically on every generated history, "
        "not proved; the model and the translated code evaluate cpr_location in exact rationals, the compiled code in f64 (compared to 1e-9 deg). "
        "trusted: Lean kernel and standard axioms; harness.",
   technique="Lean 4 proof (state machine + exact-rational CPR arithmetic) + model/implementation correspondence + encode-side oracle", ref="5.8")
CLAIMS["C09"] = dict(
   text="Lean 4 theorems (Props/C09.lean), for every atan2deg function: trackAndGroundspeed and verticalRate are the specification's functions of "
        "the six velocity fields (field 0 = no value, magnitude = field-1, sign bits, x4 supersonic, Nat.sqrt), depend on those fields only, reach "
        "the row identically on the default and the -U path and as creating frame; 4*isqrt is within 4 kt. Correspondence and oracle: stratified "
        "field grid with all boundaries and the exact 45-degree directions, all vertical-rate codes; track checked against a 60-digit atan2.",
   note="trusted: Lean kernel and standard axioms; harness. Modelled, not verified: f64 sqrt (exact for arguments < 2^22) and atan2/to_degrees/floor "
        "(parameter of the model; the implementation's value is compared with an exact evaluation on every generated frame). The track of a zero "
        "velocity vector is unconstrained (the code returns atan2 of signed zeros).",
   technique="Lean 4 proof (structural, parametric in atan2deg) + model/implementation correspondence + exact-arithmetic oracle", ref="5.9")

CLAIMS["C12"] = dict(
   text="Lean 4 theorems (Props/C12.lean) with an explicit clock: every accepted frame stamps its row with the current time on both update paths "
        "and at creation; the sweep counter advances with accepted frames only, never exceeds 11, and a sweep is due within 12 accepted frames from "
        "every reachable value; a sweep keeps exactly the rows heard fewer than delete_after whole seconds ago; a recently heard aircraft survives "
        "every step; a silent one is removed by the sweep; a frame for an absent address creates Plane::from_downlink of a default row; rows enter "
        "only as the row of an accepted frame. Correspondence: schedules of reader runs and silences around the limit.",
   note="trusted: Lean kernel and standard axioms; harness. Modelled, not verified: chrono::Utc::now() (explicit clock in the model; the harness shifts "
        "the public time-stamp fields and compensates real elapsed time), HashMap::retain.",
   technique="Lean 4 proof (one-step lemmas over every state, counter automaton by decide) + model/implementation correspondence over schedules", ref="5.12")
CLAIMS["C13"] = dict(
   text="Lean 4 theorems (Props/C13.lean): a line that is not accepted leaves the whole reader state unchanged; the state after a segment equals the "
        "state after the subsequence of its accepted lines (induction over the stream); junk inserted anywhere changes nothing; the byte-wise line "
        "splitter hands over every piece between newlines whatever bytes it contains. The correspondence check feeds the real reader thread "
        "junk-laden files (NUL, invalid UTF-8, >64 KiB lines, truncated frames) and compares the table with the clean file's.",
   note="trusted: Lean kernel and standard axioms; harness. Modelled, not verified - and this is where the property lives: BufRead::split and "
        "String::from_utf8_lossy, i.e. that std hands every line to the loop; validated by running the real reader on hostile byte streams.",
   technique="Lean 4 proof (fold over the stream) + differential run of the real reader on clean vs junk-laden input", ref="5.13")
CLAIMS["C16"] = dict(
   text="Lean 4 theorems (Props/C16.lean): a frame whose DF is not in the -f list leaves the reader state unchanged; with -c the counter of each DF "
        "after a segment equals the number of accepted lines (frame, non-zero address, passed the filter) of that DF, without -c there are none; the "
        "counter map lists each DF once in ascending order (BTreeMap as sorted association list with a proved invariant). The check reads the real "
        "counter line printed by the display and compares it with the count of generated accepted frames.",
   note="trusted: Lean kernel and standard axioms; harness (stdout of the real display_planes captured). Modelled, not verified: BTreeMap, println!.",
   technique="Lean 4 proof (induction over the stream, counting lemma) + comparison with the real counter line", ref="5.16")
CLAIMS["C17"] = dict(
   text="Lean 4 theorems (Props/C17.lean) over the match arms regenerated from the source on every run: the nested prefix match equals a first-match "
        "lookup in a list of blocks; that list is exactly the allocation table of Spec/Annex10.lean; no two blocks overlap and all lie in the 24-bit "
        "space (kernel-evaluated); hence an address inside a block shows its code, outside every block '??' - for all addresses, no enumeration. "
        "The row's reg is set at creation and preserved by every update. Correspondence: all 2^24 addresses through Plane::from_downlink.",
   note="trusted: Lean kernel and standard axioms; the country extractor; harness; Spec/Annex10.lean (the edition the repository cites; Malta's "
        "block width could not be confirmed offline).",
   technique="Lean 4 proof over source-extracted tables (translator) + exhaustive 2^24 correspondence sweep", ref="5.17")

CLAIMS["C11"] = dict(
   text="Lean 4 theorems (Props/C11.lean): per downlink format / type-code class a 'modifies' theorem - an accepted frame of that class assigns "
        "nothing outside an explicit field set, on both update paths and for all options (12 classes: DF0/16/other, DF4, DF5, DF11, TC1-4, 5-8, "
        "9-18, 19, 20-22, 31, other TC, DF20/21); hence frames of a format that does not carry a parameter never change it; the generic history "
        "lemma latest_wins; a surface squitter blanks the altitude; no cross-talk (C03.row_isolation). What a carrying frame assigns is C05-C10. "
        "Re-feed idempotence is proved per update helper only (refeed_idempotent_partial: position slots and Comm-B stages not covered) and is "
        "exercised by the correspondence check, which feeds every frame twice.",
   note="trusted: Lean kernel and standard axioms; harness; the reference fold of the check (carried-parameter table taken from the property text). "
        "Partial: full applyFrame idempotence is validated, not proved.",
   technique="Lean 4 proof (modifies theorems via field erasers, history induction) + bounded-exhaustive and random sequences against model and reference fold", ref="5.11")
CLAIMS["C19"] = dict(
   text="Lean 4 theorems (Props/C19.lean): the decoding step does not take -i/-o/-u or logging options at all; -c changes counters only; one step of "
        "-U neutrality for every accepted DF4 (with altitude) / DF5 / DF11 / DF17 frame of any type code: rows that agree on callsign, altitude, "
        "squawk, position, CPR slots and times, distance, speed, track, vertical rate, category, surveillance status and last contact still agree "
        "afterwards whichever path each side takes (simulation relation); the creating frame is path-independent. Correspondence: option pairs over "
        "generated and recorded histories, -O pairs, -U x -R on valid histories with time steps.",
   note="trusted: Lean kernel and standard axioms; harness. Not proved: that -O affects only the distance column (distance is written by "
        "update_position and read by nobody; validated by option pairs); -M/-D/-l are side effects outside the model, validated by running the reader.",
   technique="Lean 4 proof (one-step simulation between the two update paths) + differential runs of the real reader under option pairs", ref="5.19")

CLAIMS["C01"] = dict(
   text="Proof of trap-freedom of the per-line pipeline + exhaustive panic search. Lean 4 theorems (Props/C01.lean, Proofs/Safe.lean): for each of the "
        "140 functions the translator regenerates from the source (incl. reminder's vector loops and the CPR arithmetic of position.rs), Generated/TransSafe.lean states (regenerated on every run, extract/rs2safe.py) the "
        "conditions under which none of its operations panics - unsigned subtraction, overflowing + and *, over-wide shifts, indexing, expect/unwrap, "
        "division by zero, and the safety of every call, each under its path condition (517 obligations, incl. no-bit-leaves-the-word for every `<<` outside the bit layer, where the shift is translated unbounded) - and they are proved bottom-up: "
        "get_message cannot trap on ANY line (no hypothesis); every field decoder, register recogniser and record builder on every accepted frame; "
        "every row update of both paths; update_aircraft, cleanup and the loop body of read_lines (no_trap_per_line) for every line, option set and "
        "table whose rows carry decoder-made altitudes (< 100000 ft, which altitude() guarantees for what it returns) and counters below 2^31-1; "
        "and these two invariants hold in EVERY REACHABLE STATE (no_trap_in_any_reachable_state, Proofs/TableInv.lean): from a fresh start, after any run "
        "of fewer than 2^31-1 lines of arbitrary characters, each at its own time, under any options, the next line cannot trap - proved on the model's "
        "stepLine and carried to the translated loop by the simulation theorem. "
        "Also: the model's line step, segment fold and line splitter are total; every read of the message vector lies inside the frame its function "
        "can see (sites regenerated from the source); every field fits the u32 arithmetic of range_value; the only unbounded loop is the TCP retry loop; "
        "a hostile line is a no-op and the lines after it are processed. PARTIAL: functions outside the translated subset (f64 trigonometry, rendering, option parsing, main) are covered by the "
        "reviewed arithmetic-site inventory and by the panic search: the real reader thread (overflow checks on, catch_unwind) and the built CLI run "
        "over exhaustive field sweeps, hostile lines and option sets; any panic or non-zero exit is a violation with the input as replay.",
   note="trusted: Lean kernel and standard axioms; the translator and the safety pass (which operations trap, how path conditions are collected: "
        "extract/rs2safe.py header); the sites extractor; harness and CLI build. Not covered: allocation failure, stack exhaustion, i32 counter overflow "
        "after 2^31 frames of one DF (an explicit hypothesis of the theorem).",
   technique="Lean 4 proof (trap-freedom propositions generated from the source for all translated functions and proved; decide over source-extracted access sites) + exhaustive/fuzz panic search on the real code with overflow checks", ref="5.1, 14.6, 14.9")
CLAIMS["C14"] = dict(
   text="Lean 4 theorems (Props/C14.lean) over the header cells regenerated from header.rs: the header is the fixed columns with each optional group "
        "inserted exactly when its -i letter is set, in fixed relative order; for all 32 group sets cell i of a row stands under header i with the "
        "header's width and the column's alignment; every cell but the last is followed by exactly one character; if every value fits its column the "
        "row, the header and the separator have the same length; unknown values render as blanks. Correspondence and oracle: the text printed by "
        "the real Planes::print / LegendHeaders against the model and against an independent cell-by-cell rendering of the dumped row state.",
   note="trusted: Lean kernel and standard axioms; header extractor; harness (stdout capture). The row's cell list is the hand-written model of "
        "simple_display.rs, tied by correspondence. Modelled, not verified: std::fmt (float cells compared numerically); display width of the "
        "superscript/subscript source marks is taken as one column.",
   technique="Lean 4 proof (case analysis over the 32 flag sets on source-extracted header data, length lemmas) + correspondence on real printed output", ref="5.14")
CLAIMS["C15"] = dict(
   text="Lean 4 theorems (Props/C15.lean): the printed rows are a permutation of the table (each aircraft exactly once, distinct); every recognised "
        "key letter compares by a total transitive order, so after the last recognised letter of -o the rows are Pairwise-ordered by that key in the "
        "letter's direction (stable merge sort, reverse for A/D); unrecognised letters are no-ops; with no recognised letter the rows are in "
        "ascending address order. Correspondence and oracle: row sequence of the real Planes::print for all -o strings of length <= 2 on tables with "
        "ties, blanks and keys closer than one unit.",
   note="trusted: Lean kernel and standard axioms; harness. Modelled, not verified: slice::sort_by / sort_by_cached_key stability (List.mergeSort in the "
        "model), f64::total_cmp vs the rational order (no NaN or negative zero can occur).",
   technique="Lean 4 proof (permutation and Pairwise via mergeSort lemmas) + correspondence on real printed output", ref="5.15")

CLAIMS["C10"] = dict(
   text="Lean 4 theorems (Props/C10.lean): without a recorded capability >= 4 and without -R a DF20/21 reply changes nothing but altitude/squawk; "
        "code-selected registers are disjoint from status-bit registers; a BDS 1,7 report records MB bits 7/9/13/16/24 and requires bits 29-56 zero; "
        "a reply is taken as 4,0 / 5,0 / 6,0 only with all status bits set (and 4,0's reserved bits zero) and every shown value is then the Doc 9871 "
        "decoding of its field (two's complement, scale, floor) - for all field values, both signs; 4,0 and 5,0 fields change only if advertised "
        "(or -R) and nothing earlier in the precedence matched; a valid, non-zero, plausible 5,0 register is recognised and, once gating allows, "
        "decoded (completeness for 5,0; for 4,0 and 6,0 completeness is exercised by the check, not proved). Correspondence and oracle: registers "
        "from physical values, plausibility boundaries +-1 LSB, invalid variants, random MB, all gate states, -R/-U, against an independent decoder.",
   note="trusted: Lean kernel and standard axioms; harness; Spec/Bds.lean and the check's own register layouts (reading of Doc 9871); Mach is carried "
        "as the raw field (f64 multiply by 0.004 not modelled; the <= 1.0 test is raw <= 250).",
   technique="Lean 4 proof (field lemmas, omega on two's-complement arithmetic, cascade precedence) + model/implementation correspondence + independent register oracle", ref="5.10")

CLAIMS["C18"] = dict(
   text="PARTIAL. Lean 4 theorems (Props/C18.lean) about the retry loop over an environment trace {refuse, accept+bytes+eof/reset}: the loop shape "
        "extracted from reader.rs on every run has no break/return/? and read_lines has no early exit; a refusal leaves the table untouched and "
        "costs exactly one 5 s pause; after any fault prefix a successful connection is decoded by the ordinary line loop on the table the faults "
        "left; a connection that delivers no accepted line leaves the table unchanged; a recently heard aircraft survives every later connection; "
        "a partial last line before EOF is an ordinary line (C13 applies), after a reset it is dropped. Validated, not proved: that std's "
        "TcpStream/BufReader/sleep and the kernel behave as the trace says - a scripted loopback peer plays fault sequences with real pauses.",
   note="trusted: Lean kernel and standard axioms; tcp-shape extractor; harness loopback peer (RST via SO_LINGER 0). Modelled, not verified: socket "
        "behaviour, thread scheduling, sleep duration (observed: reconnect after every fault, pause about 5 s per refusal).",
   technique="Lean 4 proof about the loop's logic over environment traces (partial) + fault-sequence validation against the real loop on loopback sockets", ref="5.18")

NOT_YET = "check not built yet in this revision; listed so that the manifest stays truthful while the framework grows"

def main():
    checks = []
    for pid in ALL:
        if pid not in CLAIMS:
            continue
        c = dict(CLAIMS[pid])
        if pid in BRIDGED:
            c["technique"] = c["technique"] + "; the model functions involved are proved equal to (or simulated by) definitions the translator regenerates from the Rust source on every run (Proofs/Bridge*.lean)"
            c["note"] = c["note"] + " Translator (extract/rs2lean.py, rsparse.py): trusted to map the Rust subset to Lean as DESIGN 13-14 state (u32 as Nat: `<<` wrapping at the operand width in the bit/CRC/frame layer, elsewhere on fields proved to fit; + - * without wrap-around, their sites in the C01 inventory; f64 as exact rationals; HashMap/BTreeMap as association lists; locks always granted; log macros dropped); a change to a translated function regenerates its Lean definition and the bridge theorem must still check."
        if pid in SHAPED:
            c["note"] = c["note"] + " Hand-modelled code this property rests on (runner.py HAND_MODELLED) is fingerprinted token-wise against known/source_shapes.json: review plus change detection, not proof. Every alarm is confirmed by a second identical pass before it is reported (wall clock inside the implementation)."
        checks.append({
            "property_id": pid,
            "quick_cmd": f"./check {pid} --tier quick",
            "thorough_cmd": f"./check {pid} --tier thorough",
            "evidence_file": f"evidence/{pid}.json",
            "replay_cmd_template": f"./check {pid} --replay {{path}}",
            "engine": "lean+harness",
            "level_claimed": {"category": c.get("category", "proof"), "text": c["text"], "design_ref": "DESIGN.md section " + c["ref"]},
            "level_note": c["note"],
            "technique": c["technique"],
        })
    man = {
        "version": 1,
        "setup_cmd": "./check --setup",
        "hooks": {
            "guard": "squitterator_verif",
            "enable": "none needed: every observable is reachable through pub items; checks build /repo as a path dependency of harness/",
            "baseline_off_cmd": "cd /repo && cargo test --workspace --no-fail-fast --offline",
            "source_commits": [],
            "add_only": True,
        },
        "engines": [
            {"name": "lean", "path": "lean/", "serves_properties": sorted(CLAIMS), "kind_free_text": "Lean 4 model, specifications, proofs, compiled model driver"},
            {"name": "harness", "path": "harness/", "serves_properties": sorted(CLAIMS), "kind_free_text": "Rust correspondence harness driving the real code in-process (overflow checks on)"},
            {"name": "extract", "path": "extract/", "serves_properties": sorted(CLAIMS), "kind_free_text": "source -> Lean, regenerated on every run: tables (extract.py) and a translator of the decoder's Rust subset to Lean definitions (rsparse.py, rs2lean.py: 134 functions - bit extraction, CRC, frame gate, every field decoder, every row-update method, the table update, the expiry sweep and the loop body of read_lines); token fingerprints of the hand-modelled rest (shapes.py)"},
            {"name": "orchestrate", "path": "orchestrate/", "serves_properties": sorted(CLAIMS), "kind_free_text": "generators, comparison, evidence, violation protocol"},
        ],
        "checks": checks,
        "not_applicable": [{"property_id": p, "reason": NOT_YET} for p in ALL if p not in CLAIMS],
        "notes": "See DESIGN.md. Fix commits in /repo are listed in known_findings.json (fixed:) and DESIGN.md section 11.",
    }
    with open(os.path.join(VERIF, "MANIFEST.json"), "w") as f:
        json.dump(man, f, indent=1)
        f.write("\n")

if __name__ == "__main__":
    main()
