"""Shared machinery of the checks: build, run implementation and model on one ops file, compare,
audit proofs, write evidence, report violations."""
import hashlib, json, os, random, re, shutil, subprocess, sys, time

VERIF = os.path.dirname(os.path.dirname(os.path.abspath(__file__)))
REPO = os.environ.get("VERIF_REPO", "/repo")
LEAN = os.path.join(VERIF, "lean")
DRIVER = os.path.join(LEAN, ".lake", "build", "bin", "sqdriver")
HARNESS_DIR = os.path.join(VERIF, "harness")
HARNESS = os.path.join(HARNESS_DIR, "target", "release", "sqharness")
WORK = os.path.join(VERIF, ".work")
REPLAYS = os.path.join(VERIF, "replays")
EVIDENCE = os.environ.get("VERIF_EVIDENCE_DIR") or os.path.join(VERIF, "evidence")
ENV = dict(os.environ, CARGO_NET_OFFLINE="true")
ALLOWED_AXIOMS = {"propext", "Classical.choice", "Quot.sound"}
FORBIDDEN = re.compile(r"\b(sorry|admit|native_decide|bv_decide|implemented_by|unsafe)\b|^\s*axiom\s|maxHeartbeats\s+0")

class Broken(Exception):
    """an obligation (proof, extractor, build) that no longer checks"""
    def __init__(self, what, detail=""):
        super().__init__(what)
        self.what = what
        self.detail = detail

def sh(cmd, cwd=None, timeout=3600, env=None):
    p = subprocess.run(cmd, cwd=cwd, env=env or ENV, stdout=subprocess.PIPE, stderr=subprocess.STDOUT,
                       text=True, timeout=timeout, errors="replace")
    return p.returncode, p.stdout

# ------------------------------------------------------------------------------------------
# builds
def run_extractors(which=None):
    cmd = [sys.executable, os.path.join(VERIF, "extract", "extract.py")] + (which or [])
    rc, out = sh(cmd)
    try:
        res = json.loads(out.strip().splitlines()[-1])
    except Exception:
        raise Broken("extractor crashed", out[-2000:])
    return res

def lake_build(targets, timeout=3000):
    rc, out = sh(["lake", "build"] + targets, cwd=LEAN, timeout=timeout)
    return rc == 0, out

def build_driver():
    ok, out = lake_build(["sqdriver"])
    if not ok:
        raise Broken("model driver does not build", out[-3000:])

def build_harness():
    lock_src = os.path.join(REPO, "Cargo.lock")
    lock_dst = os.path.join(HARNESS_DIR, "Cargo.lock")
    try:
        if open(lock_src).read() != (open(lock_dst).read() if os.path.exists(lock_dst) else None):
            shutil.copy(lock_src, lock_dst)
    except OSError:
        pass
    rc, out = sh(["cargo", "build", "--release", "--offline", "-q"], cwd=HARNESS_DIR, timeout=1800)
    if rc != 0:
        # the crate itself still builds?  then a public item the harness drives changed shape: the correspondence cannot be
        # run any more, which is a broken obligation (reported as such), not a failure of the check to start
        rc2, out2 = sh(["cargo", "build", "--offline", "-q", "--target-dir", os.path.join(WORK, "cli-target")], cwd=REPO, timeout=1800)
        if rc2 == 0:
            raise Broken("the correspondence harness no longer compiles against the crate's public items", out[-1500:])
        print(out[-4000:])
        print("ERROR: the repository does not compile")
        sys.exit(2)

def bridge_coverage():
    """names of translated functions (Generated/Trans*.lean) that no bridge theorem mentions"""
    names = []
    for f in ("TransBits", "TransFrame", "Trans", "TransPlane", "TransTable"):
        t = open(os.path.join(LEAN, "SqModel", "Generated", f + ".lean"), encoding="utf-8").read()
        m = re.search(r"def T\.translated_%s : List String := \[(.*?)\]" % f, t)
        if not m:
            return ["<list of translated functions missing in %s.lean>" % f]
        names += re.findall(r'"([^"]+)"', m.group(1))
    txt = ""
    for b in ("BridgeBits", "BridgeReminder", "Bridge", "BridgeRat", "BridgeCpr", "BridgePlane", "BridgeTable"):
        txt += open(os.path.join(LEAN, "SqModel", "Proofs", b + ".lean"), encoding="utf-8").read()
    return [n for n in names if not re.search(re.escape(n) + r"(?![A-Za-z0-9_])", txt)]

def safe_coverage():
    """propositions of Generated/TransSafe.lean that Proofs/Safe.lean / SafeCpr.lean never mention"""
    t = open(os.path.join(LEAN, "SqModel", "Generated", "TransSafe.lean"), encoding="utf-8").read()
    m = re.search(r"def T\.safe_names : List String := \[(.*?)\]", t)
    if not m:
        return ["<list of safety propositions missing in TransSafe.lean>"]
    names = re.findall(r'"([^"]+)"', m.group(1))
    txt = "".join(open(os.path.join(LEAN, "SqModel", "Proofs", f), encoding="utf-8").read() for f in ("Safe.lean", "SafeCpr.lean", "SafeReminder.lean"))
    return [n for n in names if not re.search(re.escape(n) + r"(?![A-Za-z0-9_])", txt)]

def lean_forbidden_tokens():
    """grep the Lean tree (comments stripped) for anything that would weaken a proof"""
    hits = []
    for root, _, files in os.walk(LEAN):
        if ".lake" in root:
            continue
        for fn in files:
            if not fn.endswith(".lean"):
                continue
            p = os.path.join(root, fn)
            s = open(p, encoding="utf-8").read()
            s = re.sub(r"/-.*?-/", lambda m: "\n" * m.group(0).count("\n"), s, flags=re.S)
            for i, line in enumerate(s.splitlines(), 1):
                line = line.split("--")[0]
                if FORBIDDEN.search(line):
                    hits.append(f"{os.path.relpath(p, LEAN)}:{i}: {line.strip()}")
    return hits

def theorems_of(module_rel):
    """names of the theorems stated in a Props file (namespace-qualified)"""
    p = os.path.join(LEAN, module_rel)
    s = open(p, encoding="utf-8").read()
    s = re.sub(r"/-.*?-/", "", s, flags=re.S)
    ns = []
    names = []
    for line in s.splitlines():
        m = re.match(r"\s*namespace\s+(\S+)", line)
        if m:
            ns.append(m.group(1)); continue
        m = re.match(r"\s*end\s+(\S+)", line)
        if m and ns and ns[-1] == m.group(1):
            ns.pop(); continue
        m = re.match(r"\s*theorem\s+(\S+)", line)
        if m:
            names.append(".".join(ns + [m.group(1)]))
    return names

def audit_axioms(prop_id, modules, names):
    """`#print axioms` on every property theorem; returns {name: [axioms]} or raises Broken"""
    os.makedirs(os.path.join(WORK, "audit"), exist_ok=True)
    path = os.path.join(WORK, "audit", f"{prop_id}.lean")
    with open(path, "w") as f:
        for m in modules:
            f.write(f"import {m}\n")
        for n in names:
            f.write(f"#print axioms {n}\n")
    rc, out = sh(["lake", "env", "lean", path], cwd=LEAN, timeout=1200)
    if rc != 0:
        raise Broken("axiom audit does not elaborate", out[-3000:])
    res = {}
    for m in re.finditer(r"'(\S+)' depends on axioms: \[([^\]]*)\]", out.replace("\n", " ")):
        res[m.group(1)] = [a.strip() for a in m.group(2).split(",") if a.strip()]
    for m in re.finditer(r"'(\S+)' does not depend on any axioms", out):
        res[m.group(1)] = []
    missing = [n for n in names if n not in res]
    if missing:
        raise Broken("axiom audit: no report for " + ", ".join(missing), out[-2000:])
    bad = {n: a for n, a in res.items() if not set(a) <= ALLOWED_AXIOMS}
    if bad:
        raise Broken("theorem depends on a non-standard axiom", json.dumps(bad))
    return res

# ------------------------------------------------------------------------------------------
# running one ops file on both sides
class Run:
    def __init__(self, tag):
        self.dir = os.path.join(WORK, tag)
        os.makedirs(self.dir, exist_ok=True)
        self.n = 0
        # every batch of operations is also run by a second implementation process in which the -l logger is installed and
        # RUST_LOG=trace, so that every log macro's arguments are evaluated: what is decoded must not depend on it (C19 names
        # -l; C10.. quantify over configurations).  Differences are collected here and reported by the runner.
        self.debug_log_twin = os.environ.get("VERIF_NO_LOG_TWIN") is None
        self.logdiffs = []

    def execute(self, ops_lines, model=True, impl=True, timeout=1800, env=None):
        """returns (impl_lines, impl_stdout_text, model_lines)"""
        self.n += 1
        base = os.path.join(self.dir, f"r{self.n}")
        ops_path = base + ".ops"
        with open(ops_path, "w") as f:
            f.write("\n".join(ops_lines) + "\n")
        impl_lines, impl_stdout, model_lines = [], "", []
        procs = []
        twin = None
        if impl:
            so = open(base + ".stdout", "wb")
            procs.append(("impl", subprocess.Popen([HARNESS, ops_path, base + ".impl"], stdout=so, stderr=subprocess.PIPE, env=dict(ENV, TMPDIR=self.dir, **(env or {}))), so))
            if self.debug_log_twin and not any(o.startswith("tcp") for o in ops_lines):
                twin = self._start_twin(ops_path, base, env)
        if model:
            mo = open(base + ".model", "wb")
            procs.append(("model", subprocess.Popen([DRIVER], stdin=open(ops_path, "rb"), stdout=mo, stderr=subprocess.PIPE), mo))
        t_start = time.time()
        for name, p, fh in procs:
            try:
                _, err = p.communicate(timeout=timeout)
                if name == "impl":
                    LAST_ELAPSED[0] = time.time() - t_start
            except subprocess.TimeoutExpired:
                p.kill()
                raise Broken(f"{name} side did not terminate on {ops_path}")
            fh.close()
            if p.returncode != 0:
                if name == "impl":
                    # an abort of the implementation process is itself an observation
                    impl_lines_partial = open(base + ".impl", errors="replace").read().splitlines() if os.path.exists(base + ".impl") else []
                    return impl_lines_partial + [f"ABORT rc={p.returncode} {err.decode(errors='replace')[-300:].strip()}"], "", (open(base + ".model", errors="replace").read().splitlines() if model else [])
                raise Broken(f"model driver failed rc={p.returncode}", err.decode(errors="replace")[-2000:])
        if impl:
            impl_lines = open(base + ".impl", encoding="utf-8", errors="replace").read().splitlines()
            impl_stdout = open(base + ".stdout", encoding="utf-8", errors="replace").read()
            if twin is not None:
                self._judge_twin(twin, ops_path, base, env, impl_lines, timeout)
        if model:
            model_lines = open(base + ".model", encoding="utf-8", errors="replace").read().splitlines()
        return impl_lines, impl_stdout, model_lines

    def _start_twin(self, ops_path, base, env):
        e = dict(ENV, **(env or {}))
        e.update(RUST_LOG="trace", SQH_DEBUG_LOG="1", TMPDIR=self.dir)
        return subprocess.Popen([HARNESS, ops_path, base + ".impl2"], stdout=subprocess.DEVNULL, stderr=subprocess.DEVNULL, env=e)

    def _judge_twin(self, twin, ops_path, base, env, impl_lines, timeout):
        def finish(p):
            try:
                p.communicate(timeout=timeout)
            except subprocess.TimeoutExpired:
                p.kill()
                return None
            return open(base + ".impl2", encoding="utf-8", errors="replace").read().splitlines() if os.path.exists(base + ".impl2") else []
        def diff(a, b):
            if a is None:
                return (0, "", "the process with debug logging did not terminate")
            for i, (x, y) in enumerate(zip(a + [None] * (len(b) - len(a)), b + [None] * (len(a) - len(b)))):
                if x != y:
                    # whole-second ages are wall-clock readings: the process that writes a trace log is slower, and a long
                    # segment can put a second between a frame and the dump in one process and not in the other
                    if x is not None and y is not None and x.split(" ", 1)[0] == y.split(" ", 1)[0] \
                            and not lines_agree(x, y, ignore=("age", "posage", "trkage", "hdgage", "cprage", "b50age")):
                        continue
                    return (i, x, y)
            return None
        d = diff(finish(twin), impl_lines)
        if d is not None:
            # a whole-second age may tick between two processes: one repetition before it counts
            d2 = diff(finish(self._start_twin(ops_path, base, env)), impl_lines)
            if d2 is not None:
                self.logdiffs.append({"ops_file": ops_path, "line": d2[0], "with_debug_logging": d2[1], "without": d2[2]})

    def cleanup(self):
        shutil.rmtree(self.dir, ignore_errors=True)

CLI_TARGET = os.path.join(WORK, "cli-target")

def build_cli(release=False):
    """the repository's own binary (debug profile: overflow checks on)"""
    cmd = ["cargo", "build", "--offline", "-q", "--manifest-path", os.path.join(REPO, "Cargo.toml"), "--target-dir", CLI_TARGET]
    if release:
        cmd.append("--release")
    rc, out = sh(cmd, timeout=1800)
    if rc != 0:
        print(out[-3000:]); print("ERROR: repository does not compile"); raise SystemExit(2)
    return os.path.join(CLI_TARGET, "release" if release else "debug", "squitterator")

def cli_screens(cli, args, lines, workdir, timeout=300):
    """run the built CLI over a file of these lines with a refresh after every frame: (exit status, list of screens (each a list of
    lines), stderr).  The options go through clap exactly as a user's do."""
    path = os.path.join(workdir, "cli-%d.txt" % (abs(hash((tuple(args), len(lines)))) % 10 ** 9))
    with open(path, "wb") as f:
        for l in lines:
            f.write((l.encode() if isinstance(l, str) else l) + b"\n")
    p = subprocess.run([cli, "-s", path, "--update=-1"] + list(args), stdout=subprocess.PIPE, stderr=subprocess.PIPE, timeout=timeout,
                       env=dict(ENV, TMPDIR=workdir))
    out = p.stdout.decode("utf-8", "replace")
    screens = [x.lstrip("\n").split("\n") for x in out.split("\x1b[2J\x1b[H\x1b[3J") if x.strip()]
    return p.returncode, screens, p.stderr.decode("utf-8", "replace")

def split_cases(lines):
    """split an output stream at `case <id>` echo lines -> {id: [lines]}"""
    cases, cur = {}, None
    for l in lines:
        if l.startswith("case "):
            cur = l[5:].strip()
            cases[cur] = []
        elif cur is not None:
            cases[cur].append(l)
    return cases

def kvs(line):
    """'row 12 a=1 b=-' -> {'a':'1','b':'-'} (values without blanks, except quoted ais)"""
    d = {}
    for m in re.finditer(r'(\w+)=("[^"]*"|\S+)', line):
        d[m.group(1)] = m.group(2)
    return d

NUMERIC_TOL = {"lat": 1e-9, "lon": 1e-9, "dist": 2e-6}
# ages are whole seconds of the wall clock, which the implementation reads itself while it works through a batch: the model
# knows the simulated time only, so an age the implementation shows may exceed the model's by the real time the batch took
# (generators keep simulated times half a second away from whole seconds; batches of the quick tier take far less than that)
AGE_KEYS = ("age", "posage", "trkage", "hdgage", "cprage", "b50age")
LAST_ELAPSED = [0.0]

def ang_diff(a, b):
    d = abs(a - b) % 360.0
    return min(d, 360.0 - d)

def lines_agree(impl, model, ignore=(), only=None):
    """field-wise comparison of two canonical lines; returns list of differing keys (`only`: the keys that count)"""
    if impl == model:
        return []
    hi, hm = impl.split(" ", 2)[:2], model.split(" ", 2)[:2]
    if hi[0] != hm[0]:
        return ["<kind>"]
    a, b = kvs(impl), kvs(model)
    diffs = []
    if impl.startswith("row ") and hi[1:2] != hm[1:2]:
        diffs.append("<key>")
    for k in sorted(set(a) | set(b)):
        if k in ignore or (only is not None and k not in only):
            continue
        va, vb = a.get(k), b.get(k)
        if va == vb:
            continue
        if k in AGE_KEYS and LAST_ELAPSED[0] >= 0.5:
            try:
                pa, pb = str(va).split("/"), str(vb).split("/")         # cprage is a pair "even/odd"
                if len(pa) == len(pb) and all(0 <= int(x) - int(y) <= int(LAST_ELAPSED[0] + 0.5) for x, y in zip(pa, pb)):
                    continue
            except (TypeError, ValueError):
                pass
        if k in NUMERIC_TOL and va not in (None, "-") and vb not in (None, "-"):
            try:
                fa, fb = float(va), float(vb)
                if k == "lon":
                    if ang_diff(fa, fb) <= NUMERIC_TOL[k]:
                        continue
                elif abs(fa - fb) <= NUMERIC_TOL[k]:
                    continue
            except ValueError:
                pass
        diffs.append(k)
    if not a and not b and impl != model:
        diffs.append("<text>")
    return diffs

def compare_streams(impl_lines, model_lines, ignore=(), skip_prefixes=("seg ", "counts", "spec ", "render", "R|", "endrender", "tcp "), only=None):
    """correspondence: the two output streams must agree line by line (after dropping lines only
    one side emits).  Returns list of (index, impl_line, model_line, keys)."""
    fi = [l for l in impl_lines if not l.startswith(skip_prefixes)]
    fm = [l for l in model_lines if not l.startswith(skip_prefixes)]
    out = []
    for i in range(max(len(fi), len(fm))):
        a = fi[i] if i < len(fi) else "<missing>"
        b = fm[i] if i < len(fm) else "<missing>"
        d = lines_agree(a, b, ignore, only)
        if d:
            out.append((i, a, b, d))
            if a == "<missing>" or b == "<missing>" or "<kind>" in d:
                break
    return out

# ------------------------------------------------------------------------------------------
# reporting
class Report:
    def __init__(self, prop_id, tier, seed, level="proof"):
        self.prop = prop_id
        self.tier = tier
        self.seed = seed
        self.level = level
        self.t0 = time.time()
        self.obligations = []          # (name, ok, note)
        self.evaluations = 0
        self.nontrivial = set()
        self.samples = []
        self.model_disagreements = 0
        self.impl_spec_failures = 0
        self.panics = 0
        self.traces = 0
        self.out = []                  # VIOLATION / KNOWN-FINDING lines, printed by finish()
        self.violations = []           # (replay_path, found_input, what)
        self.pending = []              # broken obligations / correspondences without a failing input (yet)
        self.known = []
        self.hist = {}
        self.notes = []
        self.exhaustive = []
        self.trusted = []
        self.assumptions = []
        self.rule = ""
        self.checker_cmd = ""

    def oblige(self, name, ok, note=""):
        self.obligations.append((name, bool(ok), note))

    def count(self, key, n=1):
        self.hist[key] = self.hist.get(key, 0) + n

    def sample(self, s, limit=6):
        if len(self.samples) < limit:
            self.samples.append(s)

    def nontriv(self, key):
        self.nontrivial.add(key if isinstance(key, (str, int, tuple)) else str(key))

    def violation(self, what, replay_obj, found_input=True):
        os.makedirs(REPLAYS, exist_ok=True)
        blob = json.dumps(replay_obj, sort_keys=True, indent=1)
        h = hashlib.sha1(blob.encode()).hexdigest()[:10]
        path = os.path.join(REPLAYS, f"{self.prop}-{h}.json")
        with open(path, "w") as f:
            f.write(blob + "\n")
        if not found_input:
            # reported at the end, and only if the search turns up no concrete failing input
            self.pending.append((path, what))
            return
        self.violations.append((path, found_input, what))
        # printed by finish(): a pass that reports something is repeated once before anything is said (runner.py)
        self.out.append(f"VIOLATION property={self.prop} replay={path}")
        self.out.append(f"  -> {what}")

    def flush_pending(self):
        if self.pending and not self.violations:
            path, what = self.pending[0]
            self.violations.append((path, False, what))
            self.out.append(f"VIOLATION property={self.prop} replay={path} no-failing-input-found")
            self.out.append(f"  -> {what}")
            for p2, w2 in self.pending[1:4]:
                self.out.append(f"  (also: {w2[:200]} -> {p2})")
        elif self.pending:
            for p2, w2 in self.pending[:4]:
                self.out.append(f"  (obligation / correspondence also broken: {w2[:200]} -> {p2})")

    def known_finding(self, text):
        if text not in self.known:
            self.known.append(text)
            self.out.append(f"KNOWN-FINDING: property={self.prop} {text}")

    def alarmed(self):
        return bool(self.violations or self.pending)

    def first_alarm(self):
        if self.violations:
            return self.violations[0][2]
        return self.pending[0][1] if self.pending else ""

    def finish(self):
        self.flush_pending()
        for l in self.out:
            print(l)
        wall = time.time() - self.t0
        n_ob = len(self.obligations)
        n_ok = sum(1 for _, ok, _ in self.obligations if ok)
        cov = {
            "obligations": n_ob,
            "discharged": n_ok,
            "checker_cmd": self.checker_cmd or "lake build SqModel.Props.%s && lake env lean .work/audit/%s.lean (#print axioms)" % (self.prop, self.prop),
            "trusted_base": self.trusted,
            "obligation_list": [{"name": n, "ok": ok, "note": note} for n, ok, note in self.obligations],
            "evaluations": self.evaluations,
            "distinct_nontrivial": len(self.nontrivial),
            "rule": self.rule,
            "samples": self.samples or ["(no correspondence case was run)"],
            "traces_validated_against_impl": self.traces,
            "disagreements_checked": self.model_disagreements,
            "model_vs_impl_disagreements": self.model_disagreements,
            "impl_vs_spec_failures": self.impl_spec_failures,
            "impl_panics": self.panics,
            "histogram": self.hist,
            "exhaustive_sweeps": self.exhaustive,
            "exhaustive": False,
            "known_findings_reproduced": self.known,
            "notes": self.notes,
        }
        ev = {
            "property_id": self.prop, "tier": self.tier, "seed": self.seed, "level": self.level,
            "coverage": cov, "assumptions": self.assumptions, "wall_s": round(wall, 2),
            "violations": len(self.violations),
        }
        os.makedirs(EVIDENCE, exist_ok=True)
        with open(os.path.join(EVIDENCE, f"{self.prop}.json"), "w") as f:
            json.dump(ev, f, indent=1, sort_keys=True)
            f.write("\n")
        status = "VIOLATED" if self.violations else "held"
        print(f"[{self.prop}] {status}: obligations {n_ok}/{n_ob}, {self.evaluations} evaluations, "
              f"{len(self.nontrivial)} distinct non-trivial, model-disagreements {self.model_disagreements}, "
              f"impl-vs-spec failures {self.impl_spec_failures}, panics {self.panics}, {wall:.1f}s")
        return 1 if self.violations else 0

def load_known(prop_id):
    p = os.path.join(VERIF, "known_findings.json")
    if not os.path.exists(p):
        return []
    return [k for k in json.load(open(p)).get("known", []) if k.get("property") == prop_id]

def rng_for(seed, prop_id):
    return random.Random(f"{seed}/{prop_id}")
