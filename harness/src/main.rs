//! Correspondence harness: executes an ops file against the real squitterator code in-process.
//!
//! usage: sqharness <ops-file> <out-file>
//! Results go to <out-file>; stdout carries whatever the library itself prints (tables), framed
//! by `@@` marker lines.  Every op runs under catch_unwind; a panic is reported as a `PANIC` line.
use squitterator::{
    Args, DF, DisplayFlags, Downlink, LegendHeaders, Plane, Planes, get_downlink_format, get_icao,
    get_message, set_observer_coords_from_str, spawn_reader_thread,
};
use chrono::{DateTime, Duration, Utc};
use clap_shim::parse_args;
use std::collections::HashMap;
use std::fmt::Write as FmtWrite;
use std::io::{BufRead, BufReader, Write};
use std::panic::{AssertUnwindSafe, catch_unwind};
use std::sync::{Arc, Mutex, RwLock};

mod clap_shim {
    use squitterator::Args;
    /// `Args` derives clap's Parser; building it from an argv keeps every default of the CLI.
    pub fn parse_args(argv: &[String]) -> Args {
        use clap::Parser;
        Args::parse_from(argv)
    }
}

fn hex_nib(c: u8) -> Option<u32> {
    (c as char).to_digit(16)
}

fn parse_hex_bytes(s: &str) -> Vec<u8> {
    let b = s.as_bytes();
    let mut out = Vec::with_capacity(b.len() / 2);
    let mut i = 0;
    while i + 1 < b.len() {
        match (hex_nib(b[i]), hex_nib(b[i + 1])) {
            (Some(x), Some(y)) => out.push((x * 16 + y) as u8),
            _ => break,
        }
        i += 2;
    }
    out
}

fn opt<T: std::fmt::Display>(v: &Option<T>) -> String {
    match v {
        Some(x) => format!("{}", x),
        None => "-".to_string(),
    }
}
fn opt_char(v: &Option<char>) -> String {
    match v {
        Some(c) => format!("{}", *c as u32),
        None => "-".to_string(),
    }
}
fn opt_str(v: &Option<String>) -> String {
    match v {
        Some(s) => format!("\"{}\"", s),
        None => "-".to_string(),
    }
}
fn age(now: DateTime<Utc>, t: DateTime<Utc>) -> i64 {
    now.signed_duration_since(t).num_milliseconds().div_euclid(1000)
}
fn opt_age(now: DateTime<Utc>, t: &Option<DateTime<Utc>>) -> String {
    match t {
        Some(t) => format!("{}", age(now, *t)),
        None => "-".to_string(),
    }
}
fn b(v: bool) -> char {
    if v { '1' } else { '0' }
}

fn row_line(now: DateTime<Utc>, k: u32, p: &Plane) -> String {
    let mut s = String::new();
    let c = &p.capability.1;
    write!(s, "row {} icao={} cap0={} cap1={}/{}{}{}{}{} cat={}/{} reg={} ais={} alt={} altg={} alts={} selalt={} baro={} tasrc={} squawk={} ss={} threat={} vrate={} vrs={} cpr={}/{}/{}/{} cprage={}/{} lat={:.10} lon={:.10} dist={} gs={} tas={} ias={} mach={} gm={} turn={} track={} trs={} hdg={} hds={} roll={} tar={} b50age={} temp={} wind={} turb={} hum={} pres={} age={} posage={} trkage={} hdgage={} tc={} df={} ver={}",
        k, p.icao, p.capability.0, c.flags, b(c.bds20), b(c.bds40), b(c.bds44), b(c.bds50), b(c.bds60),
        p.category.0, p.category.1, p.reg, opt_str(&p.ais), opt(&p.altitude), opt(&p.altitude_gnss),
        p.altitude_source as u32, opt(&p.selected_altitude), opt(&p.barometric_pressure_setting),
        p.target_altitude_source as u32, opt(&p.squawk), p.surveillance_status as u32,
        opt_char(&p.threat_encounter), opt(&p.vrate), p.vrate_source as u32,
        p.cpr_lat[0], p.cpr_lat[1], p.cpr_lon[0], p.cpr_lon[1],
        age(now, p.cpr_time[0]), age(now, p.cpr_time[1]), p.lat, p.lon,
        match p.distance_from_observer { Some(d) => format!("{:.7}", d), None => "-".to_string() },
        opt(&p.grspeed), opt(&p.true_airspeed), opt(&p.indicated_airspeed),
        match p.mach_number { Some(m) => format!("{}", (m * 250.0).round() as i64), None => "-".to_string() },
        match p.ground_movement { Some(g) => format!("{:.4}", g), None => "-".to_string() },
        p.turn, opt(&p.track), p.track_source as u32, opt(&p.heading), p.heading_source as u32,
        opt(&p.roll_angle), opt(&p.track_angle_rate), opt_age(now, &p.bds_5_0_timestamp),
        match p.temperature { Some(t) => format!("{}", (t * 4.0).round() as i64), None => "-".to_string() },
        match p.wind { Some(w) => format!("{}/{}", w.0, w.1), None => "-".to_string() },
        opt(&p.turbulence), opt(&p.humidity), opt(&p.pressure), age(now, p.timestamp),
        opt_age(now, &p.position_timestamp), opt_age(now, &p.track_timestamp),
        opt_age(now, &p.heading_timestamp), p.last_type_code, p.last_df, opt(&p.adsb_version)).unwrap();
    s
}

fn df_line(dl: &DF) -> String {
    match dl {
        DF::SRT(v) => format!("srt df={} icao={} squawk={} cap={} alt={}", opt(&v.df), opt(&v.icao), opt(&v.squawk), opt(&v.capability), opt(&v.altitude)),
        DF::EXT(v) => format!(
            "ext df={} icao={} cap={} tc={} st={} ais={} cat={} cpr={} gm={} gs={} track={} trs={} hdg={} hds={} alt={} alts={} altd={} altg={} vrate={} vrs={} ss={} ver={}",
            opt(&v.df), opt(&v.icao), v.capability, v.message_type.0, v.message_type.1, opt_str(&v.ais),
            match v.category { Some(c) => format!("{}/{}", c.0, c.1), None => "-".to_string() },
            match v.cpr { Some(c) => format!("{}/{}/{}", c.0, c.1, c.2), None => "-".to_string() },
            match v.ground_movement { Some(g) => format!("{:.4}", g), None => "-".to_string() },
            opt(&v.grspeed), opt(&v.track), opt_char(&v.track_source), opt(&v.heading), opt_char(&v.heading_source),
            opt(&v.altitude), opt_char(&v.altitude_source), opt(&v.altitude_delta), opt(&v.altitude_gnss),
            opt(&v.vrate), opt_char(&v.vrate_source), opt_char(&v.surveillance_status), opt(&v.adsb_version)),
        DF::MDS(v) => format!("mds icao={}", opt(&v.icao)),
    }
}

struct Cfg {
    relaxed: bool,
    use_update: bool,
    count: bool,
    filter: Option<Vec<u32>>,
    delete_after: i64,
    groups: String,
    order: String,
    show: bool,
    update: i64,
    logm: Option<Vec<u32>>,
    dlog: bool,
    elog: bool,
}

fn kv<'a>(toks: &'a [&'a str], key: &str) -> Option<&'a str> {
    for t in toks {
        if let Some((k, v)) = t.split_once('=') {
            if k == key {
                return Some(v);
            }
        }
    }
    None
}

fn make_args(cfg: &Cfg, source: &str) -> Args {
    let mut a = parse_args(&["squitterator".to_string()]);
    a.relaxed = cfg.relaxed;
    a.use_update_method = cfg.use_update;
    a.count_df = cfg.count;
    a.filter = cfg.filter.clone();
    a.delete_after = cfg.delete_after;
    // '+' separates several occurrences of the option (-i a -i w  is  groups=a+w)
    let mut di: Vec<String> = cfg.groups.split('+').map(|x| x.to_string()).collect();
    if !cfg.show { if let Some(l) = di.last_mut() { l.push('Q'); } }
    a.display_info = di;
    a.order_by = cfg.order.split('+').map(|x| x.to_string()).collect();
    a.update = cfg.update;
    a.source = source.to_string();
    a.tcp = String::new();
    a.observer_coord = None;
    a.log_messages = cfg.logm.clone();
    a.downlink_log = if cfg.dlog { Some(format!("{}.dlog", source)) } else { None };
    // -l: main() installs the logger once per process, before the reader starts; the harness does the same
    a.error_log = if cfg.elog { Some(std::env::temp_dir().join(format!("sqh-{}.elog", std::process::id())).to_string_lossy().to_string()) } else { None };
    if cfg.elog && std::env::var("SQH_DEBUG_LOG").is_err() {
        static ONCE: std::sync::Once = std::sync::Once::new();
        let path = a.error_log.clone().unwrap();
        ONCE.call_once(|| { let _ = squitterator::initialize_logger(&path); });
    }
    a
}

fn shift_all(planes: &Arc<RwLock<HashMap<u32, Plane>>>, ms: i64) {
    let d = Duration::milliseconds(ms);
    let mut g = planes.write().unwrap();
    for p in g.values_mut() {
        p.timestamp -= d;
        p.cpr_time[0] -= d;
        p.cpr_time[1] -= d;
        if let Some(t) = p.position_timestamp.as_mut() { *t -= d; }
        if let Some(t) = p.track_timestamp.as_mut() { *t -= d; }
        if let Some(t) = p.heading_timestamp.as_mut() { *t -= d; }
        if let Some(t) = p.bds_5_0_timestamp.as_mut() { *t -= d; }
    }
}

unsafe extern "C" {
    fn setsockopt(fd: i32, level: i32, name: i32, val: *const core::ffi::c_void, len: u32) -> i32;
}

/// close with RST instead of FIN (SO_LINGER with a zero timeout)
fn reset_close(s: std::net::TcpStream) {
    use std::os::fd::AsRawFd;
    let linger: [i32; 2] = [1, 0];
    unsafe {
        setsockopt(s.as_raw_fd(), 1 /* SOL_SOCKET */, 13 /* SO_LINGER */, linger.as_ptr() as *const _, 8);
    }
    drop(s);
}

fn accept_within(l: &std::net::TcpListener, ms: u64) -> Option<std::net::TcpStream> {
    l.set_nonblocking(true).ok()?;
    let t0 = std::time::Instant::now();
    loop {
        match l.accept() {
            Ok((s, _)) => { s.set_nonblocking(false).ok(); return Some(s); }
            Err(_) => {
                if t0.elapsed().as_millis() as u64 > ms { return None; }
                std::thread::sleep(std::time::Duration::from_millis(5));
            }
        }
    }
}

/// plays a fault script against the real `connect_and_read_tcp` loop on a loopback port
fn run_tcp(script: &str, cfg: &Cfg, table: &Arc<RwLock<HashMap<u32, Plane>>>, keep: &mut Vec<std::net::TcpStream>) -> String {
    use std::net::TcpListener;
    use std::time::{Duration, Instant};
    let steps: Vec<&str> = script.split(';').filter(|x| !x.is_empty()).collect();
    let first = TcpListener::bind("127.0.0.1:0").expect("bind");
    let addr = first.local_addr().unwrap();
    let mut listener: Option<TcpListener> = Some(first);
    let mut out = String::new();
    let mut i = 0;
    let mut started = false;
    let mut t_free = Instant::now();       // when the reader became free to attempt a connection
    let mut gaps: Vec<String> = Vec::new();
    let mut accepted = 0;
    let mut spawn = |listener_up: bool| {
        let mut a = make_args(cfg, "");
        a.tcp = format!("{}", addr);
        let _ = listener_up;
        #[allow(unused_mut)]
        let mut planes = Planes::new();
        planes.aircrafts = table.clone();
        let _detached = spawn_reader_thread(Arc::new(a), planes);
    };
    while i < steps.len() {
        if steps[i] == "refuse" {
            let mut k = 0;
            while i < steps.len() && steps[i] == "refuse" { k += 1; i += 1; }
            listener = None;                    // nothing listens: connects are refused
            if !started { spawn(false); started = true; t_free = Instant::now(); }
            // attempts happen at t_free, +5 s, ...: keep the port closed for the first k of them
            let until = t_free + Duration::from_millis(5000 * (k as u64 - 1) + 2500);
            let now = Instant::now();
            if until > now { std::thread::sleep(until - now); }
            let l = TcpListener::bind(addr).expect("re-bind");
            listener = Some(l);
            // the next successful accept tells how long the refusals held the reader up
            match accept_within(listener.as_ref().unwrap(), 9000) {
                Some(s) => {
                    gaps.push(format!("{}:{}", k, t_free.elapsed().as_millis()));
                    accepted += 1;
                    // this connection belongs to the next step (or is the idle tail)
                    if i < steps.len() {
                        play(steps[i], s);
                        i += 1;
                        t_free = Instant::now();
                    } else {
                        keep.push(s);
                        write!(out, "tcp accepted={} gaps={} alive=1", accepted, gaps.join(",")).unwrap();
                        return out;
                    }
                }
                None => { write!(out, "tcp accepted={} gaps={} alive=0 stalled-after-refuse", accepted, gaps.join(",")).unwrap(); return out; }
            }
            continue;
        }
        if listener.is_none() { listener = Some(TcpListener::bind(addr).expect("re-bind")); }
        if !started { spawn(true); started = true; }
        match accept_within(listener.as_ref().unwrap(), 9000) {
            Some(s) => { accepted += 1; play(steps[i], s); t_free = Instant::now(); }
            None => { write!(out, "tcp accepted={} gaps={} alive=0 stalled-at-step-{}", accepted, gaps.join(","), i).unwrap(); return out; }
        }
        i += 1;
    }
    // the reader must come back for more: that it reconnects shows it is alive and done with the last connection
    if listener.is_none() { listener = Some(TcpListener::bind(addr).expect("re-bind")); }
    match accept_within(listener.as_ref().unwrap(), 9000) {
        Some(s) => { keep.push(s); write!(out, "tcp accepted={} gaps={} alive=1", accepted, gaps.join(",")).unwrap(); }
        None => { write!(out, "tcp accepted={} gaps={} alive=0", accepted, gaps.join(",")).unwrap(); }
    }
    out
}

fn play(step: &str, mut s: std::net::TcpStream) {
    let parts: Vec<&str> = step.split(':').collect();
    match parts[0] {
        "close" => { drop(s); }
        "data" => {
            let bytes = parse_hex_bytes(parts.get(1).copied().unwrap_or(""));
            let _ = s.write_all(&bytes);
            let _ = s.flush();
            // let the reader drain the socket; an optional fourth field keeps the connection up that many ms
            let hold: u64 = parts.get(3).and_then(|x| x.parse().ok()).unwrap_or(300);
            std::thread::sleep(std::time::Duration::from_millis(hold.max(300)));
            if parts.get(2).copied() == Some("reset") { reset_close(s); } else { drop(s); }
        }
        _ => { drop(s); }
    }
}

/// Virtual clock: real time that passes between two ops must not age the rows (the model's clock
/// moves with `adv` only).  Every stamp that predates the previous sync point is moved forward by
/// the real time elapsed since then; stamps set after it keep an offset of at most one interval.
fn sync_clock(planes: &Arc<RwLock<HashMap<u32, Plane>>>, last_sync: &mut DateTime<Utc>) {
    let now = Utc::now();
    let d = now.signed_duration_since(*last_sync);
    let ls = *last_sync;
    let mut g = planes.write().unwrap();
    let fix = |t: &mut DateTime<Utc>| { if *t <= ls { *t += d; } };
    for p in g.values_mut() {
        fix(&mut p.timestamp);
        fix(&mut p.cpr_time[0]);
        fix(&mut p.cpr_time[1]);
        if let Some(t) = p.position_timestamp.as_mut() { fix(t); }
        if let Some(t) = p.track_timestamp.as_mut() { fix(t); }
        if let Some(t) = p.heading_timestamp.as_mut() { fix(t); }
        if let Some(t) = p.bds_5_0_timestamp.as_mut() { fix(t); }
    }
    *last_sync = now;
}

fn main() {
    let argv: Vec<String> = std::env::args().collect();
    if argv.len() != 3 {
        eprintln!("usage: sqharness <ops-file> <out-file>");
        std::process::exit(2);
    }
    let last_panic: Arc<Mutex<String>> = Arc::new(Mutex::new(String::new()));
    {
        let lp = last_panic.clone();
        std::panic::set_hook(Box::new(move |info| {
            let loc = info.location().map(|l| format!("{}:{}", l.file(), l.line())).unwrap_or_default();
            let msg = if let Some(s) = info.payload().downcast_ref::<&str>() {
                s.to_string()
            } else if let Some(s) = info.payload().downcast_ref::<String>() {
                s.clone()
            } else {
                "?".to_string()
            };
            *lp.lock().unwrap() = format!("{} @ {}", msg, loc);
        }));
    }
    // SQH_DEBUG_LOG=1 (with RUST_LOG in the environment): install the -l logger before anything is decoded, as
    // `squitterator -l <file>` started with RUST_LOG=debug does; every log macro argument is then evaluated
    if std::env::var("SQH_DEBUG_LOG").is_ok() {
        let path = std::env::temp_dir().join(format!("sqh-{}.dbglog", std::process::id()));
        let _ = squitterator::initialize_logger(path.to_str().unwrap());
        let _ = std::fs::remove_file(&path);      // the open handle keeps working; nothing is left behind
    }
    let ops = BufReader::new(std::fs::File::open(&argv[1]).expect("ops file"));
    let mut out = std::io::BufWriter::new(std::fs::File::create(&argv[2]).expect("out file"));
    let table: Arc<RwLock<HashMap<u32, Plane>>> = Arc::new(RwLock::new(HashMap::new()));
    let mut cfg = Cfg {
        relaxed: false, use_update: false, count: false, filter: None, delete_after: 60,
        groups: "aAews".to_string(), order: "sA".to_string(), show: false, update: -1, logm: None, dlog: false, elog: false,
    };
    let mut seg: Option<Vec<u8>> = None;
    let mut seg_no = 0u64;
    let mut last_sync = Utc::now();
    let mut keep_streams: Vec<std::net::TcpStream> = Vec::new();
    let tmpdir = std::env::temp_dir();
    let dummy_df = DF::from_message(&[12u32, 0, 0, 0, 0, 0, 0, 0, 0, 0, 0, 0, 0, 0, 0, 0, 0, 0, 0, 0, 0, 0, 0, 0, 0, 0, 0, 0]).expect("dummy DF");

    for (lineno, line) in ops.lines().enumerate() {
        let line = line.expect("ops read");
        let toks: Vec<&str> = line.split_whitespace().collect();
        if toks.is_empty() {
            continue;
        }
        let res = catch_unwind(AssertUnwindSafe(|| -> String {
            let mut o = String::new();
            match toks[0] {
                "cfg" => {
                    let t = &toks[1..];
                    let bv = |k: &str, d: bool| match kv(t, k) { Some("1") => true, Some("0") => false, _ => d };
                    cfg.relaxed = bv("relaxed", cfg.relaxed);
                    cfg.use_update = bv("use_update", cfg.use_update);
                    cfg.count = bv("count", cfg.count);
                    cfg.show = bv("show", cfg.show);
                    if let Some(f) = kv(t, "filter") {
                        cfg.filter = if f == "-" { None } else { Some(f.split(',').filter_map(|x| x.parse().ok()).collect()) };
                    }
                    if let Some(d) = kv(t, "delete_after") { cfg.delete_after = d.parse().unwrap_or(cfg.delete_after); }
                    cfg.dlog = bv("dlog", cfg.dlog);
                    cfg.elog = bv("elog", cfg.elog);
                    if let Some(f) = kv(t, "logm") {
                        cfg.logm = if f == "-" { None } else { Some(f.split(',').filter_map(|x| x.parse().ok()).collect()) };
                    }
                    if let Some(d) = kv(t, "update") { cfg.update = d.parse().unwrap_or(cfg.update); }
                    if let Some(g) = kv(t, "groups") { cfg.groups = g.to_string(); }
                    if let Some(g) = kv(t, "order") { cfg.order = if g == "-" { String::new() } else { g.to_string() }; }
                    if let Some(ob) = kv(t, "observer") {
                        if ob != "-" { set_observer_coords_from_str(&ob.replace('_', " ")); }
                    }
                }
                "case" => { writeln!(o, "case {}", toks.get(1).copied().unwrap_or("")).unwrap(); }
                "reset" => {
                    table.write().unwrap().clear();
                    cfg = Cfg {
                        relaxed: false, use_update: false, count: false, filter: None, delete_after: 60,
                        groups: "aAews".to_string(), order: "sA".to_string(), show: false, update: -1, logm: None, dlog: false, elog: false,
                    };
                }
                "seg" => { seg = Some(Vec::new()); }
                "line" => {
                    if let Some(buf) = seg.as_mut() {
                        if toks.len() > 1 { buf.extend_from_slice(&parse_hex_bytes(toks[1])); }
                        buf.push(b'\n');
                    }
                }
                "end" | "endnolf" => {
                    if let Some(mut buf) = seg.take() {
                        // "endnolf": the file ends without a line feed (the last line is a line all the same)
                        if toks[0] == "endnolf" && buf.last() == Some(&b'\n') { buf.pop(); }
                        seg_no += 1;
                        sync_clock(&table, &mut last_sync);
                        let path = tmpdir.join(format!("sqh-{}-{}.txt", std::process::id(), seg_no));
                        std::fs::write(&path, &buf).expect("write segment");
                        let args = Arc::new(make_args(&cfg, path.to_str().unwrap()));
                        #[allow(unused_mut)]
        let mut planes = Planes::new();
        planes.aircrafts = table.clone();
                        println!("@@SEG {} BEGIN", seg_no);
                        std::io::stdout().flush().ok();
                        let r = spawn_reader_thread(args, planes).join();
                        std::io::stdout().flush().ok();
                        println!("\n@@SEG {} END", seg_no);
                        let _ = std::fs::remove_file(&path);
                        let _ = std::fs::remove_file(format!("{}.dlog", path.to_str().unwrap()));
                        match r {
                            Ok(Ok(())) => { writeln!(o, "seg {} ok", seg_no).unwrap(); }
                            Ok(Err(e)) => { writeln!(o, "seg {} ioerr {}", seg_no, e).unwrap(); }
                            Err(_) => {
                                writeln!(o, "PANIC seg {} {}", seg_no, last_panic.lock().unwrap()).unwrap();
                                // a poisoned lock would hide the table from later ops
                                table.clear_poison();
                            }
                        }
                    }
                }
                "tcp" => {
                    sync_clock(&table, &mut last_sync);
                    println!("@@TCP BEGIN");
                    let r = run_tcp(toks.get(1).copied().unwrap_or(""), &cfg, &table, &mut keep_streams);
                    println!("\n@@TCP END");
                    writeln!(o, "{}", r).unwrap();
                    // the real seconds spent waiting must not age the rows
                    sync_clock(&table, &mut last_sync);
                }
                "adv" => {
                    sync_clock(&table, &mut last_sync);
                    shift_all(&table, toks[1].parse().unwrap_or(0));
                }
                "dump" => {
                    sync_clock(&table, &mut last_sync);
                    let now = last_sync;
                    let g = table.read().unwrap();
                    let mut keys: Vec<&u32> = g.keys().collect();
                    keys.sort();
                    for k in &keys { writeln!(o, "{}", row_line(now, **k, &g[*k])).unwrap(); }
                    writeln!(o, "enddump {}", keys.len()).unwrap();
                }
                "q" => match toks.get(1).copied() {
                    Some("msg") => {
                        let bytes = if toks.len() > 2 { parse_hex_bytes(toks[2]) } else { Vec::new() };
                        let s = String::from_utf8_lossy(&bytes);
                        match get_message(&s) {
                            Some(m) => writeln!(o, "msg {}", m.iter().map(|x| format!("{:X}", x)).collect::<String>()).unwrap(),
                            None => writeln!(o, "msg -").unwrap(),
                        }
                    }
                    Some("frame") => {
                        let m: Vec<u32> = toks[2].chars().filter_map(|c| c.to_digit(16)).collect();
                        match get_downlink_format(&m) {
                            None => writeln!(o, "frame nodf").unwrap(),
                            Some(df) => {
                                let icao = get_icao(&m, df);
                                match DF::from_message(&m) {
                                    Ok(dl) => writeln!(o, "frame df={} icao={} {}", df, opt(&icao), df_line(&dl)).unwrap(),
                                    Err(_) => writeln!(o, "frame df={} icao={} none", df, opt(&icao)).unwrap(),
                                }
                            }
                        }
                    }
                    _ => { writeln!(o, "skip").unwrap(); }
                },
                "render" => {
                    sync_clock(&table, &mut last_sync);
                    let flags = DisplayFlags::from_arg_str(&cfg.groups);
                    let h = LegendHeaders::from_display_flags(&flags);
                    let args = make_args(&cfg, "");
                    println!("@@RENDER BEGIN");
                    print!("{}{}", h.header, h.separator);
                    #[allow(unused_mut)]
                    let mut pl = Planes::new();
                    pl.aircrafts = table.clone();
                    pl.print(&args, &flags);
                    std::io::stdout().flush().ok();
                    println!("@@RENDER END");
                    writeln!(o, "render").unwrap();
                }
                "sweep" => {
                    if toks.get(1).copied() == Some("country") {
                        let mut start = 0u32;
                        let mut cur: &'static str = Plane::from_downlink(&dummy_df, 0).reg;
                        for a in 1u32..(1 << 24) {
                            let r = Plane::from_downlink(&dummy_df, a).reg;
                            if r != cur {
                                writeln!(o, "country {} {} {}", start, a - 1, cur).unwrap();
                                start = a;
                                cur = r;
                            }
                        }
                        writeln!(o, "country {} {} {}", start, (1u32 << 24) - 1, cur).unwrap();
                    }
                }
                _ => { writeln!(o, "bad-op {}", line).unwrap(); }
            }
            o
        }));
        match res {
            Ok(s) => { out.write_all(s.as_bytes()).unwrap(); }
            Err(_) => { writeln!(out, "PANIC op {} {}", lineno + 1, last_panic.lock().unwrap()).unwrap(); }
        }
    }
    out.flush().unwrap();
}
