/-
Mode S parity (ICAO Annex 10 Vol. IV 3.1.2.3.3): CRC-24 with generator
x^24+x^23+...+x^10+x^3+1 = 0x1FFF409, as textbook long division on a bit list.
-/
import SqModel.Spec.Bits

namespace Sq.Spec

def G : BitVec 25 := 0x1FFF409#25

/-- shift one message bit into the 24-bit remainder register and reduce -/
def specStep (r : BitVec 24) (b : Bool) : BitVec 24 :=
  let r' : BitVec 25 := (r.zeroExtend 25 <<< 1) ||| (BitVec.ofBool b).zeroExtend 25
  if r'.msb then (r' ^^^ G).truncate 24 else r'.truncate 24

/-- remainder modulo G of the polynomial whose coefficients are `bits`, highest degree first -/
def syndrome (bits : List Bool) : BitVec 24 := bits.foldl specStep 0

/-- CRC-24 of a data block: remainder of `bits · x^24` -/
def crc24 (bits : List Bool) : BitVec 24 := syndrome (bits ++ List.replicate 24 false)

/-- the 24-bit address a frame is attributed to (C03), or `none` for the all-zero address -/
def addressOf (m : Msg) : Option Nat :=
  let d := df m
  let n := 4 * m.length
  let a :=
    if d = 11 ∨ d = 17 ∨ d = 18 then some (field m 9 32)
    else if d = 0 ∨ d = 4 ∨ d = 5 ∨ d = 16 ∨ d = 20 ∨ d = 21 then
      some (field m (n - 23) n ^^^ (crc24 (bitsOf m 1 (n - 24))).toNat)
    else none
  a.filter (· ≠ 0)

/-- the parity gate of squitters (C04) -/
def parityOK (m : Msg) : Bool :=
  let d := df m
  if d = 17 ∨ d = 18 then (syndrome (bitsOf m 1 (4 * m.length))).toNat == 0
  else if d = 11 then (syndrome (bitsOf m 1 (4 * m.length))).toNat &&& 0xFFFF80 == 0
  else true

/-- C02: which digit sequences are frames -/
def frameOf (d : Msg) : Option Msg :=
  if d.length = 14 ∨ d.length = 28 then some d
  else if d.length = 26 ∨ d.length = 40 then some (d.drop 12)
  else none

def lengthMatchesDF (m : Msg) : Bool :=
  (df m < 16 && m.length == 14) || (16 ≤ df m && m.length == 28)

def acceptDigits (d : Msg) : Option Msg :=
  match frameOf d with
  | some m => if lengthMatchesDF m && parityOK m then some m else none
  | none => none

end Sq.Spec
