/-
Specification vocabulary, written from the Mode S documents and independent of the code:
a frame is the number whose hexadecimal digits are the nibble vector; bit 1 is its most
significant bit; `field m sb eb` is the number formed by bits sb..eb.
-/
import SqModel.Model.Bits

namespace Sq.Spec

/-- every element is a hex digit -/
def AllNib (m : Msg) : Prop := ∀ x ∈ m, x < 16

/-- the frame as one number, first digit most significant -/
def natOf (m : Msg) : Nat := m.foldl (fun a x => a * 16 + x) 0

/-- bits `sb..eb` (1-based, inclusive, bit 1 first transmitted) of the frame as a number -/
def field (m : Msg) (sb eb : Nat) : Nat :=
  (natOf m / 2 ^ (4 * m.length - eb)) % 2 ^ (eb + 1 - sb)

/-- one bit of the frame -/
def bit (m : Msg) (p : Nat) : Bool := field m p p == 1

/-- bits `sb..eb` as a list, first transmitted first -/
def bitsOf (m : Msg) (sb eb : Nat) : List Bool := (List.range' sb (eb + 1 - sb)).map (bit m)

/-- downlink format: the first five bits -/
def df (m : Msg) : Nat := field m 1 5

end Sq.Spec
