/-
Airborne velocity squitter, subtypes 1 and 2 (DO-260B 2.2.3.2.6.1): east/west and north/south
components as direction bit + 10-bit magnitude (0 = no information, otherwise magnitude = field-1,
x4 for the supersonic subtype), vertical rate as sign + 9 bits in 64 ft/min units (0 = no information).
-/
import SqModel.Spec.Bits
import SqModel.Model.Fields

namespace Sq.Spec

structure VelFields where
  dew : Nat
  few : Nat
  dns : Nat
  fns : Nat
  svr : Nat
  fvr : Nat

def velFields (m : Msg) : VelFields :=
  { dew := field m 46 46, few := field m 47 56, dns := field m 57 57, fns := field m 58 67,
    svr := field m 69 69, fvr := field m 70 78 }

/-- signed east component in kt (subsonic units), `none` = no information -/
def vew (v : VelFields) : Int := if v.dew = 1 then -((v.few : Int) - 1) else (v.few : Int) - 1
def vns (v : VelFields) : Int := if v.dns = 1 then -((v.fns : Int) - 1) else (v.fns : Int) - 1

/-- (track, ground speed) for a given `atan2deg`; `k` = 1 or 4 -/
def velocitySpec (atan2deg : SignedMag → SignedMag → Nat) (v : VelFields) (k : Nat) : Option Nat × Option Nat :=
  if v.few = 0 ∨ v.fns = 0 then (none, none)
  else (some (atan2deg ⟨v.dew == 1, v.few - 1⟩ ⟨v.dns == 1, v.fns - 1⟩), some (k * Nat.sqrt ((vew v) * (vew v) + (vns v) * (vns v)).toNat))

def vrateSpec (v : VelFields) : Option Int :=
  if v.fvr = 0 then none
  else some (if v.svr = 1 then -(64 * ((v.fvr : Int) - 1)) else 64 * ((v.fvr : Int) - 1))

end Sq.Spec
