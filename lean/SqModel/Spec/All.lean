/-
Executable face of the specifications for the driver: for a frame, the values the properties
prescribe, printed as one `spec` line next to the model's own answer.
-/
import SqModel.Model.Table
import SqModel.Spec.Crc
import SqModel.Spec.Squawk

namespace Sq.Spec

def optN : Option Nat → String
  | some v => toString v
  | none => "-"

/-- what the specifications say about one frame (a nibble vector of length 14 or 28) -/
def frameSpec (m : Msg) : String :=
  let d := df m
  "spec df=" ++ toString d ++ " addr=" ++ optN (addressOf m) ++ " parity=" ++ (if parityOK m then "1" else "0")
   ++ " squawk=" ++ (if d = 5 ∨ d = 21 then toString (squawkSpec (field m 20 32)) else "-")

def hexDigitC (n : Nat) : Char := if n < 10 then Char.ofNat (48 + n) else Char.ofNat (55 + n)

/-- what C02 says about the digit sequence of a line -/
def lineSpec (digits : Msg) : String :=
  match acceptDigits digits with
  | some m => "spec accept=" ++ String.ofList (m.map hexDigitC)
  | none => "spec accept=-"

def query (_env : Env) (kind : String) (_args : List String) : String := "bad-query " ++ kind
def countrySweep : List String := []

end Sq.Spec
