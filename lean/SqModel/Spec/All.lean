/-
Executable face of the specifications for the driver: for a frame, the values the properties
prescribe, printed as one `spec` line next to the model's own answer.
-/
import SqModel.Model.Table
import SqModel.Spec.Crc
import SqModel.Spec.Squawk
import SqModel.Spec.Altitude
import SqModel.Spec.Ident
import SqModel.Spec.Velocity
import SqModel.Spec.Annex10
import SqModel.Model.Country

namespace Sq.Spec

def optN : Option Nat → String
  | some v => toString v
  | none => "-"

/-- what the specifications say about one frame (a nibble vector of length 14 or 28) -/
def optI : Option Int → String
  | some v => toString v
  | none => "-"

def frameSpec (env : Env) (m : Msg) : String :=
  let d := df m
  let tc := field m 33 37
  let st := field m 38 40
  "spec df=" ++ toString d ++ " addr=" ++ optN (addressOf m) ++ " parity=" ++ (if parityOK m then "1" else "0")
   ++ " squawk=" ++ (if d = 5 ∨ d = 21 then toString (squawkSpec (field m 20 32)) else "-")
   ++ " alt=" ++ (
     if d = 4 ∨ d = 20 then
       (if mBit (field m 20 32) = 1 then "*" else optN (altSpec13 (field m 20 32)))
     else if d = 17 ∧ 9 ≤ field m 33 37 ∧ field m 33 37 ≤ 18 then optN (altSpec12 (field m 41 52))
     else "-")
   ++ " q=" ++ (if d = 4 ∨ d = 20 then toString ((acBits12 (ac12of13 (field m 20 32))).q)
               else if d = 17 then toString ((acBits12 (field m 41 52)).q) else "-")
   ++ " callsign=" ++ (if (d = 17 ∧ 1 ≤ tc ∧ tc ≤ 4) ∨ ((d = 20 ∨ d = 21) ∧ field m 33 40 = 0x20)
                       then "\"" ++ String.ofList (callsignSpec m) ++ "\"" else "-")
   ++ " cat=" ++ (if d = 17 ∧ 1 ≤ tc ∧ tc ≤ 4 then toString tc ++ "/" ++ toString st else "-")
   ++ " wake=" ++ (match wakeSpec tc st with | some c => toString c.toNat | none => "-")
   ++ (if d = 17 ∧ tc = 19 ∧ (st = 1 ∨ st = 2) then
         let v := velFields m
         let tg := velocitySpec env.atan2deg v (if st = 2 then 4 else 1)
         " track=" ++ optN tg.1 ++ " gs=" ++ optN tg.2 ++ " vrate=" ++ optI (vrateSpec v)
           ++ " vew=" ++ toString (vew v) ++ " vns=" ++ toString (vns v)
       else " track=- gs=- vrate=-")
   ++ " ver=" ++ (if d = 17 ∧ tc = 31 then toString (field m 73 75) else "-")
   ++ " ss=" ++ (if d = 17 ∧ ((9 ≤ tc ∧ tc ≤ 18) ∨ (20 ≤ tc ∧ tc ≤ 22)) then
                   toString ((match field m 38 39 with | 0 => 'N' | 1 => 'P' | 2 => 'T' | _ => 'S').toNat) else "-")

def hexDigitC (n : Nat) : Char := if n < 10 then Char.ofNat (48 + n) else Char.ofNat (55 + n)

/-- what C02 says about the digit sequence of a line -/
def lineSpec (digits : Msg) : String :=
  match acceptDigits digits with
  | some m => "spec accept=" ++ String.ofList (m.map hexDigitC)
  | none => "spec accept=-"

def query (_env : Env) (kind : String) (_args : List String) : String := "bad-query " ++ kind
/-- run-length encode (address, code) samples taken every `step` addresses -/
def rle (step : Nat) (codes : List Nat) : List (Nat × Nat × Nat) :=
  let rec go (i : Nat) (cur : Option (Nat × Nat)) (acc : List (Nat × Nat × Nat)) : List Nat → List (Nat × Nat × Nat)
    | [] => match cur with
      | some (lo, c) => ((lo, i * step - 1, c) :: acc).reverse
      | none => acc.reverse
    | c :: rest => match cur with
      | some (lo, c0) => if c = c0 then go (i + 1) cur acc rest else go (i + 1) (some (i * step, c)) ((lo, i * step - 1, c0) :: acc) rest
      | none => go (i + 1) (some (i * step, c)) acc rest
  go 0 none [] codes

/-- the model's country code of all 2^24 addresses, run-length encoded.  The nested match looks at
    `icao >> shift` only, so it is constant on blocks of 2^(smallest shift) addresses. -/
def countrySweep : List String :=
  let minShift := (Gen.countryLevels.map (·.1)).foldl min 24
  let step := 2 ^ minShift
  let codes := (List.range (2 ^ (24 - minShift))).map fun i => countryCode (i * step)
  (rle step codes).map fun (lo, hi, c) => "country " ++ toString lo ++ " " ++ toString hi ++ " " ++ codeString c

/-- the same from the allocation table: blocks in address order, gaps unallocated -/
def annexSweep : List String :=
  let rec go (pos : Nat) (cur : Option (Nat × Nat × Nat)) (acc : List (Nat × Nat × Nat)) :
      List (Nat × Nat × Nat) → List (Nat × Nat × Nat)
    | [] => acc.reverse
    | (lo, pl, c) :: rest =>
      let hi := lo + 2 ^ (24 - pl) - 1
      let acc := if pos < lo then (pos, lo - 1, unallocated) :: acc else acc
      go (hi + 1) cur ((lo, hi, c) :: acc) rest
  let segs := go 0 none [] annex10
  let last := match segs.getLast? with | some (_, hi, _) => hi + 1 | none => 0
  let segs := if last < 2 ^ 24 then segs ++ [(last, 2 ^ 24 - 1, unallocated)] else segs
  -- merge neighbours with the same code
  let merged := segs.foldl (fun (acc : List (Nat × Nat × Nat)) s =>
      match acc with
      | (lo, hi, c) :: t => if c = s.2.2 ∧ hi + 1 = s.1 then (lo, s.2.1, c) :: t else s :: acc
      | [] => [s]) []
  merged.reverse.map fun (lo, hi, c) => "spec-country " ++ toString lo ++ " " ++ toString hi ++ " " ++ codeString c

end Sq.Spec
