/-
Mode A identity code (Annex 10 Vol. IV 3.1.2.6.7.1): the 13-bit ID field carries
C1 A1 C2 A2 C4 A4 X B1 D1 B2 D2 B4 D4; the squawk is the four octal digits A B C D.
-/
namespace Sq.Spec

/-- bit `k` (0 = last transmitted) of a 13-bit field -/
def b13 (f : Nat) (k : Nat) : Nat := (f / 2 ^ k) % 2

def squawkSpec (id13 : Nat) : Nat :=
  let c1 := b13 id13 12; let a1 := b13 id13 11; let c2 := b13 id13 10; let a2 := b13 id13 9
  let c4 := b13 id13 8;  let a4 := b13 id13 7
  let b1 := b13 id13 5;  let d1 := b13 id13 4;  let b2 := b13 id13 3;  let d2 := b13 id13 2
  let b4 := b13 id13 1;  let d4 := b13 id13 0
  1000 * (4 * a4 + 2 * a2 + a1) + 100 * (4 * b4 + 2 * b2 + b1) + 10 * (4 * c4 + 2 * c2 + c1)
    + (4 * d4 + 2 * d2 + d1)

end Sq.Spec
