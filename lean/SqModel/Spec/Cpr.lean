/-
Specification side of C08: the airborne CPR *encoding* of a position (DO-260B 2.2.3.2.3.7 /
ICAO Doc 9871 C.2.6), in exact rational arithmetic.  The decoder model (`Model/Cpr.lean`) is proved
to invert it in `Proofs/CprMath.lean`.
-/
import SqModel.Model.Cpr

namespace Sq.Spec

/-- the number of CPR bins, 2^17 -/
def nb : Rat := 131072

/-- `⌊2^17 · frac(x/d) + ½⌋`, a value in `[0, 2^17]` -/
def encRaw (d x : Rat) : Int := floorHalf (nb * (x / d - (((x / d).floor : Int) : Rat)))

/-- the 17-bit CPR field for coordinate `x` and zone size `d` -/
def cprEnc (d x : Rat) : Nat := (encRaw d x % 131072).toNat

/-- the coordinate the field stands for: the centre of the bin, in the zone of `x` -/
def encoded (d x : Rat) : Rat := d * ((((x / d).floor : Int) : Rat) + (encRaw d x : Rat) / nb)

/-- latitude zone size of an even (`i = 0`) / odd (`i = 1`) frame -/
def dlat (i : Nat) : Rat := 360 / (60 - (i : Rat))

/-- longitude zone size at a latitude whose NL value is `nl` -/
def dlon (nl : Int) (i : Nat) : Rat := 360 / ((max (nl - (i : Int)) 1 : Int) : Rat)

def encLat (i : Nat) (lat : Rat) : Nat := cprEnc (dlat i) lat

/-- the longitude field: the zone count is NL of the latitude *as encoded in the same frame* -/
def encLon (i : Nat) (lat lon : Rat) : Nat := cprEnc (dlon (nlOf (encoded (dlat i) lat)) i) lon

end Sq.Spec
