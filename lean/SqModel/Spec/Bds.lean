/-
Comm-B registers (ICAO Doc 9871, Table A-2-x), MB bit k = frame bit 32 + k.

BDS 1,7  common usage GICB capability report: MB bit 7 = 2,0; 9 = 4,0; 13 = 4,4; 16 = 5,0; 24 = 6,0; bits 29-56 reserved (zero)
BDS 4,0  selected vertical intention: 1 status | 2-13 MCP/FCU selected altitude (16 ft) | 14 status | 15-26 FMS selected altitude (16 ft)
         | 27 status | 28-39 barometric pressure setting minus 800 mb (0.1 mb) | 40-47 reserved | 48-51 mode bits | 52-53 reserved
         | 54 status | 55-56 target altitude source
BDS 5,0  track and turn: 1 status | 2 sign | 3-11 roll angle (45/256 deg) | 12 status | 13 sign | 14-23 true track (90/512 deg)
         | 24 status | 25-34 ground speed (2 kt) | 35 status | 36 sign | 37-45 track angle rate (8/256 deg/s) | 46 status | 47-56 TAS (2 kt)
BDS 6,0  heading and speed: 1 status | 2 sign | 3-12 magnetic heading (90/512 deg) | 13 status | 14-23 IAS (1 kt) | 24 status
         | 25-34 Mach (2.048/512) | 35 status | 36 sign | 37-45 barometric altitude rate (32 ft/min) | 46 status | 47 sign
         | 48-56 inertial vertical velocity (32 ft/min)
Signed fields are two's complement over sign + value bits.
-/
import SqModel.Spec.Bits

namespace Sq.Spec

/-- MB bits a..b (1-based within the 56-bit MB field) -/
def mb (m : Msg) (a b : Nat) : Nat := field m (32 + a) (32 + b)

/-- two's complement value of a sign bit and `n` value bits -/
def twos (sign value n : Nat) : Int := if sign = 1 then (value : Int) - ((2 ^ n : Nat) : Int) else (value : Int)

structure Valid40 (m : Msg) : Prop where
  s1 : mb m 1 1 = 1
  s2 : mb m 14 14 = 1
  s3 : mb m 27 27 = 1
  r1 : mb m 40 47 = 0
  r2 : mb m 52 53 = 0

structure Valid50 (m : Msg) : Prop where
  s1 : mb m 1 1 = 1
  s2 : mb m 12 12 = 1
  s3 : mb m 24 24 = 1
  s4 : mb m 35 35 = 1
  s5 : mb m 46 46 = 1

structure Valid60 (m : Msg) : Prop where
  s1 : mb m 1 1 = 1
  s2 : mb m 13 13 = 1
  s3 : mb m 24 24 = 1
  s4 : mb m 35 35 = 1
  s5 : mb m 46 46 = 1

/-- an integer shown for an exact rational `num/den` (den > 0): the floor; in particular within one
    unit of the exact value and equal to it when it is an integer -/
def ShownFloor (v : Int) (num : Int) (den : Int) : Prop := den * v ≤ num ∧ num < den * (v + 1)

end Sq.Spec
