/-
Aircraft identification (DO-260B 2.2.3.2.5, Doc 9871 BDS 2,0): eight 6-bit characters in bits
41..88; character codes 1..26 are A..Z, 48..57 are 0..9, everything else is not part of a callsign.
Emitter category: type code 1..4 and the 3-bit category; wake class letters for type code 4.
-/
import SqModel.Spec.Bits

namespace Sq.Spec

/-- the eight character codes of bits 41..88 -/
def chars48 (m : Msg) : List Nat := (List.range 8).map fun i => field m (41 + 6 * i) (46 + 6 * i)

def ia5Spec (c : Nat) : Option Char :=
  if 1 ≤ c ∧ c ≤ 26 then some (Char.ofNat (64 + c))
  else if 48 ≤ c ∧ c ≤ 57 then some (Char.ofNat c)
  else none

def callsignSpec (m : Msg) : List Char := (chars48 m).filterMap ia5Spec

/-- wake class letter of (type code, category) -/
def wakeSpec (tc ca : Nat) : Option Char :=
  if tc = 4 then
    match ca with
    | 1 => some 'L' | 2 => some 'S' | 3 => some 'M' | 4 => some 'H' | 5 => some 'J' | 7 => some 'R'
    | _ => none
  else none

end Sq.Spec
