/-
Mode S altitude code (Annex 10 Vol. IV 3.1.2.6.5.4): the 13-bit AC field carries
C1 A1 C2 A2 C4 A4 M B1 Q B2 D2 B4 D4; the 12-bit field of the airborne position squitter is the
same without M.  Q = 1: 25-ft increments, N = the remaining 11 bits, altitude 25·N − 1000 ft.
Q = 0: Gillham (Mode C) code in 100-ft increments: D2 D4 A1 A2 A4 B1 B2 B4 is a Gray code of
500-ft steps, C1 C2 C4 a reflected code of 100-ft steps (1..5), altitude 500·n500 + 100·n100 − 1300.
-/
namespace Sq.Spec

def fb (f k : Nat) : Nat := (f / 2 ^ k) % 2

/-- 12-bit layout (no M): C1 A1 C2 A2 C4 A4 B1 Q B2 D2 B4 D4, bit 11 first -/
structure AcBits where
  c1 : Nat
  a1 : Nat
  c2 : Nat
  a2 : Nat
  c4 : Nat
  a4 : Nat
  b1 : Nat
  q : Nat
  b2 : Nat
  d2 : Nat
  b4 : Nat
  d4 : Nat

def acBits12 (f : Nat) : AcBits :=
  { c1 := fb f 11, a1 := fb f 10, c2 := fb f 9, a2 := fb f 8, c4 := fb f 7, a4 := fb f 6,
    b1 := fb f 5, q := fb f 4, b2 := fb f 3, d2 := fb f 2, b4 := fb f 1, d4 := fb f 0 }

/-- drop the M bit (bit 6) of the 13-bit field -/
def ac12of13 (f : Nat) : Nat := (f / 128) * 64 + f % 64
def mBit (f : Nat) : Nat := fb f 6

/-- binary value of a Gray-coded bit list, most significant first -/
def grayToBin (bits : List Nat) : Nat :=
  (bits.foldl (fun (acc : Nat × Nat) b => let p := (acc.2 + b) % 2; (acc.1 * 2 + p, p)) (0, 0)).1

/-- Gillham decoding; `none` = illegal code (or an altitude below zero) -/
def gillham (b : AcBits) : Option Nat :=
  let n500 := grayToBin [b.d2, b.d4, b.a1, b.a2, b.a4, b.b1, b.b2, b.b4]
  let c := grayToBin [b.c1, b.c2, b.c4]       -- 0..7
  -- legal 100-ft codes: Gray value 1,2,3,4 and 7 (which stands for 5); 0, 5, 6 are illegal
  let n100 := if c = 7 then 5 else c
  if c = 0 ∨ c = 5 ∨ c = 6 then none
  else
    let n100 := if n500 % 2 = 1 then 6 - n100 else n100
    let h := 500 * n500 + 100 * n100
    if 1300 ≤ h then some (h - 1300) else none

/-- altitude of a 12-bit code (M absent) -/
def altSpec12 (f : Nat) : Option Nat :=
  let b := acBits12 f
  if b.q = 1 then
    let n := (f / 32) * 16 + f % 16
    if 1000 ≤ 25 * n then some (25 * n - 1000) else none
  else if f = 0 then none
  else gillham b

/-- altitude of a 13-bit code with M = 0 (M = 1 is unconstrained by C05) -/
def altSpec13 (f : Nat) : Option Nat := altSpec12 (ac12of13 f)

end Sq.Spec
