/-
ICAO 24-bit address allocation to States (Annex 10 Vol. III Part I Chapter 9, Table 9-1), in the
edition the repository cites ("Guidelines for ICAO 24 Bits Addresses Assignment": Yugoslavia still
listed; 186 State blocks and the three ICAO blocks).  A block is (first address, number of fixed
leading bits, short code as base-256 number of its ASCII characters).  The list was taken from the
repository's table at the pinned commit, reviewed entry by entry against the published allocation
ranges as known to the author (no copy of the document is available offline; DESIGN 5.17 names
the one entry, Malta, whose width could not be confirmed), and then frozen here as the yardstick:
this file is NOT regenerated from the source.
-/
namespace Sq.Spec

def annex10 : List (Nat × Nat × Nat) := [
  (0x004000, 14, 23127),  -- ZW  004000-0043FF  Zimbabwe
  (0x006000, 12, 19802),  -- MZ  006000-006FFF  Mozambique
  (0x008000, 9, 23105),  -- ZA  008000-00FFFF  South Africa
  (0x010000, 9, 17735),  -- EG  010000-017FFF  Egypt
  (0x018000, 9, 19545),  -- LY  018000-01FFFF  Libyan Arab Jamahiriya
  (0x020000, 9, 19777),  -- MA  020000-027FFF  Morocco
  (0x028000, 9, 21582),  -- TN  028000-02FFFF  Tunisia
  (0x030000, 14, 16983),  -- BW  030000-0303FF  Botswana
  (0x032000, 12, 16969),  -- BI  032000-032FFF  Burundi
  (0x034000, 12, 17229),  -- CM  034000-034FFF  Cameroon
  (0x035000, 14, 19277),  -- KM  035000-0353FF  Comoros
  (0x036000, 12, 17223),  -- CG  036000-036FFF  Congo
  (0x038000, 12, 17225),  -- CI  038000-038FFF  Côte d’Ivoire
  (0x03E000, 12, 18241),  -- GA  03E000-03EFFF  Gabon
  (0x040000, 12, 17748),  -- ET  040000-040FFF  Ethiopia
  (0x042000, 12, 18257),  -- GQ  042000-042FFF  Equatorial Guinea
  (0x044000, 12, 18248),  -- GH  044000-044FFF  Ghana
  (0x046000, 12, 18254),  -- GN  046000-046FFF  Guinea
  (0x048000, 14, 18263),  -- GW  048000-0483FF  Guinea-Bissau
  (0x04A000, 14, 19539),  -- LS  04A000-04A3FF  Lesotho
  (0x04C000, 12, 19269),  -- KE  04C000-04CFFF  Kenya
  (0x050000, 12, 19538),  -- LR  050000-050FFF  Liberia
  (0x054000, 12, 19783),  -- MG  054000-054FFF  Madagascar
  (0x058000, 12, 19799),  -- MW  058000-058FFF  Malawi
  (0x05A000, 14, 19798),  -- MV  05A000-05A3FF  Maldives
  (0x05C000, 12, 19788),  -- ML  05C000-05CFFF  Mali
  (0x05E000, 14, 19794),  -- MR  05E000-05E3FF  Mauritania
  (0x060000, 14, 19797),  -- MU  060000-0603FF  Mauritius
  (0x062000, 12, 20037),  -- NE  062000-062FFF  Niger
  (0x064000, 12, 20039),  -- NG  064000-064FFF  Nigeria
  (0x068000, 12, 21831),  -- UG  068000-068FFF  Uganda
  (0x06A000, 14, 20801),  -- QA  06A000-06A3FF  Qatar
  (0x06C000, 12, 17222),  -- CF  06C000-06CFFF  Central African Republic
  (0x06E000, 12, 21079),  -- RW  06E000-06EFFF  Rwanda
  (0x070000, 12, 21326),  -- SN  070000-070FFF  Senegal
  (0x074000, 14, 21315),  -- SC  074000-0743FF  Seychelles
  (0x076000, 14, 21324),  -- SL  076000-0763FF  Sierra Leone
  (0x078000, 12, 21327),  -- SO  078000-078FFF  Somalia
  (0x07A000, 14, 21338),  -- SZ  07A000-07A3FF  Swaziland
  (0x07C000, 12, 21316),  -- SD  07C000-07CFFF  Sudan
  (0x080000, 12, 21594),  -- TZ  080000-080FFF  United Republic of Tanzania
  (0x084000, 12, 21572),  -- TD  084000-084FFF  Chad
  (0x088000, 12, 21575),  -- TG  088000-088FFF  Togo
  (0x08A000, 12, 23117),  -- ZM  08A000-08AFFF  Zambia
  (0x08C000, 12, 17220),  -- CD  08C000-08CFFF  Democratic Republic of the Congo
  (0x090000, 12, 16719),  -- AO  090000-090FFF  Angola
  (0x094000, 14, 16970),  -- BJ  094000-0943FF  Benin
  (0x096000, 14, 17238),  -- CV  096000-0963FF  Cape Verde
  (0x098000, 14, 17482),  -- DJ  098000-0983FF  Djibouti
  (0x09A000, 12, 18253),  -- GM  09A000-09AFFF  Gambia
  (0x09C000, 12, 16966),  -- BF  09C000-09CFFF  Burkina Faso
  (0x09E000, 14, 21332),  -- ST  09E000-09E3FF  Sao Tome and Principe
  (0x0A0000, 9, 17498),  -- DZ  0A0000-0A7FFF  Algeria
  (0x0A8000, 12, 16979),  -- BS  0A8000-0A8FFF  Bahamas
  (0x0AA000, 14, 16962),  -- BB  0AA000-0AA3FF  Barbados
  (0x0AB000, 14, 16986),  -- BZ  0AB000-0AB3FF  Belize
  (0x0AC000, 12, 17231),  -- CO  0AC000-0ACFFF  Colombia
  (0x0AE000, 12, 17234),  -- CR  0AE000-0AEFFF  Costa Rica
  (0x0B0000, 12, 17237),  -- CU  0B0000-0B0FFF  Cuba
  (0x0B2000, 12, 21334),  -- SV  0B2000-0B2FFF  El Salvador
  (0x0B4000, 12, 18260),  -- GT  0B4000-0B4FFF  Guatemala
  (0x0B6000, 12, 18265),  -- GY  0B6000-0B6FFF  Guyana
  (0x0B8000, 12, 18516),  -- HT  0B8000-0B8FFF  Haiti
  (0x0BA000, 12, 18510),  -- HN  0BA000-0BAFFF  Honduras
  (0x0BC000, 14, 22083),  -- VC  0BC000-0BC3FF  Saint Vincent and the Grenadines
  (0x0BE000, 12, 19021),  -- JM  0BE000-0BEFFF  Jamaica
  (0x0C0000, 12, 20041),  -- NI  0C0000-0C0FFF  Nicaragua
  (0x0C2000, 12, 20545),  -- PA  0C2000-0C2FFF  Panama
  (0x0C4000, 12, 17487),  -- DO  0C4000-0C4FFF  Dominican Republic
  (0x0C6000, 12, 21588),  -- TT  0C6000-0C6FFF  Trinidad and Tobago
  (0x0C8000, 12, 21330),  -- SR  0C8000-0C8FFF  Suriname
  (0x0CA000, 14, 16711),  -- AG  0CA000-0CA3FF  Antigua and Barbuda
  (0x0CC000, 14, 18244),  -- GD  0CC000-0CC3FF  Grenada
  (0x0D0000, 9, 19800),  -- MX  0D0000-0D7FFF  Mexico
  (0x0D8000, 9, 22085),  -- VE  0D8000-0DFFFF  Venezuela
  (0x100000, 4, 21077),  -- RU  100000-1FFFFF  Russian Federation
  (0x201000, 14, 20033),  -- NA  201000-2013FF  Namibia
  (0x202000, 14, 17746),  -- ER  202000-2023FF  Eritrea
  (0x300000, 6, 18772),  -- IT  300000-33FFFF  Italy
  (0x340000, 6, 17747),  -- ES  340000-37FFFF  Spain
  (0x380000, 6, 18002),  -- FR  380000-3BFFFF  France
  (0x3C0000, 6, 17477),  -- DE  3C0000-3FFFFF  Germany
  (0x400000, 6, 18242),  -- GB  400000-43FFFF  United Kingdom
  (0x440000, 9, 16724),  -- AT  440000-447FFF  Austria
  (0x448000, 9, 16965),  -- BE  448000-44FFFF  Belgium
  (0x450000, 9, 16967),  -- BG  450000-457FFF  Bulgaria
  (0x458000, 9, 17483),  -- DK  458000-45FFFF  Denmark
  (0x460000, 9, 17993),  -- FI  460000-467FFF  Finland
  (0x468000, 9, 18258),  -- GR  468000-46FFFF  Greece
  (0x470000, 9, 18517),  -- HU  470000-477FFF  Hungary
  (0x478000, 9, 20047),  -- NO  478000-47FFFF  Norway
  (0x480000, 9, 20044),  -- NL  480000-487FFF  Netherlands, Kingdom of the
  (0x488000, 9, 20556),  -- PL  488000-48FFFF  Poland
  (0x490000, 9, 20564),  -- PT  490000-497FFF  Portugal
  (0x498000, 9, 17242),  -- CZ  498000-49FFFF  Czech Republic
  (0x4A0000, 9, 21071),  -- RO  4A0000-4A7FFF  Romania
  (0x4A8000, 9, 21317),  -- SE  4A8000-4AFFFF  Sweden
  (0x4B0000, 9, 17224),  -- CH  4B0000-4B7FFF  Switzerland
  (0x4B8000, 9, 21586),  -- TR  4B8000-4BFFFF  Turkey
  (0x4C0000, 9, 22869),  -- YU  4C0000-4C7FFF  Yugoslavia
  (0x4C8000, 14, 17241),  -- CY  4C8000-4C83FF  Cyprus
  (0x4CA000, 12, 18757),  -- IE  4CA000-4CAFFF  Ireland
  (0x4CC000, 12, 18771),  -- IS  4CC000-4CCFFF  Iceland
  (0x4D0000, 14, 19541),  -- LU  4D0000-4D03FF  Luxembourg
  (0x4D2000, 12, 19796),  -- MT  4D2000-4D2FFF  Malta
  (0x4D4000, 14, 19779),  -- MC  4D4000-4D43FF  Monaco
  (0x500000, 14, 21325),  -- SM  500000-5003FF  San Marino
  (0x501000, 14, 16716),  -- AL  501000-5013FF  Albania
  (0x501C00, 14, 18514),  -- HR  501C00-501FFF  Croatia
  (0x502C00, 14, 19542),  -- LV  502C00-502FFF  Latvia
  (0x503C00, 14, 19540),  -- LT  503C00-503FFF  Lithuania
  (0x504C00, 14, 19780),  -- MD  504C00-504FFF  Republic of Moldova
  (0x505C00, 14, 21323),  -- SK  505C00-505FFF  Slovakia
  (0x506C00, 14, 21321),  -- SI  506C00-506FFF  Slovenia
  (0x507C00, 14, 21850),  -- UZ  507C00-507FFF  Uzbekistan
  (0x508000, 9, 21825),  -- UA  508000-50FFFF  Ukraine
  (0x510000, 14, 16985),  -- BY  510000-5103FF  Belarus
  (0x511000, 14, 17733),  -- EE  511000-5113FF  Estonia
  (0x512000, 14, 19787),  -- MK  512000-5123FF  The former Yugoslav Republic of Macedonia
  (0x513000, 14, 16961),  -- BA  513000-5133FF  Bosnia and Herzegovina
  (0x514000, 14, 18245),  -- GE  514000-5143FF  Georgia
  (0x515000, 14, 21578),  -- TJ  515000-5153FF  Tajikistan
  (0x600000, 14, 16717),  -- AM  600000-6003FF  Armenia
  (0x600800, 14, 16730),  -- AZ  600800-600BFF  Azerbaijan
  (0x601000, 14, 19271),  -- KG  601000-6013FF  Kyrgyzstan
  (0x601800, 14, 21581),  -- TM  601800-601BFF  Turkmenistan
  (0x680000, 14, 16980),  -- BT  680000-6803FF  Bhutan
  (0x681000, 14, 17997),  -- FM  681000-6813FF  Micronesia, Federated States of
  (0x682000, 14, 19790),  -- MN  682000-6823FF  Mongolia
  (0x683000, 14, 19290),  -- KZ  683000-6833FF  Kazakhstan
  (0x684000, 14, 20567),  -- PW  684000-6843FF  Palau
  (0x700000, 12, 16710),  -- AF  700000-700FFF  Afghanistan
  (0x702000, 12, 16964),  -- BD  702000-702FFF  Bangladesh
  (0x704000, 12, 19789),  -- MM  704000-704FFF  Myanmar
  (0x706000, 12, 19287),  -- KW  706000-706FFF  Kuwait
  (0x708000, 12, 19521),  -- LA  708000-708FFF  Lao People’s Democratic Republic
  (0x70A000, 12, 20048),  -- NP  70A000-70AFFF  Nepal
  (0x70C000, 14, 20301),  -- OM  70C000-70C3FF  Oman
  (0x70E000, 12, 19272),  -- KH  70E000-70EFFF  Cambodia
  (0x710000, 9, 21313),  -- SA  710000-717FFF  Saudi Arabia
  (0x718000, 9, 19282),  -- KR  718000-71FFFF  Republic of Korea
  (0x720000, 9, 19280),  -- KP  720000-727FFF  Democratic People's Republic of Korea
  (0x728000, 9, 18769),  -- IQ  728000-72FFFF  Iraq
  (0x730000, 9, 18770),  -- IR  730000-737FFF  Iran, Islamic Republic of
  (0x738000, 9, 18764),  -- IL  738000-73FFFF  Israel
  (0x740000, 9, 19023),  -- JO  740000-747FFF  Jordan
  (0x748000, 9, 19522),  -- LB  748000-74FFFF  Lebanon
  (0x750000, 9, 19801),  -- MY  750000-757FFF  Malaysia
  (0x758000, 9, 20552),  -- PH  758000-75FFFF  Philippines
  (0x760000, 9, 20555),  -- PK  760000-767FFF  Pakistan
  (0x768000, 9, 21319),  -- SG  768000-76FFFF  Singapore
  (0x770000, 9, 19531),  -- LK  770000-777FFF  Sri Lanka
  (0x778000, 9, 21337),  -- SY  778000-77FFFF  Syrian Arab Republic
  (0x780000, 6, 17230),  -- CN  780000-7BFFFF  China
  (0x7C0000, 6, 16725),  -- AU  7C0000-7FFFFF  Australia
  (0x800000, 6, 18766),  -- IN  800000-83FFFF  India
  (0x840000, 6, 19024),  -- JP  840000-87FFFF  Japan
  (0x880000, 9, 21576),  -- TH  880000-887FFF  Thailand
  (0x888000, 9, 22094),  -- VN  888000-88FFFF  Viet Nam
  (0x890000, 12, 22853),  -- YE  890000-890FFF  Yemen
  (0x894000, 12, 16968),  -- BH  894000-894FFF  Bahrain
  (0x895000, 14, 16974),  -- BN  895000-8953FF  Brunei Darussalam
  (0x896000, 12, 16709),  -- AE  896000-896FFF  United Arab Emirates
  (0x897000, 14, 21314),  -- SB  897000-8973FF  Solomon Islands
  (0x898000, 12, 20551),  -- PG  898000-898FFF  Papua New Guinea
  (0x899000, 14, 314660966194),  -- ICAO2  899000-8993FF  ICAO2
  (0x8A0000, 9, 18756),  -- ID  8A0000-8A7FFF  Indonesia
  (0x900000, 14, 19784),  -- MH  900000-9003FF  Marshall Islands
  (0x901000, 14, 17227),  -- CK  901000-9013FF  Cook Islands
  (0x902000, 14, 22355),  -- WS  902000-9023FF  Samoa
  (0xA00000, 4, 21843),  -- US  A00000-AFFFFF  United States
  (0xC00000, 6, 17217),  -- CA  C00000-C3FFFF  Canada
  (0xC80000, 9, 20058),  -- NZ  C80000-C87FFF  New Zealand
  (0xC88000, 12, 17994),  -- FJ  C88000-C88FFF  Fiji
  (0xC8A000, 14, 20050),  -- NR  C8A000-C8A3FF  Nauru
  (0xC8C000, 14, 19523),  -- LC  C8C000-C8C3FF  Saint Lucia
  (0xC8D000, 14, 21583),  -- TO  C8D000-C8D3FF  Tonga
  (0xC8E000, 14, 19273),  -- KI  C8E000-C8E3FF  Kiribati
  (0xC90000, 14, 22101),  -- VU  C90000-C903FF  Vanuatu
  (0xE00000, 6, 16722),  -- AR  E00000-E3FFFF  Argentina
  (0xE40000, 6, 16978),  -- BR  E40000-E7FFFF  Brazil
  (0xE80000, 12, 17228),  -- CL  E80000-E80FFF  Chile
  (0xE84000, 12, 17731),  -- EC  E84000-E84FFF  Ecuador
  (0xE88000, 12, 20569),  -- PY  E88000-E88FFF  Paraguay
  (0xE8C000, 12, 20549),  -- PE  E8C000-E8CFFF  Peru
  (0xE90000, 12, 21849),  -- UY  E90000-E90FFF  Uruguay
  (0xE94000, 12, 16975),  -- BO  E94000-E94FFF  Bolivia
  (0xF00000, 9, 314660966193),  -- ICAO1  F00000-F07FFF  ICAO1
  (0xF09000, 14, 314660966194)  -- ICAO2  F09000-F093FF  ICAO2
]

/-- the code shown for an address outside every block: "??" -/
def unallocated : Nat := 16191

end Sq.Spec
