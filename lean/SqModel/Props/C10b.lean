/-
C10, the converse clause for BDS 6,0 and 4,0 ("a reply with every status bit set and every value field
non-zero and plausible is decoded as that register"), and the 5,0 statement with the sign bit counted as
part of the value field (the most negative value - 180 degrees of track, a full-scale left turn - is a
non-zero field).
-/
import SqModel.Props.C10

namespace Sq.C10
open Spec

/-- a 6,0 register with every status bit set, every (sign + magnitude) field non-zero, Mach <= 1.0 and vertical
    rates within +-6000 ft/min is recognised as 6,0: for every heading, including the one whose field is the
    sign bit alone (180 degrees) -/
theorem isBds60_complete (m : Msg) (L : Long m) (v : Valid60 m)
    (nz : mb m 2 12 ≠ 0 ∧ mb m 14 23 ≠ 0 ∧ mb m 25 34 ≠ 0 ∧ mb m 36 45 ≠ 0 ∧ mb m 47 56 ≠ 0)
    (hmach : mb m 25 34 ≤ 250)
    (hbaro : mb m 37 45 ≠ 0 → -6000 ≤ 32 * twos (mb m 36 36) (mb m 37 45) 9 ∧ 32 * twos (mb m 36 36) (mb m 37 45) 9 ≤ 6000)
    (hivv : mb m 48 56 ≠ 0 → -6000 ≤ 32 * twos (mb m 47 47) (mb m 48 56) 9 ∧ 32 * twos (mb m 47 47) (mb m 48 56) 9 ≤ 6000) :
    (isBds60 m).isSome = true := by
  obtain ⟨s1, s2, s3, s4, s5⟩ := v
  unfold mb at s1 s2 s3 s4 s5 nz hmach hbaro hivv
  simp only [show 32 + 1 = 33 by decide, show 32 + 2 = 34 by decide, show 32 + 12 = 44 by decide, show 32 + 13 = 45 by decide,
    show 32 + 14 = 46 by decide, show 32 + 23 = 55 by decide, show 32 + 24 = 56 by decide, show 32 + 25 = 57 by decide,
    show 32 + 34 = 66 by decide, show 32 + 35 = 67 by decide, show 32 + 36 = 68 by decide, show 32 + 37 = 69 by decide,
    show 32 + 45 = 77 by decide, show 32 + 46 = 78 by decide, show 32 + 47 = 79 by decide, show 32 + 48 = 80 by decide,
    show 32 + 56 = 88 by decide] at s1 s2 s3 s4 s5 nz hmach hbaro hivv
  obtain ⟨n1, n2, n3, n4, n5⟩ := nz
  unfold isBds60
  rw [goodflags_eq m L 33 34 44 (by omega) (by omega) (by omega) (by omega) (by omega),
    goodflags_eq m L 45 46 55 (by omega) (by omega) (by omega) (by omega) (by omega),
    goodflags_eq m L 56 57 66 (by omega) (by omega) (by omega) (by omega) (by omega),
    goodflags_eq m L 67 68 77 (by omega) (by omega) (by omega) (by omega) (by omega),
    goodflags_eq m L 78 79 88 (by omega) (by omega) (by omega) (by omega) (by omega),
    hdg60_eq m L, ias60_eq m L, mach60_eq m L, baroRate60_eq m L, ivv60_eq m L]
  simp only [s1, s2, s3, s4, s5, n1, n2, n3, n4, n5, ne_eq, not_false_eq_true, decide_true, Bool.and_self, if_true, true_and]
  have lh := field_lt m 35 44
  have li := field_lt m 46 55
  simp only [show 44 + 1 - 35 = 10 by decide, show 55 + 1 - 46 = 10 by decide] at lh li
  have fh : decide ((if field m 34 34 = 0 then field m 35 44 * 90 / 512 else field m 35 44 * 90 / 512 + 180) ≤ 360) = true := by
    simp only [decide_eq_true_eq]; split <;> omega
  have fi : decide (field m 46 55 ≤ 1023) = true := by simp only [decide_eq_true_eq]; omega
  have fm : decide (field m 57 66 ≤ 250) = true := by simpa using hmach
  simp only [fh, fi, fm, Bool.and_self, Bool.true_and]
  have tw : ∀ s v : Nat, (s = 0 ∨ s = 1) → v < 512 → (32 * twos s v 9 : Int) = if s = 0 then (32 * v : Int) else (32 * v : Int) - 16384 := by
    intro s v hs hv
    unfold twos
    rcases hs with h | h <;> subst h <;> simp <;> omega
  have lb := field_lt m 69 77
  have lv := field_lt m 80 88
  simp only [show 77 + 1 - 69 = 9 by decide, show 88 + 1 - 80 = 9 by decide] at lb lv
  have hb' : field m 69 77 ≠ 0 → (-6000 ≤ (if field m 68 68 = 0 then (32 * field m 69 77 : Int) else (32 * field m 69 77 : Int) - 16384)
      ∧ (if field m 68 68 = 0 then (32 * field m 69 77 : Int) else (32 * field m 69 77 : Int) - 16384) ≤ 6000) := by
    intro h0; have := hbaro h0; rw [tw _ _ (bit_01 m 68) lb] at this; exact this
  have hv' : field m 80 88 ≠ 0 → (-6000 ≤ (if field m 79 79 = 0 then (32 * field m 80 88 : Int) else (32 * field m 80 88 : Int) - 16384)
      ∧ (if field m 79 79 = 0 then (32 * field m 80 88 : Int) else (32 * field m 80 88 : Int) - 16384) ≤ 6000) := by
    intro h0; have := hivv h0; rw [tw _ _ (bit_01 m 79) lv] at this; exact this
  by_cases hb0 : field m 69 77 = 0 <;> by_cases hv0 : field m 80 88 = 0
  · simp [hb0, hv0]
  · have := hv' hv0; simp [hb0, hv0, this]
  · have := hb' hb0; simp [hb0, hv0, this]
  · have h1 := hb' hb0; have h2 := hv' hv0; simp [hb0, hv0, h1, h2]

/-- the 5,0 converse with the sign bit counted as part of each signed value field -/
theorem isBds50_complete_signed (m : Msg) (L : Long m) (v : Valid50 m)
    (nz : mb m 2 11 ≠ 0 ∧ mb m 13 23 ≠ 0 ∧ mb m 25 34 ≠ 0 ∧ mb m 36 45 ≠ 0 ∧ mb m 47 56 ≠ 0)
    (hroll : -50 * 256 ≤ 45 * twos (mb m 2 2) (mb m 3 11) 9 ∧ 45 * twos (mb m 2 2) (mb m 3 11) 9 < 51 * 256)
    (hgs : 2 * mb m 25 34 ≤ 600) (htas : 2 * mb m 47 56 ≤ 500)
    (hdiff : (if 2 * mb m 25 34 ≤ 2 * mb m 47 56 then 2 * mb m 47 56 - 2 * mb m 25 34 else 2 * mb m 25 34 - 2 * mb m 47 56) < 200) :
    (isBds50 m).isSome = true := by
  obtain ⟨s1, s2, s3, s4, s5⟩ := v
  unfold mb at s1 s2 s3 s4 s5 nz hroll hgs htas hdiff
  simp only [show 32 + 1 = 33 by decide, show 32 + 2 = 34 by decide, show 32 + 3 = 35 by decide, show 32 + 11 = 43 by decide,
    show 32 + 12 = 44 by decide, show 32 + 13 = 45 by decide, show 32 + 14 = 46 by decide, show 32 + 23 = 55 by decide,
    show 32 + 24 = 56 by decide, show 32 + 25 = 57 by decide, show 32 + 34 = 66 by decide, show 32 + 35 = 67 by decide,
    show 32 + 36 = 68 by decide, show 32 + 37 = 69 by decide, show 32 + 45 = 77 by decide, show 32 + 46 = 78 by decide,
    show 32 + 47 = 79 by decide, show 32 + 56 = 88 by decide] at s1 s2 s3 s4 s5 nz hroll hgs htas hdiff
  obtain ⟨n1, n2, n3, n4, n5⟩ := nz
  have g1 := n1
  have g2 := n2
  have g4 := n4
  unfold isBds50
  rw [goodflags_eq m L 33 34 43 (by omega) (by omega) (by omega) (by omega) (by omega),
    goodflags_eq m L 44 45 55 (by omega) (by omega) (by omega) (by omega) (by omega),
    goodflags_eq m L 56 57 66 (by omega) (by omega) (by omega) (by omega) (by omega),
    goodflags_eq m L 67 68 77 (by omega) (by omega) (by omega) (by omega) (by omega),
    goodflags_eq m L 78 79 88 (by omega) (by omega) (by omega) (by omega) (by omega),
    roll_eq m L, trackAngle_eq m L, tar_eq m L, gs50_eq m L, tas50_eq m L]
  simp only [s1, s2, s3, s4, s5, g1, g2, n3, g4, n5, ne_eq, not_false_eq_true, decide_true, Bool.and_self, Bool.not_true,
    Bool.or_self, if_true, Bool.false_eq_true, if_false, Option.filter_some]
  have lroll := field_lt m 35 43
  have ltrk := field_lt m 46 55
  have lrate := field_lt m 69 77
  simp only [show 43 + 1 - 35 = 9 by decide, show 55 + 1 - 46 = 10 by decide, show 77 + 1 - 69 = 9 by decide] at lroll ltrk lrate
  have froll : decide (-50 ≤ (if field m 34 34 = 0 then Int.tdiv ((field m 35 43 : Int) * 45) 256 else Int.tdiv ((field m 35 43 : Int) * 45) 256 - 90)
      ∧ (if field m 34 34 = 0 then Int.tdiv ((field m 35 43 : Int) * 45) 256 else Int.tdiv ((field m 35 43 : Int) * 45) 256 - 90) ≤ 50) = true := by
    have sf := roll_shown (field m 35 43) lroll (field m 34 34) (bit_01 m 34)
    unfold ShownFloor at sf
    simp only [decide_eq_true_eq]
    omega
  have ftrk : decide ((if field m 45 45 = 0 then field m 46 55 * 90 / 512 else field m 46 55 * 90 / 512 + 180) ≤ 360) = true := by
    simp only [decide_eq_true_eq]; split <;> omega
  have frate : decide (-16 ≤ (if field m 68 68 = 0 then ((field m 69 77 / 32 : Nat) : Int) else ((field m 69 77 / 32 : Nat) : Int) - 16)
      ∧ (if field m 68 68 = 0 then ((field m 69 77 / 32 : Nat) : Int) else ((field m 69 77 / 32 : Nat) : Int) - 16) ≤ 16) = true := by
    simp only [decide_eq_true_eq]; split <;> omega
  have fgs : decide (2 * field m 57 66 ≤ 600) = true := by simpa using hgs
  have ftas : decide (2 * field m 79 88 ≤ 500) = true := by simpa using htas
  simp only [froll, ftrk, frate, fgs, ftas, if_true, hdiff]
  rfl


/-- a 4,0 register with its three status bits set, the reserved bits zero and the three value fields non-zero
    is recognised as 4,0 (the value filters - altitude <= 65530 ft, 800..1210 mb - hold for every field value) -/
theorem isBds40_complete (m : Msg) (L : Long m) (v : Valid40 m)
    (nz : mb m 2 13 ≠ 0 ∧ mb m 15 26 ≠ 0 ∧ mb m 28 39 ≠ 0) : (isBds40 m).isSome = true := by
  obtain ⟨s1, s2, s3, r1, r2⟩ := v
  unfold mb at s1 s2 s3 r1 r2 nz
  simp only [show 32 + 1 = 33 by decide, show 32 + 2 = 34 by decide, show 32 + 13 = 45 by decide, show 32 + 14 = 46 by decide,
    show 32 + 15 = 47 by decide, show 32 + 26 = 58 by decide, show 32 + 27 = 59 by decide, show 32 + 28 = 60 by decide,
    show 32 + 39 = 71 by decide, show 32 + 40 = 72 by decide, show 32 + 47 = 79 by decide, show 32 + 52 = 84 by decide,
    show 32 + 53 = 85 by decide] at s1 s2 s3 r1 r2 nz
  obtain ⟨n1, n2, n3⟩ := nz
  unfold isBds40
  rw [goodflags_eq m L 33 34 45 (by omega) (by omega) (by omega) (by omega) (by omega),
    goodflags_eq m L 46 47 58 (by omega) (by omega) (by omega) (by omega) (by omega),
    goodflags_eq m L 59 60 71 (by omega) (by omega) (by omega) (by omega) (by omega),
    goodflags_eq m L 33 72 79 (by omega) (by omega) (by omega) (by omega) (by omega),
    goodflags_eq m L 33 84 85 (by omega) (by omega) (by omega) (by omega) (by omega),
    mcp_eq m L, fms_eq m L, baro_eq m L]
  have l1 := field_lt m 34 45
  simp only [show 45 + 1 - 34 = 12 by decide] at l1
  have f1 : (fun x => decide (x ≤ 65530)) (16 * field m 34 45) = true := by simp; omega
  simp [s1, s2, s3, r1, r2, n1, n2, n3, Option.filter_some, f1]

theorem view60_stage45 (m : Msg) (st : Plane × Bool) : view60 (stage45 m st) = view60 st.1 := by
  unfold stage45; (repeat' split) <;> rfl

theorem view60_stage44 (m : Msg) (st : Plane × Bool) : view60 (stage44 m st).1 = view60 st.1 := by
  unfold stage44; (repeat' split) <;> rfl

/-- once gating allows it and nothing earlier in the fixed precedence (1,7 - 4,0 - 5,0) matches, a valid 6,0
    register is decoded: the row shows exactly the register's heading, IAS, Mach and vertical rate (the
    barometric rate when present, otherwise the inertial one) -/
theorem register_complete_60 (p : Plane) (m : Msg) (r : Bool) (t : Bds60)
    (hcode : bdsCode m = (0, 0)) (h17 : isBds17 m = none)
    (h40 : ¬ ((r = true ∨ p.cap1.bds40 = true) ∧ (isBds40 m).isSome))
    (h50 : ¬ ((r = true ∨ p.cap1.bds50 = true) ∧ (isBds50 m).isSome))
    (hgate : r = true ∨ p.cap1.bds60 = true) (h60 : isBds60 m = some t) :
    view60 (p.updateFromModeS m r) = (t.heading, t.ias, t.mach, if t.baroRate.isSome then t.baroRate else t.ivv) := by
  unfold Plane.updateFromModeS
  rw [view60_stage45, view60_stage44]
  have hs17 : stage17 m (stageCoded m p) = (stageCoded m p) := by unfold stage17; simp [h17]
  have hsc : (stageCoded m p) = (p, true) := by
    unfold stageCoded; simp [hcode]
  rw [hs17, hsc]
  have hs40 : stage40 m r (p, true) = (p, true) := by
    unfold stage40
    simp only [Bool.true_and]
    split
    · rename_i hg
      simp only [Bool.or_eq_true] at hg
      cases hv : isBds40 m with
      | none => rfl
      | some v => exact absurd ⟨hg, by rw [hv]; rfl⟩ h40
    · rfl
  rw [hs40]
  have hs50 : stage50 m r (p, true) = (p, true) := by
    unfold stage50
    simp only [Bool.true_and]
    split
    · rename_i hg
      simp only [Bool.or_eq_true] at hg
      cases hv : isBds50 m with
      | none => rfl
      | some v => exact absurd ⟨hg, by rw [hv]; rfl⟩ h50
    · rfl
  rw [hs50]
  unfold stage60
  have hg : (true && (r || p.cap1.bds60)) = true := by simpa using hgate
  simp only [hg, if_true, h60]
  rfl

/-- once gating allows it (and the reply is not a 1,7 report), a valid 4,0 register is decoded -/
theorem register_complete_40 (p : Plane) (m : Msg) (r : Bool) (v : Bds40)
    (hcode : bdsCode m = (0, 0)) (h17 : isBds17 m = none)
    (hgate : r = true ∨ p.cap1.bds40 = true) (h40 : isBds40 m = some v) :
    view40 (p.updateFromModeS m r) = (v.mcp.or v.fms, v.baro, sourceMark v.source) := by
  unfold Plane.updateFromModeS
  rw [view40_stage45, view40_stage44, view40_stage60, view40_stage50]
  have hs17 : stage17 m (stageCoded m p) = (stageCoded m p) := by unfold stage17; simp [h17]
  have hsc : (stageCoded m p) = (p, true) := by
    unfold stageCoded; simp [hcode]
  rw [hs17, hsc]
  unfold stage40
  have hg : (true && (r || p.cap1.bds40)) = true := by simpa using hgate
  simp only [hg, if_true, h40]
  rfl

-- non-vacuity: a 6,0 register whose heading field is the sign bit alone (180 degrees), Mach 0.78, -640 ft/min
example : (isBds60 (hexDigits ("A0001838C009F52D20540A000000".toList.map Char.toNat))).isSome = true := by decide +kernel
example : ((isBds60 (hexDigits ("A0001838C009F52D20540A000000".toList.map Char.toNat))).bind (·.heading)) = some 180 := by decide +kernel

end Sq.C10
