/-
C17 — Registration country follows the ICAO address allocation for all 2^24 addresses.

The country code shown for an aircraft is determined solely by its 24-bit address according to
the ICAO Annex 10 allocation blocks: an address inside a block shows that block's code, no
address belongs to two blocks, and an address outside every block shows '??'.
-/
import SqModel.Proofs.Country
import SqModel.Proofs.Frame

namespace Sq.C17
open Spec

/-- no address belongs to two blocks -/
theorem blocks_disjoint (a : Nat) (b₁ b₂ : Block) (h₁ : b₁ ∈ annex10) (h₂ : b₂ ∈ annex10)
    (i₁ : inBlock a b₁ = true) (i₂ : inBlock a b₂ = true) : b₁ = b₂ :=
  unique_block annex10_separated h₁ h₂ i₁ i₂

/-- an address inside a block of the allocation table shows that block's code - for every address -/
theorem inside_block (a : Nat) (b : Block) (hb : b ∈ annex10) (hin : inBlock a b = true) :
    countryCode a = b.2.2 := by
  unfold countryCode
  rw [nestedMatch_eq_lookup a _ shifts_ok]
  apply lookup_of_mem _ a _ b ((mem_blocks_iff b).mpr hb) hin
  intro a' x y hx hy ix iy
  exact unique_block annex10_separated ((mem_blocks_iff x).mp hx) ((mem_blocks_iff y).mp hy) ix iy

/-- an address outside every block shows "??" -/
theorem outside_blocks (a : Nat) (h : ∀ b ∈ annex10, inBlock a b = false) : countryCode a = unallocated := by
  unfold countryCode
  rw [nestedMatch_eq_lookup a _ shifts_ok, ← default_is_unallocated]
  exact lookup_of_not_mem a _ (fun b hb => h b ((mem_blocks_iff b).mp hb))

/-- the property in one statement, for all addresses -/
theorem country_by_allocation (a : Nat) :
    (∃ b ∈ annex10, inBlock a b = true ∧ countryCode a = b.2.2)
    ∨ ((∀ b ∈ annex10, inBlock a b = false) ∧ countryCode a = unallocated) := by
  by_cases h : ∃ b ∈ annex10, inBlock a b = true
  · obtain ⟨b, hb, hin⟩ := h
    exact Or.inl ⟨b, hb, hin, inside_block a b hb hin⟩
  · right
    have h' : ∀ b ∈ annex10, inBlock a b = false := by
      intro b hb
      cases hi : inBlock a b with
      | false => rfl
      | true => exact absurd ⟨b, hb, hi⟩ h
    exact ⟨h', outside_blocks a h'⟩

/-- the row's country is that of its address: set at creation ... -/
theorem reg_at_creation (env : Env) (now : Int) (dl : DFRec) (icao : Nat) :
    (Plane.fromDownlink env now dl icao).reg = codeString (countryCode icao) := by
  have e : ∀ q : Plane, (eraseExt q).reg = q.reg := fun _ => rfl
  unfold Plane.fromDownlink Plane.updateFromDownlink
  cases dl with
  | srt v => simp only [Plane.amendSrt]; split <;> rfl
  | ext v => simp only; rw [← e, eraseExt_amendExt, e]; rfl
  | mds i => rfl

/-- ... and never assigned again, on either update path -/
theorem reg_preserved (env : Env) (cfg : DecodeCfg) (now : Int) (p : Plane) (dl : DFRec) (m : Msg) (df : Nat) :
    (applyFrame env cfg now p dl m df).reg = p.reg := by
  exact applyFrame_preserves Plane.reg (fun _ => rfl) (fun _ => rfl) env cfg now p dl m df

-- the examples of the property statement: A00000-AFFFFF US, 4CA000-4CAFFF IE, 3C0000-3FFFFF DE
example : (0xA00000, 4, 21843) ∈ annex10 ∧ (0x4CA000, 12, 18757) ∈ annex10 ∧ (0x3C0000, 6, 17477) ∈ annex10 := by
  decide +kernel
example : countryCode 0xA12345 = 21843 ∧ countryCode 0x4CA86E = 18757 ∧ countryCode 0x3C6444 = 17477
    ∧ countryCode 0x000001 = unallocated := by decide +kernel

end Sq.C17
