/-
C19, the -O clause: the observer's coordinates influence the distance column and nothing else - per frame on
either update path, and over whole reader runs (same rows, same order, same sweeps).
-/
import SqModel.Proofs.Formats
import SqModel.Proofs.Expiry

namespace Sq.C19

def eraseDist (p : Plane) : Plane := { p with distance := none }

theorem fromMessage_obs (a : SignedMag → SignedMag → Nat) (d₁ d₂ : Option (Rat → Rat → Rat)) (m : Msg) :
    DFRec.fromMessage ⟨a, d₁⟩ m = DFRec.fromMessage ⟨a, d₂⟩ m := rfl

theorem storeCpr_obs (a : SignedMag → SignedMag → Nat) (d₁ d₂ : Option (Rat → Rat → Rat)) (p : Plane) (x y : Option Rat) (tc : Nat) (c : Option (Nat × Nat × Nat)) :
    eraseDist (({ p with distance := x } : Plane).storeCpr ⟨a, d₁⟩ tc c) = eraseDist (({ p with distance := y } : Plane).storeCpr ⟨a, d₂⟩ tc c) := by
  cases c with
  | none => rfl
  | some c =>
    simp only [Plane.storeCpr, Plane.updatePosition]
    have e : (({ p with distance := x } : Plane).setCprSlot tc c).posDecode tc c.1 = (({ p with distance := y } : Plane).setCprSlot tc c).posDecode tc c.1 := rfl
    rw [e]
    cases (({ p with distance := y } : Plane).setCprSlot tc c).posDecode tc c.1 with
    | none => rfl
    | some ll => rfl


theorem eq_of_eraseDist (q₁ q₂ : Plane) (h : eraseDist q₁ = eraseDist q₂) : q₂ = { q₁ with distance := q₂.distance } := by
  cases q₁; cases q₂
  simp only [eraseDist, Plane.mk.injEq] at h
  simp only [Plane.mk.injEq]
  simp_all

theorem storeCpr_deq (a : SignedMag → SignedMag → Nat) (d₁ d₂ : Option (Rat → Rat → Rat)) (q₁ q₂ : Plane)
    (h : eraseDist q₁ = eraseDist q₂) (tc : Nat) (c : Option (Nat × Nat × Nat)) :
    eraseDist (q₁.storeCpr ⟨a, d₁⟩ tc c) = eraseDist (q₂.storeCpr ⟨a, d₂⟩ tc c) := by
  rw [eq_of_eraseDist q₁ q₂ h]
  exact storeCpr_obs a d₁ d₂ q₁ q₁.distance q₂.distance tc c

theorem amendExt_obs (a : SignedMag → SignedMag → Nat) (d₁ d₂ : Option (Rat → Rat → Rat)) (p : Plane) (x y : Option Rat) (dl : Ext) :
    eraseDist (Plane.amendExt ⟨a, d₁⟩ { p with distance := x } dl) = eraseDist (Plane.amendExt ⟨a, d₂⟩ { p with distance := y } dl) := by
  unfold Plane.amendExt
  by_cases hi : dl.icao.isSome = true
  · simp only [hi, if_true]
    unfold Plane.amendExtTc
    simp only
    by_cases t14 : 1 ≤ dl.messageType.1 ∧ dl.messageType.1 ≤ 4
    · simp only [t14, and_self, if_true]; rfl
    · by_cases t58 : 5 ≤ dl.messageType.1 ∧ dl.messageType.1 ≤ 8
      · simp only [t14, t58, and_self, if_true, if_false, Plane.amendExt58]
        apply storeCpr_deq; rfl
      · by_cases t918 : 9 ≤ dl.messageType.1 ∧ dl.messageType.1 ≤ 18
        · simp only [t14, t58, t918, and_self, if_true, if_false, Plane.amendExt918]
          apply storeCpr_deq; rfl
        · by_cases t19 : dl.messageType.1 = 19
          · simp only [t14, t58, t918, t19, if_true, if_false]; rfl
          · by_cases t2022 : 20 ≤ dl.messageType.1 ∧ dl.messageType.1 ≤ 22
            · simp only [t14, t58, t918, t19, t2022, and_self, if_true, if_false]; rfl
            · by_cases t31 : dl.messageType.1 = 31
              · simp only [t14, t58, t918, t19, t2022, t31, if_true, if_false]; rfl
              · simp only [t14, t58, t918, t19, t2022, t31, if_false]; rfl
  · simp only [hi]; rfl


def setD (d : Option Rat) (st : Plane × Bool) : Plane × Bool := ({ st.1 with distance := d }, st.2)

theorem stageCoded_dist (q : Plane) (d : Option Rat) (m : Msg) :
    stageCoded m { q with distance := d } = setD d (stageCoded m q) := by
  unfold stageCoded setD
  simp only
  by_cases h2 : bdsCode m = (2, 0) <;> by_cases h3 : bdsCode m = (3, 0) <;> simp only [h2, h3, if_true, if_false] <;> rfl

theorem stage17_dist (st : Plane × Bool) (d : Option Rat) (m : Msg) : stage17 m (setD d st) = setD d (stage17 m st) := by
  unfold stage17 setD
  simp only
  split
  · split <;> rfl
  · rfl

theorem stage40_dist (st : Plane × Bool) (d : Option Rat) (m : Msg) (r : Bool) : stage40 m r (setD d st) = setD d (stage40 m r st) := by
  unfold stage40 setD
  simp only
  split
  · split <;> rfl
  · rfl

theorem stage50_dist (st : Plane × Bool) (d : Option Rat) (m : Msg) (r : Bool) : stage50 m r (setD d st) = setD d (stage50 m r st) := by
  unfold stage50 setD
  simp only
  split
  · split <;> rfl
  · rfl

theorem stage60_dist (st : Plane × Bool) (d : Option Rat) (m : Msg) (r : Bool) : stage60 m r (setD d st) = setD d (stage60 m r st) := by
  unfold stage60 setD
  simp only
  split
  · split <;> rfl
  · rfl

theorem stage44_dist (st : Plane × Bool) (d : Option Rat) (m : Msg) : stage44 m (setD d st) = setD d (stage44 m st) := by
  unfold stage44 setD
  simp only
  split
  · split <;> rfl
  · rfl

theorem stage45_dist (st : Plane × Bool) (d : Option Rat) (m : Msg) : stage45 m (setD d st) = { stage45 m st with distance := d } := by
  unfold stage45 setD
  simp only
  split
  · split <;> rfl
  · rfl

theorem updateFromModeS_dist (q : Plane) (d : Option Rat) (m : Msg) (r : Bool) :
    Plane.updateFromModeS { q with distance := d } m r = { q.updateFromModeS m r with distance := d } := by
  unfold Plane.updateFromModeS
  rw [stageCoded_dist, stage17_dist, stage40_dist, stage50_dist, stage60_dist, stage44_dist, stage45_dist]

/-- rows that agree except possibly on the distance -/
def DEq (q₁ q₂ : Plane) : Prop := eraseDist q₁ = eraseDist q₂

theorem DEq_of_setDist (q : Plane) (x y : Option Rat) : DEq { q with distance := x } { q with distance := y } := rfl

/-- a function that commutes with setting the distance preserves agreement-up-to-distance -/
theorem DEq_of_comm (G : Plane → Plane) (hG : ∀ q d, G { q with distance := d } = { G q with distance := d })
    (q₁ q₂ : Plane) (h : DEq q₁ q₂) : DEq (G q₁) (G q₂) := by
  have e := eq_of_eraseDist q₁ q₂ h
  show eraseDist (G q₁) = eraseDist (G q₂)
  rw [e, hG q₁ q₂.distance]
  rfl

theorem amendSrt_obs (q₁ q₂ : Plane) (dl : Srt) (h : DEq q₁ q₂) : DEq (q₁.amendSrt dl) (q₂.amendSrt dl) := by
  apply DEq_of_comm (fun q => q.amendSrt dl) _ q₁ q₂ h
  intro q d; simp only [Plane.amendSrt]; split <;> rfl

theorem amendExt_deq (a : SignedMag → SignedMag → Nat) (d₁ d₂ : Option (Rat → Rat → Rat)) (q₁ q₂ : Plane) (dl : Ext)
    (h : DEq q₁ q₂) : DEq (Plane.amendExt ⟨a, d₁⟩ q₁ dl) (Plane.amendExt ⟨a, d₂⟩ q₂ dl) := by
  unfold DEq; rw [eq_of_eraseDist q₁ q₂ h]
  exact amendExt_obs a d₁ d₂ q₁ q₁.distance q₂.distance dl

theorem updateFromDownlink_obs (a : SignedMag → SignedMag → Nat) (d₁ d₂ : Option (Rat → Rat → Rat)) (now : Int)
    (q₁ q₂ : Plane) (dl : DFRec) (h : DEq q₁ q₂) :
    DEq (q₁.updateFromDownlink ⟨a, d₁⟩ now dl) (q₂.updateFromDownlink ⟨a, d₂⟩ now dl) := by
  have hts : DEq { q₁ with timestamp := now } { q₂ with timestamp := now } :=
    DEq_of_comm (fun q => { q with timestamp := now }) (fun _ _ => rfl) q₁ q₂ h
  cases dl with
  | srt v => exact amendSrt_obs _ _ v hts
  | ext v => exact amendExt_deq a d₁ d₂ _ _ v hts
  | mds icao => exact DEq_of_comm (fun q => { q with timestamp := now, icao := icao.getD q.icao }) (fun _ _ => rfl) q₁ q₂ h

theorem updateExtTc_obs (a : SignedMag → SignedMag → Nat) (d₁ d₂ : Option (Rat → Rat → Rat)) (q₁ q₂ : Plane)
    (m : Msg) (df tc st : Nat) (h : DEq q₁ q₂) :
    DEq (Plane.updateExtTc ⟨a, d₁⟩ q₁ m df tc st) (Plane.updateExtTc ⟨a, d₂⟩ q₂ m df tc st) := by
  unfold Plane.updateExtTc
  by_cases t14 : 1 ≤ tc ∧ tc ≤ 4
  · simp only [t14, and_self, if_true]
    exact DEq_of_comm (fun q => q.updateExt14 m tc st) (fun _ _ => rfl) q₁ q₂ h
  · by_cases t58 : 5 ≤ tc ∧ tc ≤ 8
    · simp only [t14, t58, and_self, if_true, if_false, Plane.updateExt58]
      apply storeCpr_deq
      exact DEq_of_comm (fun q => { q with groundMovement := groundMovement m, altitude := none, altitudeSource := chSup0,
                                           track := groundTrack m, trackSource := ' ' }) (fun _ _ => rfl) q₁ q₂ h
    · by_cases t918 : 9 ≤ tc ∧ tc ≤ 18
      · simp only [t14, t58, t918, and_self, if_true, if_false, Plane.updateExt918]
        apply storeCpr_deq
        exact DEq_of_comm (fun q => { q with altitude := Sq.altitude m df, altitudeSource := ' ',
                                             surveillanceStatus := Sq.surveillanceStatus m }) (fun _ _ => rfl) q₁ q₂ h
      · by_cases t19 : tc = 19
        · simp only [t14, t58, t918, t19, if_true, if_false]
          have e : ∀ q : Plane, Plane.updateExt19 ⟨a, d₁⟩ q m st = Plane.updateExt19 ⟨a, d₂⟩ q m st := fun _ => rfl
          rw [e]
          exact DEq_of_comm (fun q => Plane.updateExt19 ⟨a, d₂⟩ q m st) (fun _ _ => rfl) q₁ q₂ h
        · by_cases t2022 : 20 ≤ tc ∧ tc ≤ 22
          · simp only [t14, t58, t918, t19, t2022, and_self, if_true, if_false]
            exact DEq_of_comm (fun q => q.updateExt2022 m) (fun _ _ => rfl) q₁ q₂ h
          · by_cases t31 : tc = 31
            · simp only [t14, t58, t918, t19, t2022, t31, if_true, if_false]
              exact DEq_of_comm (fun q => q.updateExt31 m) (fun _ _ => rfl) q₁ q₂ h
            · simp only [t14, t58, t918, t19, t2022, t31, if_false]; exact h

theorem update_obs (a : SignedMag → SignedMag → Nat) (d₁ d₂ : Option (Rat → Rat → Rat)) (now : Int)
    (q₁ q₂ : Plane) (m : Msg) (df : Nat) (r : Bool) (h : DEq q₁ q₂) :
    DEq (q₁.update ⟨a, d₁⟩ now m df r) (q₂.update ⟨a, d₂⟩ now m df r) := by
  unfold Plane.update
  simp only
  have h1 : DEq (Plane.updateFromBcast { q₁ with timestamp := now, lastDf := df } m df)
                (Plane.updateFromBcast { q₂ with timestamp := now, lastDf := df } m df) :=
    DEq_of_comm (fun q => Plane.updateFromBcast { q with timestamp := now, lastDf := df } m df) (fun _ _ => rfl) q₁ q₂ h
  generalize Plane.updateFromBcast { q₁ with timestamp := now, lastDf := df } m df = b₁ at h1 ⊢
  generalize Plane.updateFromBcast { q₂ with timestamp := now, lastDf := df } m df = b₂ at h1 ⊢
  have h2 : DEq (if df = 17 ∨ df = 18 then b₁.updateFromExt ⟨a, d₁⟩ m df else b₁)
                (if df = 17 ∨ df = 18 then b₂.updateFromExt ⟨a, d₂⟩ m df else b₂) := by
    split
    · unfold Plane.updateFromExt
      apply updateExtTc_obs
      exact DEq_of_comm (fun q => { q with lastTypeCode := (getMessageType m).1 }) (fun _ _ => rfl) b₁ b₂ h1
    · exact h1
  generalize (if df = 17 ∨ df = 18 then b₁.updateFromExt ⟨a, d₁⟩ m df else b₁) = c₁ at h2 ⊢
  generalize (if df = 17 ∨ df = 18 then b₂.updateFromExt ⟨a, d₂⟩ m df else b₂) = c₂ at h2 ⊢
  have hg : commBGate c₁ df r = commBGate c₂ df r := by
    have h2' : eraseDist c₁ = eraseDist c₂ := h2
    have t : (eraseDist c₁).cap0 = (eraseDist c₂).cap0 := by rw [h2']
    have : c₁.cap0 = c₂.cap0 := t
    unfold commBGate; rw [this]
  rw [hg]
  split
  · exact DEq_of_comm (fun q => q.updateFromModeS m r) (fun q d => updateFromModeS_dist q d m r) c₁ c₂ h2
  · exact h2

/-- **Only the distance column depends on the observer.**  Two runs whose environments differ in the
    observer only (same `atan2`), applied to rows that agree except possibly on the distance, yield rows that
    agree except possibly on the distance - on either update path. -/
theorem applyFrame_obs (a : SignedMag → SignedMag → Nat) (d₁ d₂ : Option (Rat → Rat → Rat)) (cfg : DecodeCfg) (now : Int)
    (q₁ q₂ : Plane) (dl : DFRec) (m : Msg) (df : Nat) (h : DEq q₁ q₂) :
    DEq (applyFrame ⟨a, d₁⟩ cfg now q₁ dl m df) (applyFrame ⟨a, d₂⟩ cfg now q₂ dl m df) := by
  unfold applyFrame
  split
  · exact updateFromDownlink_obs a d₁ d₂ now q₁ q₂ dl h
  · exact update_obs a d₁ d₂ now q₁ q₂ m df cfg.relaxed h

/-- the frame record handed to the table does not depend on the observer either -/
theorem fromMessage_obs_any (a : SignedMag → SignedMag → Nat) (d₁ d₂ : Option (Rat → Rat → Rat)) (m : Msg) :
    DFRec.fromMessage ⟨a, d₁⟩ m = DFRec.fromMessage ⟨a, d₂⟩ m := rfl

/-- a table with the distance column blanked -/
def dview (t : Table) : List (Nat × Plane) := t.map fun kp => (kp.1, eraseDist kp.2)

theorem dview_any (t₁ t₂ : Table) (h : dview t₁ = dview t₂) (k : Nat) :
    t₁.any (fun kp => kp.1 == k) = t₂.any (fun kp => kp.1 == k) := by
  induction t₁ generalizing t₂ with
  | nil => cases t₂ with
    | nil => rfl
    | cons y ys => simp [dview] at h
  | cons x xs ih =>
    cases t₂ with
    | nil => simp [dview] at h
    | cons y ys =>
      simp only [dview, List.map_cons, List.cons.injEq, Prod.mk.injEq] at h
      simp only [List.any_cons, h.1.1, ih ys h.2]

theorem dview_map (a : SignedMag → SignedMag → Nat) (d₁ d₂ : Option (Rat → Rat → Rat)) (cfg : DecodeCfg) (now : Int)
    (t₁ t₂ : Table) (dl : DFRec) (m : Msg) (df icao : Nat) (h : dview t₁ = dview t₂) :
    dview (t₁.map fun kp => if kp.1 == icao then (kp.1, applyFrame ⟨a, d₁⟩ cfg now kp.2 dl m df) else kp)
      = dview (t₂.map fun kp => if kp.1 == icao then (kp.1, applyFrame ⟨a, d₂⟩ cfg now kp.2 dl m df) else kp) := by
  induction t₁ generalizing t₂ with
  | nil => cases t₂ with
    | nil => rfl
    | cons y ys => simp [dview] at h
  | cons x xs ih =>
    cases t₂ with
    | nil => simp [dview] at h
    | cons y ys =>
      simp only [dview, List.map_cons, List.cons.injEq, Prod.mk.injEq] at h
      have := ih ys h.2
      simp only [dview, List.map_cons, List.cons.injEq] at this ⊢
      refine ⟨?_, this⟩
      rw [h.1.1]
      by_cases hk : (y.1 == icao) = true
      · simp only [hk, if_true, Prod.mk.injEq, true_and]
        exact applyFrame_obs a d₁ d₂ cfg now x.2 y.2 dl m df h.1.2
      · simp only [hk]
        exact Prod.ext h.1.1 h.1.2

theorem dview_updateAircraft (a : SignedMag → SignedMag → Nat) (d₁ d₂ : Option (Rat → Rat → Rat)) (cfg : DecodeCfg) (now : Int)
    (t₁ t₂ : Table) (dl : DFRec) (m : Msg) (df icao : Nat) (h : dview t₁ = dview t₂) :
    dview (updateAircraft ⟨a, d₁⟩ cfg now t₁ dl m df icao) = dview (updateAircraft ⟨a, d₂⟩ cfg now t₂ dl m df icao) := by
  unfold updateAircraft
  rw [dview_any t₁ t₂ h icao]
  split
  · exact dview_map a d₁ d₂ cfg now t₁ t₂ dl m df icao h
  · have h' : List.map (fun kp => (kp.1, eraseDist kp.2)) t₁ = List.map (fun kp => (kp.1, eraseDist kp.2)) t₂ := h
    have hn : eraseDist (Plane.fromDownlink ⟨a, d₁⟩ now dl icao) = eraseDist (Plane.fromDownlink ⟨a, d₂⟩ now dl icao) :=
      updateFromDownlink_obs a d₁ d₂ now _ _ dl rfl
    simp only [dview, List.map_append, h', List.map_cons, List.map_nil, hn]

theorem dview_filter (t₁ t₂ : Table) (h : dview t₁ = dview t₂) (f : Int → Bool) :
    dview (t₁.filter fun kp => f kp.2.timestamp) = dview (t₂.filter fun kp => f kp.2.timestamp) := by
  induction t₁ generalizing t₂ with
  | nil => cases t₂ with
    | nil => rfl
    | cons y ys => simp [dview] at h
  | cons x xs ih =>
    cases t₂ with
    | nil => simp [dview] at h
    | cons y ys =>
      simp only [dview, List.map_cons, List.cons.injEq, Prod.mk.injEq] at h
      have ht : x.2.timestamp = y.2.timestamp := by
        have t : (eraseDist x.2).timestamp = (eraseDist y.2).timestamp := by rw [h.1.2]
        exact t
      have := ih ys h.2
      simp only [List.filter_cons, ht]
      split
      · simp only [dview, List.map_cons, List.cons.injEq, Prod.mk.injEq] at this ⊢
        exact ⟨h.1, this⟩
      · exact this

/-- **-O changes the distance column only, over a whole reader run.**  Same options, same lines, environments
    that differ in the observer only: the two tables have the same rows in the same order and agree on every
    field except possibly the distance; the sweep counters and the DF counters are equal. -/
theorem observer_only_distance_run (a : SignedMag → SignedMag → Nat) (d₁ d₂ : Option (Rat → Rat → Rat))
    (cfg : DecodeCfg) (now : Int) (lines : List (List Nat)) (s₁ s₂ : RState)
    (h : dview s₁.table = dview s₂.table) (hc : s₁.cleanupCount = s₂.cleanupCount) :
    dview (lines.foldl (stepLine ⟨a, d₁⟩ cfg now) s₁).table = dview (lines.foldl (stepLine ⟨a, d₂⟩ cfg now) s₂).table
    ∧ (lines.foldl (stepLine ⟨a, d₁⟩ cfg now) s₁).cleanupCount = (lines.foldl (stepLine ⟨a, d₂⟩ cfg now) s₂).cleanupCount := by
  induction lines generalizing s₁ s₂ with
  | nil => exact ⟨h, hc⟩
  | cons l ls ih =>
    simp only [List.foldl_cons]
    apply ih
    · cases ha : acceptedFrame cfg l with
      | none =>
        rw [stepLine_not_accepted _ cfg now s₁ l ha, stepLine_not_accepted _ cfg now s₂ l ha]; exact h
      | some r =>
        obtain ⟨m, df, icao⟩ := r
        obtain ⟨dl, hdl, e₁⟩ := stepLine_accepted ⟨a, d₁⟩ cfg now s₁ l m df icao ha
        obtain ⟨dl', hdl', e₂⟩ := stepLine_accepted ⟨a, d₂⟩ cfg now s₂ l m df icao ha
        rw [fromMessage_obs_any a d₁ d₂ m, hdl'] at hdl
        simp only [Option.some.injEq] at hdl; subst hdl
        have hu := dview_updateAircraft a d₁ d₂ cfg now s₁.table s₂.table dl' m df icao h
        rw [e₁, e₂, hc]
        split
        · exact dview_filter _ _ hu (fun ts => decide (numSeconds now ts < cfg.deleteAfter))
        · exact hu
    · cases ha : acceptedFrame cfg l with
      | none =>
        rw [cleanupCount_not_accepted _ cfg now s₁ l ha, cleanupCount_not_accepted _ cfg now s₂ l ha]; exact hc
      | some r =>
        obtain ⟨m, df, icao⟩ := r
        rw [cleanupCount_accepted _ cfg now s₁ l m df icao ha, cleanupCount_accepted _ cfg now s₂ l m df icao ha, hc]

theorem observer_only_distance (a : SignedMag → SignedMag → Nat) (d₁ d₂ : Option (Rat → Rat → Rat))
    (cfg : DecodeCfg) (now : Int) (t : Table) (lines : List (List Nat)) :
    dview (runSegment ⟨a, d₁⟩ cfg now t lines).table = dview (runSegment ⟨a, d₂⟩ cfg now t lines).table :=
  (observer_only_distance_run a d₁ d₂ cfg now lines { table := t } { table := t } rfl rfl).1

end Sq.C19
