/-
C15 — Every refresh lists each aircraft once, ordered by the requested key.

Every refresh lists each tracked aircraft exactly once, and the rows are sorted by the last key
letter of -o (s squawk ascending, a/A altitude ascending/descending, v/V vertical rate, N/S
latitude, W/E longitude, d/D distance, c category) so that this key is monotone down the table;
with no recognised key the rows are in ascending address order.
-/
import SqModel.Model.Render
import SqModel.Proofs.Table

namespace Sq.C15

/-- a comparison that is total and transitive -/
structure GoodLe (le : Plane → Plane → Bool) : Prop where
  total : ∀ a b, le a b = true ∨ le b a = true
  trans : ∀ a b c, le a b = true → le b c = true → le a c = true

theorem optNatLe_total (a b : Option Nat) : optNatLe a b = true ∨ optNatLe b a = true := by
  cases a <;> cases b <;> simp [optNatLe]; omega
theorem optNatLe_trans (a b c : Option Nat) : optNatLe a b = true → optNatLe b c = true → optNatLe a c = true := by
  cases a <;> cases b <;> cases c <;> simp [optNatLe]; omega

/-- a comparison through a key into a linear order -/
theorem goodLe_of_key {α : Type} (k : Plane → α) (r : α → α → Bool)
    (ht : ∀ x y, r x y = true ∨ r y x = true) (htr : ∀ x y z, r x y = true → r y z = true → r x z = true) :
    GoodLe (fun p q => r (k p) (k q)) :=
  ⟨fun a b => ht _ _, fun a b c => htr _ _ _⟩

theorem ratLe_total (x y : Rat) : decide (x ≤ y) = true ∨ decide (y ≤ x) = true := by
  rcases Rat.le_total (a := x) (b := y) with h | h <;> simp [h]
theorem ratLe_trans (x y z : Rat) : decide (x ≤ y) = true → decide (y ≤ z) = true → decide (x ≤ z) = true := by
  simp; exact Rat.le_trans
theorem intLe_total (x y : Int) : decide (x ≤ y) = true ∨ decide (y ≤ x) = true := by
  rcases Int.le_total x y with h | h <;> simp [h]
theorem intLe_trans (x y z : Int) : decide (x ≤ y) = true → decide (y ≤ z) = true → decide (x ≤ z) = true := by
  simp; exact Int.le_trans
theorem natLe_total (x y : Nat) : decide (x ≤ y) = true ∨ decide (y ≤ x) = true := by
  rcases Nat.le_total x y with h | h <;> simp [h]
theorem natLe_trans (x y z : Nat) : decide (x ≤ y) = true → decide (y ≤ z) = true → decide (x ≤ z) = true := by
  simp; exact Nat.le_trans

/-- every recognised key letter compares by a total, transitive order -/
theorem sortKey_good (c : Char) (le : Plane → Plane → Bool) (rev : Bool) (h : sortKey c = some (le, rev)) :
    GoodLe le := by
  by_cases h0 : c = 'a'
  · subst h0
    simp only [sortKey, Char.reduceEq, if_true, if_false, Option.some.injEq, Prod.mk.injEq] at h
    obtain ⟨rfl, _⟩ := h
    exact goodLe_of_key (·.altitude) optNatLe optNatLe_total optNatLe_trans
  by_cases h1 : c = 'A'
  · subst h1
    simp only [sortKey, Char.reduceEq, if_true, if_false, Option.some.injEq, Prod.mk.injEq] at h
    obtain ⟨rfl, _⟩ := h
    exact goodLe_of_key (·.altitude) optNatLe optNatLe_total optNatLe_trans
  by_cases h2 : c = 'c'
  · subst h2
    simp only [sortKey, Char.reduceEq, if_true, if_false, Option.some.injEq, Prod.mk.injEq] at h
    obtain ⟨rfl, _⟩ := h
    exact ⟨fun a b => by simp; omega, fun a b c => by simp; omega⟩
  by_cases h3 : c = 'C'
  · subst h3
    simp only [sortKey, Char.reduceEq, if_true, if_false, Option.some.injEq, Prod.mk.injEq] at h
    obtain ⟨rfl, _⟩ := h
    exact goodLe_of_key (fun p => (p.category.1 <<< 1) ||| p.category.2) (fun x y => decide (y ≤ x)) (fun x y => natLe_total y x) (fun x y z h1 h2 => natLe_trans z y x h2 h1)
  by_cases h4 : c = 'd'
  · subst h4
    simp only [sortKey, Char.reduceEq, if_true, if_false, Option.some.injEq, Prod.mk.injEq] at h
    obtain ⟨rfl, _⟩ := h
    exact goodLe_of_key (fun p => p.distance.getD 0) (fun x y => decide (x ≤ y)) ratLe_total ratLe_trans
  by_cases h5 : c = 'D'
  · subst h5
    simp only [sortKey, Char.reduceEq, if_true, if_false, Option.some.injEq, Prod.mk.injEq] at h
    obtain ⟨rfl, _⟩ := h
    exact goodLe_of_key (fun p => p.distance.getD 0) (fun x y => decide (x ≤ y)) ratLe_total ratLe_trans
  by_cases h6 : c = 'N'
  · subst h6
    simp only [sortKey, Char.reduceEq, if_true, if_false, Option.some.injEq, Prod.mk.injEq] at h
    obtain ⟨rfl, _⟩ := h
    exact goodLe_of_key (·.lat) (fun x y => decide (x ≤ y)) ratLe_total ratLe_trans
  by_cases h7 : c = 'S'
  · subst h7
    simp only [sortKey, Char.reduceEq, if_true, if_false, Option.some.injEq, Prod.mk.injEq] at h
    obtain ⟨rfl, _⟩ := h
    exact goodLe_of_key (·.lat) (fun x y => decide (y ≤ x)) (fun x y => ratLe_total y x) (fun x y z h1 h2 => ratLe_trans z y x h2 h1)
  by_cases h8 : c = 'W'
  · subst h8
    simp only [sortKey, Char.reduceEq, if_true, if_false, Option.some.injEq, Prod.mk.injEq] at h
    obtain ⟨rfl, _⟩ := h
    exact goodLe_of_key (·.lon) (fun x y => decide (x ≤ y)) ratLe_total ratLe_trans
  by_cases h9 : c = 'E'
  · subst h9
    simp only [sortKey, Char.reduceEq, if_true, if_false, Option.some.injEq, Prod.mk.injEq] at h
    obtain ⟨rfl, _⟩ := h
    exact goodLe_of_key (·.lon) (fun x y => decide (y ≤ x)) (fun x y => ratLe_total y x) (fun x y z h1 h2 => ratLe_trans z y x h2 h1)
  by_cases h10 : c = 's'
  · subst h10
    simp only [sortKey, Char.reduceEq, if_true, if_false, Option.some.injEq, Prod.mk.injEq] at h
    obtain ⟨rfl, _⟩ := h
    exact goodLe_of_key (·.squawk) optNatLe optNatLe_total optNatLe_trans
  by_cases h11 : c = 'V'
  · subst h11
    simp only [sortKey, Char.reduceEq, if_true, if_false, Option.some.injEq, Prod.mk.injEq] at h
    obtain ⟨rfl, _⟩ := h
    exact goodLe_of_key (fun p => p.vrate.getD 0) (fun x y => decide (y ≤ x)) (fun x y => intLe_total y x) (fun x y z h1 h2 => intLe_trans z y x h2 h1)
  by_cases h12 : c = 'v'
  · subst h12
    simp only [sortKey, Char.reduceEq, if_true, if_false, Option.some.injEq, Prod.mk.injEq] at h
    obtain ⟨rfl, _⟩ := h
    exact goodLe_of_key (fun p => p.vrate.getD 0) (fun x y => decide (x ≤ y)) intLe_total intLe_trans
  simp [sortKey, h0, h1, h2, h3, h4, h5, h6, h7, h8, h9, h10, h11, h12] at h

/-- applying one key letter permutes the rows -/
theorem applySortLetter_perm (rows : List (Nat × Plane)) (c : Char) : (applySortLetter rows c).Perm rows := by
  unfold applySortLetter
  split
  · split
    · exact (List.reverse_perm _).trans (List.mergeSort_perm _ _)
    · exact List.mergeSort_perm _ _
  · exact List.Perm.refl _

/-- each tracked aircraft is printed exactly once: the printed rows are a permutation of the table -/
theorem print_perm (orderBy : List Char) (t : Table) : (sortPrinted orderBy t).Perm t := by
  unfold sortPrinted
  have : ∀ (rows : List (Nat × Plane)), (orderBy.foldl applySortLetter rows).Perm rows := by
    induction orderBy with
    | nil => intro rows; exact List.Perm.refl _
    | cons c cs ih => intro rows; exact (ih _).trans (applySortLetter_perm rows c)
  exact (this _).trans (List.mergeSort_perm _ _)

theorem print_keys (orderBy : List Char) (t : Table) (h : t.keys.Nodup) :
    ((sortPrinted orderBy t).map (·.1)).Perm t.keys ∧ ((sortPrinted orderBy t).map (·.1)).Nodup := by
  have hp := (print_perm orderBy t).map (·.1)
  exact ⟨hp, hp.nodup_iff.mpr h⟩

/-- after the sort for one recognised letter the key is monotone down the table (in the letter's
    direction: ascending for a, c, d, N, W, s, v; descending for A, D and by construction S, E, V, C) -/
theorem letter_sorted (rows : List (Nat × Plane)) (c : Char) (le : Plane → Plane → Bool) (rev : Bool)
    (h : sortKey c = some (le, rev)) :
    (applySortLetter rows c).Pairwise (fun a b => if rev then le b.2 a.2 = true else le a.2 b.2 = true) := by
  have g := sortKey_good c le rev h
  unfold applySortLetter
  rw [h]
  simp only
  have hs : (rows.mergeSort fun a b => le a.2 b.2).Pairwise (fun a b => le a.2 b.2 = true) :=
    List.pairwise_mergeSort (fun a b c => g.trans a.2 b.2 c.2) (fun a b => by simpa using g.total a.2 b.2) rows
  cases rev with
  | false => simpa using hs
  | true => simp only [if_true]; exact List.pairwise_reverse.mpr hs

/-- letters that are not key letters change nothing -/
theorem unrecognised_noop (rows : List (Nat × Plane)) (cs : List Char) (h : ∀ c ∈ cs, sortKey c = none) :
    cs.foldl applySortLetter rows = rows := by
  induction cs generalizing rows with
  | nil => rfl
  | cons c cs ih =>
    simp only [List.foldl_cons]
    have : applySortLetter rows c = rows := by unfold applySortLetter; rw [h c (by simp)]
    rw [this]; exact ih rows (fun x hx => h x (by simp [hx]))

/-- the printed rows are sorted by the last recognised key letter of -o -/
theorem sorted_by_last_key (pre post : List Char) (c : Char) (le : Plane → Plane → Bool) (rev : Bool) (t : Table)
    (h : sortKey c = some (le, rev)) (hpost : ∀ x ∈ post, sortKey x = none) :
    (sortPrinted (pre ++ c :: post) t).Pairwise (fun a b => if rev then le b.2 a.2 = true else le a.2 b.2 = true) := by
  unfold sortPrinted
  rw [List.foldl_append, List.foldl_cons, unrecognised_noop _ post hpost]
  exact letter_sorted _ c le rev h

/-- with no recognised key letter the rows are in ascending address order -/
theorem no_key_address_order (orderBy : List Char) (t : Table) (h : ∀ c ∈ orderBy, sortKey c = none) :
    (sortPrinted orderBy t).Pairwise (fun a b => a.1 ≤ b.1) := by
  unfold sortPrinted
  rw [unrecognised_noop _ orderBy h]
  have := List.pairwise_mergeSort (le := fun (a b : Nat × Plane) => decide (a.1 ≤ b.1))
    (fun a b c => by simp; exact Nat.le_trans) (fun a b => by simp; exact Nat.le_total a.1 b.1) t
  simpa using this

-- the key letters of the property statement are recognised, in the direction it gives
example : (sortKey 's').isSome ∧ (sortKey 'a').isSome ∧ (sortKey 'A').isSome ∧ (sortKey 'v').isSome
    ∧ (sortKey 'V').isSome ∧ (sortKey 'N').isSome ∧ (sortKey 'S').isSome ∧ (sortKey 'W').isSome
    ∧ (sortKey 'E').isSome ∧ (sortKey 'd').isSome ∧ (sortKey 'D').isSome ∧ (sortKey 'c').isSome
    ∧ (sortKey 'x').isNone := by decide

end Sq.C15
