/-
C18 — TCP feed interruptions never stop decoding or lose the table.

With a TCP source, a refused connection, a connection closed by the peer or reset in the middle of
a line never terminates the decoder: it keeps retrying (pausing about 5 s after a failed attempt)
until a connection succeeds and then resumes decoding.  Aircraft learned before the interruption
are still in the table afterwards (subject to normal expiry), and a partial last line of the
dropped connection is treated like any other malformed line.

PARTIAL: the theorems are about the loop's logic over an environment trace.  That `TcpStream::connect`,
`BufReader` and `sleep` behave as the trace says (a refused connect returns `Err` promptly, a reset
surfaces as a read error, EOF ends the iterator) is validated by a scripted loopback peer, not proved.
-/
import SqModel.Model.Tcp
import SqModel.Proofs.Reader
import SqModel.Proofs.Expiry

namespace Sq.C18

/-- the retry loop has no way out: it is a bare `loop` without `break`, `return` or `?`, and the line
    loop inside `read_lines` has no early exit either (extracted from the source on every run) -/
theorem loop_never_exits :
    Gen.tcpIsLoop = true ∧ Gen.tcpHasBreak = false ∧ Gen.tcpHasReturn = false ∧ Gen.tcpHasQuestionMark = false
    ∧ Gen.readLinesEarlyExits = 0 := by decide

/-- the pause after a refused connection is 5 seconds -/
theorem pause_is_5s : Gen.tcpSleepAfterRefusal = 5 := by decide

/-- the loop is defined for every trace, and runs trace by trace -/
theorem tcpRun_append (env : Env) (cfg : DecodeCfg) (now : Int) (t : Table) (es fs : List ConnEvent) :
    tcpRun env cfg now t (es ++ fs)
      = ((tcpRun env cfg now (tcpRun env cfg now t es).1 fs).1,
         (tcpRun env cfg now t es).2 ++ (tcpRun env cfg now (tcpRun env cfg now t es).1 fs).2) := by
  induction es generalizing t with
  | nil => simp [tcpRun]
  | cons e es ih =>
    simp only [List.cons_append, tcpRun]
    rw [ih]
    simp [List.append_assoc]

/-- a refused connection changes nothing in the table and costs exactly one pause -/
theorem refuse_keeps_table (env : Env) (cfg : DecodeCfg) (now : Int) (t : Table) :
    tcpStep env cfg now t .refuse = (t, [.sleep 5]) := rfl

/-- any number of refusals: the table is untouched, one pause per refusal, no reads -/
theorem refusals (env : Env) (cfg : DecodeCfg) (now : Int) (t : Table) (k : Nat) :
    tcpRun env cfg now t (List.replicate k .refuse) = (t, List.replicate k (.sleep 5)) := by
  induction k with
  | zero => rfl
  | succ k ih =>
    simp only [List.replicate_succ, tcpRun, refuse_keeps_table, ih]
    rfl

/-- resuming: after any sequence of faults, a connection that succeeds is decoded by the ordinary
    line loop on the table as the faults left it -/
theorem resumes (env : Env) (cfg : DecodeCfg) (now : Int) (t : Table) (faults : List ConnEvent)
    (bytes : List Nat) (c : CloseKind) :
    (tcpRun env cfg now t (faults ++ [.accept bytes c])).1
      = (runSegment env cfg now (tcpRun env cfg now t faults).1 (linesOf bytes c)).table := by
  rw [tcpRun_append]
  simp [tcpRun, tcpStep]

/-- a connection that delivers no accepted line (closed at once, junk bytes, a partial line) leaves
    the table exactly as it was -/
theorem useless_connection_keeps_table (env : Env) (cfg : DecodeCfg) (now : Int) (t : Table)
    (bytes : List Nat) (c : CloseKind) (h : ∀ l ∈ linesOf bytes c, isAccepted cfg l = false) :
    (tcpStep env cfg now t (.accept bytes c)).1 = t := by
  unfold tcpStep
  simp only
  rw [runSegment_filter]
  have : (linesOf bytes c).filter (isAccepted cfg) = [] := by
    rw [List.filter_eq_nil_iff]; intro l hl; simp [h l hl]
  rw [this]; rfl

/-- aircraft learned before an interruption are still there afterwards unless expired: a row heard
    fewer than delete_after seconds ago survives every line of every later connection -/
theorem keeps_rows_across_connection (env : Env) (cfg : DecodeCfg) (now : Int) (t : Table)
    (lines : List (List Nat)) (a : Nat) (p : Plane) (hnd : t.keys.Nodup) (hp : Table.lookup t a = some p)
    (hage : numSeconds now p.timestamp < cfg.deleteAfter) (hclock : p.timestamp ≤ now) :
    ∃ q, Table.lookup (runSegment env cfg now t lines).table a = some q
      ∧ numSeconds now q.timestamp < cfg.deleteAfter ∧ q.timestamp ≤ now := by
  unfold runSegment
  generalize hs : ({ table := t } : RState) = s
  have hs1 : s.table.keys.Nodup := by rw [← hs]; exact hnd
  have hs2 : Table.lookup s.table a = some p := by rw [← hs]; exact hp
  clear hs hnd hp
  induction lines generalizing s p with
  | nil => exact ⟨p, hs2, hage, hclock⟩
  | cons l ls ih =>
    simp only [List.foldl_cons]
    have hnd' := nodup_stepLine env cfg now s l hs1
    cases hf : acceptedFrame cfg l with
    | none =>
      rw [stepLine_not_accepted env cfg now s l hf] at hnd' ⊢
      exact ih p hage hclock s hs1 hs2
    | some x =>
      obtain ⟨m, df, icao⟩ := x
      by_cases ha : a = icao
      · subst ha
        have hpos : 0 < cfg.deleteAfter := by
          have : 0 ≤ numSeconds now p.timestamp := by unfold numSeconds; exact Int.tdiv_nonneg (by omega) (by decide)
          omega
        obtain ⟨q, hq, hts⟩ := own_row_after env cfg now s l m df a hf hs1 hpos
        have hq0 : numSeconds now q.timestamp = 0 := by rw [hts]; unfold numSeconds; simp
        exact ih q (by rw [hq0]; exact hpos) (by rw [hts]; exact Int.le_refl _) _ hnd' hq
      · obtain ⟨dl, _, ht⟩ := stepLine_accepted env cfg now s l m df icao hf
        have hother := lookup_updateAircraft_other env cfg now s.table dl m df icao a ha
        have hq : Table.lookup (stepLine env cfg now s l).table a = some p := by
          rw [ht]
          split
          · rw [lookup_filter _ _ a (nodup_updateAircraft env cfg now s.table dl m df icao hs1), hother, hs2]
            simp [hage]
          · rw [hother, hs2]
        exact ih p hage hclock _ hnd' hq

/-- a partial last line (no newline before the peer closed) is handed to the same line loop as any
    other line, so C13 applies to it; after a reset it is dropped altogether -/
theorem partial_line_is_a_line (a b : List Nat) (ha : 10 ∉ a) (hb : 10 ∉ b) (hne : b ≠ []) :
    linesOf (a ++ 10 :: b) .eof = [a, b] := by
  unfold linesOf
  simp only
  rw [splitLines_cons_line a b ha]
  congr 1
  -- the tail without newline is one line
  unfold splitLines
  have : ∀ (bs cur : List Nat), 10 ∉ bs → splitLines.go cur [] bs =
      if (bs.reverse ++ cur).isEmpty then [] else [(bs.reverse ++ cur).reverse] := by
    intro bs
    induction bs with
    | nil => intro cur _; simp [splitLines.go]
    | cons x xs ih =>
      intro cur h
      have hx : x ≠ 10 := fun e => h (by simp [e])
      simp only [splitLines.go, hx, if_false]
      rw [ih (x :: cur) (fun e => h (by simp [e]))]
      simp
  rw [this b [] hb]
  cases b with
  | nil => exact absurd rfl hne
  | cons x xs => simp

end Sq.C18
