/-
C19, lifted to whole reader runs: -U (and -R, -c) do not change what a history of valid
DF4/5/11/17 frames leaves in the table, as far as the listed parameters, the last-contact times and
the set and order of rows are concerned.
-/
import SqModel.Props.C19
import SqModel.Proofs.Expiry

namespace Sq.C19

/-- what C19 compares of a table: the rows in order, each reduced to its address and the listed parameters -/
def tview (t : Table) : List (Nat × UView) := t.map fun kp => (kp.1, uview kp.2)

/-- a line the -U clause speaks about: not accepted at all, or an accepted DF4 (carrying an altitude),
    DF5, DF11 or DF17 frame -/
def UValid (cfg : DecodeCfg) (line : List Nat) : Prop :=
  match acceptedFrame cfg line with
  | none => True
  | some (m, df, _) => (df = 4 ∨ df = 5 ∨ df = 11 ∨ df = 17) ∧ (df = 4 → (altitude m 4).isSome)

theorem tview_any (t₁ t₂ : Table) (h : tview t₁ = tview t₂) (a : Nat) :
    t₁.any (fun kp => kp.1 == a) = t₂.any (fun kp => kp.1 == a) := by
  induction t₁ generalizing t₂ with
  | nil => cases t₂ with
    | nil => rfl
    | cons y ys => simp [tview] at h
  | cons x xs ih =>
    cases t₂ with
    | nil => simp [tview] at h
    | cons y ys =>
      simp only [tview, List.map_cons, List.cons.injEq, Prod.mk.injEq] at h
      simp only [List.any_cons, h.1.1, ih ys h.2]

theorem tview_map (env : Env) (cfg₁ cfg₂ : DecodeCfg) (now : Int) (t₁ t₂ : Table) (m : Msg) (df icao : Nat)
    (dl : DFRec) (hdf : getDownlinkFormat m = some df) (hdl : DFRec.fromMessage env m = some dl)
    (hicao : (getIcao m df).isSome) (hfmt : df = 4 ∨ df = 5 ∨ df = 11 ∨ df = 17)
    (hvalid : df = 4 → (altitude m 4).isSome) (h : tview t₁ = tview t₂) :
    tview (t₁.map fun kp => if kp.1 == icao then (kp.1, applyFrame env cfg₁ now kp.2 dl m df) else kp)
      = tview (t₂.map fun kp => if kp.1 == icao then (kp.1, applyFrame env cfg₂ now kp.2 dl m df) else kp) := by
  induction t₁ generalizing t₂ with
  | nil => cases t₂ with
    | nil => rfl
    | cons y ys => simp [tview] at h
  | cons x xs ih =>
    cases t₂ with
    | nil => simp [tview] at h
    | cons y ys =>
      simp only [tview, List.map_cons, List.cons.injEq, Prod.mk.injEq] at h
      have := ih ys h.2
      simp only [tview, List.map_cons, List.cons.injEq] at this ⊢
      refine ⟨?_, this⟩
      rw [h.1.1]
      by_cases hk : (y.1 == icao) = true
      · simp only [hk, if_true, Prod.mk.injEq, true_and]
        exact U_neutral_step env cfg₁ cfg₂ now x.2 y.2 m df dl hdf hdl hicao hfmt hvalid h.1.2
      · simp only [hk]
        exact Prod.ext h.1.1 h.1.2

theorem tview_updateAircraft (env : Env) (cfg₁ cfg₂ : DecodeCfg) (now : Int) (t₁ t₂ : Table) (m : Msg) (df icao : Nat)
    (dl : DFRec) (hdf : getDownlinkFormat m = some df) (hdl : DFRec.fromMessage env m = some dl)
    (hicao : (getIcao m df).isSome) (hfmt : df = 4 ∨ df = 5 ∨ df = 11 ∨ df = 17)
    (hvalid : df = 4 → (altitude m 4).isSome) (h : tview t₁ = tview t₂) :
    tview (updateAircraft env cfg₁ now t₁ dl m df icao) = tview (updateAircraft env cfg₂ now t₂ dl m df icao) := by
  unfold updateAircraft
  rw [tview_any t₁ t₂ h icao]
  split
  · exact tview_map env cfg₁ cfg₂ now t₁ t₂ m df icao dl hdf hdl hicao hfmt hvalid h
  · have h' : List.map (fun kp => (kp.1, uview kp.2)) t₁ = List.map (fun kp => (kp.1, uview kp.2)) t₂ := h
    simp only [tview, List.map_append, h']

theorem tview_filter (t₁ t₂ : Table) (h : tview t₁ = tview t₂) (f : Int → Bool) :
    tview (t₁.filter fun kp => f kp.2.timestamp) = tview (t₂.filter fun kp => f kp.2.timestamp) := by
  induction t₁ generalizing t₂ with
  | nil => cases t₂ with
    | nil => rfl
    | cons y ys => simp [tview] at h
  | cons x xs ih =>
    cases t₂ with
    | nil => simp [tview] at h
    | cons y ys =>
      simp only [tview, List.map_cons, List.cons.injEq, Prod.mk.injEq] at h
      have ht : x.2.timestamp = y.2.timestamp := congrArg UView.timestamp h.1.2
      have := ih ys h.2
      simp only [List.filter_cons, ht]
      split
      · simp only [tview, List.map_cons, List.cons.injEq, Prod.mk.injEq] at this ⊢
        exact ⟨h.1, this⟩
      · exact this

/-- **-U is decode-neutral over a whole reader run.**  Two option sets that differ in -U, -R and -c only,
    started on tables that agree on the listed parameters, agree on them - rows, order, last-contact
    times included - after any history of lines each of which is either not accepted or a valid
    DF4/5/11/17 frame; the sweep counters stay equal as well. -/
theorem U_neutral_run (env : Env) (cfg₁ cfg₂ : DecodeCfg) (now : Int)
    (hf : cfg₁.filter = cfg₂.filter) (hd : cfg₁.deleteAfter = cfg₂.deleteAfter)
    (lines : List (List Nat)) (hl : ∀ l ∈ lines, UValid cfg₁ l) (s₁ s₂ : RState)
    (h : tview s₁.table = tview s₂.table) (hc : s₁.cleanupCount = s₂.cleanupCount) :
    tview (lines.foldl (stepLine env cfg₁ now) s₁).table = tview (lines.foldl (stepLine env cfg₂ now) s₂).table
    ∧ (lines.foldl (stepLine env cfg₁ now) s₁).cleanupCount = (lines.foldl (stepLine env cfg₂ now) s₂).cleanupCount := by
  induction lines generalizing s₁ s₂ with
  | nil => exact ⟨h, hc⟩
  | cons l ls ih =>
    simp only [List.foldl_cons]
    have hv := hl l (List.mem_cons_self ..)
    have hacc : acceptedFrame cfg₂ l = acceptedFrame cfg₁ l := by
      unfold acceptedFrame passesFilter; rw [hf]
    apply ih (fun x hx => hl x (List.mem_cons_of_mem _ hx))
    · cases ha : acceptedFrame cfg₁ l with
      | none =>
        rw [stepLine_not_accepted env cfg₁ now s₁ l ha, stepLine_not_accepted env cfg₂ now s₂ l (hacc ▸ ha)]; exact h
      | some r =>
        obtain ⟨m, df, icao⟩ := r
        unfold UValid at hv; rw [ha] at hv
        obtain ⟨_, hdf, hic, _⟩ := acceptedFrame_df cfg₁ l m df icao ha
        obtain ⟨dl, hdl, e₁⟩ := stepLine_accepted env cfg₁ now s₁ l m df icao ha
        obtain ⟨dl', hdl', e₂⟩ := stepLine_accepted env cfg₂ now s₂ l m df icao (hacc ▸ ha)
        rw [hdl] at hdl'; simp only [Option.some.injEq] at hdl'; subst hdl'
        have hu := tview_updateAircraft env cfg₁ cfg₂ now s₁.table s₂.table m df icao dl hdf hdl (by rw [hic]; rfl) hv.1 hv.2 h
        rw [e₁, e₂, hc, hd]
        split
        · exact tview_filter _ _ hu (fun ts => decide (numSeconds now ts < cfg₂.deleteAfter))
        · exact hu
    · cases ha : acceptedFrame cfg₁ l with
      | none =>
        rw [cleanupCount_not_accepted env cfg₁ now s₁ l ha, cleanupCount_not_accepted env cfg₂ now s₂ l (hacc ▸ ha)]; exact hc
      | some r =>
        obtain ⟨m, df, icao⟩ := r
        rw [cleanupCount_accepted env cfg₁ now s₁ l m df icao ha, cleanupCount_accepted env cfg₂ now s₂ l m df icao (hacc ▸ ha), hc]

/-- the statement for `read_lines` itself: same starting table, fresh counters -/
theorem U_neutral_segment (env : Env) (cfg₁ cfg₂ : DecodeCfg) (now : Int)
    (hf : cfg₁.filter = cfg₂.filter) (hd : cfg₁.deleteAfter = cfg₂.deleteAfter)
    (t : Table) (lines : List (List Nat)) (hl : ∀ l ∈ lines, UValid cfg₁ l) :
    tview (runSegment env cfg₁ now t lines).table = tview (runSegment env cfg₂ now t lines).table :=
  (U_neutral_run env cfg₁ cfg₂ now hf hd lines hl { table := t } { table := t } rfl rfl).1

end Sq.C19
