/-
C12 — Rows live exactly as long as the aircraft is being heard.

An aircraft from which any accepted frame arrived fewer than delete_after whole seconds ago is
always in the table, and its last-contact age restarts at 0 with every accepted frame of any
format under any option set.  An aircraft silent for delete_after seconds or more is removed at
the next sweep, which happens after at most 12 further accepted frames from any aircraft; a later
frame from it starts a fresh row that remembers nothing.  Hence the table never holds more rows
than addresses heard within the last delete_after seconds plus the last 12 frames.

Time is an explicit clock `now` (milliseconds); ages are whole seconds as `num_seconds()` gives them.
-/
import SqModel.Proofs.Expiry

namespace Sq.C12

/-- every accepted frame - any format, either update path, any options - restarts the
    last-contact age of an existing row at 0 -/
theorem contact_refreshes (env : Env) (cfg : DecodeCfg) (now : Int) (p : Plane) (dl : DFRec) (m : Msg) (df : Nat) :
    (applyFrame env cfg now p dl m df).timestamp = now ∧
    numSeconds now (applyFrame env cfg now p dl m df).timestamp = 0 := by
  have h := applyFrame_timestamp env cfg now p dl m df
  refine ⟨h, ?_⟩
  rw [h]; unfold numSeconds; simp

/-- ... and so does the frame that creates the row -/
theorem contact_at_creation (env : Env) (now : Int) (dl : DFRec) (icao : Nat) :
    (Plane.fromDownlink env now dl icao).timestamp = now := fromDownlink_timestamp env now dl icao

/-- after an accepted line the aircraft it came from is in the table with age 0 (delete_after > 0) -/
theorem heard_is_present (env : Env) (cfg : DecodeCfg) (now : Int) (s : RState) (line : List Nat)
    (m : Msg) (df icao : Nat) (h : acceptedFrame cfg line = some (m, df, icao)) (hnd : s.table.keys.Nodup)
    (hpos : 0 < cfg.deleteAfter) :
    ∃ q, Table.lookup (stepLine env cfg now s line).table icao = some q ∧ q.timestamp = now :=
  own_row_after env cfg now s line m df icao h hnd hpos

/-- an aircraft heard fewer than delete_after whole seconds ago survives every step -/
theorem never_removed_while_heard (env : Env) (cfg : DecodeCfg) (now : Int) (s : RState) (line : List Nat)
    (a : Nat) (p : Plane) (hnd : s.table.keys.Nodup) (hp : Table.lookup s.table a = some p)
    (hage : numSeconds now p.timestamp < cfg.deleteAfter) (hclock : p.timestamp ≤ now) :
    ∃ q, Table.lookup (stepLine env cfg now s line).table a = some q := by
  cases hf : acceptedFrame cfg line with
  | none => rw [not_accepted_keeps env cfg now s line hf]; exact ⟨p, hp⟩
  | some x =>
    obtain ⟨m, df, icao⟩ := x
    exact Sq.never_removed_while_heard env cfg now s line m df icao a p hf hnd hp hage hclock

/-- the sweep counter: every accepted frame advances it, nothing else does; it never exceeds 11 -/
theorem sweep_counter (env : Env) (cfg : DecodeCfg) (now : Int) (s : RState) (line : List Nat) :
    (stepLine env cfg now s line).cleanupCount
      = if (acceptedFrame cfg line).isSome then stepCount s.cleanupCount else s.cleanupCount := by
  cases hf : acceptedFrame cfg line with
  | none => simp [cleanupCount_not_accepted env cfg now s line hf]
  | some x =>
    obtain ⟨m, df, icao⟩ := x
    simp [cleanupCount_accepted env cfg now s line m df icao hf]

/-- a sweep is due after at most 12 further accepted frames, from every reachable counter value -/
theorem sweep_schedule : ∀ c : Fin 12, ∃ j : Fin 12, iter stepCount j.val c.val > 10 := sweep_within_12

/-- a sweep removes exactly the rows silent for delete_after whole seconds or more -/
theorem sweep_exact (env : Env) (cfg : DecodeCfg) (now : Int) (s : RState) (line : List Nat)
    (m : Msg) (df icao : Nat) (h : acceptedFrame cfg line = some (m, df, icao)) (hs : s.cleanupCount > 10) :
    ∃ dl, (stepLine env cfg now s line).table
      = (updateAircraft env cfg now s.table dl m df icao).filter
          (fun kp => numSeconds now kp.2.timestamp < cfg.deleteAfter) :=
  Sq.sweep_exact env cfg now s line m df icao h hs

/-- a silent aircraft is gone after the sweep -/
theorem silent_removed (env : Env) (cfg : DecodeCfg) (now : Int) (s : RState) (line : List Nat)
    (m : Msg) (df icao a : Nat) (p : Plane) (h : acceptedFrame cfg line = some (m, df, icao))
    (hs : s.cleanupCount > 10) (hnd : s.table.keys.Nodup) (ha : a ≠ icao)
    (hp : Table.lookup s.table a = some p) (hold : ¬ numSeconds now p.timestamp < cfg.deleteAfter) :
    Table.lookup (stepLine env cfg now s line).table a = none :=
  sweep_removes_silent env cfg now s line m df icao a p h hs hnd ha hp hold

/-- a later frame from a removed aircraft starts a fresh row: the row is `Plane::from_downlink` of
    the default row, a function of the frame alone -/
theorem fresh_after_expiry (env : Env) (cfg : DecodeCfg) (now : Int) (s : RState) (line : List Nat)
    (m : Msg) (df icao : Nat) (h : acceptedFrame cfg line = some (m, df, icao)) (hnd : s.table.keys.Nodup)
    (hpos : 0 < cfg.deleteAfter) (habs : Table.lookup s.table icao = none) :
    ∃ dl, DFRec.fromMessage env m = some dl ∧
      Table.lookup (stepLine env cfg now s line).table icao = some (Plane.fromDownlink env now dl icao) := by
  obtain ⟨dl, hdl, ht⟩ := stepLine_accepted env cfg now s line m df icao h
  refine ⟨dl, hdl, ?_⟩
  have hsame := lookup_updateAircraft_same env cfg now s.table dl m df icao
  rw [habs] at hsame
  simp only at hsame
  rw [ht]
  split
  · rw [lookup_filter _ _ icao (nodup_updateAircraft env cfg now s.table dl m df icao hnd), hsame]
    have : numSeconds now (Plane.fromDownlink env now dl icao).timestamp = 0 := by
      rw [fromDownlink_timestamp]; unfold numSeconds; simp
    simp [this, hpos]
  · exact hsame

/-- the bound: right after a sweep every row was heard within delete_after seconds, and between
    sweeps (at most 11 accepted frames) a row can only be added as the row of an accepted frame -/
theorem table_bound_after_sweep (env : Env) (cfg : DecodeCfg) (now : Int) (s : RState) (line : List Nat)
    (m : Msg) (df icao : Nat) (h : acceptedFrame cfg line = some (m, df, icao)) (hs : s.cleanupCount > 10) :
    ∀ kp ∈ (stepLine env cfg now s line).table, numSeconds now kp.2.timestamp < cfg.deleteAfter :=
  after_sweep_all_fresh env cfg now s line m df icao h hs

theorem table_grows_only_by_heard (env : Env) (cfg : DecodeCfg) (now : Int) (s : RState) (line : List Nat) (a : Nat)
    (ha : a ∈ (stepLine env cfg now s line).table.keys) :
    a ∈ s.table.keys ∨ ∃ m df, acceptedFrame cfg line = some (m, df, a) :=
  keys_after env cfg now s line a ha

-- non-vacuity: the counter starting at 0 sweeps at the 12th accepted frame
example : iter stepCount 11 0 = 11 ∧ iter stepCount 12 0 = 1 := by decide +kernel

end Sq.C12
