/-
C05 — Barometric altitude equals the Mode S altitude-code decoding.

The altitude that a DF4/DF20 reply (13-bit altitude code with M=0) or a DF17 airborne-position
squitter TC 9-18 (12-bit code) gives an aircraft is: when Q=1, 25*N-1000 ft if that is >= 0;
when the code is all zeros, or the value would be negative, no altitude; when Q=0, the Gillham
decoding.  It is computed from the bits of the altitude field of that frame and from nothing
else, and every such frame for an aircraft already in the table has this effect.

Status on this tree: proved for Q = 1 and for the all-zero code of DF4/DF20
(`altitude_eq_spec_DF4_20_partial`, `altitude_eq_spec_TC9_18_partial`).  The Q = 0 (Gillham)
branch is a genuine defect recorded in known_findings.json: `gillham_branch_wrong` is its
machine-checked witness.  The full-strength statements are `FullDF4_20` / `FullTC9_18` below.
-/
import SqModel.Proofs.Altitude
import SqModel.Proofs.Frame
import SqModel.Proofs.Accept
import SqModel.Proofs.Downlink

namespace Sq.C05
open Spec

/-- the property at full strength for DF4/DF20 (not a theorem on this tree) -/
def FullDF4_20 : Prop := ∀ (m : Msg) (df : Nat), AllNib m → 8 ≤ m.length → df ≠ 17 →
  mBit (field m 20 32) = 0 → altitude m df = altSpec13 (field m 20 32)

/-- the property at full strength for TC 9-18 (not a theorem on this tree) -/
def FullTC9_18 : Prop := ∀ (m : Msg), AllNib m → 13 ≤ m.length →
  altitude m 17 = altSpec12 (field m 41 52)

/-- DF4/DF20, M = 0, Q = 1 or the all-zero code: the altitude is 25·N − 1000 ft, none if negative or zero code,
    whatever the other bits of the frame -/
theorem altitude_eq_spec_DF4_20_partial (m : Msg) (df : Nat) (h : AllNib m) (hl : 8 ≤ m.length)
    (hdf : df ≠ 17) (hM : mBit (field m 20 32) = 0)
    (hQ : (acBits12 (ac12of13 (field m 20 32))).q = 1 ∨ field m 20 32 = 0) :
    altitude m df = altSpec13 (field m 20 32) := by
  rw [altitude_eq_altOfMaCode m df hdf, maCode_eq_maOfField m h hl]
  have hc : field m 20 32 < 8192 := by
    have := field_lt m 20 32; simpa using this
  exact altOfMaCode_eq_spec _ hc hM hQ

/-- TC 9-18, Q = 1: the altitude is 25·N − 1000 ft of the 12-bit field, none if negative -/
theorem altitude_eq_spec_TC9_18_partial (m : Msg) (h : AllNib m) (hl : 13 ≤ m.length)
    (hQ : (acBits12 (field m 41 52)).q = 1) :
    altitude m 17 = altSpec12 (field m 41 52) := by
  have hf : field m 41 52 < 4096 := by
    have := field_lt m 41 52; simpa using this
  have ht := allLt_zero _ 12 alt12_table (field m 41 52) (by simpa using hf)
  simp only [hQ, if_true, Bool.and_eq_true, beq_iff_eq] at ht
  obtain ⟨⟨h1, h2⟩, h3⟩ := ht
  unfold altitude
  simp only [if_true, meCode_eq m h hl, altitudeValue, h2, h3]
  simpa using h1

/-- computed from the altitude field and nothing else (DF4/DF20, every code incl. Gillham and metric) -/
theorem altitude_depends_only_on_field_DF4_20 (m₁ m₂ : Msg) (df₁ df₂ : Nat) (h₁ : AllNib m₁) (h₂ : AllNib m₂)
    (l₁ : 8 ≤ m₁.length) (l₂ : 8 ≤ m₂.length) (d₁ : df₁ ≠ 17) (d₂ : df₂ ≠ 17)
    (hf : field m₁ 20 32 = field m₂ 20 32) : altitude m₁ df₁ = altitude m₂ df₂ := by
  rw [altitude_eq_altOfMaCode m₁ df₁ d₁, altitude_eq_altOfMaCode m₂ df₂ d₂,
    maCode_eq_maOfField m₁ h₁ l₁, maCode_eq_maOfField m₂ h₂ l₂, hf]

/-- the defect: a legal Gillham code (200 ft, the one pinned by `test_alt_e`) yields no altitude;
    hence `FullDF4_20` is false on this tree -/
theorem gillham_branch_wrong : ¬ FullDF4_20 := by
  intro hfull
  have hm : AllNib [2, 0, 0, 0, 1, 0, 0, 10] := by intro x hx; simp at hx; omega
  have h1 := hfull [2, 0, 0, 0, 1, 0, 0, 10] 4 hm (by decide) (by decide)
  have hfld : field [2, 0, 0, 0, 1, 0, 0, 10] 20 32 = 0x100A := by decide +kernel
  rw [hfld] at h1
  have h2 := h1 (by decide +kernel)
  rw [altitude_eq_altOfMaCode _ 4 (by decide)] at h2
  have h3 : maCode [2, 0, 0, 0, 1, 0, 0, 10] = maOfField 0x100A := by decide +kernel
  rw [h3, alt13_gillham_counterexample.1, alt13_gillham_counterexample.2] at h2
  exact absurd h2 (by decide)

-- effect on the row ------------------------------------------------------------------------
theorem altitude_updateFromModeS (q : Plane) (m : Msg) (r : Bool) :
    (q.updateFromModeS m r).altitude = q.altitude := by
  have e : ∀ q : Plane, (eraseModeS q).altitude = q.altitude := fun _ => rfl
  rw [← e, eraseModeS_updateFromModeS, e]

/-- an existing row hit by a DF4 / DF20 frame: the update path shows the decoded altitude, the
    default path (DF4 without -U) shows it or, when the frame carries none, keeps the old one -/
theorem row_altitude_after_DF4_20 (env : Env) (cfg : DecodeCfg) (now : Int) (p : Plane) (m : Msg)
    (df : Nat) (dl : DFRec) (hdf : getDownlinkFormat m = some df) (h : df = 4 ∨ df = 20)
    (hicao : (getIcao m df).isSome) (hdl : DFRec.fromMessage env m = some dl) :
    (applyFrame env cfg now p dl m df).altitude = altitude m df
    ∨ (altitude m df = none ∧ (applyFrame env cfg now p dl m df).altitude = p.altitude) := by
  unfold applyFrame
  split
  · rename_i hc
    have h4 : df = 4 := by omega
    subst h4
    have : dl = .srt { df := some 4, icao := getIcao m 4, altitude := altitude m 4 } := by
      have : DFRec.fromMessage env m = some (.srt { df := some 4, icao := getIcao m 4, altitude := altitude m 4 }) := by
        simp [DFRec.fromMessage, Srt.fromMessage, hdf]
      rw [this] at hdl; simpa using hdl.symm
    subst this
    simp only [Plane.updateFromDownlink, Plane.amendSrt, hicao, if_true]
    cases ha : altitude m 4 with
    | none => right; simp
    | some a => left; simp
  · left
    simp only [Plane.update]
    have hne : ¬ (df = 17 ∨ df = 18) := by omega
    simp only [hne, if_false, apply_ite Plane.altitude, altitude_updateFromModeS, ite_self]
    simp [Plane.updateFromBcast, h]

/-- an existing row hit by an airborne position squitter (TC 9-18) shows that frame's altitude on
    both paths (or none, if the frame carries none) -/
theorem row_altitude_after_TC9_18 (env : Env) (cfg : DecodeCfg) (now : Int) (p : Plane) (m : Msg)
    (hdf : getDownlinkFormat m = some 17) (htc : 9 ≤ (getMessageType m).1 ∧ (getMessageType m).1 ≤ 18)
    (hicao : (getIcao m 17).isSome) :
    (applyFrame env cfg now p (.ext (Ext.fromMessage env m)) m 17).altitude = altitude m 17 := by
  have ePos : ∀ q : Plane, (erasePos q).altitude = q.altitude := fun _ => rfl
  have hsc : ∀ (q : Plane) tc c, (q.storeCpr env tc c).altitude = q.altitude := by
    intro q tc c; rw [← ePos, erasePos_storeCpr, ePos]
  have h14 : ¬ (1 ≤ (getMessageType m).1 ∧ (getMessageType m).1 ≤ 4) := by omega
  have h58 : ¬ (5 ≤ (getMessageType m).1 ∧ (getMessageType m).1 ≤ 8) := by omega
  unfold applyFrame
  split
  · rw [ext_tc_9_18 env m hdf htc]
    simp only [Plane.updateFromDownlink, Plane.amendExt, extHead, hicao, if_true, Plane.amendExtTc, h14, h58, htc,
      if_false, Plane.amendExt918, hsc]
    simp [hsc]
  · simp only [Plane.update, Plane.updateFromExt, Plane.updateExtTc, h14, h58, htc, if_true, if_false,
      Plane.updateExt918, commBGate]
    simp [hsc]

-- non-vacuity: frames meeting the hypotheses of the partial theorems
example : altitude [2, 0, 0, 0, 1, 8, 3, 8] 4 = some 38000 := by decide +kernel     -- AC13 with Q = 1
example : (acBits12 (ac12of13 (field [2, 0, 0, 0, 1, 8, 3, 8] 20 32))).q = 1
    ∧ mBit (field [2, 0, 0, 0, 1, 8, 3, 8] 20 32) = 0 := by decide +kernel

end Sq.C05
