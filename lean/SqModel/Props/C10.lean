/-
C10 — Comm-B data are shown only when valid, advertised and correctly decoded.

A parameter derived from the MB field of a DF20/21 reply changes only if a transponder capability
of 4 or more has been recorded for that aircraft or -R is given - and for BDS 4,0/5,0/6,0 only if a
BDS 1,7 report from that aircraft advertised the register or -R is given - and only if the MB field
has all status bits of that register set and its reserved bits zero; the new value then equals the
ICAO Doc 9871 decoding of the corresponding bit field (integers truncated).  Conversely, once gating
allows it, a reply whose MB field is such a register with every status bit set, every value field
non-zero and within plausible range is decoded as that register unless it also satisfies the rules
of a register earlier in the fixed precedence 1,7 > 4,0 > 5,0 > 6,0.
-/
import SqModel.Proofs.Ehs
import SqModel.Proofs.Frame
import SqModel.Proofs.Formats
import SqModel.Spec.Bds

namespace Sq.C10
open Spec

/-- outer gate: without a recorded capability of 4 or more and without -R, a DF20/21 reply changes
    nothing but altitude / squawk and the book-keeping -/
theorem commb_gate (env : Env) (cfg : DecodeCfg) (now : Int) (p : Plane) (m : Msg) (df : Nat) (dl : DFRec)
    (hdf : df = 20 ∨ df = 21) (hgate : cfg.relaxed = false ∧ p.cap0 ≤ 3) :
    applyFrame env cfg now p dl m df
      = Plane.updateFromBcast { p with timestamp := now, lastDf := df } m df := by
  have hne : ¬ (df = 17 ∨ df = 18) := by omega
  have hlt : ¬ (df < 20 ∧ (!cfg.useUpdate) = true) := by omega
  have hb : ¬ (df = 11 ∨ df = 17) := by omega
  unfold applyFrame
  rw [if_neg hlt]
  simp only [Plane.update, hne, if_false, commBGate, hgate.1]
  have hcap : (Plane.updateFromBcast { p with timestamp := now, lastDf := df } m df).cap0 = p.cap0 := by
    simp [Plane.updateFromBcast, hb]
  rw [hcap]
  have : decide (p.cap0 > 3) = false := by simp; exact hgate.2
  simp [this]

/-- the registers recognised by their BDS code (1,0 / 2,0 / 3,0) have bit 33 clear, so they can never
    coincide with a 4,0 / 5,0 / 6,0 register whose first status bit is set -/
theorem coded_disjoint (m : Msg) (L : Long m) (hs : mb m 1 1 = 1) : bdsCode m = (0, 0) := by
  have h8 : nib m 8 ≥ 8 := by
    have hf : field m 33 33 = nib m 8 / 8 := by
      rw [field_via_take m L.nib 33 33 (by omega) (by rw [L.len]; omega)]
      simp only [show (33 - 1) / 4 + 1 = 9 by decide, show 3 - (33 - 1) % 4 = 3 by decide, show 33 + 1 - 33 = 1 by decide]
      rw [natOf_take_succ m 8 (by rw [L.len]; omega)]
      have := nib_lt m L.nib 8
      generalize natOf (m.take 8) = T
      simp; omega
    unfold mb at hs
    simp only [show 32 + 1 = 33 by decide] at hs
    rw [hf] at hs
    omega
  have hlt := nib_lt m L.nib 8
  have hand : nib m 8 &&& 0xF = nib m 8 := by
    have : nib m 8 &&& 15 = nib m 8 % 16 := Nat.and_two_pow_sub_one_eq_mod (nib m 8) 4
    omega
  unfold bdsCode
  rw [hand]
  have n1 : ¬ nib m 8 = 1 := by omega
  have n2 : ¬ nib m 8 = 2 := by omega
  have n3 : ¬ nib m 8 = 3 := by omega
  simp [n1, n2, n3]

-- BDS 1,7 ---------------------------------------------------------------------------------------
/-- what a capability report records: MB bits 7, 9, 13, 16, 24 for registers 2,0 / 4,0 / 4,4 / 5,0 / 6,0,
    accepted only with MB bit 7 set and MB bits 29-56 zero -/
theorem bds17_flags (m : Msg) (L : Long m) (c : Capability) (h : isBds17 m = some c) :
    mb m 7 7 = 1 ∧ mb m 29 56 = 0 ∧ c.flags = mb m 1 24 ∧ c.bds20 = true
    ∧ (c.bds40 = true ↔ mb m 9 9 = 1) ∧ (c.bds44 = true ↔ mb m 13 13 = 1)
    ∧ (c.bds50 = true ↔ mb m 16 16 = 1) ∧ (c.bds60 = true ↔ mb m 24 24 = 1) := by
  unfold isBds17 at h
  rw [flagAndRangeValue_eq m L.nib 39 61 88 (by omega) (by rw [L.len]; omega) (by omega) (by omega) (by rw [L.len]; omega),
    rangeValue_eq_field m L.nib 33 56 (by omega) (by omega) (by rw [L.len]; omega)] at h
  simp only at h
  split at h
  · simp at h
  · rename_i hc
    simp only [Option.some.injEq] at h
    subst h
    have hc' : field m 39 39 = 1 ∧ field m 61 88 = 0 := by omega
    have sub : ∀ k, 1 ≤ k → k ≤ 24 → field m (32 + k) (32 + k) = (field m 33 56 / 2 ^ (24 - k)) % 2 := by
      intro k hk1 hk2
      rw [field_sub m 33 56 (32 + k) (32 + k) (by omega) (by omega) (by omega) (by rw [L.len]; omega)]
      have e1 : 56 - (32 + k) = 24 - k := by omega
      have e2 : 32 + k + 1 - (32 + k) = 1 := by omega
      rw [e1, e2]
    unfold mb
    refine ⟨hc'.1, hc'.2, rfl, rfl, ?_, ?_, ?_, ?_⟩
    · rw [sub 9 (by omega) (by omega)]; simp [Nat.shiftRight_eq_div_pow, Nat.and_one_is_mod]
    · rw [sub 13 (by omega) (by omega)]; simp [Nat.shiftRight_eq_div_pow, Nat.and_one_is_mod]
    · rw [sub 16 (by omega) (by omega)]; simp [Nat.shiftRight_eq_div_pow, Nat.and_one_is_mod]
    · rw [sub 24 (by omega) (by omega)]; simp [Nat.and_one_is_mod]


-- BDS 4,0 ---------------------------------------------------------------------------------------
/-- a reply is taken as 4,0 only with its three status bits set and its reserved bits zero; the
    values are then the Doc 9871 decoding: selected altitude 16 ft x field, pressure 800 + field/10 mb (truncated) -/
theorem bds40_valid_sound (m : Msg) (L : Long m) (v : Bds40) (h : isBds40 m = some v) :
    Valid40 m ∧ v.mcp = some (16 * mb m 2 13) ∧ v.fms = some (16 * mb m 15 26)
    ∧ v.baro = some (mb m 28 39 / 10 + 800) := by
  unfold isBds40 at h
  rw [goodflags_eq m L 33 34 45 (by omega) (by omega) (by omega) (by omega) (by omega),
    goodflags_eq m L 46 47 58 (by omega) (by omega) (by omega) (by omega) (by omega),
    goodflags_eq m L 59 60 71 (by omega) (by omega) (by omega) (by omega) (by omega),
    goodflags_eq m L 33 72 79 (by omega) (by omega) (by omega) (by omega) (by omega),
    goodflags_eq m L 33 84 85 (by omega) (by omega) (by omega) (by omega) (by omega),
    mcp_eq m L, fms_eq m L, baro_eq m L] at h
  by_cases s33 : field m 33 33 = 1 <;> by_cases s46 : field m 46 46 = 1 <;> by_cases s59 : field m 59 59 = 1 <;>
    by_cases r1 : field m 72 79 = 0 <;> by_cases r2 : field m 84 85 = 0 <;>
    simp only [s33, s46, s59, r1, r2, decide_true, decide_false, Bool.true_and, Bool.false_and, Bool.not_true, Bool.not_false,
      Bool.or_true, Bool.true_or, Bool.or_false, Bool.false_or, ne_eq, not_true_eq_false, not_false_eq_true, if_true, if_false] at h <;>
    (try (simp at h; done))
  have l1 := field_lt m 34 45
  have l2 := field_lt m 47 58
  have l3 := field_lt m 60 71
  simp only [show 45 + 1 - 34 = 12 by decide, show 58 + 1 - 47 = 12 by decide, show 71 + 1 - 60 = 12 by decide] at l1 l2 l3
  split at h
  · simp at h
  · have f1 : (fun x => decide (x ≤ 65530)) (16 * field m 34 45) = true := by simp; omega
    have f2 : (fun x => decide (x ≤ 65530)) (16 * field m 47 58) = true := by simp; omega
    have f3 : (fun x => decide (800 ≤ x ∧ x ≤ 1210)) (field m 60 71 / 10 + 800) = true := by simp; omega
    simp only [Option.filter_some, f1, f2, f3, if_true, Option.isSome_some, Bool.or_self] at h
    simp only [Option.some.injEq] at h
    subst h
    exact ⟨⟨s33, s46, s59, r1, r2⟩, rfl, rfl, rfl⟩

-- BDS 5,0 ---------------------------------------------------------------------------------------
theorem of_ite_some {α : Type} {c : Bool} {x : Option α} {y : α} (h : (if c = true then x else none) = some y) :
    c = true ∧ x = some y := by
  cases c <;> simp_all

theorem some_of_ite {α : Type} {c : Bool} {x y : α} (h : (if c = true then some x else none) = some y) : x = y := by
  cases c <;> simp_all

/-- floor of a non-negative quotient as computed by the code -/
theorem shown_of_div (x : Nat) (k d : Nat) (hd : 0 < d) : ShownFloor ((x * k / d : Nat) : Int) (k * (x : Int)) d := by
  unfold ShownFloor
  have h1 := Nat.div_mul_le_self (x * k) d
  have h2 := Nat.lt_div_mul_add hd (a := x * k)
  constructor
  · have : d * (x * k / d) ≤ x * k := by rw [Nat.mul_comm]; exact h1
    have := Int.ofNat_le.mpr this
    rw [Int.natCast_mul, Int.natCast_mul] at this
    rw [Int.mul_comm (k : Int)]; exact this
  · have : x * k < d * (x * k / d + 1) := by rw [Nat.mul_add, Nat.mul_one, Nat.mul_comm d]; omega
    have := Int.ofNat_lt.mpr this
    rw [Int.natCast_mul, Int.natCast_mul, Int.natCast_add] at this
    rw [Int.mul_comm (k : Int)]; exact this

theorem roll_shown (v : Nat) (hv : v < 2 ^ 9) (sgn : Nat) (hs : sgn = 0 ∨ sgn = 1) :
    ShownFloor (if sgn = 0 then Int.tdiv ((v : Int) * 45) 256 else Int.tdiv ((v : Int) * 45) 256 - 90)
      (45 * twos sgn v 9) 256 := by
  have hd : Int.tdiv ((v : Int) * 45) 256 = ((v : Int) * 45) / 256 := Int.tdiv_eq_ediv_of_nonneg (by omega)
  rw [hd]
  unfold ShownFloor twos
  rcases hs with s | s <;> subst s
  · rw [if_pos rfl, if_neg (by decide)]; omega
  · rw [if_neg (by decide), if_pos rfl]; omega

theorem track_shown (v : Nat) (hv : v < 2 ^ 10) (sgn : Nat) (hs : sgn = 0 ∨ sgn = 1) :
    ShownFloor (((if sgn = 0 then v * 90 / 512 else v * 90 / 512 + 180 : Nat)) : Int)
      (90 * twos sgn v 10 + (if sgn = 1 then 360 * 512 else 0)) 512 := by
  unfold ShownFloor twos
  rcases hs with s | s <;> subst s
  · rw [if_pos rfl, if_neg (by decide), if_neg (by decide)]; omega
  · rw [if_neg (by decide), if_pos rfl, if_pos rfl]; omega

theorem rate_shown (v : Nat) (hv : v < 2 ^ 9) (sgn : Nat) (hs : sgn = 0 ∨ sgn = 1) :
    ShownFloor (if sgn = 0 then ((v / 32 : Nat) : Int) else ((v / 32 : Nat) : Int) - 16) (8 * twos sgn v 9) 256 := by
  unfold ShownFloor twos
  rcases hs with s | s <;> subst s
  · rw [if_pos rfl, if_neg (by decide)]; omega
  · rw [if_neg (by decide), if_pos rfl]; omega

/-- a reply is taken as 5,0 only with all five status bits set, and then every shown value is the
    Doc 9871 decoding of its field: roll = floor(45/256 x two's complement), true track in [0,360) =
    floor(90/512 x two's complement) (+360 if negative), track angle rate = floor(8/256 x two's
    complement), ground speed and true airspeed = 2 kt x field -/
theorem bds50_valid_sound (m : Msg) (L : Long m) (t : Bds50) (h : isBds50 m = some t) :
    Valid50 m
    ∧ (∃ r, t.roll = some r ∧ ShownFloor r (45 * twos (mb m 2 2) (mb m 3 11) 9) 256)
    ∧ (∃ a, t.track = some a ∧
        ShownFloor (a : Int) (90 * twos (mb m 13 13) (mb m 14 23) 10 + (if mb m 13 13 = 1 then 360 * 512 else 0)) 512)
    ∧ (∃ q, t.rate = some q ∧ ShownFloor q (8 * twos (mb m 36 36) (mb m 37 45) 9) 256)
    ∧ t.gs = some (2 * mb m 25 34) ∧ t.tas = some (2 * mb m 47 56) := by
  unfold isBds50 at h
  rw [goodflags_eq m L 33 34 43 (by omega) (by omega) (by omega) (by omega) (by omega),
    goodflags_eq m L 44 45 55 (by omega) (by omega) (by omega) (by omega) (by omega),
    goodflags_eq m L 56 57 66 (by omega) (by omega) (by omega) (by omega) (by omega),
    goodflags_eq m L 67 68 77 (by omega) (by omega) (by omega) (by omega) (by omega),
    goodflags_eq m L 78 79 88 (by omega) (by omega) (by omega) (by omega) (by omega),
    roll_eq m L, trackAngle_eq m L, tar_eq m L, gs50_eq m L, tas50_eq m L] at h
  by_cases s33 : field m 33 33 = 1 <;> by_cases s44 : field m 44 44 = 1 <;> by_cases s56 : field m 56 56 = 1 <;>
    by_cases s67 : field m 67 67 = 1 <;> by_cases s78 : field m 78 78 = 1 <;>
    simp only [s33, s44, s56, s67, s78, decide_true, decide_false, Bool.true_and, Bool.false_and, Bool.not_true, Bool.not_false,
      Bool.or_true, Bool.true_or, Bool.or_false, Bool.false_or, if_true, if_false] at h <;>
    (try (simp at h; done))
  split at h
  · simp at h
  · simp only [Option.filter_some] at h
    split at h
    · rename_i gs tas roll trk rate e1 e2 e3 e4 e5
      by_cases hlt : (if gs ≤ tas then tas - gs else gs - tas) < 200
      · rw [if_pos hlt] at h
        simp only [Option.some.injEq] at h
        subst h
        have lroll := field_lt m 35 43
        have ltrk := field_lt m 46 55
        have lrate := field_lt m 69 77
        simp only [show 43 + 1 - 35 = 9 by decide, show 55 + 1 - 46 = 10 by decide, show 77 + 1 - 69 = 9 by decide] at lroll ltrk lrate
        refine ⟨⟨s33, s44, s56, s67, s78⟩, ⟨roll, e3, ?_⟩, ⟨trk, e4, ?_⟩, ⟨rate, e5, ?_⟩, ?_, ?_⟩
        · rw [← some_of_ite e3]
          exact roll_shown _ lroll _ (bit_01 m 34)
        · rw [← some_of_ite e4]
          exact track_shown _ ltrk _ (bit_01 m 45)
        · rw [← some_of_ite e5]
          exact rate_shown _ lrate _ (bit_01 m 68)
        · show (if decide (2 * field m 57 66 ≤ 600) = true then some (2 * field m 57 66) else none) = some (2 * mb m 25 34)
          rw [e1, ← some_of_ite e1]; rfl
        · show (if decide (2 * field m 79 88 ≤ 500) = true then some (2 * field m 79 88) else none) = some (2 * mb m 47 56)
          rw [e2, ← some_of_ite e2]; rfl
      · rw [if_neg hlt] at h; cases h
    · first | cases h | (simp at h)

-- BDS 6,0 ---------------------------------------------------------------------------------------
theorem rate32_shown (v sgn : Nat) (hs : sgn = 0 ∨ sgn = 1) :
    (if sgn = 0 then (32 * v : Int) else (32 * v : Int) - 16384) = 32 * twos sgn v 9 := by
  unfold twos
  rcases hs with s | s <;> subst s
  · rw [if_pos rfl, if_neg (by decide)]
  · rw [if_neg (by decide), if_pos rfl]; omega

/-- a reply is taken as 6,0 only with all five status bits set, and then: magnetic heading in [0,360)
    = floor(90/512 x two's complement) (+360 if negative), IAS = field (kt), Mach = field x 0.004
    (carried as the raw field), vertical rate = 32 ft/min x two's complement of the barometric rate
    field, or of the inertial one when the barometric value field is zero -/
theorem bds60_valid_sound (m : Msg) (L : Long m) (b : Bds60) (h : isBds60 m = some b) :
    Valid60 m
    ∧ (∃ a, b.heading = some a ∧
        ShownFloor (a : Int) (90 * twos (mb m 2 2) (mb m 3 12) 10 + (if mb m 2 2 = 1 then 360 * 512 else 0)) 512)
    ∧ b.ias = some (mb m 14 23) ∧ b.mach = some (mb m 25 34) ∧ mb m 25 34 ≤ 250
    ∧ (∀ x, b.baroRate = some x → x = 32 * twos (mb m 36 36) (mb m 37 45) 9 ∧ -6000 ≤ x ∧ x ≤ 6000)
    ∧ (∀ x, b.ivv = some x → x = 32 * twos (mb m 47 47) (mb m 48 56) 9 ∧ -6000 ≤ x ∧ x ≤ 6000) := by
  unfold isBds60 at h
  rw [goodflags_eq m L 33 34 44 (by omega) (by omega) (by omega) (by omega) (by omega),
    goodflags_eq m L 45 46 55 (by omega) (by omega) (by omega) (by omega) (by omega),
    goodflags_eq m L 56 57 66 (by omega) (by omega) (by omega) (by omega) (by omega),
    goodflags_eq m L 67 68 77 (by omega) (by omega) (by omega) (by omega) (by omega),
    goodflags_eq m L 78 79 88 (by omega) (by omega) (by omega) (by omega) (by omega),
    hdg60_eq m L, ias60_eq m L, mach60_eq m L, baroRate60_eq m L, ivv60_eq m L] at h
  by_cases s33 : field m 33 33 = 1 <;> by_cases s45 : field m 45 45 = 1 <;> by_cases s56 : field m 56 56 = 1 <;>
    by_cases s67 : field m 67 67 = 1 <;> by_cases s78 : field m 78 78 = 1 <;>
    simp only [s33, s45, s56, s67, s78, decide_true, decide_false, Bool.true_and, Bool.false_and, Bool.and_false, Bool.and_true,
      if_true, if_false, true_and] at h <;>
    (try (simp at h; done))
  obtain ⟨hg, h⟩ := of_ite_some h
  simp only [Bool.and_eq_true, decide_eq_true_eq] at hg
  obtain ⟨⟨⟨⟨g1, g2⟩, g3⟩, g4⟩, g5⟩ := hg
  simp only [g2, g3, ne_eq, not_false_eq_true, if_true] at h
  obtain ⟨hc, h⟩ := of_ite_some h
  simp only [Option.some.injEq] at h
  subst h
  simp only [Bool.and_eq_true, decide_eq_true_eq] at hc
  obtain ⟨⟨⟨⟨c1, c2⟩, c3⟩, c4⟩, c5⟩ := hc
  have lh := field_lt m 35 44
  simp only [show 44 + 1 - 35 = 10 by decide] at lh
  refine ⟨⟨s33, s45, s56, s67, s78⟩, ⟨_, rfl, ?_⟩, rfl, rfl, c3, ?_, ?_⟩
  · exact track_shown _ lh _ (bit_01 m 34)
  · intro x hx
    by_cases hz : field m 69 77 = 0
    · simp [hz] at hx
    · simp only [hz, ne_eq, not_false_eq_true, if_true, if_false, Option.some.injEq] at hx c4
      subst hx
      refine ⟨rate32_shown _ _ (bit_01 m 68), ?_⟩
      simpa using c4
  · intro x hx
    by_cases hz : field m 80 88 = 0
    · simp [hz] at hx
    · simp only [hz, ne_eq, not_false_eq_true, if_true, if_false, Option.some.injEq] at hx c5
      subst hx
      refine ⟨rate32_shown _ _ (bit_01 m 79), ?_⟩
      simpa using c5

-- the register cascade: gates and precedence -------------------------------------------------------
/-- the fields only BDS 4,0 / 5,0 / 6,0 write inside the Comm-B decode -/
def view40 (p : Plane) := (p.selectedAltitude, p.barometricPressureSetting, p.targetAltitudeSource)
def view50 (p : Plane) := (p.rollAngle, p.track, p.trackAngleRate, p.grspeed, p.trueAirspeed)
def view60 (p : Plane) := (p.heading, p.indicatedAirspeed, p.machRaw, p.vrate)

theorem view40_stage45 (m : Msg) (st : Plane × Bool) : view40 (stage45 m st) = view40 st.1 := by
  unfold stage45; (repeat' split) <;> rfl

theorem view40_stage44 (m : Msg) (st : Plane × Bool) : view40 (stage44 m st).1 = view40 st.1 := by
  unfold stage44; (repeat' split) <;> rfl

theorem view40_stage60 (m : Msg) (r : Bool) (st : Plane × Bool) : view40 (stage60 m r st).1 = view40 st.1 := by
  unfold stage60; (repeat' split) <;> rfl

theorem view40_stage50 (m : Msg) (r : Bool) (st : Plane × Bool) : view40 (stage50 m r st).1 = view40 st.1 := by
  unfold stage50; (repeat' split) <;> rfl

theorem view40_stage17 (m : Msg) (st : Plane × Bool) : view40 (stage17 m st).1 = view40 st.1 := by
  unfold stage17; (repeat' split) <;> rfl

theorem view40_coded (m : Msg) (p : Plane) : view40 (stageCoded m p).1 = view40 p := by
  unfold stageCoded; simp only; (repeat' split) <;> rfl

theorem view50_stage45 (m : Msg) (st : Plane × Bool) : view50 (stage45 m st) = view50 st.1 := by
  unfold stage45; (repeat' split) <;> rfl

theorem view50_stage44 (m : Msg) (st : Plane × Bool) : view50 (stage44 m st).1 = view50 st.1 := by
  unfold stage44; (repeat' split) <;> rfl

theorem view50_stage60 (m : Msg) (r : Bool) (st : Plane × Bool) : view50 (stage60 m r st).1 = view50 st.1 := by
  unfold stage60; (repeat' split) <;> rfl

theorem view50_stage40 (m : Msg) (r : Bool) (st : Plane × Bool) : view50 (stage40 m r st).1 = view50 st.1 := by
  unfold stage40; (repeat' split) <;> rfl

theorem view50_stage17 (m : Msg) (st : Plane × Bool) : view50 (stage17 m st).1 = view50 st.1 := by
  unfold stage17; (repeat' split) <;> rfl

theorem view50_coded (m : Msg) (p : Plane) : view50 (stageCoded m p).1 = view50 p := by
  unfold stageCoded; simp only; (repeat' split) <;> rfl

theorem cap1_stage40 (m : Msg) (r : Bool) (st : Plane × Bool) : (stage40 m r st).1.cap1 = st.1.cap1 := by
  unfold stage40; (repeat' split) <;> rfl

/-- the cascade reaches the register decoders undecided iff no coded register and no 1,7 report matched -/
theorem undecided_after_17 (m : Msg) (p : Plane) :
    (stage17 m (stageCoded m p)).2 = true ↔ bdsCode m = (0, 0) ∧ isBds17 m = none := by
  unfold stage17 stageCoded
  simp only
  by_cases hb : bdsCode m = (0, 0)
  · cases h17 : isBds17 m <;> simp [hb, h17]
  · simp [hb]

theorem cap1_when_undecided (m : Msg) (p : Plane) (h : (stage17 m (stageCoded m p)).2 = true) :
    (stage17 m (stageCoded m p)).1.cap1 = p.cap1 := by
  have := (undecided_after_17 m p).mp h
  unfold stage17 stageCoded
  simp only [this.1, this.2]
  split <;> (repeat' split) <;> simp_all

/-- 4,0 fields change only if the register was advertised (or -R), the reply is a valid 4,0 register,
    and neither a coded register nor a 1,7 report took the reply -/
theorem register_gate_40 (p : Plane) (m : Msg) (r : Bool) (h : view40 (p.updateFromModeS m r) ≠ view40 p) :
    (r = true ∨ p.cap1.bds40 = true) ∧ (isBds40 m).isSome ∧ bdsCode m = (0, 0) ∧ isBds17 m = none := by
  unfold Plane.updateFromModeS at h
  rw [view40_stage45, view40_stage44, view40_stage60, view40_stage50] at h
  generalize hst : stage17 m (stageCoded m p) = st at h
  have hst1 : view40 st.1 = view40 p := by rw [← hst, view40_stage17, view40_coded]
  unfold stage40 at h
  split at h
  · rename_i hc
    simp only [Bool.and_eq_true, Bool.or_eq_true] at hc
    have hu := (undecided_after_17 m p).mp (by rw [hst]; exact hc.1)
    have hcap : st.1.cap1 = p.cap1 := by rw [← hst]; exact cap1_when_undecided m p (by rw [hst]; exact hc.1)
    cases h40 : isBds40 m with
    | none => rw [h40] at h; exact absurd hst1 h
    | some v => exact ⟨by rw [← hcap]; exact hc.2, rfl, hu.1, hu.2⟩
  · exact absurd hst1 h

/-- 5,0 fields change only if advertised (or -R), valid 5,0, and nothing earlier in the precedence
    (coded registers, 1,7, 4,0) took the reply -/
theorem register_gate_50 (p : Plane) (m : Msg) (r : Bool) (h : view50 (p.updateFromModeS m r) ≠ view50 p) :
    (r = true ∨ p.cap1.bds50 = true) ∧ (isBds50 m).isSome ∧ bdsCode m = (0, 0) ∧ isBds17 m = none
    ∧ ¬ ((r = true ∨ p.cap1.bds40 = true) ∧ (isBds40 m).isSome) := by
  unfold Plane.updateFromModeS at h
  rw [view50_stage45, view50_stage44, view50_stage60] at h
  generalize hs17 : stage17 m (stageCoded m p) = s17 at h
  generalize hs40 : stage40 m r s17 = s40 at h
  have hv : view50 s40.1 = view50 p := by rw [← hs40, view50_stage40, ← hs17, view50_stage17, view50_coded]
  unfold stage50 at h
  split at h
  · rename_i hc
    simp only [Bool.and_eq_true, Bool.or_eq_true] at hc
    -- stage40 left the reply undecided: so stage17 did, and 4,0 did not decode
    have hcap40 : s40.1.cap1 = s17.1.cap1 := by rw [← hs40]; exact cap1_stage40 m r s17
    have h40u : s17.2 = true ∧ ¬ ((r = true ∨ s17.1.cap1.bds40 = true) ∧ (isBds40 m).isSome) := by
      rw [← hs40] at hc
      unfold stage40 at hc
      split at hc
      · rename_i hg
        simp only [Bool.and_eq_true, Bool.or_eq_true] at hg
        cases h40 : isBds40 m with
        | none => exact ⟨hg.1, by simp⟩
        | some v => simp only [h40] at hc; simp at hc
      · rename_i hg
        simp only [Bool.and_eq_true, Bool.or_eq_true, not_and] at hg
        refine ⟨hc.1, ?_⟩
        intro hx; exact hg hc.1 hx.1
    have hu := (undecided_after_17 m p).mp (by rw [hs17]; exact h40u.1)
    have hcap : s17.1.cap1 = p.cap1 := by rw [← hs17]; exact cap1_when_undecided m p (by rw [hs17]; exact h40u.1)
    cases h50 : isBds50 m with
    | none => rw [h50] at h; exact absurd hv h
    | some t =>
      refine ⟨?_, rfl, hu.1, hu.2, ?_⟩
      · rw [← hcap, ← hcap40]; exact hc.2
      · rw [← hcap]; exact h40u.2
  · exact absurd hv h

/-- once gating allows it and nothing earlier in the precedence matches, a valid 5,0 register is
    decoded: the row shows exactly the register's values -/
theorem register_complete_50 (p : Plane) (m : Msg) (r : Bool) (t : Bds50)
    (hcode : bdsCode m = (0, 0)) (h17 : isBds17 m = none)
    (h40 : ¬ ((r = true ∨ p.cap1.bds40 = true) ∧ (isBds40 m).isSome))
    (hgate : r = true ∨ p.cap1.bds50 = true) (h50 : isBds50 m = some t) :
    view50 (p.updateFromModeS m r) = (t.roll, t.track, t.rate, t.gs, t.tas) := by
  unfold Plane.updateFromModeS
  rw [view50_stage45, view50_stage44, view50_stage60]
  have hs17 : stage17 m (stageCoded m p) = (stageCoded m p) := by unfold stage17; simp [h17]
  have hsc : (stageCoded m p) = (p, true) := by
    unfold stageCoded; simp [hcode]
  rw [hs17, hsc]
  have hs40 : stage40 m r (p, true) = (p, true) := by
    unfold stage40
    simp only [Bool.true_and]
    split
    · rename_i hg
      simp only [Bool.or_eq_true] at hg
      cases hv : isBds40 m with
      | none => rfl
      | some v => exact absurd ⟨hg, by rw [hv]; rfl⟩ h40
    · rfl
  rw [hs40]
  unfold stage50
  have hg : (true && (r || p.cap1.bds50)) = true := by simpa using hgate
  simp only [hg, if_true, h50]
  rfl

/-- a value field that is non-zero makes the sign+value field non-zero -/
theorem nonzero_of_sub (m : Msg) (L : Long m) (a b : Nat) (h1 : 1 ≤ a) (h2 : a + 1 ≤ b) (h3 : b ≤ 112)
    (h : field m (a + 1) b ≠ 0) : field m a b ≠ 0 := by
  intro h0
  apply h
  rw [field_sub m a b (a + 1) b (by omega) (by omega) (by omega) (by rw [L.len]; omega), h0]
  simp

/-- conversely: a 5,0 register with every status bit set, every value field non-zero and plausible
    values (|roll| <= 50, GS <= 600, TAS <= 500, |GS-TAS| < 200) is recognised as 5,0 - for either
    sign of roll, track and track angle rate -/
theorem isBds50_complete (m : Msg) (L : Long m) (v : Valid50 m)
    (nz : mb m 3 11 ≠ 0 ∧ mb m 14 23 ≠ 0 ∧ mb m 25 34 ≠ 0 ∧ mb m 37 45 ≠ 0 ∧ mb m 47 56 ≠ 0)
    (hroll : -50 * 256 ≤ 45 * twos (mb m 2 2) (mb m 3 11) 9 ∧ 45 * twos (mb m 2 2) (mb m 3 11) 9 < 51 * 256)
    (hgs : 2 * mb m 25 34 ≤ 600) (htas : 2 * mb m 47 56 ≤ 500)
    (hdiff : (if 2 * mb m 25 34 ≤ 2 * mb m 47 56 then 2 * mb m 47 56 - 2 * mb m 25 34 else 2 * mb m 25 34 - 2 * mb m 47 56) < 200) :
    (isBds50 m).isSome = true := by
  obtain ⟨s1, s2, s3, s4, s5⟩ := v
  unfold mb at s1 s2 s3 s4 s5 nz hroll hgs htas hdiff
  simp only [show 32 + 1 = 33 by decide, show 32 + 2 = 34 by decide, show 32 + 3 = 35 by decide, show 32 + 11 = 43 by decide,
    show 32 + 12 = 44 by decide, show 32 + 13 = 45 by decide, show 32 + 14 = 46 by decide, show 32 + 23 = 55 by decide,
    show 32 + 24 = 56 by decide, show 32 + 25 = 57 by decide, show 32 + 34 = 66 by decide, show 32 + 35 = 67 by decide,
    show 32 + 36 = 68 by decide, show 32 + 37 = 69 by decide, show 32 + 45 = 77 by decide, show 32 + 46 = 78 by decide,
    show 32 + 47 = 79 by decide, show 32 + 56 = 88 by decide] at s1 s2 s3 s4 s5 nz hroll hgs htas hdiff
  obtain ⟨n1, n2, n3, n4, n5⟩ := nz
  have g1 := nonzero_of_sub m L 34 43 (by omega) (by omega) (by omega) n1
  have g2 := nonzero_of_sub m L 45 55 (by omega) (by omega) (by omega) n2
  have g4 := nonzero_of_sub m L 68 77 (by omega) (by omega) (by omega) n4
  unfold isBds50
  rw [goodflags_eq m L 33 34 43 (by omega) (by omega) (by omega) (by omega) (by omega),
    goodflags_eq m L 44 45 55 (by omega) (by omega) (by omega) (by omega) (by omega),
    goodflags_eq m L 56 57 66 (by omega) (by omega) (by omega) (by omega) (by omega),
    goodflags_eq m L 67 68 77 (by omega) (by omega) (by omega) (by omega) (by omega),
    goodflags_eq m L 78 79 88 (by omega) (by omega) (by omega) (by omega) (by omega),
    roll_eq m L, trackAngle_eq m L, tar_eq m L, gs50_eq m L, tas50_eq m L]
  simp only [s1, s2, s3, s4, s5, g1, g2, n3, g4, n5, ne_eq, not_false_eq_true, decide_true, Bool.and_self, Bool.not_true,
    Bool.or_self, if_true, Bool.false_eq_true, if_false, Option.filter_some]
  have lroll := field_lt m 35 43
  have ltrk := field_lt m 46 55
  have lrate := field_lt m 69 77
  simp only [show 43 + 1 - 35 = 9 by decide, show 55 + 1 - 46 = 10 by decide, show 77 + 1 - 69 = 9 by decide] at lroll ltrk lrate
  have froll : decide (-50 ≤ (if field m 34 34 = 0 then Int.tdiv ((field m 35 43 : Int) * 45) 256 else Int.tdiv ((field m 35 43 : Int) * 45) 256 - 90)
      ∧ (if field m 34 34 = 0 then Int.tdiv ((field m 35 43 : Int) * 45) 256 else Int.tdiv ((field m 35 43 : Int) * 45) 256 - 90) ≤ 50) = true := by
    have sf := roll_shown (field m 35 43) lroll (field m 34 34) (bit_01 m 34)
    unfold ShownFloor at sf
    simp only [decide_eq_true_eq]
    omega
  have ftrk : decide ((if field m 45 45 = 0 then field m 46 55 * 90 / 512 else field m 46 55 * 90 / 512 + 180) ≤ 360) = true := by
    simp only [decide_eq_true_eq]; split <;> omega
  have frate : decide (-16 ≤ (if field m 68 68 = 0 then ((field m 69 77 / 32 : Nat) : Int) else ((field m 69 77 / 32 : Nat) : Int) - 16)
      ∧ (if field m 68 68 = 0 then ((field m 69 77 / 32 : Nat) : Int) else ((field m 69 77 / 32 : Nat) : Int) - 16) ≤ 16) = true := by
    simp only [decide_eq_true_eq]; split <;> omega
  have fgs : decide (2 * field m 57 66 ≤ 600) = true := by simpa using hgs
  have ftas : decide (2 * field m 79 88 ≤ 500) = true := by simpa using htas
  simp only [froll, ftrk, frate, fgs, ftas, if_true, hdiff]
  rfl

-- non-vacuity: a left-turn and a right-turn 5,0 register, a descending and a climbing 6,0 register, a 4,0 register
example : (isBds50 (hexDigits ("A0000F98F39C19323EC4BEA81EF2".toList.map Char.toNat))).isSome = true := by decide +kernel
example : (isBds50 (hexDigits ("A0000F988C93E9322144BEE9ECD3".toList.map Char.toNat))).isSome = true := by decide +kernel
example : ((isBds50 (hexDigits ("A0000F98F39C19323EC4BEA81EF2".toList.map Char.toNat))).bind (·.rate)) = some (-2)
    ∧ ((isBds50 (hexDigits ("A0000F98F39C19323EC4BEA81EF2".toList.map Char.toNat))).bind (·.roll)) = some (-18) := by decide +kernel
example : (isBds60 (hexDigits ("A0000F98ED49F52D3E27C6458C50".toList.map Char.toNat))).isSome = true := by decide +kernel
example : (isBds60 (hexDigits ("A0000F9892C9F52D21E43A8A1076".toList.map Char.toNat))).isSome = true := by decide +kernel
example : ((isBds60 (hexDigits ("A0000F98ED49F52D3E27C6458C50".toList.map Char.toNat))).bind (·.baroRate)) = some (-1920) := by decide +kernel
example : (isBds40 (hexDigits ("A0000F98BE85F430A800053183AE".toList.map Char.toNat))).isSome = true := by decide +kernel

end Sq.C10
