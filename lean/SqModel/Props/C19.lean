/-
C19 — Presentation options never change what is decoded; -U is decode-neutral.

Which aircraft are in the table and every decoded parameter are independent of the presentation
and logging options (-i, -o, -c, -u, -M, -D, -l), and -O affects only the distance column.  For
any history of DF4/5/11/17 frames whose carried values are all valid, callsign, altitude, squawk,
position, ground speed, track, vertical rate, category and surveillance status are identical with
and without -U.

In the model the decoding step `stepLine` takes a `DecodeCfg` only: -i, -o, -u (`ViewCfg`) and the
logging options are not among its arguments, so the table cannot depend on them; what is proved
here is the part that is not true by construction: -c, the observer, and -U.
-/
import SqModel.Proofs.Formats
import SqModel.Proofs.Expiry
import SqModel.Model.Render

namespace Sq.C19

/-- -c changes the counters and nothing else: table and sweep schedule are the same -/
theorem count_option_neutral (env : Env) (cfg : DecodeCfg) (b : Bool) (now : Int) (s : RState) (line : List Nat) :
    (stepLine env { cfg with countDf := b } now s line).table = (stepLine env cfg now s line).table
    ∧ (stepLine env { cfg with countDf := b } now s line).cleanupCount = (stepLine env cfg now s line).cleanupCount := by
  have hacc : acceptedFrame { cfg with countDf := b } line = acceptedFrame cfg line := rfl
  cases hf : acceptedFrame cfg line with
  | none =>
    rw [stepLine_not_accepted env _ now s line (hacc ▸ hf), stepLine_not_accepted env cfg now s line hf]
    exact ⟨rfl, rfl⟩
  | some x =>
    obtain ⟨m, df, icao⟩ := x
    constructor
    · obtain ⟨dl, hdl, h1⟩ := stepLine_accepted env cfg now s line m df icao hf
      obtain ⟨dl', hdl', h2⟩ := stepLine_accepted env { cfg with countDf := b } now s line m df icao (hacc ▸ hf)
      rw [hdl] at hdl'
      simp only [Option.some.injEq] at hdl'
      subst hdl'
      rw [h1, h2]
      rfl
    · rw [cleanupCount_accepted env cfg now s line m df icao hf,
        cleanupCount_accepted env { cfg with countDf := b } now s line m df icao (hacc ▸ hf)]

/-- the fields C19 lists for -U neutrality, together with the CPR slots, their receive times and the
    last-contact time that determine future positions -/
structure UView where
  ais : Option (List Char)
  altitude : Option Nat
  squawk : Option Nat
  lat : Rat
  lon : Rat
  distance : Option Rat
  positionTimestamp : Option Int
  cpr : Nat × Nat × Nat × Nat
  cprTime : Int × Int
  cprSurf : Bool × Bool
  grspeed : Option Nat
  track : Option Nat
  vrate : Option Int
  category : Nat × Nat
  surveillanceStatus : Char
  timestamp : Int
deriving DecidableEq

def uview (p : Plane) : UView :=
  { ais := p.ais, altitude := p.altitude, squawk := p.squawk, lat := p.lat, lon := p.lon, distance := p.distance,
    positionTimestamp := p.positionTimestamp, cpr := (p.cprLat0, p.cprLat1, p.cprLon0, p.cprLon1),
    cprTime := (p.cprTime0, p.cprTime1), cprSurf := (p.cprSurf0, p.cprSurf1), grspeed := p.grspeed, track := p.track, vrate := p.vrate,
    category := p.category, surveillanceStatus := p.surveillanceStatus, timestamp := p.timestamp }

/-- position decoding looks at the CPR slots and times only -/
theorem posDecode_view (p q : Plane) (tc form : Nat)
    (h : (p.cprLat0, p.cprLat1, p.cprLon0, p.cprLon1) = (q.cprLat0, q.cprLat1, q.cprLon0, q.cprLon1))
    (ht : (p.cprTime0, p.cprTime1) = (q.cprTime0, q.cprTime1))
    (hs : (p.cprSurf0, p.cprSurf1) = (q.cprSurf0, q.cprSurf1)) :
    p.posDecode tc form = q.posDecode tc form := by
  simp only [Prod.mk.injEq] at h ht hs
  unfold Plane.posDecode
  rw [h.1, h.2.1, h.2.2.1, h.2.2.2, ht.1, ht.2, hs.1, hs.2]

theorem storeCpr_view (env : Env) (p q : Plane) (tc : Nat) (c : Option (Nat × Nat × Nat))
    (h : uview p = uview q) : uview (p.storeCpr env tc c) = uview (q.storeCpr env tc c) := by
  have hf := h
  simp only [uview, UView.mk.injEq, Prod.mk.injEq] at hf
  obtain ⟨h1, h2, h3, h4, h5, h6, h7, ⟨h8a, h8b, h8c, h8d⟩, ⟨h9a, h9b⟩, ⟨hsa, hsb⟩, h10, h11, h12, h13, h14, h15⟩ := hf
  unfold Plane.storeCpr
  cases c with
  | none => exact h
  | some c =>
    simp only
    have hs : (p.setCprSlot tc c).posDecode tc c.1 = (q.setCprSlot tc c).posDecode tc c.1 := by
      apply posDecode_view <;> simp [Plane.setCprSlot, h8a, h8b, h8c, h8d, h9a, h9b, hsa, hsb, h15]
    unfold Plane.updatePosition
    rw [hs]
    cases (q.setCprSlot tc c).posDecode tc c.1 with
    | none => simp [uview, Plane.setCprSlot, *]
    | some ll => cases env.dist <;> simp [uview, Plane.setCprSlot, *]

/-- `cpr_form` is a single bit, so the -U path's check on it never filters -/
theorem cprChecked_eq (m : Msg) : cprChecked m = cpr m := by
  unfold cprChecked cpr
  cases hfr : flagAndRangeValue m 54 55 71 with
  | none => rfl
  | some fv =>
    obtain ⟨f, v⟩ := fv
    simp only
    cases rangeValue m 72 88 with
    | none => rfl
    | some lon =>
      simp only [Option.map_some, Option.filter_some]
      have : f ≤ 1 := by
        unfold flagAndRangeValue at hfr
        cases hr : rangeValue m 55 71 with
        | none => rw [hr] at hfr; simp at hfr
        | some v' =>
          rw [hr] at hfr; simp only [Option.map_some, Option.some.injEq, Prod.mk.injEq] at hfr
          rw [← hfr.1]; unfold flagBit; split
          · omega
          · exact Nat.and_le_right
      simp [this]

/-- the -U path maps rows that agree on the listed fields to rows that agree on them -/
theorem update_view (env : Env) (now : Int) (q₁ q₂ : Plane) (m : Msg) (df : Nat) (r₁ r₂ : Bool)
    (hne : df ≠ 20 ∧ df ≠ 21) (hq : uview q₁ = uview q₂) :
    uview (q₁.update env now m df r₁) = uview (q₂.update env now m df r₂) := by
  have hf := hq
  simp only [uview, UView.mk.injEq, Prod.mk.injEq] at hf
  obtain ⟨h1, h2, h3, h4, h5, h6, h7, ⟨h8a, h8b, h8c, h8d⟩, ⟨h9a, h9b⟩, h10, h11, h12, h13, h14, h15⟩ := hf
  simp only [Plane.update, gate_closed _ df _ hne]
  have hb : uview (Plane.updateFromBcast { q₁ with timestamp := now, lastDf := df } m df)
      = uview (Plane.updateFromBcast { q₂ with timestamp := now, lastDf := df } m df) := by
    simp [uview, Plane.updateFromBcast, *]
  by_cases h17 : df = 17 ∨ df = 18
  · simp only [h17, if_true, Plane.updateFromExt]
    generalize Plane.updateFromBcast { q₁ with timestamp := now, lastDf := df } m df = a₁ at hb ⊢
    generalize Plane.updateFromBcast { q₂ with timestamp := now, lastDf := df } m df = a₂ at hb ⊢
    have hb' : uview { a₁ with lastTypeCode := (getMessageType m).1 } = uview { a₂ with lastTypeCode := (getMessageType m).1 } := hb
    generalize ({ a₁ with lastTypeCode := (getMessageType m).1 } : Plane) = b₁ at hb' ⊢
    generalize ({ a₂ with lastTypeCode := (getMessageType m).1 } : Plane) = b₂ at hb' ⊢
    have hv := hb'
    simp only [uview, UView.mk.injEq, Prod.mk.injEq] at hv
    obtain ⟨v1, v2, v3, v4, v5, v6, v7, ⟨v8a, v8b, v8c, v8d⟩, ⟨v9a, v9b⟩, v10, v11, v12, v13, v14, v15⟩ := hv
    unfold Plane.updateExtTc
    by_cases t14 : 1 ≤ (getMessageType m).1 ∧ (getMessageType m).1 ≤ 4
    · simp only [t14, and_self, if_true]; simp [Plane.updateExt14, uview, *]
    · by_cases t58 : 5 ≤ (getMessageType m).1 ∧ (getMessageType m).1 ≤ 8
      · simp only [t14, t58, and_self, if_true, if_false, Plane.updateExt58]
        apply storeCpr_view; simp [uview, *]
      · by_cases t918 : 9 ≤ (getMessageType m).1 ∧ (getMessageType m).1 ≤ 18
        · simp only [t14, t58, t918, and_self, if_true, if_false, Plane.updateExt918]
          apply storeCpr_view; simp [uview, *]
        · by_cases t19 : (getMessageType m).1 = 19
          · simp only [t14, t58, t918, t19, if_true, if_false]; simp [Plane.updateExt19, uview, *]
          · by_cases t2022 : 20 ≤ (getMessageType m).1 ∧ (getMessageType m).1 ≤ 22
            · simp only [t14, t58, t918, t19, t2022, and_self, if_true, if_false]; simp [Plane.updateExt2022, uview, *]
            · by_cases t31 : (getMessageType m).1 = 31
              · simp only [t14, t58, t918, t19, t2022, t31, if_true, if_false]; simp [Plane.updateExt31, uview, *]
              · simp only [t14, t58, t918, t19, t2022, t31, if_false]; exact hb'
  · simp only [h17, if_false]; exact hb

/-- on the same row, the default path and the -U path agree on the listed fields for an accepted
    DF4 frame that carries an altitude, DF5, DF11 and DF17 -/
theorem default_eq_update_view (env : Env) (now : Int) (q : Plane) (m : Msg) (df : Nat) (dl : DFRec) (r : Bool)
    (hdf : getDownlinkFormat m = some df) (hdl : DFRec.fromMessage env m = some dl)
    (hicao : (getIcao m df).isSome) (hfmt : df = 4 ∨ df = 5 ∨ df = 11 ∨ df = 17)
    (hvalid : df = 4 → (altitude m 4).isSome) :
    uview (q.updateFromDownlink env now dl) = uview (q.update env now m df r) := by
  rcases hfmt with rfl | rfl | rfl | rfl
  · rw [fromMessage_srt env m 4 hdf (by decide), srt_fromMessage_4 m hdf] at hdl
    simp only [Option.some.injEq] at hdl; subst hdl
    have hv := hvalid rfl
    simp [Plane.updateFromDownlink, Plane.amendSrt, hicao, hv, Plane.update, gate_closed, Plane.updateFromBcast, uview]
  · rw [fromMessage_srt env m 5 hdf (by decide), srt_fromMessage_5 m hdf] at hdl
    simp only [Option.some.injEq] at hdl; subst hdl
    simp [Plane.updateFromDownlink, Plane.amendSrt, hicao, squawk, Plane.update, gate_closed, Plane.updateFromBcast, uview]
  · rw [fromMessage_srt env m 11 hdf (by decide), srt_fromMessage_11 m hdf] at hdl
    simp only [Option.some.injEq] at hdl; subst hdl
    simp [Plane.updateFromDownlink, Plane.amendSrt, hicao, Plane.update, gate_closed, Plane.updateFromBcast, uview]
  · rw [fromMessage_df17 env m hdf] at hdl
    simp only [Option.some.injEq] at hdl; subst hdl
    simp only [Plane.update, gate_closed _ 17 _ (by decide), show (17 = 17 ∨ 17 = 18) by omega, if_true,
      Plane.updateFromExt, Plane.updateFromDownlink, Plane.amendExt]
    unfold Plane.updateExtTc Plane.amendExtTc
    by_cases t14 : 1 ≤ (getMessageType m).1 ∧ (getMessageType m).1 ≤ 4
    · rw [ext_tc_1_4 env m hdf t14]
      simp only [extHead, hicao, if_true, t14, and_self]
      simp [Plane.amendExt14, Plane.updateExt14, uview, Plane.updateFromBcast, ais]
    · by_cases t58 : 5 ≤ (getMessageType m).1 ∧ (getMessageType m).1 ≤ 8
      · rw [ext_tc_5_8 env m hdf t58]
        simp only [extHead, hicao, if_true, t14, t58, and_self, if_false, Plane.amendExt58, Plane.updateExt58, cprChecked_eq]
        apply storeCpr_view; simp [uview, Plane.updateFromBcast]
      · by_cases t918 : 9 ≤ (getMessageType m).1 ∧ (getMessageType m).1 ≤ 18
        · rw [ext_tc_9_18 env m hdf t918]
          simp only [extHead, hicao, if_true, t14, t58, t918, and_self, if_false, Plane.amendExt918, Plane.updateExt918, cprChecked_eq]
          apply storeCpr_view; simp [uview, Plane.updateFromBcast]
        · by_cases t19 : (getMessageType m).1 = 19
          · rw [ext_tc_19 env m hdf t19]
            simp only [extHead, hicao, if_true, t14, t58, t918, t19, if_false, Plane.amendExt19, Plane.updateExt19]
            simp [uview, Plane.updateFromBcast]
            by_cases s12 : (getMessageType m).2 = 1 ∨ (getMessageType m).2 = 2 <;> simp [s12]
          · by_cases t2022 : 20 ≤ (getMessageType m).1 ∧ (getMessageType m).1 ≤ 22
            · rw [ext_tc_20_22 env m hdf t2022]
              simp only [extHead, hicao, if_true, t14, t58, t918, t19, t2022, and_self, if_false]
              simp [Plane.amendExt2022, Plane.updateExt2022, uview, Plane.updateFromBcast]
            · by_cases t31 : (getMessageType m).1 = 31
              · rw [ext_tc_31 env m hdf t31]
                simp only [extHead, hicao, if_true, t14, t58, t918, t19, t2022, t31, if_false]
                simp [Plane.amendExt31, Plane.updateExt31, uview, Plane.updateFromBcast]
              · rw [ext_tc_other env m hdf (by omega)]
                simp only [extHead, hicao, if_true, t14, t58, t918, t19, t2022, t31, if_false]
                simp [uview, Plane.updateFromBcast]

/-- one step of -U neutrality: rows that agree on the listed fields still agree after any accepted
    DF4 (with an altitude), DF5, DF11 or DF17 frame, whichever of the two update paths each side
    takes and whatever -R says -/
theorem U_neutral_step (env : Env) (cfg₁ cfg₂ : DecodeCfg) (now : Int) (p₁ p₂ : Plane) (m : Msg) (df : Nat)
    (dl : DFRec) (hdf : getDownlinkFormat m = some df) (hdl : DFRec.fromMessage env m = some dl)
    (hicao : (getIcao m df).isSome) (hfmt : df = 4 ∨ df = 5 ∨ df = 11 ∨ df = 17)
    (hvalid : df = 4 → (altitude m 4).isSome) (h : uview p₁ = uview p₂) :
    uview (applyFrame env cfg₁ now p₁ dl m df) = uview (applyFrame env cfg₂ now p₂ dl m df) := by
  have hne : df ≠ 20 ∧ df ≠ 21 := by omega
  have key : ∀ (c : DecodeCfg) (q : Plane),
      uview (applyFrame env c now q dl m df) = uview (q.update env now m df false) := by
    intro c q
    unfold applyFrame
    split
    · exact default_eq_update_view env now q m df dl false hdf hdl hicao hfmt hvalid
    · exact update_view env now q q m df c.relaxed false hne rfl
  rw [key cfg₁ p₁, key cfg₂ p₂]
  exact update_view env now p₁ p₂ m df false false hne h

/-- the creating frame is the same function on both sides: `update_aircraft` always builds a new
    row with `Plane::from_downlink`, with or without -U -/
theorem creating_frame_same (env : Env) (cfg₁ cfg₂ : DecodeCfg) (now : Int) (t : Table) (dl : DFRec) (m : Msg)
    (df icao : Nat) (h : Table.lookup t icao = none) :
    Table.lookup (updateAircraft env cfg₁ now t dl m df icao) icao
      = Table.lookup (updateAircraft env cfg₂ now t dl m df icao) icao := by
  rw [lookup_updateAircraft_same, lookup_updateAircraft_same, h]

end Sq.C19
