/-
C03 — Every frame is attributed to exactly the address it encodes; rows are isolated.

Each accepted frame of DF 0/4/5/11/16/17/18/20/21 is attributed to exactly one 24-bit address:
the AA field (bits 9-32) for DF11/17/18 and, for DF0/4/5/16/20/21, the last 24 bits XOR the Mode S
CRC-24 (generator 0x1FFF409) of all preceding bits.  A frame whose address is zero is dropped;
any other creates the row of its address if absent and can modify that row only - no other
aircraft's row changes and the table never holds two rows for one address.
-/
import SqModel.Proofs.Gate
import SqModel.Proofs.Table
import SqModel.Proofs.Frame

namespace Sq.C03
open Spec

/-- the 32-bit register division of `crc56` is the CRC-24 of the first 32 bits -/
theorem crc56_is_crc24 (m : Msg) (h : AllNib m) (hl : 8 ≤ m.length) :
    crc56 m = (crc24 (bitsOf m 1 32)).toNat := crc56_eq_spec m h hl

/-- the three-register division of `crc112` is the CRC-24 of the first 88 bits -/
theorem crc112_is_crc24 (m : Msg) (h : AllNib m) (hl : 22 ≤ m.length) :
    crc112 m = (crc24 (bitsOf m 1 88)).toNat := crc112_eq_spec m h hl

/-- what an accepted line hands to the decoder: a gated digit vector and its DF -/
theorem accepted_gated (line : List Nat) (m : Msg) (h : getMessage line = some m) :
    Gated m ∧ getDownlinkFormat m = some (Spec.df m) := by
  have hn := getMessage_allNib h
  have hl := getMessage_length h
  obtain ⟨_, _, hg, _, _⟩ := messageOfDigits_some h
  rw [lengthMatchesDF_eq m hn (by omega)] at hg
  exact ⟨gated_of_lengthMatches m hn hl hg, getDownlinkFormat_eq m hn (by omega)⟩

/-- address of the formats with address/parity overlay: last 24 bits xor CRC-24 of the rest -/
theorem address_AP (m : Msg) (g : Gated m)
    (hf : Spec.df m = 0 ∨ Spec.df m = 4 ∨ Spec.df m = 5 ∨ Spec.df m = 16 ∨ Spec.df m = 20 ∨ Spec.df m = 21) :
    getIcao m (Spec.df m)
      = (some (field m (4 * m.length - 23) (4 * m.length)
                ^^^ (crc24 (bitsOf m 1 (4 * m.length - 24))).toNat)).filter (· ≠ 0) := by
  rw [getIcao_eq m g (by simp only [List.mem_cons, List.not_mem_nil, or_false]; omega)]
  unfold addressOf
  have : ¬ (Spec.df m = 11 ∨ Spec.df m = 17 ∨ Spec.df m = 18) := by omega
  simp only [this, if_false, hf, if_true]

/-- address of the squitter formats: the AA field -/
theorem address_AA (m : Msg) (g : Gated m) (hf : Spec.df m = 11 ∨ Spec.df m = 17 ∨ Spec.df m = 18) :
    getIcao m (Spec.df m) = (some (field m 9 32)).filter (· ≠ 0) := by
  rw [getIcao_eq m g (by simp only [List.mem_cons, List.not_mem_nil, or_false]; omega)]
  unfold addressOf
  simp only [hf, if_true]

/-- a frame whose address is zero (or that has none) changes nothing -/
theorem zero_dropped (env : Env) (cfg : DecodeCfg) (now : Int) (s : RState) (line : List Nat) (m : Msg)
    (df : Nat) (hm : getMessage line = some m) (hdf : getDownlinkFormat m = some df)
    (h0 : getIcao m df = none) : stepLine env cfg now s line = s := by
  apply stepLine_not_accepted
  unfold acceptedFrame
  simp [hm, hdf, h0]

/-- no other aircraft's row changes: it is byte-for-byte the same, or it was removed by the
    expiry sweep (C12) because it had not been heard for `delete_after` seconds -/
theorem row_isolation (env : Env) (cfg : DecodeCfg) (now : Int) (s : RState) (line : List Nat)
    (m : Msg) (df icao b : Nat) (h : acceptedFrame cfg line = some (m, df, icao)) (hb : b ≠ icao)
    (hnd : s.table.keys.Nodup) :
    Table.lookup (stepLine env cfg now s line).table b = Table.lookup s.table b
    ∨ (Table.lookup (stepLine env cfg now s line).table b = none ∧ s.cleanupCount > 10 ∧
        ∃ p, Table.lookup s.table b = some p ∧ ¬ numSeconds now p.timestamp < cfg.deleteAfter) := by
  obtain ⟨dl, _, ht⟩ := stepLine_accepted env cfg now s line m df icao h
  rw [ht]
  have hother := lookup_updateAircraft_other env cfg now s.table dl m df icao b hb
  split
  · rename_i hc
    rw [lookup_filter _ _ b (nodup_updateAircraft env cfg now s.table dl m df icao hnd), hother]
    cases hl : Table.lookup s.table b with
    | none => left; rfl
    | some p =>
      simp only
      split
      · left; rfl
      · rename_i hexp
        right
        refine ⟨rfl, hc, p, rfl, ?_⟩
        simpa using hexp
  · left; exact hother

/-- an accepted frame creates the row of its address if absent (for `delete_after > 0`; with
    `delete_after <= 0` the sweep of the same step may remove it again, as C12 prescribes) -/
theorem creates_if_absent (env : Env) (cfg : DecodeCfg) (now : Int) (s : RState) (line : List Nat)
    (m : Msg) (df icao : Nat) (h : acceptedFrame cfg line = some (m, df, icao))
    (hpos : 0 < cfg.deleteAfter) (hnd : s.table.keys.Nodup)
    (habs : Table.lookup s.table icao = none) :
    ∃ dl, DFRec.fromMessage env m = some dl ∧
      Table.lookup (stepLine env cfg now s line).table icao = some (Plane.fromDownlink env now dl icao) := by
  obtain ⟨dl, hdl, ht⟩ := stepLine_accepted env cfg now s line m df icao h
  refine ⟨dl, hdl, ?_⟩
  rw [ht]
  have hsame := lookup_updateAircraft_same env cfg now s.table dl m df icao
  rw [habs] at hsame
  simp only at hsame
  split
  · rw [lookup_filter _ _ icao (nodup_updateAircraft env cfg now s.table dl m df icao hnd), hsame]
    simp only [fromDownlink_timestamp, numSeconds, Int.sub_self]
    have : Int.tdiv 0 1000 = 0 := by decide
    simp [this, hpos]
  · exact hsame

/-- the table never holds two rows for one address: invariant of every segment from any table
    that has it (the empty table does) -/
theorem keys_nodup (env : Env) (cfg : DecodeCfg) (now : Int) (t : Table) (lines : List (List Nat))
    (h : t.keys.Nodup) : (runSegment env cfg now t lines).table.keys.Nodup :=
  nodup_runSegment env cfg now t lines h

example : (Table.keys ([] : Table)).Nodup := by simp [Table.keys]

-- the recorded frames of the repository's own test: address by AP overlay and by AA field
example : getIcao (hexDigits ("28001A1B1F0706".toList.map Char.toNat)) 5 = some 5023854 := by decide +kernel
example : getIcao (hexDigits ("8D4CA86E58B15398DA1B2834CF37".toList.map Char.toNat)) 17 = some 5023854 := by decide +kernel

end Sq.C03
