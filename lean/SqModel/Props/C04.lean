/-
C04 — Squitters with failing parity never change the table.

A DF17 or DF18 frame is applied only if the Mode S CRC-24 remainder of the whole 112-bit frame
is zero, and a DF11 frame only if the upper 17 bits of its 24-bit remainder are zero.  Every
other DF11/17/18 frame - e.g. a valid squitter hit by any error pattern the CRC detects -
leaves the aircraft table completely unchanged.
-/
import SqModel.Props.C02

namespace Sq.C04
open Spec

/-- the gate: whatever `get_message` lets through satisfies the parity rule of its format -/
theorem parity_gate (line : List Nat) (m : Msg) (h : getMessage line = some m) :
    ((Spec.df m = 17 ∨ Spec.df m = 18) → syndrome (bitsOf m 1 (4 * m.length)) = 0)
    ∧ (Spec.df m = 11 → (syndrome (bitsOf m 1 (4 * m.length))).toNat &&& 0xFFFF80 = 0) := by
  have hp := ((C02.getMessage_iff line m).mp h).2.2
  unfold Spec.parityOK at hp
  constructor
  · intro hd
    simp only [hd, if_true] at hp
    apply BitVec.eq_of_toNat_eq
    simpa using hp
  · intro hd
    have : ¬ (Spec.df m = 17 ∨ Spec.df m = 18) := by omega
    simp only [this, if_false, hd, if_true] at hp
    simpa using hp

/-- a DF11/17/18 digit sequence that fails the rule is not taken as a frame at all -/
theorem reject (line : List Nat) (m : Msg) (hf : frameOf (hexDigits line) = some m)
    (hbad : Spec.parityOK m = false) : getMessage line = none := by
  cases h : getMessage line with
  | none => rfl
  | some m' =>
    have := (C02.getMessage_iff line m').mp h
    rw [hf] at this
    simp only [Option.some.injEq] at this
    obtain ⟨h1, _, h3⟩ := this
    subst h1
    rw [hbad] at h3
    exact absurd h3 (by decide)

/-- ... and so changes nothing: table, counters, sweep schedule -/
theorem reject_noop (env : Env) (cfg : DecodeCfg) (now : Int) (s : RState) (line : List Nat) (m : Msg)
    (hf : frameOf (hexDigits line) = some m) (hbad : Spec.parityOK m = false) :
    stepLine env cfg now s line = s :=
  C02.nonframe_noop env cfg now s line (reject line m hf hbad)

/-- ... at any point of any history -/
theorem reject_anywhere (env : Env) (cfg : DecodeCfg) (now : Int) (t : Table)
    (pre post : List (List Nat)) (bad : List Nat) (m : Msg)
    (hf : frameOf (hexDigits bad) = some m) (hbad : Spec.parityOK m = false) :
    runSegment env cfg now t (pre ++ [bad] ++ post) = runSegment env cfg now t (pre ++ post) := by
  unfold runSegment
  simp only [List.foldl_append, List.foldl_cons, List.foldl_nil]
  rw [reject_noop env cfg now _ bad m hf hbad]

/-- the remainder is linear: corrupting a frame adds the remainder of the error pattern -/
theorem syndrome_linear (f e : List Bool) (h : f.length = e.length) :
    syndrome (List.zipWith Bool.xor f e) = syndrome f ^^^ syndrome e :=
  syndrome_xor f e h

/-- a valid squitter hit by an error pattern the CRC detects no longer has remainder zero -/
theorem corrupted_rejected (f e : List Bool) (h : f.length = e.length)
    (hf : syndrome f = 0) (he : syndrome e ≠ 0) : syndrome (List.zipWith Bool.xor f e) ≠ 0 := by
  rw [syndrome_linear f e h, hf]; simpa using he

/-- multiplying a remainder by x modulo G never produces zero from non-zero (G has constant term 1) -/
theorem step0_ne_zero (r : BitVec 24) (h : r ≠ 0) : specStep r false ≠ 0 := by
  intro h0
  apply h
  unfold specStep at h0
  simp only at h0
  split at h0
  · -- reduced: the low 24 bits of (r<<1) xor G are zero, but bit 0 of G is 1 and bit 0 of r<<1 is 0
    have := congrArg (fun v => v.getLsbD 0) h0
    simp [G] at this
  · ext i hi
    have hi1 : i + 1 < 25 := by omega
    by_cases hlast : i = 23
    · subst hlast
      rename_i hm
      simp [BitVec.msb_eq_getLsbD_last, BitVec.getLsbD_shiftLeft] at hm
      simpa using hm
    · have := congrArg (fun v => v.getLsbD (i + 1)) h0
      simp [BitVec.getLsbD_shiftLeft] at this
      have hi2 : i + 1 < 24 := by omega
      simp [hi2] at this
      simp [← BitVec.getLsbD_eq_getElem, this]

theorem step0_iter_ne_zero (k : Nat) (r : BitVec 24) (h : r ≠ 0) :
    (List.replicate k false).foldl specStep r ≠ 0 := by
  induction k generalizing r with
  | zero => simpa using h
  | succ k ih => rw [List.replicate_succ, List.foldl_cons]; exact ih _ (step0_ne_zero r h)

/-- every non-zero error confined to 24 consecutive bit positions is detected, wherever it sits
    in a frame of any length (in particular every burst of up to 24 bits and every single-bit error) -/
theorem burst_detected (a k : Nat) (w : BitVec 24) (hw : w ≠ 0) :
    syndrome (List.replicate a false ++ bvBits w ++ List.replicate k false) ≠ 0 := by
  have h1 : syndrome (List.replicate a false ++ bvBits w) = w := by
    rw [foldl_specStep_zeros, syndrome_bits24]
  unfold syndrome at h1 ⊢
  rw [List.foldl_append, h1]
  exact step0_iter_ne_zero k w hw

/-- remainders of all two-bit patterns, by distance -/
theorem double_bit_table : ∀ d, d < 111 →
    syndrome (true :: (List.replicate d false ++ [true])) ≠ 0 := by
  decide +kernel

/-- every double-bit error within a frame of up to 112 bits is detected -/
theorem double_bit_detected (a d k : Nat) (hd : d < 111) :
    syndrome (List.replicate a false ++ (true :: (List.replicate d false ++ [true])) ++ List.replicate k false) ≠ 0 := by
  have h1 : syndrome (List.replicate a false ++ (true :: (List.replicate d false ++ [true])))
      = syndrome (true :: (List.replicate d false ++ [true])) := foldl_specStep_zeros _ _
  unfold syndrome at h1 ⊢
  rw [List.foldl_append, h1]
  exact step0_iter_ne_zero k _ (double_bit_table d hd)

-- non-vacuity: a valid squitter, and the same squitter with one bit flipped
example : Spec.parityOK (hexDigits ("8D40621D58C382D690C8AC2863A7".toList.map Char.toNat)) = true := by decide +kernel
example : Spec.parityOK (hexDigits ("8D40621D58C382D690C8AC2863A6".toList.map Char.toNat)) = false := by decide +kernel
example : getMessage ("8D40621D58C382D690C8AC2863A6".toList.map Char.toNat) = none := by decide +kernel

end Sq.C04
