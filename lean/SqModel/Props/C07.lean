/-
C07 — Callsign and emitter category are decoded character-exactly.

An aircraft-identification squitter (DF17 TC 1-4) and a Comm-B reply decoded as BDS 2,0 yield
the callsign made of their eight 6-bit characters (1-26 -> A-Z, 48-57 -> 0-9) in order, with
every other character code omitted.  The squitter's type code and 3-bit category are recorded
as the emitter category, and type code 4 with category 1,2,3,4,5,7 is shown as wake class
L,S,M,H,J,R, anything else as blank.
-/
import SqModel.Proofs.Ident
import SqModel.Proofs.Frame
import SqModel.Proofs.Downlink
import SqModel.Model.Render

namespace Sq.C07
open Spec

/-- the decoder yields exactly the characters of the eight 6-bit groups of bits 41..88 that are
    letters or digits, in order — for every 112-bit digit vector -/
theorem ais_eq_callsignSpec (m : Msg) (h : AllNib m) (hl : 22 ≤ m.length) :
    ais m = some (callsignSpec m) := ais_eq_spec m h hl

/-- computed from bits 41..88 and nothing else -/
theorem ais_depends_only_on_field (m₁ m₂ : Msg) (h₁ : AllNib m₁) (h₂ : AllNib m₂)
    (l₁ : 22 ≤ m₁.length) (l₂ : 22 ≤ m₂.length) (hf : chars48 m₁ = chars48 m₂) : ais m₁ = ais m₂ := by
  rw [ais_eq_spec m₁ h₁ l₁, ais_eq_spec m₂ h₂ l₂]; unfold callsignSpec; rw [hf]

/-- the character set, all 64 codes: letters, digits, everything else omitted -/
theorem charset : ∀ c : Fin 64,
    ia5Spec c.val = (if 1 ≤ c.val ∧ c.val ≤ 26 then some (Char.ofNat (64 + c.val))
                     else if 48 ≤ c.val ∧ c.val ≤ 57 then some (Char.ofNat c.val) else none) := by
  intro c; rfl

/-- wake class letters, all 32 x 8 (type code, category) pairs -/
theorem wake_letter : ∀ tc : Fin 32, ∀ ca : Fin 8, wakeCategory (tc.val, ca.val) = wakeSpec tc.val ca.val :=
  wake_eq_spec

/-- (type code, category) are bits 33..37 and 38..40 -/
theorem messageType_eq_fields (m : Msg) (h : AllNib m) (hl : 10 ≤ m.length) :
    getMessageType m = (field m 33 37, field m 38 40) := by
  unfold getMessageType
  have f1 : field m 33 37 = (nib m 8 <<< 1) ||| (nib m 9 >>> 3) := by
    rw [field_via_take m h _ _ (by omega) (by omega)]
    simp only [show (37 - 1) / 4 + 1 = 10 by decide, show 3 - (37 - 1) % 4 = 3 by decide, show 37 + 1 - 33 = 5 by decide]
    rw [natOf_take_succ m 9 (by omega), natOf_take_succ m 8 (by omega)]
    have ha := nib_lt m h 8; have hb := nib_lt m h 9
    generalize natOf (m.take 8) = T
    generalize nib m 8 = a at *; generalize nib m 9 = b at *
    have : ∀ a b : Fin 16, (a.val <<< 1) ||| (b.val >>> 3) = a.val * 2 + b.val / 8 := by decide
    rw [this ⟨a, ha⟩ ⟨b, hb⟩]; simp; omega
  have f2 : field m 38 40 = nib m 9 &&& 7 := by
    rw [field_via_take m h _ _ (by omega) (by omega)]
    simp only [show (40 - 1) / 4 + 1 = 10 by decide, show 3 - (40 - 1) % 4 = 0 by decide, show 40 + 1 - 38 = 3 by decide]
    rw [natOf_take_succ m 9 (by omega)]
    have hb := nib_lt m h 9
    generalize natOf (m.take 9) = T
    generalize nib m 9 = b at *
    have : ∀ b : Fin 16, b.val &&& 7 = b.val % 8 := by decide
    rw [this ⟨b, hb⟩]; simp; omega
  rw [f1, f2]

/-- an identification squitter sets callsign and category of an existing row on both update
    paths, under every option set -/
theorem row_callsign_after_TC1_4 (env : Env) (cfg : DecodeCfg) (now : Int) (p : Plane) (m : Msg)
    (hdf : getDownlinkFormat m = some 17) (htc : 1 ≤ (getMessageType m).1 ∧ (getMessageType m).1 ≤ 4)
    (hicao : (getIcao m 17).isSome) :
    (applyFrame env cfg now p (.ext (Ext.fromMessage env m)) m 17).ais = ais m
    ∧ (applyFrame env cfg now p (.ext (Ext.fromMessage env m)) m 17).category = getMessageType m := by
  unfold applyFrame
  split
  · rw [ext_tc_1_4 env m hdf htc]
    simp [Plane.updateFromDownlink, Plane.amendExt, extHead, hicao, Plane.amendExtTc, htc, Plane.amendExt14, ais]
  · simp [Plane.update, Plane.updateFromExt, Plane.updateExtTc, htc, Plane.updateExt14, commBGate]

/-- the creating frame does the same -/
theorem creating_callsign_TC1_4 (env : Env) (now : Int) (m : Msg) (icao : Nat)
    (hdf : getDownlinkFormat m = some 17) (htc : 1 ≤ (getMessageType m).1 ∧ (getMessageType m).1 ≤ 4)
    (hicao : (getIcao m 17).isSome) :
    (Plane.fromDownlink env now (.ext (Ext.fromMessage env m)) icao).ais = ais m
    ∧ (Plane.fromDownlink env now (.ext (Ext.fromMessage env m)) icao).category = getMessageType m := by
  unfold Plane.fromDownlink
  rw [ext_tc_1_4 env m hdf htc]
  simp [Plane.updateFromDownlink, Plane.amendExt, extHead, hicao, Plane.amendExtTc, htc, Plane.amendExt14, ais]

/-- the callsign after the Comm-B part of `update`: BDS 2,0 (recognised by its code) sets it,
    no other register touches it -/
theorem ais_updateFromModeS (q : Plane) (m : Msg) (r : Bool) :
    (q.updateFromModeS m r).ais = if bdsCode m = (2, 0) then ais m else q.ais := by
  have e : ∀ q : Plane, (eraseRegs q).ais = q.ais := fun _ => rfl
  rw [← e, eraseRegs_updateFromModeS, e]
  unfold stageCoded
  simp only
  split <;> split <;> simp_all

/-- BDS 2,0 via DF20/DF21: under the capability gate of C10 the reply's callsign is shown, and
    without the gate the callsign is left alone -/
theorem bds20_callsign (env : Env) (now : Int) (p : Plane) (m : Msg) (df : Nat) (r : Bool)
    (hdf : df = 20 ∨ df = 21) :
    (p.update env now m df r).ais =
      if (r || decide (p.cap0 > 3)) ∧ bdsCode m = (2, 0) then ais m else p.ais := by
  have hne : ¬ (df = 17 ∨ df = 18) := by omega
  have hb : (df = 11 ∨ df = 17) = False := by simp; omega
  simp only [Plane.update, hne, if_false, commBGate]
  have hcap : (Plane.updateFromBcast { p with timestamp := now, lastDf := df } m df).cap0 = p.cap0 := by
    simp [Plane.updateFromBcast, hb]
  have hais : (Plane.updateFromBcast { p with timestamp := now, lastDf := df } m df).ais = p.ais := rfl
  rw [apply_ite Plane.ais, ais_updateFromModeS, hcap, hais]
  have hdf' : (df = 20 || df = 21) = true := by rcases hdf with h | h <;> simp [h]
  simp only [hdf', Bool.and_true]
  by_cases hg : (r || decide (p.cap0 > 3)) = true <;> by_cases hb2 : bdsCode m = (2, 0) <;> simp [hg, hb2]

/-- the `W` column shows the wake letter of the recorded category, blank otherwise -/
theorem wake_cell (f : DisplayFlags) (now : Int) (p : Plane) :
    ((rowCells f now p).find? fun c => c.column == "W").map (·.text)
      = some (((wakeCategory p.category).map fun c => c.toString).getD " ") := by
  simp [rowCells, List.find?]

-- non-vacuity: the repository's own test vector decodes to its callsign
example : ais (hexDigits ("8D406F7C250815F2CB4560C85DCA".toList.map Char.toNat)) = some "BAW224U".toList := by
  decide +kernel

end Sq.C07
