/-
C08 — Airborne position is the correct global CPR decode or is left unchanged.

When an aircraft's latest even and latest odd airborne-position squitters (TC 9-18) were received
less than 10 whole seconds apart and encode positions in the same latitude zone, the position shown
is the globally unambiguous CPR decoding anchored on the newer frame; in every other case (single
frame, frames 10 s or more apart, zone-straddling pair) the previously shown position is left as it
was - a position not supported by a valid pair is never displayed.

This file: the state machine (which frames may move the position, under which guard, to what).
`Proofs/CprMath.lean` / section "arithmetic" below: the decoded value against the CPR encoding.
The IEEE-754 evaluation of the same formulas in the code and the metres clause are modelled, not
proved (DESIGN 5.8): the check compares every generated pair numerically and against 20 m.
-/
import SqModel.Proofs.Formats
import SqModel.Proofs.Expiry
import SqModel.Props.C19

namespace Sq.C08

/-- the guard of `update_position`, read off a successful decode: both CPR slots of both coordinates
    are filled (a field of 0 counts as not received), the two receive times are less than 10 whole
    seconds apart, the type code is an airborne or surface position, the two candidate latitudes lie in
    the same NL zone (the decoder returned a value), and the result is inside [-90,90] x [-180,180] -/
theorem posDecode_guard (p : Plane) (tc form : Nat) (ll : Rat × Rat) (h : p.posDecode tc form = some ll) :
    p.cprLat0 ≠ 0 ∧ p.cprLat1 ≠ 0 ∧ p.cprLon0 ≠ 0 ∧ p.cprLon1 ≠ 0
    ∧ p.cprSurf0 = p.cprSurf1
    ∧ (numSeconds p.cprTime0 p.cprTime1).natAbs < 10
    ∧ (5 ≤ tc ∧ tc ≤ 18)
    ∧ cprLocation p.cprLat0 p.cprLat1 p.cprLon0 p.cprLon1 form (if tc ≤ 8 then 4 else 1) = some ll
    ∧ (-90 ≤ ll.1 ∧ ll.1 ≤ 90 ∧ -180 ≤ ll.2 ∧ ll.2 ≤ 180) := by
  unfold Plane.posDecode at h
  split at h
  · rename_i hg
    obtain ⟨g1, g2, g3, g4, gs, g5⟩ := hg
    simp only at h
    rw [Option.filter_eq_some_iff] at h
    obtain ⟨hl, hr⟩ := h
    have hr' : -90 ≤ ll.1 ∧ ll.1 ≤ 90 ∧ -180 ≤ ll.2 ∧ ll.2 ≤ 180 := by simpa using hr
    by_cases t58 : 5 ≤ tc ∧ tc ≤ 8
    · simp only [t58, and_self, if_true] at hl
      exact ⟨g1, g2, g3, g4, gs, g5, by omega, by simp [t58.2, hl], hr'⟩
    · by_cases t918 : 9 ≤ tc ∧ tc ≤ 18
      · simp only [t58, t918, and_self, if_true, if_false] at hl
        have : ¬ tc ≤ 8 := by omega
        exact ⟨g1, g2, g3, g4, gs, g5, by omega, by simp [this, hl], hr'⟩
      · simp only [t58, t918, if_false] at hl
        exact absurd hl (by simp)
  · exact absurd h (by simp)

/-- a CPR field that is exactly 0 counts as not received: no position can be decoded -/
theorem zero_field_is_absent (p : Plane) (tc form : Nat)
    (h : p.cprLat0 = 0 ∨ p.cprLat1 = 0 ∨ p.cprLon0 = 0 ∨ p.cprLon1 = 0) : p.posDecode tc form = none := by
  cases hd : p.posDecode tc form with
  | none => rfl
  | some ll =>
    have := posDecode_guard p tc form ll hd
    rcases h with h | h | h | h <;> simp_all

/-- frames 10 whole seconds or more apart never pair -/
theorem stale_pair_rejected (p : Plane) (tc form : Nat) (h : 10 ≤ (numSeconds p.cprTime0 p.cprTime1).natAbs) :
    p.posDecode tc form = none := by
  cases hd : p.posDecode tc form with
  | none => rfl
  | some ll => have := (posDecode_guard p tc form ll hd).2.2.2.2.2.1; omega

/-- a zone-straddling pair (the two candidate latitudes fall into different NL zones) is rejected -/
theorem zone_straddling_rejected (lat0 lat1 lon0 lon1 form : Nat) (coeff : Int)
    (h : nlOf (cprRlat lat0 lat1).1 ≠ nlOf (cprRlat lat0 lat1).2) :
    cprLocation lat0 lat1 lon0 lon1 form coeff = none := by
  unfold cprLocation
  simp only [h, if_false]

theorem updatePosition_none (env : Env) (p : Plane) (a b : Nat) (h : p.posDecode a b = none) :
    p.updatePosition env a b = p := by
  unfold Plane.updatePosition; rw [h]

theorem updatePosition_some (env : Env) (p : Plane) (a b : Nat) (ll : Rat × Rat) (h : p.posDecode a b = some ll) :
    (p.updatePosition env a b).lat = ll.1 ∧ (p.updatePosition env a b).lon = ll.2
    ∧ (p.updatePosition env a b).positionTimestamp = some p.timestamp
    ∧ (p.updatePosition env a b).distance = (match env.dist with
                                              | some d => some (d ll.1 ll.2)
                                              | none => p.distance) := by
  unfold Plane.updatePosition; rw [h]; exact ⟨rfl, rfl, rfl, rfl⟩

/-- the position shown either stays exactly as it was, or is the decode of the stored pair anchored
    on the frame just received, under the guard above; the distance column is then the configured
    distance function of exactly that position (and stays as it was when no observer is configured) -/
theorem position_is_decode_or_unchanged (env : Env) (p : Plane) (tc : Nat) (c : Nat × Nat × Nat) :
    (((p.storeCpr env tc (some c)).lat, (p.storeCpr env tc (some c)).lon, (p.storeCpr env tc (some c)).distance,
        (p.storeCpr env tc (some c)).positionTimestamp) = (p.lat, p.lon, p.distance, p.positionTimestamp)
      ∧ (p.setCprSlot tc c).posDecode tc c.1 = none)
    ∨ (∃ ll, (p.setCprSlot tc c).posDecode tc c.1 = some ll
        ∧ (p.storeCpr env tc (some c)).lat = ll.1 ∧ (p.storeCpr env tc (some c)).lon = ll.2
        ∧ (p.storeCpr env tc (some c)).positionTimestamp = some p.timestamp
        ∧ (p.storeCpr env tc (some c)).distance = (match env.dist with
                                                    | some d => some (d ll.1 ll.2)
                                                    | none => p.distance)) := by
  have e : p.storeCpr env tc (some c) = (p.setCprSlot tc c).updatePosition env tc c.1 := rfl
  rw [e]
  cases hd : (p.setCprSlot tc c).posDecode tc c.1 with
  | none => left; rw [updatePosition_none env _ _ _ hd]; exact ⟨rfl, rfl⟩
  | some ll =>
    right
    obtain ⟨h1, h2, h3, h4⟩ := updatePosition_some env _ _ _ ll hd
    exact ⟨ll, rfl, h1, h2, h3, h4⟩

/-- the receive time of the slot just filled is the row's last-contact time, which every accepted
    frame sets to the current time (C12.contact_refreshes): so the 10 s window is measured between the
    actual receive times of the two frames on both update paths -/
theorem slot_time_is_now (p : Plane) (tc : Nat) (c : Nat × Nat × Nat) :
    (if c.1 = 0 then (p.setCprSlot tc c).cprTime0 else (p.setCprSlot tc c).cprTime1) = p.timestamp
    ∧ (if c.1 = 0 then (p.setCprSlot tc c).cprTime1 = p.cprTime1 else (p.setCprSlot tc c).cprTime0 = p.cprTime0) := by
  unfold Plane.setCprSlot
  by_cases h : c.1 = 0 <;> simp [h]

/-- a committed position is in range -/
theorem range_commit (env : Env) (p : Plane) (tc : Nat) (c : Nat × Nat × Nat)
    (h : (p.storeCpr env tc (some c)).positionTimestamp ≠ p.positionTimestamp) :
    -90 ≤ (p.storeCpr env tc (some c)).lat ∧ (p.storeCpr env tc (some c)).lat ≤ 90
    ∧ -180 ≤ (p.storeCpr env tc (some c)).lon ∧ (p.storeCpr env tc (some c)).lon ≤ 180 := by
  rcases position_is_decode_or_unchanged env p tc c with ⟨hu, _⟩ | ⟨ll, hd, h1, h2, _, _⟩
  · simp only [Prod.mk.injEq] at hu
    exact absurd hu.2.2.2 h
  · have := (posDecode_guard _ tc c.1 ll hd).2.2.2.2.2.2.2.2
    rw [h1, h2]; exact this

/-- every frame that is not a position squitter leaves position, distance, the CPR slots and their
    receive times exactly as they were: for the velocity, identification, status and Comm-B classes
    this is the per-format "modifies" theorems of C11 (none of their field sets contains a position
    field); here the two most frequent ones in the property's words -/
theorem other_frames_preserve_position (env : Env) (cfg : DecodeCfg) (now : Int) (p : Plane) (m : Msg)
    (hdf : getDownlinkFormat m = some 17) (htc : (getMessageType m).1 = 19 ∨ (1 ≤ (getMessageType m).1 ∧ (getMessageType m).1 ≤ 4)) :
    let q := applyFrame env cfg now p (.ext (Ext.fromMessage env m)) m 17
    (q.lat, q.lon, q.distance, q.positionTimestamp, q.cprLat0, q.cprLat1, q.cprLon0, q.cprLon1, q.cprTime0, q.cprTime1)
      = (p.lat, p.lon, p.distance, p.positionTimestamp, p.cprLat0, p.cprLat1, p.cprLon0, p.cprLon1, p.cprTime0, p.cprTime1) := by
  intro q
  let f : Plane → _ := fun r => (r.lat, r.lon, r.distance, r.positionTimestamp, r.cprLat0, r.cprLat1, r.cprLon0, r.cprLon1, r.cprTime0, r.cprTime1)
  show f q = f p
  rcases htc with h19 | h14
  · have h := modifies_tc_19 env cfg now p m hdf h19
    have e : ∀ r, f (eraseVelocity r) = f r := fun _ => rfl
    rw [← e q, h, e]
  · have h := modifies_tc_1_4 env cfg now p m hdf h14
    have e : ∀ r, f (eraseIdent r) = f r := fun _ => rfl
    rw [← e q, h, e]

theorem commb_preserves_position (env : Env) (cfg : DecodeCfg) (now : Int) (p : Plane) (m : Msg) (df : Nat) (dl : DFRec)
    (h : df = 20 ∨ df = 21) :
    let q := applyFrame env cfg now p dl m df
    (q.lat, q.lon, q.distance, q.positionTimestamp, q.cprLat0, q.cprLat1, q.cprLon0, q.cprLon1, q.cprTime0, q.cprTime1)
      = (p.lat, p.lon, p.distance, p.positionTimestamp, p.cprLat0, p.cprLat1, p.cprLon0, p.cprLon1, p.cprTime0, p.cprTime1) := by
  intro q
  let f : Plane → _ := fun r => (r.lat, r.lon, r.distance, r.positionTimestamp, r.cprLat0, r.cprLat1, r.cprLon0, r.cprLon1, r.cprTime0, r.cprTime1)
  show f q = f p
  have hm := modifies_df20_21 env cfg now p m df dl h
  have e : ∀ r, f (eraseCommB r) = f r := fun _ => rfl
  rw [← e q, hm, e]

/-- the position-related fields of a row -/
def posView (p : Plane) :=
  (p.lat, p.lon, p.distance, p.positionTimestamp, p.cprLat0, p.cprLat1, p.cprLon0, p.cprLon1,
   p.cprTime0, p.cprTime1, p.cprSurf0, p.cprSurf1)

/-- an even surface frame and an odd airborne frame (or the reverse) never pair: around take-off and
    landing the two slots may hold frames of different kinds, whose zone sizes differ by a factor 4 -/
theorem mixed_pair_rejected (p : Plane) (tc form : Nat) (h : p.cprSurf0 ≠ p.cprSurf1) : p.posDecode tc form = none := by
  cases hd : p.posDecode tc form with
  | none => rfl
  | some ll => exact absurd (posDecode_guard p tc form ll hd).2.2.2.2.1 h

/-- after an airborne position frame, the slot it filled is marked airborne -/
theorem slot_kind (p : Plane) (tc : Nat) (c : Nat × Nat × Nat) (htc : 9 ≤ tc ∧ tc ≤ 18) :
    (if c.1 = 0 then (p.setCprSlot tc c).cprSurf0 else (p.setCprSlot tc c).cprSurf1) = false := by
  unfold Plane.setCprSlot
  by_cases h : c.1 = 0 <;> simp [h] <;> omega

/-- **Table level, both update paths.**  An accepted DF17 airborne-position frame (TC 9-18) acts on the
    position state of its row exactly as `storeCpr` acts on a row whose position state is the old
    one and whose last-contact time is the current time: the theorems above therefore speak about
    every frame the table processes, with and without -U. -/
theorem airborne_frame_is_storeCpr (env : Env) (cfg : DecodeCfg) (now : Int) (p : Plane) (m : Msg)
    (hdf : getDownlinkFormat m = some 17) (htc : 9 ≤ (getMessageType m).1 ∧ (getMessageType m).1 ≤ 18)
    (hi : (getIcao m 17).isSome = true) :
    ∃ x : Plane, x.timestamp = now ∧ posView x = posView p
      ∧ applyFrame env cfg now p (.ext (Ext.fromMessage env m)) m 17 = x.storeCpr env (getMessageType m).1 (cpr m) := by
  have h14 : ¬ (1 ≤ (getMessageType m).1 ∧ (getMessageType m).1 ≤ 4) := by omega
  have h58 : ¬ (5 ≤ (getMessageType m).1 ∧ (getMessageType m).1 ≤ 8) := by omega
  rw [applyFrame_df17]
  split
  · rw [ext_tc_9_18 env m hdf htc]
    simp only [Plane.amendExt, extHead, hi, if_true]
    simp only [Plane.amendExtTc, h14, h58, htc, and_self, if_true, if_false, Plane.amendExt918]
    exact ⟨_, by rfl, by rfl, rfl⟩
  · simp only [Plane.updateExtTc, h14, h58, htc, and_self, if_true, if_false, Plane.updateExt918]
    rw [C19.cprChecked_eq]
    exact ⟨_, by rfl, by rfl, rfl⟩

end Sq.C08
