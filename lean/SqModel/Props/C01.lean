/-
C01 — No input line or option set can crash or wedge the decoder.

For every sequence of input lines (arbitrary bytes, any length) and every combination of decoding
and display options, processing never panics, aborts, overflows an arithmetic operation or fails
to terminate on a finite input; every well-formed line after a hostile one is still processed.

What is proved here, and what is not (level: partial proof + exhaustive panic search):
* the model's per-line step, segment fold and line splitter are total functions (accepted by Lean
  by structural recursion) - no input can make them diverge;
* the bit-extraction layer never traps when the positions it is given lie inside the vector
  (`rangeValueChk_ok`, `flagBitChk_ok`: the checked twins equal the unchecked model);
* every read of the message vector anywhere in the source (`Generated/Sites.lean`, regenerated from
  the source on every run) lies inside 112 bits, and every read in a function reachable with a
  56-bit frame lies inside 56 bits (`sites_in_range`, `short_sites_in_range`); with C02's
  length/DF gate this is why no index is out of range;
* the only `loop`/`while` is the TCP retry loop (C18);
* a hostile line changes nothing and the lines behind it are processed as if it were not there.
Arithmetic sites (subtractions, shifts, casts, unwraps) are inventoried by the extractor and
compared with a reviewed list; they are not individually proved trap-free in Lean - the check runs
the real code with overflow checks on over exhaustive field sweeps instead.
-/
import SqModel.Model.Checked
import SqModel.Proofs.Reader
import SqModel.Generated.Sites
import SqModel.Props.C02
import SqModel.Proofs.Safe
import SqModel.Proofs.TableInv

namespace Sq.C01

theorem nibChk_ok (m : Msg) (i : Nat) (h : i < m.length) : nibChk m i = .ok (nib m i) := by
  unfold nibChk nib
  simp [List.getD, h]

/-- a field extraction whose positions lie inside the vector never traps, and yields what the
    (unchecked) model yields -/
theorem rangeValueChk_ok (m : Msg) (sb eb : Nat) (h1 : 1 ≤ sb) (h2 : 1 ≤ eb) (h3 : sb ≤ 4 * m.length)
    (h4 : eb ≤ 4 * m.length) : rangeValueChk m sb eb = .ok (rangeValue m sb eb) := by
  unfold rangeValueChk rangeValue bitLocationChk bitLocation
  have hs : ¬ sb = 0 := by omega
  have he : ¬ eb = 0 := by omega
  simp only [hs, he, if_false]
  have hsb : (sb - 1) >>> 2 < m.length := by rw [Nat.shiftRight_eq_div_pow]; omega
  have heb : (eb - 1) >>> 2 < m.length := by rw [Nat.shiftRight_eq_div_pow]; omega
  split
  · rfl
  · rw [nibChk_ok m _ hsb]
    simp only
    generalize hd : (eb - 1) >>> 2 - (sb - 1) >>> 2 = d
    match d, hd with
    | 0, _ => rfl
    | 1, _ => simp only [nibChk_ok m _ heb]
    | n + 2, _ =>
      have : ¬ m.length < (eb - 1) >>> 2 := by omega
      simp only [this, if_false, nibChk_ok m _ heb]

theorem flagBitChk_ok (m : Msg) (flag : Nat) (h : flag ≤ 4 * m.length) : flagBitChk m flag = .ok (flagBit m flag) := by
  unfold flagBitChk flagBit bitLocation
  split
  · rfl
  · rename_i hf
    have : (flag - 1) >>> 2 < m.length := by rw [Nat.shiftRight_eq_div_pow]; omega
    rw [nibChk_ok m _ this]

/-- ... and outside the vector it does trap (the checked twin is not vacuous) -/
example : rangeValueChk [1, 2, 3] 1 16 = .error .index := by rfl
example : rangeValueChk [1, 2, 3] 0 4 = .error .underflow := by rfl

/-- functions that can be reached with a 56-bit frame (everything the short formats use) and the
    extraction helpers themselves -/
def shortFns : List String :=
  ["get_downlink_format", "crc56", "get_capability", "get_icao", "parity_ok", "reminder", "ma_code",
   "range_value", "flag_and_range_value", "status_flag_and_range_value", "goodflags"]

/-- functions only reached with a 112-bit frame (DF17/18: `Ext`, `update_from_ext`; DF20/21: `Mds`,
    `update_from_mode_s`; `crc112`; `me_code` through `altitude(_, 17)`) -/
def longFns : List String :=
  ["crc112", "get_message_type", "me_code", "ais", "threat_encounter", "surveillance_status", "cpr",
   "vertical_rate", "altitude_delta", "altitude_gnss", "version", "ground_movement", "ground_track",
   "track_and_groundspeed", "heading", "bds", "is_bds_1_7", "is_bds_4_0", "is_bds_4_4", "is_bds_4_5",
   "is_bds_5_0", "is_bds_6_0", "mcp_selected_altitude", "fms_selected_altitude",
   "barometric_pressure_setting", "target_altitude_source", "roll_angle_5_0", "track_angle_5_0",
   "track_angle_rate_5_0", "ground_speed_5_0", "true_airspeed_5_0", "magnetic_heading_6_0",
   "indicated_airspeed_6_0", "mach_number_6_0", "barometric_altitude_rate_6_0",
   "internal_vertical_velocity_6_0", "temperature_4_4", "wind_speed", "wind_direction", "turbulence_4_4",
   "humidity_4_4", "pressure_4_4", "temperature_4_5", "update_from_mode_s"]

/-- every read of the message vector in the source is classified ... -/
theorem sites_classified : ∀ s ∈ Gen.sites, s.2.1 ∈ shortFns ∨ s.2.1 ∈ longFns := by decide +kernel

/-- ... lies inside a 112-bit frame ... -/
theorem sites_in_range : ∀ s ∈ Gen.sites,
    (s.2.2.1 = "bits" → 1 ≤ s.2.2.2.1 ∧ s.2.2.2.1 ≤ s.2.2.2.2 ∧ s.2.2.2.2 ≤ 112)
    ∧ (s.2.2.1 = "nibble" → s.2.2.2.2 < 28) := by decide +kernel

/-- ... spans at most 32 bits, so that the `u32` arithmetic of `range_value` (whose `<<` silently drops bits shifted past
    bit 31) loses nothing: this is the hypothesis of `Bridge.range_value_eq`, under which the code's wrapping computation
    (regenerated from the source into `Generated/TransBits.lean`) *is* the model's unbounded one ... -/
theorem sites_fit_u32 : ∀ s ∈ Gen.fieldSites, 1 ≤ s.2.2.1 ∧ s.2.2.2 < s.2.2.1 + 32 := by decide +kernel

/-- ... and inside a 56-bit frame if the function can see one -/
theorem short_sites_in_range : ∀ s ∈ Gen.sites, s.2.1 ∈ shortFns →
    (s.2.2.1 = "bits" → s.2.2.2.2 ≤ 56) ∧ (s.2.2.1 = "nibble" → s.2.2.2.2 < 14) := by decide +kernel

/-- dynamically computed indices occur only inside the extraction helpers, `reminder` and `ma_code` -/
theorem dynamic_sites : ∀ s ∈ Gen.sites, s.2.2.1 = "dynamic" →
    s.2.1 ∈ ["range_value", "flag_and_range_value", "status_flag_and_range_value", "goodflags", "reminder", "ma_code"] := by
  decide +kernel

/-- `ma_code`'s table reads digits 4..7 only -/
theorem ma_code_positions : ∀ p ∈ Gen.maBitPositions, p.1 < 14 ∧ p.2 < 4 := by decide +kernel

/-- the only unbounded loop in the program is the TCP retry loop -/
theorem loops_inventory : Gen.loops.map (·.2.1) = ["connect_and_read_tcp"] := by decide +kernel

/-- what the gate hands to the decoders has the length its format needs -/
theorem accepted_length (line : List Nat) (m : Msg) (h : getMessage line = some m) :
    (Spec.df m < 16 ∧ m.length = 14) ∨ (16 ≤ Spec.df m ∧ m.length = 28) := by
  have := ((C02.getMessage_iff line m).mp h).2.1
  unfold Spec.lengthMatchesDF at this
  simpa using this

/-- every line after a hostile one is still processed: the state after `pre ++ [bad] ++ post` is the
    fold of the step over all of them, and a line that is not a frame is a no-op in it -/
theorem later_lines_still_processed (env : Env) (cfg : DecodeCfg) (now : Int) (t : Table)
    (pre post : List (List Nat)) (bad : List Nat) (hbad : getMessage bad = none) :
    runSegment env cfg now t (pre ++ [bad] ++ post)
      = post.foldl (stepLine env cfg now) (runSegment env cfg now t pre) := by
  unfold runSegment
  simp only [List.foldl_append, List.foldl_cons, List.foldl_nil]
  rw [C02.nonframe_noop env cfg now _ bad hbad]

/-! ### the arithmetic clause: no operation of the per-line pipeline can panic

`Generated/TransSafe.lean` states, for each of the 133 functions the translator regenerates from the source, the conditions
under which none of its operations traps (430 obligations: unsigned subtraction, overflowing `+`/`*`, over-wide shifts,
indexing, `expect`, division by zero, and the safety of every call), and `Proofs/Safe.lean` proves them bottom-up. -/

/-- **one iteration of the reader loop cannot trap**, whatever the line, the options and the table - provided the rows carry
    altitudes the decoder can have produced (`TableOK`: below 100 000 ft, which `altitude()` guarantees for every value it
    returns, `Safe.altitude_lt`) and no DF has been counted 2^31 - 1 times (`CountOK`; the `i32` counters are the one
    place where a long enough run does overflow, named in DESIGN 5.1 as not covered) -/
theorem no_trap_per_line (now : Int) (te : TEnv) (line : List Char) (a : T.Args) (t : T.Planes) (c : T.AppCounters)
    (hT : Safe.TableOK t) (hC : Safe.CountOK c) : T.read_lines_step.safe now te line a t c :=
  Safe.read_lines_step_safe now te line a t c hT hC

/-- the gate alone needs no hypothesis at all: `get_message` cannot trap on any line -/
theorem no_trap_in_gate (line : List Char) : T.get_message.safe line := Safe.get_message_safe line

/-- the hypotheses are satisfiable: the state every run starts from -/
example : Safe.TableOK ⟨[]⟩ ∧ Safe.CountOK ⟨[], 0, 0⟩ := by
  refine ⟨?_, ?_, ?_⟩
  · intro kv h; simp at h
  · intro kc h; simp at h
  · decide

/-- **no reachable state of the reader loop lets the next line trap.**  From a fresh start (or any table of admissible rows
    left by an earlier `read_lines` call, with fresh counters), after any run of fewer than 2^31 - 1 lines of arbitrary
    characters, each processed at its own time, under any options: the translated loop body meets every trap-freedom obligation on any next
    line.  The two invariants of `no_trap_per_line` are discharged here: they hold initially and every step keeps them
    (`Safe.stepLine_ok`, proved on the model and carried over by the simulation `read_lines_step_sim`). -/
theorem no_trap_in_any_reachable_state (te : TEnv) (a : T.Args) (ts : Int) (r : Safe.Run)
    (hlen : r.length + 1 < 2147483648)
    (s0 : RState) (h0 : Safe.MTableOK s0.table) (hc0 : Safe.MCountOK 0 s0) (now : Int) (next : List Char) :
    T.read_lines_step.safe now te next a
      (Safe.codeRun te a (Bridge.tableToT s0.table, Bridge.countersToT s0 ts) r).1
      (Safe.codeRun te a (Bridge.tableToT s0.table, Bridge.countersToT s0 ts) r).2 :=
  Safe.no_trap_run te a ts r hlen s0 h0 hc0 now next

/-- its premises are met by the state the program starts in -/
example : Safe.MTableOK ({} : RState).table ∧ Safe.MCountOK 0 ({} : RState) := Safe.fresh_ok

end Sq.C01
