/-
C13 — Unusable lines affect nothing but themselves.

The table produced from an input stream equals the table produced from the subsequence of its
accepted lines: lines that are not accepted - empty, over-long, non-hex, of wrong length, or
containing bytes that are not valid UTF-8 - have no effect on how any other line is processed
and never end processing early.

The model processes bytes.  That the reader hands every line of the byte stream to the loop -
`BufRead::split(b'\n')` and `String::from_utf8_lossy` - is modelled by `splitLines` / `hexDigits`
and validated by the correspondence check on hostile streams (file and TCP sources).
-/
import SqModel.Proofs.Reader

namespace Sq.C13

/-- a line that is not accepted changes nothing at all -/
theorem not_accepted_noop (env : Env) (cfg : DecodeCfg) (now : Int) (s : RState) (line : List Nat)
    (h : isAccepted cfg line = false) : stepLine env cfg now s line = s := by
  apply stepLine_not_accepted
  unfold isAccepted at h
  cases hf : acceptedFrame cfg line <;> simp_all

/-- the whole reader state (table, counters, sweep schedule) after a segment is that of the
    subsequence of accepted lines -/
theorem run_filter_accepted (env : Env) (cfg : DecodeCfg) (now : Int) (t : Table) (lines : List (List Nat)) :
    runSegment env cfg now t lines = runSegment env cfg now t (lines.filter (isAccepted cfg)) :=
  runSegment_filter env cfg now t lines

/-- junk lines inserted at arbitrary positions change nothing -/
theorem junk_anywhere (env : Env) (cfg : DecodeCfg) (now : Int) (t : Table) (pre junk post : List (List Nat))
    (hj : ∀ l ∈ junk, isAccepted cfg l = false) :
    runSegment env cfg now t (pre ++ junk ++ post) = runSegment env cfg now t (pre ++ post) :=
  junk_insertion env cfg now t pre junk post hj

/-- splitting the byte stream: any bytes up to a newline form one line, and splitting resumes
    behind it - no byte value ends the stream -/
theorem split_never_stops (a b : List Nat) (ha : 10 ∉ a) : splitLines (a ++ 10 :: b) = a :: splitLines b :=
  splitLines_cons_line a b ha

/-- a final piece without newline is a line too -/
theorem split_last (a : List Nat) (ha : 10 ∉ a) (hne : a ≠ []) : splitLines a = [a] := by
  unfold splitLines
  have : ∀ (bs cur : List Nat), 10 ∉ bs → splitLines.go cur [] bs =
      if (bs.reverse ++ cur).isEmpty then [] else [(bs.reverse ++ cur).reverse] := by
    intro bs
    induction bs with
    | nil => intro cur _; simp [splitLines.go]
    | cons x xs ih =>
      intro cur h
      have hx : x ≠ 10 := fun e => h (by simp [e])
      simp only [splitLines.go, hx, if_false]
      rw [ih (x :: cur) (fun e => h (by simp [e]))]
      simp
  rw [this a [] ha]
  cases a with
  | nil => exact absurd rfl hne
  | cons x xs => simp

-- non-vacuity: lines of the kinds the property lists are not accepted
example : isAccepted {} [] = false := by decide +kernel
example : isAccepted {} [0, 0x80, 0xFF, 0x0D] = false := by decide +kernel
example : isAccepted {} ("8D40621D58C382D690C8AC2863".toList.map Char.toNat) = false := by decide +kernel
example : isAccepted {} ("8D40621D58C382D690C8AC2863A7".toList.map Char.toNat) = true := by decide +kernel

end Sq.C13
