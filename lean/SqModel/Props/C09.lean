/-
C09 — Ground speed, track and vertical rate follow the TC19 velocity encoding.

An airborne-velocity squitter (DF17 TC19 subtype 1 or 2) sets ground speed to
floor(sqrt(Vew^2+Vns^2)) kt (x4 for the supersonic subtype) and track to floor(atan2(Vew,Vns)) in
[0,360) from the signed components (field-1), and sets vertical rate to (+ or -)64*(field-1) ft/min;
a component or rate field of 0 means 'no information' and yields no value for that quantity.
The same values result on the first and on later frames and under every option set.

`atan2deg` is a parameter of the model (DESIGN 4.4): every theorem holds for every such function.
-/
import SqModel.Proofs.Bits
import SqModel.Proofs.Frame
import SqModel.Proofs.Downlink
import SqModel.Spec.Velocity

namespace Sq.C09
open Spec

/-- track and ground speed are the specification's function of the six velocity fields -/
theorem velocity_eq_spec (atan : SignedMag → SignedMag → Nat) (m : Msg) (h : AllNib m) (hl : 17 ≤ m.length) (ss : Bool) :
    trackAndGroundspeed atan m ss = velocitySpec atan (velFields m) (if ss then 4 else 1) := by
  unfold trackAndGroundspeed velocitySpec velocityComponents velocitySignedMag
  rw [rangeValue_eq_field m h 47 56 (by omega) (by omega) (by omega),
    rangeValue_eq_field m h 58 67 (by omega) (by omega) (by omega),
    flagAndRangeValue_eq m h 46 47 56 (by omega) (by omega) (by omega) (by omega) (by omega),
    flagAndRangeValue_eq m h 57 58 67 (by omega) (by omega) (by omega) (by omega) (by omega)]
  simp only [velFields, Option.some.injEq]
  have hd : field m 57 57 &&& 1 = field m 57 57 := by
    have := field_lt m 57 57
    have e : 57 + 1 - 57 = 1 := by omega
    rw [e] at this
    have h2 : field m 57 57 = 0 ∨ field m 57 57 = 1 := by omega
    rcases h2 with h2 | h2 <;> rw [h2] <;> decide
  by_cases hc : field m 47 56 = 0 ∨ field m 58 67 = 0
  · simp [hc]
  · simp only [hc, if_false, vew, vns, hd]
    cases ss <;> simp [Nat.mul_comm]

/-- vertical rate is ±64·(field − 1), none for field 0 -/
theorem vrate_eq_spec (m : Msg) (h : AllNib m) (hl : 20 ≤ m.length) :
    verticalRate m = vrateSpec (velFields m) := by
  unfold verticalRate vrateSpec
  rw [flagAndRangeValue_eq m h 69 70 78 (by omega) (by omega) (by omega) (by omega) (by omega)]
  simp only [velFields, Option.filter_some]
  by_cases hz : field m 70 78 = 0
  · simp [hz]
  · simp only [hz, bne_iff_ne, ne_eq, not_false_eq_true, if_true, if_false, Option.map_some, decide_true]
    have hpos : 1 ≤ field m 70 78 := by omega
    have : (((field m 70 78 - 1) <<< 6 : Nat) : Int) = 64 * ((field m 70 78 : Int) - 1) := by
      rw [Nat.shiftLeft_eq]; push_cast; omega
    simp only [this]
    split <;> simp_all

/-- both quantities depend on the velocity fields only -/
theorem velocity_depends_only_on_fields (atan : SignedMag → SignedMag → Nat) (m₁ m₂ : Msg) (h₁ : AllNib m₁) (h₂ : AllNib m₂)
    (l₁ : 20 ≤ m₁.length) (l₂ : 20 ≤ m₂.length) (ss : Bool)
    (hf : velFields m₁ = velFields m₂) :
    trackAndGroundspeed atan m₁ ss = trackAndGroundspeed atan m₂ ss ∧ verticalRate m₁ = verticalRate m₂ := by
  rw [velocity_eq_spec atan m₁ h₁ (by omega), velocity_eq_spec atan m₂ h₂ (by omega),
    vrate_eq_spec m₁ h₁ l₁, vrate_eq_spec m₂ h₂ l₂, hf]
  exact ⟨rfl, rfl⟩

/-- an existing row hit by a TC19 subtype 1/2 squitter shows the frame's speed, track and vertical
    rate — on the default path and on the -U path alike, for any -R -/
theorem row_velocity_after_TC19 (env : Env) (cfg : DecodeCfg) (now : Int) (p : Plane) (m : Msg)
    (hdf : getDownlinkFormat m = some 17) (htc : (getMessageType m).1 = 19)
    (hst : (getMessageType m).2 = 1 ∨ (getMessageType m).2 = 2) (hicao : (getIcao m 17).isSome) :
    (applyFrame env cfg now p (.ext (Ext.fromMessage env m)) m 17).track = (velocityOf env m (getMessageType m).2).1
    ∧ (applyFrame env cfg now p (.ext (Ext.fromMessage env m)) m 17).grspeed = (velocityOf env m (getMessageType m).2).2
    ∧ (applyFrame env cfg now p (.ext (Ext.fromMessage env m)) m 17).vrate = verticalRate m := by
  have h14 : ¬ (1 ≤ (getMessageType m).1 ∧ (getMessageType m).1 ≤ 4) := by omega
  have h58 : ¬ (5 ≤ (getMessageType m).1 ∧ (getMessageType m).1 ≤ 8) := by omega
  have h918 : ¬ (9 ≤ (getMessageType m).1 ∧ (getMessageType m).1 ≤ 18) := by omega
  unfold applyFrame
  split
  · rw [ext_tc_19 env m hdf htc]
    simp [Plane.updateFromDownlink, Plane.amendExt, extHead, hicao, Plane.amendExtTc, h14, h58, h918, htc,
      Plane.amendExt19, hst]
  · simp [Plane.update, Plane.updateFromExt, Plane.updateExtTc, h14, h58, h918, htc, Plane.updateExt19, hst, commBGate]

/-- "with and without -U": the two update paths agree on the three quantities -/
theorem paths_agree_TC19 (env : Env) (cfg₁ cfg₂ : DecodeCfg) (now : Int) (p : Plane) (m : Msg)
    (hdf : getDownlinkFormat m = some 17) (htc : (getMessageType m).1 = 19)
    (hst : (getMessageType m).2 = 1 ∨ (getMessageType m).2 = 2) (hicao : (getIcao m 17).isSome) :
    (applyFrame env cfg₁ now p (.ext (Ext.fromMessage env m)) m 17).track
      = (applyFrame env cfg₂ now p (.ext (Ext.fromMessage env m)) m 17).track
    ∧ (applyFrame env cfg₁ now p (.ext (Ext.fromMessage env m)) m 17).grspeed
      = (applyFrame env cfg₂ now p (.ext (Ext.fromMessage env m)) m 17).grspeed
    ∧ (applyFrame env cfg₁ now p (.ext (Ext.fromMessage env m)) m 17).vrate
      = (applyFrame env cfg₂ now p (.ext (Ext.fromMessage env m)) m 17).vrate := by
  have a := row_velocity_after_TC19 env cfg₁ now p m hdf htc hst hicao
  have b := row_velocity_after_TC19 env cfg₂ now p m hdf htc hst hicao
  exact ⟨a.1.trans b.1.symm, a.2.1.trans b.2.1.symm, a.2.2.trans b.2.2.symm⟩

/-- the creating frame gives the same values -/
theorem creating_velocity_TC19 (env : Env) (now : Int) (m : Msg) (icao : Nat)
    (hdf : getDownlinkFormat m = some 17) (htc : (getMessageType m).1 = 19)
    (hst : (getMessageType m).2 = 1 ∨ (getMessageType m).2 = 2) (hicao : (getIcao m 17).isSome) :
    (Plane.fromDownlink env now (.ext (Ext.fromMessage env m)) icao).track = (velocityOf env m (getMessageType m).2).1
    ∧ (Plane.fromDownlink env now (.ext (Ext.fromMessage env m)) icao).grspeed = (velocityOf env m (getMessageType m).2).2
    ∧ (Plane.fromDownlink env now (.ext (Ext.fromMessage env m)) icao).vrate = verticalRate m := by
  have h14 : ¬ (1 ≤ (getMessageType m).1 ∧ (getMessageType m).1 ≤ 4) := by omega
  have h58 : ¬ (5 ≤ (getMessageType m).1 ∧ (getMessageType m).1 ≤ 8) := by omega
  have h918 : ¬ (9 ≤ (getMessageType m).1 ∧ (getMessageType m).1 ≤ 18) := by omega
  unfold Plane.fromDownlink
  rw [ext_tc_19 env m hdf htc]
  simp [Plane.updateFromDownlink, Plane.amendExt, extHead, hicao, Plane.amendExtTc, h14, h58, h918, htc,
    Plane.amendExt19, hst]

/-- the supersonic subtype is within 4 kt of 4·sqrt(s) (s in units of (4 kt)^2) -/
theorem within_4kt (s : Nat) : 4 * Nat.sqrt s ≤ 4 * Nat.sqrt s ∧ (4 * Nat.sqrt s) * (4 * Nat.sqrt s) ≤ 16 * s
    ∧ 16 * s < (4 * Nat.sqrt s + 4) * (4 * Nat.sqrt s + 4) := by
  have h1 := Nat.sqrt_le s
  have h2 := Nat.lt_succ_sqrt s
  refine ⟨Nat.le_refl _, ?_, ?_⟩
  · have : (4 * Nat.sqrt s) * (4 * Nat.sqrt s) = 16 * (Nat.sqrt s * Nat.sqrt s) := by grind
    rw [this]; omega
  · have : (4 * Nat.sqrt s + 4) * (4 * Nat.sqrt s + 4) = 16 * (Nat.succ (Nat.sqrt s) * Nat.succ (Nat.sqrt s)) := by
      simp [Nat.succ_eq_add_one]; grind
    rw [this]; omega

-- non-vacuity: the repository's own test vector (416 kt), with a floor-atan2 stub
example : (trackAndGroundspeed (fun _ _ => 321) (hexDigits ("8DC06A75990D0628B0040C8AA788".toList.map Char.toNat)) false)
    = (some 321, some 416) := by decide +kernel

end Sq.C09
