/-
C06 — Squawk equals the octal identity code of the latest DF5/DF21 reply.

For every DF5 or DF21 reply the squawk shown for that aircraft is the four octal digits A B C D
of the 13-bit identity field (bit order C1 A1 C2 A2 C4 A4 X B1 D1 B2 D2 B4 D4), for all 8192
field values, whatever the other bits of the frame; no other downlink format changes it.
-/
import SqModel.Proofs.Fields
import SqModel.Proofs.Frame
import SqModel.Proofs.Accept

namespace Sq.C06
open Spec

/-- the decoder computes the octal identity of bits 20..32, for every digit vector that has them -/
theorem squawk_eq_spec (m : Msg) (h : AllNib m) (hl : 8 ≤ m.length) :
    squawk m = some (squawkSpec (field m 20 32)) := by
  unfold squawk
  rw [maCode_eq_ma4, ma4_low, field_20_32 m h hl]
  have := nib_lt m h 5; have := nib_lt m h 6; have := nib_lt m h 7
  rw [squawkOfCode_ma4 _ _ _ _ (Nat.mod_lt _ (by decide)) ‹_› ‹_› ‹_›]

/-- "whatever the other bits of the frame": two frames with the same ID field give the same squawk -/
theorem squawk_depends_only_on_field (m₁ m₂ : Msg) (h₁ : AllNib m₁) (h₂ : AllNib m₂)
    (l₁ : 8 ≤ m₁.length) (l₂ : 8 ≤ m₂.length) (hf : field m₁ 20 32 = field m₂ 20 32) :
    squawk m₁ = squawk m₂ := by
  rw [squawk_eq_spec m₁ h₁ l₁, squawk_eq_spec m₂ h₂ l₂, hf]

/-- the record `DF::from_message` builds for a DF5 reply -/
theorem fromMessage_df5 (env : Env) (m : Msg) (h : getDownlinkFormat m = some 5) :
    DFRec.fromMessage env m = some (.srt { df := some 5, icao := getIcao m 5, squawk := squawk m }) := by
  simp [DFRec.fromMessage, Srt.fromMessage, h]

theorem squawk_updateFromModeS (q : Plane) (m : Msg) (r : Bool) :
    (q.updateFromModeS m r).squawk = q.squawk := by
  have e : ∀ q : Plane, (eraseModeS q).squawk = q.squawk := fun _ => rfl
  rw [← e, eraseModeS_updateFromModeS, e]

theorem squawk_updateFromExt (env : Env) (q : Plane) (m : Msg) (df : Nat) :
    (q.updateFromExt env m df).squawk = q.squawk := by
  have e : ∀ q : Plane, (eraseExt q).squawk = q.squawk := fun _ => rfl
  rw [← e, eraseExt_updateFromExt, e]

theorem squawk_amendExt (env : Env) (q : Plane) (dl : Ext) : (q.amendExt env dl).squawk = q.squawk := by
  have e : ∀ q : Plane, (eraseExt q).squawk = q.squawk := fun _ => rfl
  rw [← e, eraseExt_amendExt, e]

/-- what `Plane::update` does to the squawk -/
theorem squawk_update (env : Env) (now : Int) (p : Plane) (m : Msg) (df : Nat) (r : Bool) :
    (p.update env now m df r).squawk = if df = 5 ∨ df = 21 then squawk m else p.squawk := by
  simp only [Plane.update, apply_ite Plane.squawk, squawk_updateFromModeS, squawk_updateFromExt, ite_self]
  simp [Plane.updateFromBcast]

/-- what the default path does to the squawk -/
theorem squawk_updateFromDownlink (env : Env) (now : Int) (p : Plane) (dl : DFRec) :
    (p.updateFromDownlink env now dl).squawk =
      match dl with
      | .srt v => if v.icao.isSome ∧ v.df = some 5 ∧ v.squawk.isSome then v.squawk else p.squawk
      | _ => p.squawk := by
  unfold Plane.updateFromDownlink
  split
  · simp only [Plane.amendSrt]
    split <;> (repeat' split) <;> simp_all
  · simp [squawk_amendExt]
  · rfl

/-- an existing row hit by a DF5/DF21 reply shows that reply's squawk — both update paths, any options -/
theorem row_squawk_after_DF5_21 (env : Env) (cfg : DecodeCfg) (now : Int) (p : Plane) (m : Msg)
    (df : Nat) (dl : DFRec) (hdf : getDownlinkFormat m = some df) (h : df = 5 ∨ df = 21)
    (hicao : (getIcao m df).isSome) (hdl : DFRec.fromMessage env m = some dl) :
    (applyFrame env cfg now p dl m df).squawk = squawk m := by
  unfold applyFrame
  split
  · rcases h with h | h <;> subst h
    · rw [fromMessage_df5 env m hdf] at hdl
      simp only [Option.some.injEq] at hdl
      subst hdl
      simp [squawk_updateFromDownlink, hicao, squawk]
    · omega
  · rw [squawk_update]; simp [h]

/-- the record `DF::from_message` builds: its `df` is the frame's DF when it is a short-format record -/
theorem fromMessage_srt_df (env : Env) (m : Msg) (df : Nat) (v : Srt)
    (hdf : getDownlinkFormat m = some df) (hdl : DFRec.fromMessage env m = some (.srt v)) :
    v.df = some df ∨ v.df = none := by
  unfold DFRec.fromMessage at hdl
  rw [hdf] at hdl
  simp only at hdl
  split at hdl
  · simp only [Option.some.injEq, DFRec.srt.injEq] at hdl; subst hdl
    left
    simp only [Srt.fromMessage, hdf]
    repeat' split
    all_goals rfl
  · split at hdl
    · simp at hdl
    · split at hdl
      · simp at hdl
      · simp only [Option.some.injEq, DFRec.srt.injEq] at hdl; subst hdl; right; rfl

/-- no other downlink format changes the squawk — both paths, every DF, every type code -/
theorem other_DF_preserve_squawk (env : Env) (cfg : DecodeCfg) (now : Int) (p : Plane) (m : Msg)
    (df : Nat) (dl : DFRec) (hdf : getDownlinkFormat m = some df) (h5 : df ≠ 5) (h21 : df ≠ 21)
    (hdl : DFRec.fromMessage env m = some dl) :
    (applyFrame env cfg now p dl m df).squawk = p.squawk := by
  unfold applyFrame
  split
  · rw [squawk_updateFromDownlink]
    cases dl with
    | srt v =>
      simp only
      rcases fromMessage_srt_df env m df v hdf hdl with hv | hv <;> simp [hv, h5]
    | ext v => rfl
    | mds i => rfl
  · rw [squawk_update]; simp [h5, h21]

/-- the frame that creates the row: a DF5 sets the squawk, anything else (DF21 included, which
    contributes the address only) leaves it blank -/
theorem creating_frame_squawk (env : Env) (now : Int) (m : Msg) (df icao : Nat) (dl : DFRec)
    (hdf : getDownlinkFormat m = some df) (hicao : (getIcao m df).isSome)
    (hdl : DFRec.fromMessage env m = some dl) :
    (Plane.fromDownlink env now dl icao).squawk = if df = 5 then squawk m else none := by
  unfold Plane.fromDownlink
  rw [squawk_updateFromDownlink]
  by_cases h5 : df = 5
  · subst h5
    rw [fromMessage_df5 env m hdf] at hdl
    simp only [Option.some.injEq] at hdl; subst hdl
    simp [hicao, squawk]
  · cases dl with
    | srt v =>
      simp only [h5, if_false]
      rcases fromMessage_srt_df env m df v hdf hdl with hv | hv <;> simp [hv, h5, Plane.new]
    | ext v => simp [h5, Plane.new]
    | mds i => simp [h5, Plane.new]

/-- the property in one statement: after an accepted DF5/DF21 line the existing row of that
    aircraft shows the octal identity of bits 20..32 of the frame -/
theorem squawk_shown (env : Env) (cfg : DecodeCfg) (now : Int) (p : Plane) (line : List Nat) (m : Msg)
    (df : Nat) (dl : DFRec) (hm : getMessage line = some m) (hdf : getDownlinkFormat m = some df)
    (h : df = 5 ∨ df = 21) (hicao : (getIcao m df).isSome) (hdl : DFRec.fromMessage env m = some dl) :
    (applyFrame env cfg now p dl m df).squawk = some (squawkSpec (field m 20 32)) := by
  rw [row_squawk_after_DF5_21 env cfg now p m df dl hdf h hicao hdl]
  have hl := getMessage_length hm
  exact squawk_eq_spec m (getMessage_allNib hm) (by omega)

/-- the hypotheses are satisfiable: a recorded DF5 reply (squawk 5611) -/
example : let line := "2800189A8E0F41".toList.map Char.toNat
    ∃ m, getMessage line = some m ∧ getDownlinkFormat m = some 5 ∧ (getIcao m 5).isSome
      ∧ squawk m = some 5611 := by
  decide +kernel

end Sq.C06
