/-
C08, arithmetic part: `cpr_location` inverts the DO-260B airborne CPR encoding.

Exact rationals: `Model/Cpr.lean` is the code's formula with `f64` replaced by `Rat`; the check
compares the two numerically on every generated pair (1e-9 degree).  The 20 m clause follows from
the two error bounds below by spherical geometry (a bin is at most 360/59/2^18 degree = 2.6 m in
latitude and 360/(NL-1)/2^18 degree of longitude); that last step involves cos/asin and is not proved here.
-/
import SqModel.Proofs.CprMath
import SqModel.Proofs.RatPrim

namespace Sq.C08Math
open Sq Sq.Spec Sq.CprMath

/-- an encoded coordinate is within half a bin of the true one -/
theorem encoded_close (d x : ℚ) (hd : 0 < d) : |encoded d x - x| ≤ d / 262144 := by
  obtain ⟨z, e, he, hr, hE⟩ := enc_repr d x hd
  rw [hE, hr]
  have : d * (x / d + e) - x = d * e := by field_simp; ring
  rw [this, abs_mul, abs_of_pos hd]
  calc d * |e| ≤ d * (1 / 262144) := by apply mul_le_mul_of_nonneg_left he hd.le
    _ = d / 262144 := by ring

/-- **C08, arithmetic.**  Two airborne positions (even frame at `(lat0, lon0)`, odd frame at
    `(lat1, lon1)`), encoded as DO-260B prescribes, whose encoded latitudes lie in the same NL zone and
    which are close enough for the zone indices to be unambiguous: `cpr_location` (with `coeff = 1`)
    returns, for either anchor, exactly the latitude the anchoring frame encodes and - up to whole
    turns, and inside [-180, 180] - exactly the longitude it encodes. -/
theorem cprLocation_correct (lat0 lon0 lat1 lon1 : ℚ) (form : ℕ) (hform : form = 0 ∨ form = 1)
    (h0 : |lat0| ≤ 89) (h1 : |lat1| ≤ 89) (hlat : |lat0 - lat1| ≤ 1 / 20)
    (hzone : nlOf (encoded (dlat 0) lat0) = nlOf (encoded (dlat 1) lat1))
    (hlon : |lon0 - lon1| * (((nlOf (encoded (dlat 0) lat0) : ℤ) : ℚ) * ((nlOf (encoded (dlat 0) lat0) : ℤ) - 1)) / 360
              + (2 * ((nlOf (encoded (dlat 0) lat0) : ℤ) : ℚ) - 1) / 262144 < 1 / 2) :
    ∃ lo : ℚ, ∃ k : ℤ,
      cprLocation (encLat 0 lat0) (encLat 1 lat1) (encLon 0 lat0 lon0) (encLon 1 lat1 lon1) form 1
        = some (encoded (dlat form) (if form = 1 then lat1 else lat0), lo)
      ∧ lo = encoded (dlon (nlOf (encoded (dlat 0) lat0)) form) (if form = 1 then lon1 else lon0) + 360 * (k : ℚ)
      ∧ -180 ≤ lo ∧ lo ≤ 180 := by
  set nl := nlOf (encoded (dlat 0) lat0) with hnl
  have hr := nlOf_range (encoded (dlat 0) lat0)
  rw [← hnl] at hr
  have hL := lon_decode nl hr lon0 lon1 form hform hlon
  simp only at hL
  obtain ⟨k, hk, hlo1, hlo2⟩ := hL
  have hX0 : encLon 0 lat0 lon0 = cprEnc (dlon nl 0) lon0 := by unfold encLon; rw [← hnl]
  have hX1 : encLon 1 lat1 lon1 = cprEnc (dlon nl 1) lon1 := by unfold encLon; rw [← hzone]
  -- the code's `m as i32` changes nothing: the zone-index difference of two 17-bit fields is small
  have hfit := mm_fits (cprEnc (dlon nl 0) lon0) (cprEnc (dlon nl 1) lon1) nl
    (by unfold cprEnc; omega) (by unfold cprEnc; omega) ⟨by omega, hr.2⟩
  simp only at hfit
  unfold cprLocation
  simp only [lat_decode lat0 lat1 h0 h1 hlat, ← hzone, ← hnl, if_true, Int.tdiv_one, hX0, hX1]
  rcases hform with hf | hf <;> subst hf
  · simp only [show ¬ ((0 : ℕ) = 1) by decide, if_false, Nat.cast_zero, sub_zero, ratToI32_int _ hfit] at hk hlo1 hlo2 ⊢
    exact ⟨_, k, rfl, hk, hlo1, hlo2⟩
  · simp only [if_true, Nat.cast_one, ratToI32_int _ hfit] at hk hlo1 hlo2 ⊢
    exact ⟨_, k, rfl, hk, hlo1, hlo2⟩



theorem dlon_pos (nl : ℤ) (i : ℕ) : 0 < dlon nl i := by
  unfold dlon
  have : (1 : ℤ) ≤ max (nl - (i : ℤ)) 1 := le_max_right _ _
  have : (0 : ℚ) < ((max (nl - (i : ℤ)) 1 : ℤ) : ℚ) := by exact_mod_cast (by omega : (0 : ℤ) < max (nl - (i : ℤ)) 1)
  positivity

/-- **C08, accuracy in degrees.**  Under the hypotheses of `cprLocation_correct` the decoded position
    is within half a CPR bin of the true position of the anchoring (newer) frame: at most
    `Dlat/2^18` (2.3e-5 degree, 2.6 m) in latitude and `Dlon/2^18` in longitude, the longitude taken
    modulo 360 and reported inside [-180, 180]. -/
theorem decoded_within_half_bin (lat0 lon0 lat1 lon1 : ℚ) (form : ℕ) (hform : form = 0 ∨ form = 1)
    (h0 : |lat0| ≤ 89) (h1 : |lat1| ≤ 89) (hlat : |lat0 - lat1| ≤ 1 / 20)
    (hzone : nlOf (encoded (dlat 0) lat0) = nlOf (encoded (dlat 1) lat1))
    (hlon : |lon0 - lon1| * (((nlOf (encoded (dlat 0) lat0) : ℤ) : ℚ) * ((nlOf (encoded (dlat 0) lat0) : ℤ) - 1)) / 360
              + (2 * ((nlOf (encoded (dlat 0) lat0) : ℤ) : ℚ) - 1) / 262144 < 1 / 2) :
    ∃ la lo : ℚ, ∃ k : ℤ,
      cprLocation (encLat 0 lat0) (encLat 1 lat1) (encLon 0 lat0 lon0) (encLon 1 lat1 lon1) form 1 = some (la, lo)
      ∧ |la - (if form = 1 then lat1 else lat0)| ≤ dlat form / 262144
      ∧ |lo - ((if form = 1 then lon1 else lon0) + 360 * (k : ℚ))| ≤ dlon (nlOf (encoded (dlat 0) lat0)) form / 262144
      ∧ -180 ≤ lo ∧ lo ≤ 180 := by
  obtain ⟨lo, k, hc, hk, hl1, hl2⟩ := cprLocation_correct lat0 lon0 lat1 lon1 form hform h0 h1 hlat hzone hlon
  refine ⟨_, lo, k, hc, ?_, ?_, hl1, hl2⟩
  · apply encoded_close
    rcases hform with h | h <;> subst h
    · rw [dlat0]; norm_num
    · rw [dlat1]; norm_num
  · have := encoded_close (dlon (nlOf (encoded (dlat 0) lat0)) form) (if form = 1 then lon1 else lon0) (dlon_pos _ _)
    rw [hk]
    have e : encoded (dlon (nlOf (encoded (dlat 0) lat0)) form) (if form = 1 then lon1 else lon0) + 360 * (k : ℚ)
              - ((if form = 1 then lon1 else lon0) + 360 * (k : ℚ))
           = encoded (dlon (nlOf (encoded (dlat 0) lat0)) form) (if form = 1 then lon1 else lon0) - (if form = 1 then lon1 else lon0) := by ring
    rw [e]; exact this

/-- non-vacuity: the hypotheses hold for a concrete pair of positions (the worked example of
    "The 1090 MHz Riddle": fields 93000/51372 and 74158/50194 are its even/odd frames) -/
example : nlOf (encoded (dlat 0) (522572 / 10000)) = nlOf (encoded (dlat 1) (522578 / 10000)) := by decide +kernel
example : nlOf (encoded (dlat 0) (522572 / 10000)) = 36 := by decide +kernel
example : (encLat 0 (522572 / 10000), encLon 0 (522572 / 10000) (39194 / 10000)) = (93000, 51372) := by decide +kernel
example : (cprLocation 93000 74158 51372 50194 0 1).isSome = true := by decide +kernel

end Sq.C08Math
