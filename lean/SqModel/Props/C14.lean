/-
C14 — Printed rows render the table faithfully under their column headers.

Each refresh prints the header, a separator and one line per aircraft in which that aircraft's
current parameters appear in the header's column order, each within its column's width (numbers
right-aligned, text left-aligned) and blank when unknown; whenever every value fits its column the
line, the header and the separator have identical display width.  The optional column groups are
present in header and rows exactly when the corresponding -i letter is given.

The header cell list and the -i letters are regenerated from `header.rs` on every run; the row's
cell list is the hand-written model of `simple_display.rs` (tied by the correspondence check on
the real `Planes::print` output).  Float cells are rendered by exact decimal rounding in the
model; `std::fmt` itself is not modelled.
-/
import SqModel.Model.Render

namespace Sq.C14

/-- the header is the fixed columns with each optional group inserted exactly when its flag is set,
    always in the same relative order -/
theorem header_groups (f : DisplayFlags) :
    (headerCells f).map (·.1) =
      ["ICAO", "RG", "SQWK", "W", "CALLSIGN", "LATITUDE", "LONGITUDE", "DIST", "ALT B"]
      ++ (if f.altitude then ["ALT G", "ALT S", "BARO"] else [])
      ++ ["VRATE", "TRK", "HDG", "GSP"]
      ++ (if f.speed then ["TAS", "IAS", "MACH"] else [])
      ++ (if f.angles then ["RLL", "TAR"] else [])
      ++ (if f.weather then ["TEMP", "WND", "WDR", "HUM", "PRES", "TB"] else [])
      ++ (if f.extra then ["VX", "DF", "TC", "V", "S", "PTH"] else []) := by
  obtain ⟨w, a, s, al, e, q⟩ := f
  cases w <;> cases a <;> cases s <;> cases al <;> cases e <;> rfl

/-- the -i letters: w a s A e (and Q for quiet) -/
theorem flag_letters (cs : List Char) :
    DisplayFlags.ofChars cs = { weather := cs.contains 'w', angles := cs.contains 'a', speed := cs.contains 's',
                                altitude := cs.contains 'A', extra := cs.contains 'e', quiet := cs.contains 'Q' } := by
  rfl

/-- cell i of a row stands under header i, for all 32 group sets; the last cell is LC -/
theorem column_order (f : DisplayFlags) (now : Int) (p : Plane) :
    (rowCells f now p).map (·.column) = (headerCells f).map (·.1) ++ ["LC"] := by
  obtain ⟨w, a, s, al, e, q⟩ := f
  cases w <;> cases a <;> cases s <;> cases al <;> cases e <;> rfl

/-- ... with the header's width -/
theorem column_widths (f : DisplayFlags) (now : Int) (p : Plane) :
    (rowCells f now p).map (·.width) = (headerCells f).map (·.2) ++ [2] := by
  obtain ⟨w, a, s, al, e, q⟩ := f
  cases w <;> cases a <;> cases s <;> cases al <;> cases e <;> rfl

/-- every cell but the last is followed by exactly one character (a blank or a source mark) -/
theorem sep_lengths (f : DisplayFlags) (now : Int) (p : Plane) :
    (rowCells f now p).map (·.sep.length) = (headerCells f).map (fun _ => 1) ++ [0] := by
  have hsp : " ".length = 1 := by decide
  have h0 : "".length = 0 := by decide
  have h1 : ∀ c : Char, (String.singleton c).length = 1 := fun c => by simp
  have hopt : ∀ (o : Option Char), ((o.map fun c => String.singleton c).getD " ").length = 1 := by
    intro o; cases o <;> simp [h1, hsp]
  have hite : ∀ (b : Bool) (c : Char), (if b = true then String.singleton c else " ").length = 1 := by
    intro b c; cases b <;> simp [h1, hsp]
  obtain ⟨w, a, s, al, e, q⟩ := f
  cases w <;> cases a <;> cases s <;> cases al <;> cases e <;>
    simp [rowCells, headerCells, natCell, intCell, Gen.headerGroups, DisplayFlags.has, hopt, hite, h1, hsp, h0, Char.toString]

theorem spaces_length (n : Nat) : (spaces n).length = n := by simp [spaces]
theorem dashes_length (n : Nat) : (dashes n).length = n := by simp [dashes]

theorem render_length (c : Cell) (h : c.text.length ≤ c.width) : c.render.length = c.width + c.sep.length := by
  unfold Cell.render
  cases c.align <;> simp [padLeft, padRight, String.length_append, spaces_length] <;> omega

theorem foldl_append_length {α : Type} (g : α → String) (l : List α) (init : String) :
    (l.foldl (fun acc c => acc ++ g c) init).length = init.length + (l.map fun c => (g c).length).sum := by
  induction l generalizing init with
  | nil => simp
  | cons x xs ih => simp only [List.foldl_cons, ih, String.length_append, List.map_cons, List.sum_cons]; omega

theorem sp_len : " ".length = 1 := by decide
theorem lc_len : "LC".length = 2 := by decide
theorem dd_len : "--".length = 2 := by decide
theorem empty_len : "".length = 0 := by decide

theorem header_length (f : DisplayFlags) :
    (headerLine f).length = ((headerCells f).map fun c => max c.2 c.1.length + 1).sum + 2 := by
  have h := foldl_append_length (fun (c : String × Nat) => padLeft c.2 c.1 ++ " ") (headerCells f) ""
  have hm : (headerCells f).map (fun c => (padLeft c.2 c.1 ++ " ").length)
      = (headerCells f).map (fun c => max c.2 c.1.length + 1) := by
    apply List.map_congr_left
    intro c _
    rw [String.length_append, sp_len]
    unfold padLeft
    rw [String.length_append, spaces_length]
    omega
  unfold headerLine
  rw [String.length_append, h, hm, lc_len, empty_len, Nat.zero_add]

theorem separator_length (f : DisplayFlags) :
    (separatorLine f).length = ((headerCells f).map fun c => c.2 + 1).sum + 2 := by
  have h := foldl_append_length (fun (c : String × Nat) => dashes c.2 ++ " ") (headerCells f) ""
  have hm : (headerCells f).map (fun c => (dashes c.2 ++ " ").length) = (headerCells f).map (fun c => c.2 + 1) := by
    apply List.map_congr_left
    intro c _
    rw [String.length_append, sp_len, dashes_length]
  unfold separatorLine
  rw [String.length_append, h, hm, dd_len, empty_len, Nat.zero_add]

/-- every header name fits its column -/
theorem header_names_fit : ∀ g ∈ Gen.headerGroups, ∀ c ∈ g.2, c.1.length ≤ c.2 := by decide +kernel

theorem header_eq_separator (f : DisplayFlags) : (headerLine f).length = (separatorLine f).length := by
  rw [header_length, separator_length]
  have : (headerCells f).map (fun c => max c.2 c.1.length + 1) = (headerCells f).map (fun c => c.2 + 1) := by
    apply List.map_congr_left
    intro c hc
    have : c.1.length ≤ c.2 := by
      unfold headerCells at hc
      rw [List.mem_flatMap] at hc
      obtain ⟨g, hg, hcg⟩ := hc
      exact header_names_fit g (List.mem_filter.mp hg).1 c hcg
    omega
  rw [this]

/-- whenever every value fits its column, the row, the header and the separator have the same width -/
theorem width_eq (f : DisplayFlags) (now : Int) (p : Plane)
    (hfit : ∀ c ∈ rowCells f now p, c.text.length ≤ c.width) :
    (rowLine f now p).length = (separatorLine f).length ∧ (headerLine f).length = (separatorLine f).length := by
  refine ⟨?_, header_eq_separator f⟩
  unfold rowLine
  rw [foldl_append_length Cell.render, separator_length]
  have h1 : (rowCells f now p).map (fun c => c.render.length) = (rowCells f now p).map (fun c => c.width + c.sep.length) := by
    apply List.map_congr_left; intro c hc; exact render_length c (hfit c hc)
  rw [h1]
  have h2 : (rowCells f now p).map (fun c => c.width + c.sep.length)
      = List.zipWith (· + ·) ((rowCells f now p).map (·.width)) ((rowCells f now p).map (·.sep.length)) := by
    rw [List.zipWith_map_left, List.zipWith_map_right, List.zipWith_self]
  rw [h2, column_widths, sep_lengths]
  simp only [String.length]
  generalize headerCells f = hc
  induction hc with
  | nil => rfl
  | cons x xs ih =>
    simp only [List.map_cons, List.cons_append, List.zipWith_cons_cons, List.sum_cons] at ih ⊢
    omega

/-- unknown parameters are blank: a numeric cell of `none` has empty content (padded to the width) -/
theorem blank_when_unknown (col : String) (w : Nat) (sep : String) :
    (natCell col w none sep).text = "" ∧ (intCell col w none sep).text = "" := ⟨rfl, rfl⟩

/-- numbers are right-aligned, text left-aligned: the alignment of every cell is determined by its column -/
def alignOf (col : String) : Align :=
  if col ∈ ["RG", "SQWK", "W", "CALLSIGN", "VX", "S", "PTH"] then .left else .right

theorem alignment (f : DisplayFlags) (now : Int) (p : Plane) :
    (rowCells f now p).map (·.align) = ((headerCells f).map (·.1) ++ ["LC"]).map alignOf := by
  obtain ⟨w, a, s, al, e, q⟩ := f
  cases w <;> cases a <;> cases s <;> cases al <;> cases e <;> rfl

end Sq.C14
