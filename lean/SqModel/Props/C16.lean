/-
C16 — DF filter admits only the listed formats; DF counters are exact.

With -f, only accepted frames whose downlink format is in the list are applied; every other frame
leaves table and counters untouched.  With -c, the counter line shows, in ascending DF order, for
each DF exactly the number of accepted frames with non-zero address of that DF that passed the
filter so far.
-/
import SqModel.Proofs.Reader
import SqModel.Model.Render

namespace Sq.C16

/-- a frame whose DF is not in the `-f` list changes nothing -/
theorem filtered_noop (env : Env) (cfg : DecodeCfg) (now : Int) (s : RState) (line : List Nat) (m : Msg)
    (df : Nat) (L : List Nat) (hf : cfg.filter = some L) (hm : getMessage line = some m)
    (hdf : getDownlinkFormat m = some df) (hnot : df ∉ L) : stepLine env cfg now s line = s := by
  apply stepLine_not_accepted
  unfold acceptedFrame
  simp only [hm, hdf]
  cases getIcao m df with
  | none => rfl
  | some icao =>
    have : passesFilter cfg df = false := by
      unfold passesFilter
      simp only [hf, Bool.not_eq_false', List.all_eq_true, bne_iff_ne, ne_eq]
      intro x hx hxe; exact hnot (hxe ▸ hx)
    simp [this]

/-- a frame whose DF is in the list passes -/
theorem listed_passes (cfg : DecodeCfg) (df : Nat) (L : List Nat) (hf : cfg.filter = some L) (h : df ∈ L) :
    passesFilter cfg df = true := by
  unfold passesFilter
  simp only [hf, Bool.not_eq_true', List.all_eq_false]
  exact ⟨df, h, by simp⟩

/-- the counters after a segment: with -c, the count of each DF among the accepted lines
    (frame, non-zero address, passed the filter); without -c, nothing -/
theorem counts_exact (env : Env) (cfg : DecodeCfg) (now : Int) (t : Table) (lines : List (List Nat)) (k : Nat) :
    cntLookup (runSegment env cfg now t lines).dfCount k
      = if cfg.countDf then ((lines.filterMap (acceptedDf cfg)).count k : Int) else 0 := by
  rw [dfCount_runSegment]
  split
  · exact cntLookup_countsOf _ k
  · rfl

/-- the counter map lists each DF once, in ascending order -/
theorem counts_sorted (env : Env) (cfg : DecodeCfg) (now : Int) (t : Table) (lines : List (List Nat)) :
    KeysAsc (runSegment env cfg now t lines).dfCount := by
  rw [dfCount_runSegment]
  split
  · exact countsOf_keysAsc _
  · trivial

-- non-vacuity
example : countsOf [17, 4, 17, 11, 4, 17] = [(4, 2), (11, 1), (17, 3)] := by decide +kernel

end Sq.C16
