/-
C02 — A line is a frame iff its hex digits form a 56/112-bit frame of matching DF.

A line is taken as a Mode S frame exactly when, after discarding every character that is not a
hexadecimal digit, 14 or 28 digits remain, or 26 or 40 digits remain (the first 12 being a
receiver timestamp that is dropped), and the frame length agrees with its downlink format;
squitters must in addition pass the parity check of C04.  The result of processing depends only
on that digit sequence, and every line that is not taken as a frame leaves the table untouched.
-/
import SqModel.Proofs.Gate
import SqModel.Proofs.Reminder
import SqModel.Proofs.Table

namespace Sq.C02
open Spec

/-- acceptance, stated on the digit sequence: `get_message` takes a line exactly when the
    specification does, and returns the same frame -/
theorem messageOfDigits_eq_spec (d : Msg) (hd : AllNib d) : messageOfDigits d = acceptDigits d := by
  unfold messageOfDigits acceptDigits
  have hc : cleanDigits d = frameOf d := rfl
  rw [hc]
  cases hf : frameOf d with
  | none => rfl
  | some m =>
    have hm : AllNib m := cleanDigits_allNib hd (hc ▸ hf)
    have hlen : m.length = 14 ∨ m.length = 28 := by
      unfold frameOf at hf
      split at hf
      · simp at hf; subst hf; assumption
      · split at hf
        · rename_i h; simp at hf; subst hf; simp; omega
        · simp at hf
    have h1 : (m.length == 14 || m.length == 28) = true := by
      rcases hlen with h | h <;> simp [h]
    simp only [Option.filter_some, h1, if_true]
    rw [lengthMatchesDF_eq m hm (by omega)]
    cases hg : Spec.lengthMatchesDF m with
    | false => simp
    | true =>
      have g := gated_of_lengthMatches m hm hlen hg
      simp only [if_true, Option.filter_some]
      rw [reminder_eq_zero m (by omega)]
      simp only [beq_self_eq_true, if_true, Option.filter_some, parityOk_eq m g, Bool.true_and]

/-- `getMessage line = some m` iff the digits of the line form a frame of matching length and
    DF that passes the squitter parity gate -/
theorem getMessage_iff (line : List Nat) (m : Msg) :
    getMessage line = some m ↔
      frameOf (hexDigits line) = some m ∧ Spec.lengthMatchesDF m = true ∧ Spec.parityOK m = true := by
  unfold getMessage
  rw [messageOfDigits_eq_spec _ (hexDigits_allNib line)]
  unfold acceptDigits
  cases frameOf (hexDigits line) with
  | none => simp
  | some m' =>
    simp only [Option.some.injEq]
    constructor
    · intro h
      split at h
      · rename_i hc; simp at h; subst h
        simp only [Bool.and_eq_true] at hc
        exact ⟨rfl, hc.1, hc.2⟩
      · simp at h
    · rintro ⟨h1, h2, h3⟩
      subst h1
      simp [h2, h3]

/-- a byte that is not an ASCII hex digit never changes the digit sequence, wherever it is put -/
theorem hexDigits_insert (a b : List Nat) (c : Nat) (hc : hexVal c = none) :
    hexDigits (a ++ [c] ++ b) = hexDigits (a ++ b) := by
  unfold hexDigits
  simp [List.filterMap_append, hc]

/-- letter case never changes the digit sequence -/
def toUpperByte (b : Nat) : Nat := if 97 ≤ b ∧ b ≤ 122 then b - 32 else b
theorem hexVal_upper (b : Nat) : hexVal (toUpperByte b) = hexVal b := by
  unfold toUpperByte hexVal
  split <;> (repeat' split) <;> first | rfl | omega | (simp; omega)
theorem hexDigits_upper (l : List Nat) : hexDigits (l.map toUpperByte) = hexDigits l := by
  unfold hexDigits
  rw [List.filterMap_map]
  congr 1
  funext b
  exact hexVal_upper b

/-- the result of processing a line depends on its digit sequence only -/
theorem decoration_invariance (env : Env) (cfg : DecodeCfg) (now : Int) (s : RState)
    (l₁ l₂ : List Nat) (h : hexDigits l₁ = hexDigits l₂) :
    stepLine env cfg now s l₁ = stepLine env cfg now s l₂ :=
  stepLine_digits env cfg now s l₁ l₂ h

/-- a line that is not taken as a frame leaves table, counters and sweep schedule untouched -/
theorem nonframe_noop (env : Env) (cfg : DecodeCfg) (now : Int) (s : RState) (line : List Nat)
    (h : getMessage line = none) : stepLine env cfg now s line = s := by
  apply stepLine_not_accepted
  unfold acceptedFrame; rw [h]

-- the hypotheses are satisfiable and the gate is not trivial
example : getMessage ("8D40621D58C382D690C8AC2863A7".toList.map Char.toNat) ≠ none := by decide +kernel
example : getMessage ("*8d40621d58c382d690c8ac2863a7;\r".toList.map Char.toNat)
    = getMessage ("8D40621D58C382D690C8AC2863A7".toList.map Char.toNat) := by decide +kernel
example : getMessage ("@009736E2736B02E197B00179C3;".toList.map Char.toNat) ≠ none := by decide +kernel
example : getMessage ("8D40621D58C382".toList.map Char.toNat) = none := by decide +kernel   -- 14 digits announcing DF17
example : getMessage ("02E197B00179C302E197B00179C3".toList.map Char.toNat) = none := by decide +kernel -- 28 digits announcing DF0
example : getMessage ("8D40621D58C382D690C8AC2863A".toList.map Char.toNat) = none := by decide +kernel

end Sq.C02
