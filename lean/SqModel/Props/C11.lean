/-
C11 — Each parameter shows the latest value its own frames carried; no cross-talk.

After any interleaved history of frames from several aircraft, every displayed parameter of an
aircraft equals the value decoded from the most recent frame of that aircraft whose format carries
that parameter; when that frame carried no valid value the parameter is blank or keeps its previous
value.  Frames of a format that does not carry a parameter never change it, and re-feeding the
frame just applied to an existing row changes nothing.

What "carries" means per format is made explicit by the per-format erasers of `Proofs/Formats.lean`:
`eraseX (applyFrame .. p ..) = eraseX p` says a frame of class X assigns nothing outside X - on the
default path and the -U path alike, under every option set.  What a frame does assign is C05-C10.
-/
import SqModel.Proofs.Formats
import SqModel.Props.C03

namespace Sq.C11

/-- a frame of a format that does not carry a parameter never changes it: the generic form.  For any
    projection that the class eraser leaves alone, the projection is unchanged. -/
theorem frame_preserves {α : Type} (erase : Plane → Plane) (f : Plane → α) (hf : ∀ q, f (erase q) = f q)
    (q q' : Plane) (hmod : erase q' = erase q) : f q' = f q := by
  rw [← hf q', hmod, hf]

-- the classes (each holds on both update paths, for all options) -----------------------------------
/-- short replies other than DF4/5/11 (and every format the decoder does not know): nothing but the book-keeping -/
theorem short_other_touches_nothing (env : Env) (cfg : DecodeCfg) (now : Int) (p : Plane) (m : Msg) (df : Nat) (dl : DFRec)
    (hdf : getDownlinkFormat m = some df) (hdl : DFRec.fromMessage env m = some dl)
    (h : df ≤ 16 ∨ df = 19 ∨ 22 ≤ df) (h4 : df ≠ 4) (h5 : df ≠ 5) (h11 : df ≠ 11) :
    eraseStamp (applyFrame env cfg now p dl m df) = eraseStamp p :=
  modifies_short_other env cfg now p m df dl hdf hdl h h4 h5 h11

/-- DF4: altitude (and its source mark) only -/
theorem df4_touches_altitude_only (env : Env) (cfg : DecodeCfg) (now : Int) (p : Plane) (m : Msg)
    (hdf : getDownlinkFormat m = some 4) :
    eraseAlt (applyFrame env cfg now p (.srt (Srt.fromMessage m)) m 4) = eraseAlt p :=
  modifies_df4 env cfg now p m hdf

/-- DF5: squawk only -/
theorem df5_touches_squawk_only (env : Env) (cfg : DecodeCfg) (now : Int) (p : Plane) (m : Msg)
    (hdf : getDownlinkFormat m = some 5) :
    eraseSquawk (applyFrame env cfg now p (.srt (Srt.fromMessage m)) m 5) = eraseSquawk p :=
  modifies_df5 env cfg now p m hdf

/-- DF11: capability only -/
theorem df11_touches_capability_only (env : Env) (cfg : DecodeCfg) (now : Int) (p : Plane) (m : Msg)
    (hdf : getDownlinkFormat m = some 11) :
    eraseCap (applyFrame env cfg now p (.srt (Srt.fromMessage m)) m 11) = eraseCap p :=
  modifies_df11 env cfg now p m hdf

/-- DF17 TC 1-4: callsign and category -/
theorem ident_touches_callsign_category (env : Env) (cfg : DecodeCfg) (now : Int) (p : Plane) (m : Msg)
    (hdf : getDownlinkFormat m = some 17) (htc : 1 ≤ (getMessageType m).1 ∧ (getMessageType m).1 ≤ 4) :
    eraseIdent (applyFrame env cfg now p (.ext (Ext.fromMessage env m)) m 17) = eraseIdent p :=
  modifies_tc_1_4 env cfg now p m hdf htc

/-- DF17 TC 5-8 (surface position) -/
theorem surface_touches (env : Env) (cfg : DecodeCfg) (now : Int) (p : Plane) (m : Msg)
    (hdf : getDownlinkFormat m = some 17) (htc : 5 ≤ (getMessageType m).1 ∧ (getMessageType m).1 ≤ 8) :
    eraseSurface (applyFrame env cfg now p (.ext (Ext.fromMessage env m)) m 17) = eraseSurface p :=
  modifies_tc_5_8 env cfg now p m hdf htc

/-- DF17 TC 9-18 (airborne position) -/
theorem airpos_touches (env : Env) (cfg : DecodeCfg) (now : Int) (p : Plane) (m : Msg)
    (hdf : getDownlinkFormat m = some 17) (htc : 9 ≤ (getMessageType m).1 ∧ (getMessageType m).1 ≤ 18) :
    eraseAirpos (applyFrame env cfg now p (.ext (Ext.fromMessage env m)) m 17) = eraseAirpos p :=
  modifies_tc_9_18 env cfg now p m hdf htc

/-- DF17 TC 19 (velocity) -/
theorem velocity_touches (env : Env) (cfg : DecodeCfg) (now : Int) (p : Plane) (m : Msg)
    (hdf : getDownlinkFormat m = some 17) (htc : (getMessageType m).1 = 19) :
    eraseVelocity (applyFrame env cfg now p (.ext (Ext.fromMessage env m)) m 17) = eraseVelocity p :=
  modifies_tc_19 env cfg now p m hdf htc

/-- DF17 TC 20-22 (GNSS height position) -/
theorem gnsspos_touches (env : Env) (cfg : DecodeCfg) (now : Int) (p : Plane) (m : Msg)
    (hdf : getDownlinkFormat m = some 17) (htc : 20 ≤ (getMessageType m).1 ∧ (getMessageType m).1 ≤ 22) :
    eraseGnss (applyFrame env cfg now p (.ext (Ext.fromMessage env m)) m 17) = eraseGnss p :=
  modifies_tc_20_22 env cfg now p m hdf htc

/-- DF17 TC 31 (operational status) -/
theorem opstatus_touches (env : Env) (cfg : DecodeCfg) (now : Int) (p : Plane) (m : Msg)
    (hdf : getDownlinkFormat m = some 17) (htc : (getMessageType m).1 = 31) :
    eraseVersion (applyFrame env cfg now p (.ext (Ext.fromMessage env m)) m 17) = eraseVersion p :=
  modifies_tc_31 env cfg now p m hdf htc

/-- DF17 with any other type code (0, 23-30): header book-keeping only -/
theorem other_tc_touches_header_only (env : Env) (cfg : DecodeCfg) (now : Int) (p : Plane) (m : Msg)
    (hdf : getDownlinkFormat m = some 17)
    (htc : (getMessageType m).1 = 0 ∨ (23 ≤ (getMessageType m).1 ∧ (getMessageType m).1 ≠ 31)) :
    eraseHead (applyFrame env cfg now p (.ext (Ext.fromMessage env m)) m 17) = eraseHead p :=
  modifies_tc_other env cfg now p m hdf htc

/-- DF20/DF21: altitude resp. squawk, and the Comm-B fields -/
theorem commb_touches (env : Env) (cfg : DecodeCfg) (now : Int) (p : Plane) (m : Msg) (df : Nat) (dl : DFRec)
    (h : df = 20 ∨ df = 21) :
    eraseCommB (applyFrame env cfg now p dl m df) = eraseCommB p :=
  modifies_df20_21 env cfg now p m df dl h

-- in the property's words, a few instances --------------------------------------------------------
/-- a velocity squitter never changes altitude, squawk, callsign, category, position or the EHS fields -/
theorem velocity_keeps (env : Env) (cfg : DecodeCfg) (now : Int) (p : Plane) (m : Msg)
    (hdf : getDownlinkFormat m = some 17) (htc : (getMessageType m).1 = 19) :
    let q := applyFrame env cfg now p (.ext (Ext.fromMessage env m)) m 17
    q.altitude = p.altitude ∧ q.squawk = p.squawk ∧ q.ais = p.ais ∧ q.category = p.category
      ∧ q.lat = p.lat ∧ q.lon = p.lon ∧ q.cprLat0 = p.cprLat0 ∧ q.cprLat1 = p.cprLat1
      ∧ q.selectedAltitude = p.selectedAltitude ∧ q.rollAngle = p.rollAngle ∧ q.surveillanceStatus = p.surveillanceStatus
      ∧ q.adsbVersion = p.adsbVersion := by
  intro q
  have h := modifies_tc_19 env cfg now p m hdf htc
  refine ⟨?_, ?_, ?_, ?_, ?_, ?_, ?_, ?_, ?_, ?_, ?_, ?_⟩ <;>
    first
    | exact frame_preserves eraseVelocity Plane.altitude (fun _ => rfl) _ _ h
    | exact frame_preserves eraseVelocity Plane.squawk (fun _ => rfl) _ _ h
    | exact frame_preserves eraseVelocity Plane.ais (fun _ => rfl) _ _ h
    | exact frame_preserves eraseVelocity Plane.category (fun _ => rfl) _ _ h
    | exact frame_preserves eraseVelocity Plane.lat (fun _ => rfl) _ _ h
    | exact frame_preserves eraseVelocity Plane.lon (fun _ => rfl) _ _ h
    | exact frame_preserves eraseVelocity Plane.cprLat0 (fun _ => rfl) _ _ h
    | exact frame_preserves eraseVelocity Plane.cprLat1 (fun _ => rfl) _ _ h
    | exact frame_preserves eraseVelocity Plane.selectedAltitude (fun _ => rfl) _ _ h
    | exact frame_preserves eraseVelocity Plane.rollAngle (fun _ => rfl) _ _ h
    | exact frame_preserves eraseVelocity Plane.surveillanceStatus (fun _ => rfl) _ _ h
    | exact frame_preserves eraseVelocity Plane.adsbVersion (fun _ => rfl) _ _ h

/-- an airborne position squitter never changes squawk, callsign, speed, track, vertical rate, version -/
theorem airpos_keeps (env : Env) (cfg : DecodeCfg) (now : Int) (p : Plane) (m : Msg)
    (hdf : getDownlinkFormat m = some 17) (htc : 9 ≤ (getMessageType m).1 ∧ (getMessageType m).1 ≤ 18) :
    let q := applyFrame env cfg now p (.ext (Ext.fromMessage env m)) m 17
    q.squawk = p.squawk ∧ q.ais = p.ais ∧ q.grspeed = p.grspeed ∧ q.track = p.track ∧ q.vrate = p.vrate
      ∧ q.adsbVersion = p.adsbVersion ∧ q.category = p.category := by
  intro q
  have h := modifies_tc_9_18 env cfg now p m hdf htc
  refine ⟨?_, ?_, ?_, ?_, ?_, ?_, ?_⟩ <;>
    first
    | exact frame_preserves eraseAirpos Plane.squawk (fun _ => rfl) _ _ h
    | exact frame_preserves eraseAirpos Plane.ais (fun _ => rfl) _ _ h
    | exact frame_preserves eraseAirpos Plane.grspeed (fun _ => rfl) _ _ h
    | exact frame_preserves eraseAirpos Plane.track (fun _ => rfl) _ _ h
    | exact frame_preserves eraseAirpos Plane.vrate (fun _ => rfl) _ _ h
    | exact frame_preserves eraseAirpos Plane.adsbVersion (fun _ => rfl) _ _ h
    | exact frame_preserves eraseAirpos Plane.category (fun _ => rfl) _ _ h

/-- a Comm-B reply never changes callsign-independent ADS-B data: position, category, version, capability.0 -/
theorem commb_keeps (env : Env) (cfg : DecodeCfg) (now : Int) (p : Plane) (m : Msg) (df : Nat) (dl : DFRec)
    (h : df = 20 ∨ df = 21) :
    let q := applyFrame env cfg now p dl m df
    q.lat = p.lat ∧ q.lon = p.lon ∧ q.category = p.category ∧ q.adsbVersion = p.adsbVersion ∧ q.cap0 = p.cap0
      ∧ q.surveillanceStatus = p.surveillanceStatus ∧ q.cprLat0 = p.cprLat0 := by
  intro q
  have hm := modifies_df20_21 env cfg now p m df dl h
  refine ⟨?_, ?_, ?_, ?_, ?_, ?_, ?_⟩ <;>
    first
    | exact frame_preserves eraseCommB Plane.lat (fun _ => rfl) _ _ hm
    | exact frame_preserves eraseCommB Plane.lon (fun _ => rfl) _ _ hm
    | exact frame_preserves eraseCommB Plane.category (fun _ => rfl) _ _ hm
    | exact frame_preserves eraseCommB Plane.adsbVersion (fun _ => rfl) _ _ hm
    | exact frame_preserves eraseCommB Plane.cap0 (fun _ => rfl) _ _ hm
    | exact frame_preserves eraseCommB Plane.surveillanceStatus (fun _ => rfl) _ _ hm
    | exact frame_preserves eraseCommB Plane.cprLat0 (fun _ => rfl) _ _ hm

/-- altitude is blanked by a surface squitter (both paths) -/
theorem surface_blanks_altitude (env : Env) (cfg : DecodeCfg) (now : Int) (p : Plane) (m : Msg)
    (hdf : getDownlinkFormat m = some 17) (htc : 5 ≤ (getMessageType m).1 ∧ (getMessageType m).1 ≤ 8)
    (hicao : (getIcao m 17).isSome) :
    (applyFrame env cfg now p (.ext (Ext.fromMessage env m)) m 17).altitude = none := by
  have ePos : ∀ q : Plane, (erasePos q).altitude = q.altitude := fun _ => rfl
  have hsc : ∀ (q : Plane) tc c, (q.storeCpr env tc c).altitude = q.altitude := by
    intro q tc c; rw [← ePos, erasePos_storeCpr, ePos]
  have h14 : ¬ (1 ≤ (getMessageType m).1 ∧ (getMessageType m).1 ≤ 4) := by omega
  rw [applyFrame_df17]
  split
  · rw [ext_tc_5_8 env m hdf htc]
    simp only [Plane.amendExt, extHead, hicao, if_true, Plane.amendExtTc, h14, htc, and_self, if_false, Plane.amendExt58, hsc]
  · simp only [Plane.updateExtTc, h14, htc, and_self, if_true, if_false, Plane.updateExt58, hsc]

/-- latest value wins, at history level: if no frame after the k-th changes a projection, the row
    after the whole history shows what the k-th frame left.  `apply q x` is any one-step row update
    (instantiate with `applyFrame` on the frames of one aircraft). -/
theorem latest_wins {β α : Type} (apply : Plane → β → Plane) (f : Plane → α)
    (pre : List β) (x : β) (suf : List β) (p : Plane)
    (hkeep : ∀ y ∈ suf, ∀ q, f (apply q y) = f q) :
    f ((pre ++ x :: suf).foldl apply p) = f (apply (pre.foldl apply p) x) := by
  rw [List.foldl_append, List.foldl_cons]
  generalize apply (pre.foldl apply p) x = q
  induction suf generalizing q with
  | nil => rfl
  | cons y ys ih =>
    rw [List.foldl_cons, ih (fun z hz => hkeep z (by simp [hz])) (apply q y), hkeep y (by simp) q]

/-- no cross-talk between aircraft: C03's row isolation -/
theorem no_crosstalk (env : Env) (cfg : DecodeCfg) (now : Int) (s : RState) (line : List Nat)
    (m : Msg) (df icao b : Nat) (h : acceptedFrame cfg line = some (m, df, icao)) (hb : b ≠ icao)
    (hnd : s.table.keys.Nodup) :
    Table.lookup (stepLine env cfg now s line).table b = Table.lookup s.table b
    ∨ (Table.lookup (stepLine env cfg now s line).table b = none ∧ s.cleanupCount > 10 ∧
        ∃ p, Table.lookup s.table b = some p ∧ ¬ numSeconds now p.timestamp < cfg.deleteAfter) :=
  C03.row_isolation env cfg now s line m df icao b h hb hnd

-- re-feeding: proved per update helper (the composition is exercised by the correspondence check) ---
theorem gnssUpdate_idem (cur alt : Option Nat) (d : Option Int) :
    gnssUpdate (gnssUpdate cur alt d) alt d = gnssUpdate cur alt d := by
  unfold gnssUpdate; split <;> simp_all

/-- partial: each of the row-update helpers without position decoding is idempotent; the full
    statement `applyFrame (applyFrame p) = applyFrame p` is not proved (position slots and the
    Comm-B stages are missing) and is covered by the correspondence check, which re-feeds frames -/
theorem refeed_idempotent_partial (p : Plane) (dl : Ext) (s : Srt) (m : Msg) (df tc st : Nat) (env : Env) :
    (p.amendExt19 dl).amendExt19 dl = p.amendExt19 dl
    ∧ (p.amendExt14 dl).amendExt14 dl = p.amendExt14 dl
    ∧ (p.amendExt2022 dl).amendExt2022 dl = p.amendExt2022 dl
    ∧ (p.amendExt31 dl).amendExt31 dl = p.amendExt31 dl
    ∧ (p.amendSrt s).amendSrt s = p.amendSrt s
    ∧ (p.updateFromBcast m df).updateFromBcast m df = p.updateFromBcast m df
    ∧ (p.updateExt14 m tc st).updateExt14 m tc st = p.updateExt14 m tc st
    ∧ (p.updateExt19 env m st).updateExt19 env m st = p.updateExt19 env m st
    ∧ (p.updateExt2022 m).updateExt2022 m = p.updateExt2022 m
    ∧ (p.updateExt31 m).updateExt31 m = p.updateExt31 m := by
  refine ⟨?_, ?_, ?_, ?_, ?_, ?_, ?_, ?_, ?_, ?_⟩
  · unfold Plane.amendExt19; simp only [gnssUpdate_idem]; congr 1 <;> (split <;> simp_all)
  · unfold Plane.amendExt14; congr 1 <;> (split <;> simp_all)
  · rfl
  · rfl
  · by_cases hs : s.icao.isSome = true
    · simp only [Plane.amendSrt, hs, if_true]
      congr 1 <;> (first | rfl | (split <;> first | rfl | simp_all | (cases s.capability <;> rfl)))
    · simp only [Plane.amendSrt, hs]
      rfl
  · unfold Plane.updateFromBcast; congr 1 <;> (split <;> simp_all)
  · rfl
  · unfold Plane.updateExt19; simp only [gnssUpdate_idem]; congr 1 <;> (split <;> simp_all)
  · rfl
  · rfl

end Sq.C11
