/-
Checked twins of the bit-extraction layer (`utils/calc.rs`): the same computations with Rust's
run-time traps made explicit.  `Trap.index` = slice / index out of range, `Trap.underflow` =
`position - 1` on position 0.
-/
import SqModel.Model.Bits

namespace Sq

inductive Trap where
  | index
  | underflow
deriving DecidableEq, Repr

/-- `message[i]` -/
def nibChk (m : Msg) (i : Nat) : Except Trap Nat :=
  match m[i]? with
  | some x => .ok x
  | none => .error .index

/-- `bit_location` -/
def bitLocationChk (p : Nat) : Except Trap (Nat × Nat) :=
  if p = 0 then .error .underflow else .ok ((p - 1) >>> 2, (p - 1) &&& 3)

/-- `range_value`; the `_` arm also slices `message[sb_ibyte + 1..eb_ibyte]` -/
def rangeValueChk (m : Msg) (sb eb : Nat) : Except Trap (Option Nat) :=
  match bitLocationChk sb with
  | .error e => .error e
  | .ok (sby, sbi) =>
    match bitLocationChk eb with
    | .error e => .error e
    | .ok (eby, ebi) =>
      if eby < sby ∨ (eby = sby ∧ ebi < sbi) then .ok none
      else
        match nibChk m sby with
        | .error e => .error e
        | .ok x =>
          match eby - sby with
          | 0 => .ok (some ((x &&& (0xF >>> sbi)) >>> (3 - ebi)))
          | 1 =>
            match nibChk m eby with
            | .error e => .error e
            | .ok y => .ok (some (((x &&& (0xF >>> sbi)) <<< (ebi + 1)) ||| (y >>> (3 - ebi))))
          | _ =>
            if m.length < eby then .error .index
            else
              match nibChk m eby with
              | .error e => .error e
              | .ok y =>
                .ok (some ((midFold (x &&& (0xF >>> sbi)) ((m.drop (sby + 1)).take (eby - sby - 1)) <<< (ebi + 1))
                        ||| (y >>> (3 - ebi))))

/-- the flag read of `flag_and_range_value` -/
def flagBitChk (m : Msg) (flag : Nat) : Except Trap Nat :=
  if flag = 0 then .ok 0
  else
    match nibChk m ((flag - 1) >>> 2) with
    | .error e => .error e
    | .ok x => .ok ((x >>> (3 - ((flag - 1) &&& 3))) &&& 1)

end Sq
