/-
Model of `src/decoder/utils/crc.rs`.

The registers are `u32` in the code and `BitVec 32` here; every operation on them
(`^=`, `<<= 1`, `|= 1`, `& 0x80000000`, `>> 8`) is the wrapping operation of the
same name.  Loop bounds and the polynomial constant come from
`Generated/CrcConsts.lean`, which is rewritten from the source on every run.
-/
import SqModel.Model.Bits
import SqModel.Generated.CrcConsts

namespace Sq

def iter (f : α → α) : Nat → α → α
  | 0, x => x
  | n + 1, x => iter f n (f x)

def crcPoly : BitVec 32 := BitVec.ofNat 32 Gen.crcPolyNat

/-- one round of the `crc56` loop -/
def crcStep56 (d : BitVec 32) : BitVec 32 := (if d.msb then d ^^^ crcPoly else d) <<< 1

/-- `crc56`.  TRAP: `expect` on `range_value(message, 1, 32)` (never `None`). -/
def crc56 (m : Msg) : Nat :=
  ((iter crcStep56 Gen.crc56Rounds (BitVec.ofNat 32 ((rangeValue m 1 32).getD 0))) >>> 8).toNat

structure Crc112State where
  data : BitVec 32
  data1 : BitVec 32
  data2 : BitVec 32

/-- one round of the `crc112` loop -/
def crcStep112 (s : Crc112State) : Crc112State :=
  let data := if s.data.msb then s.data ^^^ crcPoly else s.data
  let data := data <<< 1
  let data := if s.data1.msb then data ||| 1#32 else data
  let data1 := s.data1 <<< 1
  let data1 := if s.data2.msb then data1 ||| 1#32 else data1
  let data2 := s.data2 <<< 1
  { data, data1, data2 }

/-- `crc112` -/
def crc112 (m : Msg) : Nat :=
  let s0 : Crc112State :=
    { data := BitVec.ofNat 32 ((rangeValue m 1 32).getD 0)
      data1 := BitVec.ofNat 32 ((rangeValue m 33 64).getD 0)
      data2 := BitVec.ofNat 32 (((rangeValue m 65 88).getD 0) <<< 8) }
  ((iter crcStep112 Gen.crc112Rounds s0).data >>> 8).toNat

/-- `get_crc` -/
def getCrc (m : Msg) (df : Nat) : Nat := if df ≤ 15 then crc56 m else crc112 m

/-- the closure `syndrome` of `parity_ok`: PI field xor CRC of the data bits.
    TRAP: `len - 23` (len is 56 or 112 here). -/
def syndromeOf (m : Msg) (df : Nat) : Option Nat :=
  let len := m.length * 4
  (rangeValue m (len - 23) len).map fun pi => pi ^^^ getCrc m df

/-- `parity_ok` -/
def parityOk (m : Msg) : Bool :=
  match getDownlinkFormat m with
  | some 17 => syndromeOf m 17 == some 0
  | some 18 => syndromeOf m 18 == some 0
  | some 11 => match syndromeOf m 11 with
               | some s => s &&& 0xFFFF80 == 0
               | none => false
  | _ => true

/-- inner `j` loop body of `reminder`, on the byte vector -/
def reminderBit (gen : List Nat) (i : Nat) (bs : List Nat) (j : Nat) : List Nat :=
  let g := fun k => gen.getD k 0
  let mask := 0x80 >>> j
  if (bs.getD i 0) &&& mask != 0 then
    let bs := bs.set i ((bs.getD i 0) ^^^ ((g 0 >>> j) % 256))
    let bs := bs.set (i + 1) ((bs.getD (i + 1) 0) ^^^ (((g 0 <<< (8 - j)) % 256) ||| ((g 1 >>> j) % 256)))
    let bs := bs.set (i + 2) ((bs.getD (i + 2) 0) ^^^ (((g 1 <<< (8 - j)) % 256) ||| ((g 2 >>> j) % 256)))
    let bs := bs.set (i + 3) ((bs.getD (i + 3) 0) ^^^ (((g 2 <<< (8 - j)) % 256) ||| ((g 3 >>> j) % 256)))
    bs
  else bs

/-- `reminder`.  TRAPS: `message.len() - 6`, `bytes[i + 3]`. -/
def reminder (m : Msg) : Nat :=
  let n := m.length
  let bytes0 := (m.take (n - 6)).map (· &&& 0xF) ++ List.replicate 6 0
  let bytes := (List.range (bytes0.length - 6)).foldl
    (fun bs i => (List.range 8).foldl (reminderBit Gen.reminderGenerator i) bs) bytes0
  let k := bytes.length
  ((bytes.getD (k - 3) 0) <<< 16) ||| ((bytes.getD (k - 2) 0) <<< 8) ||| (bytes.getD (k - 1) 0)

end Sq
