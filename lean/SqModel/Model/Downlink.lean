/-
Model of `src/decoder/downlink/{dfs,short,mode_s}.rs` and `downlink/extended/{ext,update}.rs`:
the per-frame records built by `DF::from_message`.
-/
import SqModel.Model.Bds

namespace Sq

/-- what the model does not compute itself (DESIGN 4.4) -/
structure Env where
  /-- `((x.atan2(y).to_degrees().floor() + 360.0) % 360.0) as u32` -/
  atan2deg : SignedMag → SignedMag → Nat
  /-- `haversine(lat, lon, observer.0, observer.1)` for the configured observer; `none` = no observer -/
  dist : Option (Rat → Rat → Rat)

structure Srt where
  df : Option Nat := none
  icao : Option Nat := none
  squawk : Option Nat := none
  capability : Option Nat := none
  altitude : Option Nat := none
deriving DecidableEq, Repr

/-- `Srt::update` on `Srt::new()` -/
def Srt.fromMessage (m : Msg) : Srt :=
  match getDownlinkFormat m with
  | none => {}
  | some df =>
    let s : Srt := { df := some df, icao := getIcao m df }
    if df = 4 then { s with altitude := Sq.altitude m df }
    else if df = 5 then { s with squawk := Sq.squawk m }
    else if df = 11 then { s with capability := some (getCapability m) }
    else s

structure Ext where
  df : Option Nat := none
  icao : Option Nat := none
  capability : Nat := 0
  messageType : Nat × Nat := (0, 0)
  ais : Option (List Char) := none
  category : Option (Nat × Nat) := none
  cpr : Option (Nat × Nat × Nat) := none
  groundMovement : Option Rat := none
  grspeed : Option Nat := none
  track : Option Nat := none
  trackSource : Option Char := none
  heading : Option Nat := none
  headingSource : Option Char := none
  altitude : Option Nat := none
  altitudeSource : Option Char := none
  altitudeDelta : Option Int := none
  altitudeGnss : Option Nat := none
  vrate : Option Int := none
  vrateSource : Option Char := none
  surveillanceStatus : Option Char := none
  adsbVersion : Option Nat := none
deriving DecidableEq, Repr

def chSup0 : Char := Char.ofNat 0x2070
def chSub1 : Char := Char.ofNat 0x2081
def chSub2 : Char := Char.ofNat 0x2082
def chSub3 : Char := Char.ofNat 0x2083
def chSub5 : Char := Char.ofNat 0x2085
def chSub6 : Char := Char.ofNat 0x2086
def chSup1 : Char := Char.ofNat 0x2071

/-- `Ext::update` on `Ext::new()` -/
def Ext.fromMessage (env : Env) (m : Msg) : Ext :=
  match getDownlinkFormat m with
  | none => {}
  | some df =>
    let mt := getMessageType m
    let e : Ext := { df := some df, icao := getIcao m df, capability := getCapability m, messageType := mt }
    let tc := mt.1
    if 1 ≤ tc ∧ tc ≤ 4 then
      { e with ais := Sq.ais m, category := some mt }
    else if 5 ≤ tc ∧ tc ≤ 18 then
      let e := { e with cpr := Sq.cpr m }
      if tc ≤ 8 then
        { e with groundMovement := Sq.groundMovement m, track := Sq.groundTrack m,
                 trackSource := some chSup0, altitudeSource := some chSup0 }
      else
        { e with altitude := Sq.altitude m df, surveillanceStatus := some (Sq.surveillanceStatus m) }
    else if tc = 19 then
      let e := { e with vrate := Sq.verticalRate m, altitudeDelta := Sq.altitudeDelta m }
      if mt.2 = 1 then
        let tg := trackAndGroundspeed env.atan2deg m false
        { e with track := tg.1, grspeed := tg.2, trackSource := some chSub1 }
      else if mt.2 = 2 then
        let tg := trackAndGroundspeed env.atan2deg m true
        { e with track := tg.1, grspeed := tg.2, trackSource := some chSub2 }
      else if mt.2 = 3 ∨ mt.2 = 4 then
        { e with heading := Sq.headingRaw m, headingSource := some chSub3 }
      else e
    else if 20 ≤ tc ∧ tc ≤ 22 then
      { e with altitudeGnss := Sq.altitudeGnss m, surveillanceStatus := some (Sq.surveillanceStatus m) }
    else if tc = 31 then
      { e with adsbVersion := Sq.adsbVersion m }
    else e

/-- the record built by `DF::from_message`; of `Mds` only the address reaches the table -/
inductive DFRec where
  | srt (v : Srt)
  | ext (v : Ext)
  | mds (icao : Option Nat)
deriving DecidableEq, Repr

/-- `DF::from_message` (always `Ok` for a message that has a downlink format) -/
def DFRec.fromMessage (env : Env) (m : Msg) : Option DFRec :=
  match getDownlinkFormat m with
  | none => none
  | some v =>
    if v ≤ 16 then some (.srt (Srt.fromMessage m))
    else if v = 17 then some (.ext (Ext.fromMessage env m))
    else if v = 20 ∨ v = 21 then some (.mds (getIcao m v))
    else some (.srt {})

end Sq
