/-
Model of `src/decoder/plane/header.rs` (`LegendHeaders`, `DisplayFlags`),
`plane/simple_display.rs` (`simple_display`) and `planes.rs` (`print`, `sort_printed_planes`).

The header cell list and the `-i` letters come from the source (`Generated/Header.lean`).
Float-valued cells are rendered by exact decimal rounding of the model's rational value
(`std::fmt` on the `f64` is not modelled; the comparison of those cells is numeric).
-/
import SqModel.Model.Table
import SqModel.Generated.Header

namespace Sq

structure ViewCfg where
  groups : List Char := "aAews".toList
  orderBy : List Char := "sA".toList
deriving DecidableEq, Repr

structure DisplayFlags where
  weather : Bool
  angles : Bool
  speed : Bool
  altitude : Bool
  extra : Bool
  quiet : Bool
deriving DecidableEq, Repr

def flagLetter (name : String) : Char :=
  ((Gen.flagLetters.find? fun p => p.1 == name).map (·.2)).getD '\x00'

/-- `DisplayFlags::from_arg_str` -/
def DisplayFlags.ofChars (cs : List Char) : DisplayFlags :=
  { weather := cs.contains (flagLetter "weather"), angles := cs.contains (flagLetter "angles"),
    speed := cs.contains (flagLetter "speed"), altitude := cs.contains (flagLetter "altitude"),
    extra := cs.contains (flagLetter "extra"), quiet := cs.contains (flagLetter "quiet") }

def DisplayFlags.has (f : DisplayFlags) (g : String) : Bool :=
  if g == "base" then true
  else if g == "weather" then f.weather
  else if g == "angles" then f.angles
  else if g == "speed" then f.speed
  else if g == "altitude" then f.altitude
  else if g == "extra" then f.extra
  else false

/-- the `(name, width)` list built by `LegendHeaders::from_display_flags` -/
def headerCells (f : DisplayFlags) : List (String × Nat) :=
  (Gen.headerGroups.filter fun g => f.has g.1).flatMap (·.2)

def spaces (n : Nat) : String := String.ofList (List.replicate n ' ')
def dashes (n : Nat) : String := String.ofList (List.replicate n '-')
def padLeft (w : Nat) (s : String) : String := spaces (w - s.length) ++ s     -- `{:>w}`
def padRight (w : Nat) (s : String) : String := s ++ spaces (w - s.length)    -- `{:w}` / `{:<w}` on text

/-- `LegendHeaders.header` without the trailing newline -/
def headerLine (f : DisplayFlags) : String :=
  (headerCells f).foldl (fun acc c => acc ++ (padLeft c.2 c.1 ++ " ")) "" ++ "LC"
/-- `LegendHeaders.separator` without the trailing newline -/
def separatorLine (f : DisplayFlags) : String :=
  (headerCells f).foldl (fun acc c => acc ++ (dashes c.2 ++ " ")) "" ++ "--"

inductive Align where
  | left
  | right
deriving DecidableEq, Repr

/-- one column of a printed row: the header it stands under, its content, width, alignment,
    and the character that follows it (a blank or a source mark) -/
structure Cell where
  column : String
  text : String
  width : Nat
  align : Align
  sep : String
deriving DecidableEq, Repr

def Cell.render (c : Cell) : String :=
  (match c.align with
   | .left => padRight c.width c.text
   | .right => padLeft c.width c.text) ++ c.sep

def hexDigitU (n : Nat) : Char := if n < 10 then Char.ofNat (48 + n) else Char.ofNat (55 + n)
def toHexU (n : Nat) : String :=
  if n = 0 then "0" else
  let rec go (fuel n : Nat) (acc : List Char) : List Char :=
    match fuel with
    | 0 => acc
    | fuel + 1 => if n = 0 then acc else go fuel (n / 16) (hexDigitU (n % 16) :: acc)
  String.ofList (go 64 n [])
/-- `{:0w$}` / `{:0wX}`: zero padding -/
def zeroPad (w : Nat) (s : String) : String := String.ofList (List.replicate (w - s.length) '0') ++ s

/-- round half to even of `q * 10^d`, as decimal text with `d` fractional digits (`{:.d}`) -/
def fmtFixed (q : Rat) (d : Nat) : String :=
  let scaled : Rat := q * ((10 ^ d : Nat) : Rat)
  let fl : Int := scaled.floor
  let frac : Rat := scaled - (fl : Rat)
  let r : Int := if frac < 1/2 then fl else if frac > 1/2 then fl + 1 else (if fl % 2 = 0 then fl else fl + 1)
  let neg := r < 0 ∨ (r = 0 ∧ q < 0)
  let a := r.natAbs
  let ip := a / 10 ^ d
  let fp := a % 10 ^ d
  let fs := toString fp
  (if neg then "-" else "") ++ toString ip ++
    (if d = 0 then "" else "." ++ String.ofList (List.replicate (d - fs.length) '0') ++ fs)

def natCell (col : String) (w : Nat) (v : Option Nat) (sep : String := " ") : Cell :=
  { column := col, text := (v.map toString).getD "", width := w, align := .right, sep }
def intCell (col : String) (w : Nat) (v : Option Int) (sep : String := " ") : Cell :=
  { column := col, text := (v.map toString).getD "", width := w, align := .right, sep }

/-- `(now - t).num_seconds() / 10 & 15` as an upper-case hex digit -/
def ageDigit (now : Int) (t : Option Int) : String :=
  match t with
  | some t => toHexU ((Int.tdiv (numSeconds now t) 10) % 16).toNat
  | none => " "

/-- the cells written by `simple_display`, in order -/
def rowCells (f : DisplayFlags) (now : Int) (p : Plane) : List Cell :=
  let base1 : List Cell := [
    { column := "ICAO", text := zeroPad 6 (toHexU p.icao), width := 6, align := .right, sep := " " },
    { column := "RG", text := p.reg, width := 2, align := .left, sep := " " },
    { column := "SQWK", text := (p.squawk.map fun s => zeroPad 4 (toString s)).getD "", width := 4,
      align := .left, sep := (p.threatEncounter.map fun c => c.toString).getD " " },
    { column := "W", text := ((wakeCategory p.category).map fun c => c.toString).getD " ", width := 1,
      align := .left, sep := " " },
    { column := "CALLSIGN", text := (p.ais.map String.ofList).getD "", width := 8, align := .left, sep := " " },
    { column := "LATITUDE", text := if p.lat ≠ 0 ∧ p.lon ≠ 0 then fmtFixed p.lat 5 else "", width := 9,
      align := .right, sep := " " },
    { column := "LONGITUDE", text := if p.lat ≠ 0 ∧ p.lon ≠ 0 then fmtFixed p.lon 5 else "", width := 11,
      align := .right, sep := " " },
    { column := "DIST", text := (p.distance.map fun d => fmtFixed d 1).getD "", width := 5, align := .right, sep := " " },
    natCell "ALT B" 5 p.altitude (if p.altitude.isSome then p.altitudeSource.toString else " ") ]
  let alt : List Cell := if f.altitude then [
    natCell "ALT G" 5 p.altitudeGnss,
    natCell "ALT S" 5 p.selectedAltitude (if p.selectedAltitude.isSome then p.targetAltitudeSource.toString else " "),
    natCell "BARO" 4 p.barometricPressureSetting ] else []
  let base2 : List Cell := [
    intCell "VRATE" 5 p.vrate (if p.vrate.isSome then p.vrateSource.toString else " "),
    natCell "TRK" 3 p.track (if p.track.isSome then p.trackSource.toString else " "),
    natCell "HDG" 3 p.heading (if p.heading.isSome then p.headingSource.toString else " "),
    natCell "GSP" 3 p.grspeed ]
  let speed : List Cell := if f.speed then [
    natCell "TAS" 3 p.trueAirspeed, natCell "IAS" 3 p.indicatedAirspeed,
    { column := "MACH", text := (p.machRaw.map fun r => fmtFixed ((r : Rat) * 4 / 1000) 2).getD "", width := 4,
      align := .right, sep := " " } ] else []
  let angles : List Cell := if f.angles then [
    intCell "RLL" 3 p.rollAngle, intCell "TAR" 3 p.trackAngleRate ] else []
  let weather : List Cell := if f.weather then [
    { column := "TEMP", text := (p.temperature.map fun t => fmtFixed ((t : Rat) / 4) 1).getD "", width := 5,
      align := .right, sep := " " },
    natCell "WND" 3 (p.wind.map (·.1)), natCell "WDR" 3 (p.wind.map (·.2)),
    natCell "HUM" 3 p.humidity, natCell "PRES" 4 p.pressure, natCell "TB" 2 p.turbulence ] else []
  let extra : List Cell := if f.extra then [
    { column := "VX", text := toString p.category.1 ++ toString p.category.2, width := 2, align := .left, sep := " " },
    natCell "DF" 2 (if p.lastDf ≠ 0 then some p.lastDf else none),
    natCell "TC" 2 (if p.lastTypeCode ≠ 0 then some p.lastTypeCode else none),
    natCell "V" 1 p.adsbVersion,
    { column := "S", text := p.surveillanceStatus.toString, width := 1, align := .left, sep := " " },
    { column := "PTH", text := ageDigit now p.positionTimestamp ++ ageDigit now p.trackTimestamp
        ++ ageDigit now p.headingTimestamp, width := 3, align := .left, sep := " " } ] else []
  base1 ++ alt ++ base2 ++ speed ++ angles ++ weather ++ extra ++
    [ { column := "LC", text := toString (numSeconds now p.timestamp), width := 2, align := .right, sep := "" } ]

/-- one printed row (`format_simple_display`) -/
def rowLine (f : DisplayFlags) (now : Int) (p : Plane) : String :=
  (rowCells f now p).foldl (fun acc c => acc ++ c.render) ""

-- sorting ---------------------------------------------------------------------------------

/-- the comparison `sort_printed_planes` uses for one key letter (`a ≤ b` in the sort order),
    and whether the vector is reversed afterwards; `none` = letter not recognised -/
def sortKey (c : Char) : Option ((Plane → Plane → Bool) × Bool) :=
  if c = 'a' then some (fun p q => optNatLe p.altitude q.altitude, false)
  else if c = 'A' then some (fun p q => optNatLe p.altitude q.altitude, true)
  else if c = 'c' then some (fun p q => p.category.1 < q.category.1 ∨ (p.category.1 = q.category.1 ∧ p.category.2 ≤ q.category.2), false)
  else if c = 'C' then some (fun p q => ((q.category.1 <<< 1) ||| q.category.2) ≤ ((p.category.1 <<< 1) ||| p.category.2), false)
  else if c = 'd' then some (fun p q => p.distance.getD 0 ≤ q.distance.getD 0, false)
  else if c = 'D' then some (fun p q => p.distance.getD 0 ≤ q.distance.getD 0, true)
  else if c = 'N' then some (fun p q => p.lat ≤ q.lat, false)
  else if c = 'S' then some (fun p q => q.lat ≤ p.lat, false)
  else if c = 'W' then some (fun p q => p.lon ≤ q.lon, false)
  else if c = 'E' then some (fun p q => q.lon ≤ p.lon, false)
  else if c = 's' then some (fun p q => optNatLe p.squawk q.squawk, false)
  else if c = 'V' then some (fun p q => q.vrate.getD 0 ≤ p.vrate.getD 0, false)
  else if c = 'v' then some (fun p q => p.vrate.getD 0 ≤ q.vrate.getD 0, false)
  else none

/-- one letter of `-o` applied to the vector -/
def applySortLetter (rows : List (Nat × Plane)) (c : Char) : List (Nat × Plane) :=
  match sortKey c with
  | some (le, rev) =>
    let s := rows.mergeSort fun a b => le a.2 b.2
    if rev then s.reverse else s
  | none => rows

/-- the row order of `Planes::print`: by address, then each letter of `-o` in turn (stable) -/
def sortPrinted (orderBy : List Char) (t : Table) : List (Nat × Plane) :=
  orderBy.foldl applySortLetter (t.mergeSort fun a b => a.1 ≤ b.1)

/-- what one refresh prints: header, separator, rows (`display_planes` without the counter line) -/
def renderTable (v : ViewCfg) (now : Int) (t : Table) : List String :=
  let f := DisplayFlags.ofChars v.groups
  [headerLine f, separatorLine f] ++ (sortPrinted v.orderBy t).map fun kp => rowLine f now kp.2

end Sq
