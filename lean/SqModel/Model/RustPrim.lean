/-
Primitives the translator (`extract/rs2lean.py`) maps Rust operations to, and the hand-modelled functions the
translated code calls (`ma_code`, `graytobin`, `ais`, `range_value` ... stay hand-written: they loop over slices).
-/
import SqModel.Model.Fields
import SqModel.Model.Cpr
import SqModel.Model.Country

namespace Sq

/-- `x as u32` for an `f64` value (saturating, truncating towards zero) -/
def ratToU32 (q : Rat) : Nat := if q < 0 then 0 else min q.floor.toNat 4294967295

/-- `ma_code` returns `Some` unconditionally -/
def maCodeOpt (m : Msg) : Option Nat := some (maCode m)

/-- `a[i]` / `a[i] = v` on a `[T; 2]` (the index is a one-bit field; out of range is a trap, listed under C01) -/
def arr2Get {α : Type} (a : α × α) (i : Nat) : α := if i = 0 then a.1 else a.2
def arr2Set {α : Type} (a : α × α) (i : Nat) (v : α) : α × α := if i = 0 then (v, a.2) else (a.1, v)

/-- `a.signed_duration_since(b)` in milliseconds -/
def durationMs (a b : Int) : Int := a - b

/-- what the translated code takes from outside: the float `atan2` of `track_and_groundspeed`, the process-global
    observer position (`observer.rs`) and the float `haversine` (`update_position.rs`) -/
structure TEnv where
  atan2deg : SignedMag → SignedMag → Nat
  observer : Option (Rat × Rat)
  haversine : Rat → Rat → Rat → Rat → Rat

/-- `cpr_location(&self.cpr_lat, &self.cpr_lon, cpr_form, coeff)` on the two-element arrays -/
def cprLocationArr (lat lon : Nat × Nat) (cprForm : Nat) (coeff : Int) : Option (Rat × Rat) :=
  cprLocation lat.1 lat.2 lon.1 lon.2 cprForm coeff

/-- `m.entry(k).and_modify(f).or_insert(v)` on a `HashMap<u32, V>` kept as an association list (insertion order; the
    order of a `HashMap` is never observed: `print` sorts by key first) -/
def hmUpsert {α : Type} (m : List (Nat × α)) (k : Nat) (f : α → α) (v : α) : List (Nat × α) :=
  if m.any (fun kp => kp.1 == k) then m.map (fun kp => if kp.1 == k then (kp.1, f kp.2) else kp)
  else m ++ [(k, v)]

/-- `*m.entry(k).or_insert(v) = f(..)` on a `BTreeMap<u32, V>` kept as a list sorted by key -/
def btUpsert {α : Type} : List (Nat × α) → Nat → (α → α) → α → List (Nat × α)
  | [], k, f, v => [(k, f v)]
  | (k', c) :: rest, k, f, v =>
    if k < k' then (k, f v) :: (k', c) :: rest
    else if k = k' then (k', f c) :: rest
    else (k', c) :: btUpsert rest k f v

end Sq
