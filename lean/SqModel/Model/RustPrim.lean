/-
Primitives the translator (`extract/rs2lean.py`) maps Rust operations to, and the hand-modelled functions the
translated code calls (`ma_code`, `graytobin`, `ais`, `range_value` ... stay hand-written: they loop over slices).
-/
import SqModel.Model.Fields

namespace Sq

/-- `x as i32` for a `u32` value -/
def u32ToI32 (x : Nat) : Int := if x < 2147483648 then (x : Int) else (x : Int) - 4294967296

/-- `x as u32` for an `i32` value -/
def i32ToU32 (x : Int) : Nat := (x % 4294967296).toNat

/-- `x as u32` for an `f64` value (saturating, truncating towards zero) -/
def ratToU32 (q : Rat) : Nat := if q < 0 then 0 else min q.floor.toNat 4294967295

/-- `ma_code` returns `Some` unconditionally -/
def maCodeOpt (m : Msg) : Option Nat := some (maCode m)

/-- `a[i]` / `a[i] = v` on a `[T; 2]` (the index is a one-bit field; out of range is a trap, listed under C01) -/
def arr2Get {α : Type} (a : α × α) (i : Nat) : α := if i = 0 then a.1 else a.2
def arr2Set {α : Type} (a : α × α) (i : Nat) (v : α) : α × α := if i = 0 then (v, a.2) else (a.1, v)

/-- `a.signed_duration_since(b)` in milliseconds -/
def durationMs (a b : Int) : Int := a - b

end Sq
