/-
Model of `src/decoder/planes.rs` (`update_aircraft`, `cleanup`), `src/counters.rs` and the body of
the `for line in ..` loop of `src/reader.rs::read_lines`.
-/
import SqModel.Model.Plane

namespace Sq

/-- the decoding options of `Args` -/
structure DecodeCfg where
  relaxed : Bool := false
  useUpdate : Bool := false
  countDf : Bool := false
  filter : Option (List Nat) := none
  deleteAfter : Int := 60
deriving DecidableEq, Repr

/-- `HashMap<u32, Plane>` as an association list; that keys are distinct is a proved invariant
    (`Proofs/Table.lean`), not part of the type -/
abbrev Table := List (Nat × Plane)

def Table.lookup (t : Table) (a : Nat) : Option Plane := (t.find? fun kp => kp.1 == a).map (·.2)
def Table.keys (t : Table) : List Nat := t.map (·.1)

/-- state of one `read_lines` call: the table it was handed plus its `AppCounters` -/
structure RState where
  table : Table := []
  /-- `df_count: BTreeMap<u32, i32>` as a list sorted by key -/
  dfCount : List (Nat × Int) := []
  cleanupCount : Nat := 0
deriving DecidableEq, Repr

/-- `*self.df_count.entry(df).or_insert(0) += 1` -/
def bumpCount : List (Nat × Int) → Nat → List (Nat × Int)
  | [], df => [(df, 0 + 1)]
  | (k, c) :: rest, df =>
    if df < k then (df, 0 + 1) :: (k, c) :: rest
    else if df = k then (k, c + 1) :: rest
    else (k, c) :: bumpCount rest df

/-- which of the two update paths `update_aircraft` takes for an existing row -/
def applyFrame (env : Env) (cfg : DecodeCfg) (now : Int) (p : Plane) (dl : DFRec) (m : Msg) (df : Nat) : Plane :=
  if df < 20 ∧ !cfg.useUpdate then p.updateFromDownlink env now dl
  else p.update env now m df cfg.relaxed

/-- `update_aircraft`: `entry(icao).and_modify(..).or_insert(Plane::from_downlink(..))` -/
def updateAircraft (env : Env) (cfg : DecodeCfg) (now : Int) (t : Table) (dl : DFRec) (m : Msg)
    (df icao : Nat) : Table :=
  if t.any (fun kp => kp.1 == icao) then
    t.map fun kp => if kp.1 == icao then (kp.1, applyFrame env cfg now kp.2 dl m df) else kp
  else t ++ [(icao, Plane.fromDownlink env now dl icao)]

/-- `Planes::cleanup` -/
def cleanup (cfg : DecodeCfg) (now : Int) (s : RState) : RState :=
  let s :=
    if s.cleanupCount > 10 then
      { s with table := s.table.filter (fun kp => numSeconds now kp.2.timestamp < cfg.deleteAfter),
               cleanupCount := 0 }
    else s
  { s with cleanupCount := s.cleanupCount + 1 }

/-- does `-f` let this DF through -/
def passesFilter (cfg : DecodeCfg) (df : Nat) : Bool :=
  match cfg.filter with
  | some only => !(only.all fun x => x != df)
  | none => true

/-- the frame, its DF and its address, if the line is accepted: taken as a frame, non-zero
    address, not excluded by `-f` -/
def acceptedFrame (cfg : DecodeCfg) (line : List Nat) : Option (Msg × Nat × Nat) :=
  match getMessage line with
  | none => none
  | some m =>
    match getDownlinkFormat m with
    | none => none
    | some df =>
      match getIcao m df with
      | none => none
      | some icao => if passesFilter cfg df then some (m, df, icao) else none

/-- body of the `for line in ..` loop of `read_lines` (display excluded: it does not touch the
    table or the counters other than the refresh time) -/
def stepLine (env : Env) (cfg : DecodeCfg) (now : Int) (s : RState) (line : List Nat) : RState :=
  match acceptedFrame cfg line with
  | none => s
  | some (m, df, icao) =>
    let s := if cfg.countDf then { s with dfCount := bumpCount s.dfCount df } else s
    match DFRec.fromMessage env m with
    | some dl => cleanup cfg now { s with table := updateAircraft env cfg now s.table dl m df icao }
    | none => s

/-- one `read_lines` call over the given lines, all processed at time `now`:
    fresh counters, the caller's table -/
def runSegment (env : Env) (cfg : DecodeCfg) (now : Int) (t : Table) (lines : List (List Nat)) : RState :=
  lines.foldl (stepLine env cfg now) { table := t }

/-- `reader.split(b'\n')`: the pieces between newline bytes; a final piece without newline is a
    line too, an empty final piece is not -/
def splitLines (bytes : List Nat) : List (List Nat) :=
  let rec go (cur : List Nat) (acc : List (List Nat)) : List Nat → List (List Nat)
    | [] => if cur.isEmpty then acc.reverse else (cur.reverse :: acc).reverse
    | b :: rest => if b = 10 then go [] (cur.reverse :: acc) rest else go (b :: cur) acc rest
  go [] [] bytes

end Sq
