/-
Model of `src/decoder/adsb/position.rs` (`cpr_location`, `nl`, `pmod`, `signed_lon`, `fixed_lat`)
in exact rational arithmetic.  The code evaluates the same formulas in `f64`; DESIGN 4.4 / 5.8
say what that difference can and cannot do.
-/
import SqModel.Generated.NlTable

namespace Sq

/-- `x.trunc()`: the integer part, towards zero -/
def ratTrunc (q : Rat) : Int := if 0 ≤ q then q.floor else q.ceil

/-- `x as i32` for an `f64` value (saturating, truncating towards zero) -/
def ratToI32 (q : Rat) : Int := max (-2147483648) (min (ratTrunc q) 2147483647)

/-- `x.abs()` and `x.floor()` on `f64` (the value stays an `f64`) -/
def ratAbs (q : Rat) : Rat := if q < 0 then -q else q
def ratFloor (q : Rat) : Rat := (q.floor : Rat)

/-- `x % y` on `f64` (C `fmod`): what is left after taking `y` away a whole number of times towards zero; the sign is the
    dividend's.  `fmod` is exact in IEEE arithmetic, so for operands that are exact (whole numbers below 2^53) so is this. -/
def ratFmod (x y : Rat) : Rat := x - y * (ratTrunc (x / y) : Rat)

/-- Rust's `%` on `f64` for an integral left operand: the remainder has the sign of the dividend -/
def fmodInt (j : Int) (n : Int) : Int := Int.tmod j n

/-- `fixed_lat` -/
def fixedLat (lat : Rat) : Rat :=
  if 90 ≤ lat then lat - 360 else if lat ≤ -90 then lat + 360 else lat

/-- `signed_lon` -/
def signedLon (lon : Rat) : Rat :=
  if 180 ≤ lon then lon - 360 else if lon ≤ -180 then lon + 360 else lon

/-- `pmod` -/
def pmod (x y : Int) : Int :=
  let res := Int.tmod x y
  if res < 0 then res + y else res

/-- `nl`: first boundary strictly above |lat| -/
def nlOf (lat : Rat) : Int :=
  let a := if lat < 0 then -lat else lat
  match Gen.nlBoundaries.find? (fun b => a < (b.1 : Rat) / 100000000) with
  | some b => (b.2 : Int)
  | none => (Gen.nlDefault : Int)

/-- `⌊x + 1/2⌋` for a rational -/
def floorHalf (x : Rat) : Int := (x + 1/2).floor

/-- the two candidate latitudes computed by `cpr_location` -/
def cprRlat (lat0 lat1 : Nat) : Rat × Rat :=
  let div : Rat := 131072
  let j : Int := floorHalf ((59 * (lat0 : Rat) - 60 * (lat1 : Rat)) / div)
  ( fixedLat (6 * ((fmodInt j 60 : Int) + (lat0 : Rat) / div)),
    fixedLat ((360 : Rat) / 59 * ((fmodInt j 59 : Int) + (lat1 : Rat) / div)) )

/-- `cpr_location(cpr_lat, cpr_lon, cpr_form, coeff)`.
    TRAPS: `rlat[cpr_form as usize]` (cpr_form <= 1), integer division by `coeff` (1 or 4),
    `pmod(_, ni)` (ni >= 1). -/
def cprLocation (lat0 lat1 lon0 lon1 : Nat) (cprForm : Nat) (coeff : Int) : Option (Rat × Rat) :=
  let div : Rat := 131072
  let rlat := cprRlat lat0 lat1
  let nl0 := nlOf rlat.1
  let nl1 := nlOf rlat.2
  if nl0 = nl1 then
    let (ni, nlt, lngt) : Int × Int × Nat :=
      if cprForm = 1 then (max (Int.tdiv nl1 coeff - 1) 1, Int.tdiv nl1 coeff, lon1)
      else (max (Int.tdiv nl0 coeff) 1, Int.tdiv nl0 coeff, lon0)
    let dlngt : Rat := 360 / (ni : Rat)
    let mm : Int := floorHalf (((lon0 : Rat) * ((nlt - 1 : Int) : Rat) - (lon1 : Rat) * (nlt : Rat)) / div)
    -- `m as i32`: the cast saturates; `m` is a small whole number for 17-bit fields (`Proofs/RatPrim.lean`)
    let lon : Rat := dlngt * ((pmod (ratToI32 (mm : Rat)) ni : Int) + (lngt : Rat) / div)
    some (if cprForm = 0 then rlat.1 else rlat.2, signedLon lon)
  else none

end Sq
