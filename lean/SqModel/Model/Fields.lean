/-
Model of the per-frame field decoders:
`utils/ma_code.rs`, `utils/me_code.rs`, `adsb/altitude.rs`, `adsb/altitude/{graytobin,delta,gnss}.rs`,
`adsb/squawk.rs`, `adsb/ais.rs`, `adsb/icao.rs`, `adsb/acas.rs`, `adsb/vertical_rate.rs`,
`adsb/surveillance_status.rs`, `adsb/version.rs`, `adsb/ground_movement.rs`, `ehs/base.rs`, `adsb/position.rs::cpr`.
-/
import SqModel.Model.Frame
import SqModel.Generated.MaCode

namespace Sq

/-- `ma_code`: the 13-bit AC/ID field (bits 20..32) rearranged into the 14-bit working code
    `[b20 b21 b22 b23 b24 b25 b27 b28 b29 b30 b31 b32 | b26 | b28]`.
    `(idx, pos)` pairs come from the source (`Generated/MaCode.lean`). -/
def maCode (m : Msg) : Nat :=
  (Gen.maBitPositions.zipIdx).foldl
    (fun r (p, i) => r ||| (((nib m p.1 >>> p.2) &&& 1) <<< (Gen.maTopShift - i))) 0

/-- `me_code`: 12-bit altitude field of an airborne position squitter (bits 41..52) shifted
    left by two, with the Q bit (bit 48) copied into bit 0. -/
def meCode (m : Msg) : Option Nat :=
  (flagAndRangeValue m 48 41 52).map fun fv => ((fv.2 <<< 2) ||| fv.1) % 65536

def extractBit (v bit : Nat) : Nat := (v >>> bit) &&& 1

/-- the 16-round Gray-to-binary loop of `graytobin` on an 11-bit value -/
def grayLoop (n : Nat) : Nat :=
  ((List.range 16).foldl
    (fun (st : Nat × Bool × Nat) _ =>
      let (mask, cp, result) := st
      let cp := if n &&& mask != 0 then !cp else cp
      let result := if cp then result ||| mask else result
      (mask >>> 1, cp, result))
    (0x80, false, 0)).2.2

/-- `graytobin` on the working code -/
def graytobinOfCode (code : Nat) : Nat × Nat :=
  let n := (extractBit code 4 <<< 10) ||| (extractBit code 2 <<< 9) ||| (extractBit code 12 <<< 8)
    ||| (extractBit code 10 <<< 7) ||| (extractBit code 8 <<< 6) ||| (extractBit code 7 <<< 5)
    ||| (extractBit code 5 <<< 4) ||| (extractBit code 3 <<< 3) ||| (extractBit code 13 <<< 2)
    ||| (extractBit code 11 <<< 1) ||| extractBit code 13
  let result := grayLoop n
  let sub := n &&& 7
  let high := result >>> 3
  let low :=
    if high &&& 1 = 0 then
      (if sub = 4 then 4 else if sub = 6 then 3 else if sub = 3 then 1 else if sub = 2 then 2 else 0)
    else
      (if sub = 1 then 4 else if sub = 3 then 3 else if sub = 6 then 1 else if sub = 2 then 2 else 0)
  (high, low)

/-- `graytobin` (always reads the MA code, whatever the format) -/
def graytobin (m : Msg) : Nat × Nat := graytobinOfCode (maCode m)

/-- `((x as f32) * 0.31) as u32` for `x < 2048` (see DESIGN 5.5: exact floor; swept exhaustively
    by the correspondence check) -/
def metricAlt (x : Nat) : Nat := x * 31 / 100

/-- Q = 1 arm of `altitude_value`: `(N * 25).checked_sub(1000)` -/
def altQ1 (code : Nat) : Option Nat :=
  let v := (((code >>> 7) <<< 4) ||| ((code >>> 2) &&& 0b1111)) * 25
  if 1000 ≤ v then some (v - 1000) else none

/-- Q = 0 arm of `altitude_value` -/
def altGillham (m : Msg) : Option Nat :=
  let hl := graytobin m
  let value := hl.1 * 500 + hl.2 * 100
  if 1200 ≤ value then some (hl.1 * 500 + hl.2 * 100 - 1200) else none

/-- M = 1 arm of `altitude_value` -/
def altMetric (code : Nat) : Option Nat :=
  some (metricAlt ((((code >>> 7) <<< 4) &&& 0b11111110000) ||| ((code >>> 2) &&& 0b1111)))

/-- `altitude_value` -/
def altitudeValue (m : Msg) (code : Option Nat) : Option Nat :=
  match code with
  | none => none
  | some code =>
    if code &&& 0b10 = 0 then
      if code &&& 1 = 0 then altGillham m else altQ1 code
    else altMetric code

/-- `altitude` -/
def altitude (m : Msg) (df : Nat) : Option Nat :=
  let code := if df = 17 then meCode m else some (maCode m)
  (altitudeValue m code).bind fun a => if a < 100000 then some a else none

/-- `altitude_delta` -/
def altitudeDelta (m : Msg) : Option Int :=
  ((flagAndRangeValue m 81 82 88).filter fun f => f.2 != 0).map fun (sign, value) =>
    if sign = 1 then -((value : Int) * 25) else (value : Int) * 25

/-- `altitude_gnss` -/
def altitudeGnss (m : Msg) : Option Nat := rangeValue m 49 60

/-- the arithmetic of `squawk` on the working code -/
def squawkOfCode (code : Nat) : Nat :=
    ((((code >>> 8) &&& 1) <<< 2) ||| (((code >>> 10) &&& 1) <<< 1) ||| ((code >>> 12) &&& 1)) * 1000
    + ((((code >>> 3) &&& 1) <<< 2) ||| (((code >>> 5) &&& 1) <<< 1) ||| ((code >>> 7) &&& 1)) * 100
    + ((((code >>> 9) &&& 1) <<< 2) ||| (((code >>> 11) &&& 1) <<< 1) ||| ((code >>> 13) &&& 1)) * 10
    + ((((code >>> 2) &&& 1) <<< 2) ||| (((code >>> 4) &&& 1) <<< 1) ||| ((code >>> 6) &&& 1))

/-- `squawk` -/
def squawk (m : Msg) : Option Nat := some (squawkOfCode (maCode m))

/-- `ia5`; blank = not a character of the set -/
def ia5 (ch : Nat) : Char :=
  if 48 ≤ ch ∧ ch ≤ 57 then Char.ofNat ch
  else if 1 ≤ ch ∧ ch ≤ 26 then Char.ofNat (ch ||| 64)
  else ' '

/-- the eight 6-bit character codes sliced out of nibbles 10..21 by `ais` -/
def aisCodes (m : Msg) : List Nat :=
  [ (nib m 10 <<< 2) ||| (nib m 11 >>> 2), ((nib m 11 &&& 3) <<< 4) ||| nib m 12,
    (nib m 13 <<< 2) ||| (nib m 14 >>> 2), ((nib m 14 &&& 3) <<< 4) ||| nib m 15,
    (nib m 16 <<< 2) ||| (nib m 17 >>> 2), ((nib m 17 &&& 3) <<< 4) ||| nib m 18,
    (nib m 19 <<< 2) ||| (nib m 20 >>> 2), ((nib m 20 &&& 3) <<< 4) ||| nib m 21 ]

/-- `ais` -/
def ais (m : Msg) : Option (List Char) :=
  some (((aisCodes m).map ia5).filter fun c => c != ' ')

/-- `get_icao`.  TRAP: `len - 23`. -/
def getIcao (m : Msg) (df : Nat) : Option Nat :=
  if df = 0 ∨ df = 4 ∨ df = 5 ∨ df = 16 ∨ df = 20 ∨ df = 21 then
    let len := m.length * 4
    ((rangeValue m (len - 23) len).map fun r => r ^^^ getCrc m df).filter fun f => f != 0
  else
    (rangeValue m 9 32).filter fun f => f != 0

/-- `get_wake_turbulence_category` -/
def wakeCategory (vc : Nat × Nat) : Option Char :=
  if vc.1 = 4 then
    (if vc.2 = 1 then some 'L' else if vc.2 = 2 then some 'S' else if vc.2 = 3 then some 'M'
     else if vc.2 = 4 then some 'H' else if vc.2 = 5 then some 'J' else if vc.2 = 7 then some 'R'
     else none)
  else none

/-- `threat_encounter` -/
def threatEncounter (m : Msg) : Option Char :=
  if nib m 14 &&& 1 = 1 then some (Char.ofNat 0x2072)
  else if (nib m 10 >>> 3) &&& 1 = 1 then some (Char.ofNat 0x2071)
  else none

/-- `vertical_rate`.  TRAP: `value - 1` (guarded by the filter). -/
def verticalRate (m : Msg) : Option Int :=
  ((flagAndRangeValue m 69 70 78).filter fun f => f.2 != 0).map fun (sign, value) =>
    let v : Int := (((value - 1) <<< 6 : Nat) : Int)
    if sign = 1 then -v else v

/-- `surveillance_status` -/
def surveillanceStatus (m : Msg) : Char :=
  let v := (nib m 9 &&& 7) >>> 1
  if v = 0 then 'N' else if v = 1 then 'P' else if v = 2 then 'T' else if v = 3 then 'S' else ' '

/-- `version` -/
def adsbVersion (m : Msg) : Option Nat := rangeValue m 73 75

/-- `ground_movement` (exact: every arm divides or multiplies by a power of two or a small integer) -/
def groundMovement (m : Msg) : Option Rat :=
  match rangeValue m 38 44 with
  | none => none
  | some v =>
    let q : Rat := (v : Rat)
    if v = 1 then some 0
    else if 2 ≤ v ∧ v ≤ 8 then some (q / 8)
    else if 9 ≤ v ∧ v ≤ 12 then some (q / 4)
    else if 13 ≤ v ∧ v ≤ 38 then some (q / 2)
    else if 39 ≤ v ∧ v ≤ 93 then some q
    else if 94 ≤ v ∧ v ≤ 108 then some (q * 2)
    else if 109 ≤ v ∧ v ≤ 123 then some (q * 5)
    else if v = 124 then some 175
    else none

/-- `ground_track` -/
def groundTrack (m : Msg) : Option Nat :=
  ((flagAndRangeValue m 45 46 52).filter fun f => f.1 == 1).map fun v => (v.2 * 360) >>> 7

/-- signed velocity components of a TC19 squitter: east-positive and north-positive, in kt
    (`sp_west`, `sp_south` of `track_and_groundspeed`; despite their names they are positive
    towards east / north) -/
def velocityComponents (m : Msg) : Int × Int :=
  let w : Int := match flagAndRangeValue m 46 47 56 with
    | some (dir, sp) => if dir = 1 then -((sp : Int) - 1) else (sp : Int) - 1
    | none => 0
  let s : Int := match flagAndRangeValue m 57 58 67 with
    | some (dir, sp) => if dir &&& 1 = 1 then -((sp : Int) - 1) else (sp : Int) - 1
    | none => 0
  (w, s)

/-- a velocity component as the code holds it in `f64`: direction bit and magnitude; the direction
    bit survives a zero magnitude (`-(1.0 - 1.0)` is `-0.0`), which `atan2` can see -/
structure SignedMag where
  neg : Bool
  mag : Nat
deriving DecidableEq, Repr

/-- the components as direction bit + magnitude (fields 47..56 / 58..67 minus one) -/
def velocitySignedMag (m : Msg) : SignedMag × SignedMag :=
  let w : SignedMag := match flagAndRangeValue m 46 47 56 with
    | some (dir, sp) => { neg := dir == 1, mag := sp - 1 }
    | none => { neg := false, mag := 0 }
  let s : SignedMag := match flagAndRangeValue m 57 58 67 with
    | some (dir, sp) => { neg := dir &&& 1 == 1, mag := sp - 1 }
    | none => { neg := false, mag := 0 }
  (w, s)

/-- `track_and_groundspeed`; `atan2deg x y` stands for
    `((x.atan2(y).to_degrees().floor() + 360.0) % 360.0) as u32` (a parameter of the model, DESIGN 4.4);
    `f64::sqrt(..).floor()` is `Nat.sqrt` (argument < 2^22, exact). -/
def trackAndGroundspeed (atan2deg : SignedMag → SignedMag → Nat) (m : Msg) (isSupersonic : Bool) :
    Option Nat × Option Nat :=
  if rangeValue m 47 56 = some 0 ∨ rangeValue m 58 67 = some 0 then (none, none)
  else
    let (w, s) := velocityComponents m
    let gs := Nat.sqrt (w * w + s * s).toNat
    let gs := if isSupersonic then gs * 4 else gs
    (some (atan2deg (velocitySignedMag m).1 (velocitySignedMag m).2), some gs)

/-- `heading` of `ehs/base.rs` (TC19 subtypes 3/4): the raw 10-bit field -/
def headingRaw (m : Msg) : Option Nat := rangeValue m 47 56

/-- `cpr`: (format flag, 17-bit latitude, 17-bit longitude) -/
def cpr (m : Msg) : Option (Nat × Nat × Nat) :=
  match flagAndRangeValue m 54 55 71 with
  | some (form, lat) => (rangeValue m 72 88).map fun lon => (form, lat, lon)
  | none => none

end Sq
