/-
Model of `src/decoder/plane.rs`, `plane/from_downlink/*.rs` (the default update path),
`plane/from_squitter/*.rs` (`Plane::update`, used for DF20/21 and with -U) and
`plane/update_position.rs`.  Times are milliseconds on an explicit clock.
-/
import SqModel.Model.Downlink
import SqModel.Model.Cpr
import SqModel.Model.Country

namespace Sq

structure Plane where
  icao : Nat := 0
  cap0 : Nat := 0                       -- capability.0 (CA field)
  cap1 : Capability := {}               -- capability.1 (BDS 1,7 report)
  category : Nat × Nat := (0, 0)
  reg : String := ""
  ais : Option (List Char) := none
  altitude : Option Nat := none
  altitudeGnss : Option Nat := none
  altitudeSource : Char := ' '
  selectedAltitude : Option Nat := none
  barometricPressureSetting : Option Nat := none
  targetAltitudeSource : Char := ' '
  squawk : Option Nat := none
  surveillanceStatus : Char := ' '
  threatEncounter : Option Char := none
  vrate : Option Int := none
  vrateSource : Char := '_'
  cprLat0 : Nat := 0
  cprLat1 : Nat := 0
  cprLon0 : Nat := 0
  cprLon1 : Nat := 0
  cprTime0 : Int
  cprTime1 : Int
  lat : Rat := 0
  lon : Rat := 0
  distance : Option Rat := none
  grspeed : Option Nat := none
  trueAirspeed : Option Nat := none
  indicatedAirspeed : Option Nat := none
  machRaw : Option Nat := none          -- shown value = raw * 0.004
  groundMovement : Option Rat := none
  turn : Nat := 0
  track : Option Nat := none
  trackSource : Char := ' '
  heading : Option Nat := none
  headingSource : Char := ' '
  rollAngle : Option Int := none
  trackAngleRate : Option Int := none
  bds50Timestamp : Option Int := none
  temperature : Option Int := none      -- quarter degrees
  wind : Option (Nat × Nat) := none
  turbulence : Option Nat := none
  humidity : Option Nat := none
  pressure : Option Nat := none
  timestamp : Int
  positionTimestamp : Option Int := none
  trackTimestamp : Option Int := none
  headingTimestamp : Option Int := none
  lastTypeCode : Nat := 0
  lastDf : Nat := 0
  adsbVersion : Option Nat := none
deriving DecidableEq, Repr

/-- `Plane::new()` at time `now` -/
def Plane.new (now : Int) : Plane := { cprTime0 := now, cprTime1 := now, timestamp := now }

/-- `chrono::Duration::num_seconds` of `a - b`: truncation towards zero of milliseconds -/
def numSeconds (a b : Int) : Int := Int.tdiv (a - b) 1000

/-- `update_position` -/
def Plane.updatePosition (env : Env) (p : Plane) (messageType cprForm : Nat) : Plane :=
  if p.cprLat0 ≠ 0 ∧ p.cprLat1 ≠ 0 ∧ p.cprLon0 ≠ 0 ∧ p.cprLon1 ≠ 0
      ∧ (numSeconds p.cprTime0 p.cprTime1).natAbs < 10 then
    let loc :=
      if 5 ≤ messageType ∧ messageType ≤ 8 then
        cprLocation p.cprLat0 p.cprLat1 p.cprLon0 p.cprLon1 cprForm 4
      else if 9 ≤ messageType ∧ messageType ≤ 18 then
        cprLocation p.cprLat0 p.cprLat1 p.cprLon0 p.cprLon1 cprForm 1
      else none
    match loc with
    | some (lat, lon) =>
      if -90 ≤ lat ∧ lat ≤ 90 ∧ -180 ≤ lon ∧ lon ≤ 180 then
        { p with lat := lat, lon := lon,
                 distance := (match env.dist with
                              | some d => some (d lat lon)
                              | none => p.distance),
                 positionTimestamp := some p.timestamp }
      else p
    | none => p
  else p

/-- store a CPR triple in its slot and try to decode (`amend_cpr` / `update_cpr`) -/
def Plane.storeCpr (env : Env) (p : Plane) (messageType : Nat) (c : Nat × Nat × Nat) : Plane :=
  let (form, lat, lon) := c
  -- TRAP: `self.cpr_lat[cpr_form as usize]` (the flag is a single bit)
  let p := if form = 0 then { p with cprLat0 := lat, cprLon0 := lon, cprTime0 := p.timestamp }
           else { p with cprLat1 := lat, cprLon1 := lon, cprTime1 := p.timestamp }
  p.updatePosition env messageType form

/-- `(altitude as i32 + altitude_delta) as u32` -/
def gnssFromDelta (altitude : Nat) (delta : Int) : Nat := (((altitude : Int) + delta) % 4294967296).toNat

-- default path: plane/from_downlink/*.rs ------------------------------------------------

/-- `UpdateFromDownlink<Srt>` -/
def Plane.amendSrt (p : Plane) (dl : Srt) : Plane :=
  if dl.icao.isSome then
    let p := if dl.df = some 4 ∧ dl.altitude.isSome then { p with altitude := dl.altitude, altitudeSource := ' ' } else p
    let p := if dl.df = some 5 ∧ dl.squawk.isSome then { p with squawk := dl.squawk } else p
    if dl.df = some 11 then
      match dl.capability with
      | some v => { p with cap0 := v }
      | none => p
    else p
  else p

/-- `UpdateFromDownlink<Ext>` -/
def Plane.amendExt (env : Env) (p : Plane) (dl : Ext) : Plane :=
  if dl.icao.isSome then
    let p := { p with lastTypeCode := dl.messageType.1, cap0 := dl.capability }
    let tc := dl.messageType.1
    if 1 ≤ tc ∧ tc ≤ 4 then
      if dl.ais.isSome then { p with ais := dl.ais, category := dl.messageType } else p
    else if 5 ≤ tc ∧ tc ≤ 8 then
      let p := { p with groundMovement := dl.groundMovement, altitude := dl.altitude,
                        altitudeSource := chSup0, track := dl.track,
                        trackSource := dl.trackSource.getD ' ' }
      match dl.cpr with
      | some c => p.storeCpr env tc c
      | none => p
    else if 9 ≤ tc ∧ tc ≤ 18 then
      let p := { p with altitude := dl.altitude, altitudeSource := ' ',
                        surveillanceStatus := dl.surveillanceStatus.getD ' ' }
      match dl.cpr with
      | some c => p.storeCpr env tc c
      | none => p
    else if tc = 19 then
      let p := { p with vrate := dl.vrate, vrateSource := ' ' }
      let p := match dl.altitudeDelta, p.altitude with
        | some d, some a => { p with altitudeGnss := some (gnssFromDelta a d) }
        | _, _ => p
      if dl.messageType.2 = 1 then { p with track := dl.track, grspeed := dl.grspeed, trackSource := chSub1 }
      else if dl.messageType.2 = 2 then { p with track := dl.track, grspeed := dl.grspeed, trackSource := chSub2 }
      else if dl.messageType.2 = 3 ∨ dl.messageType.2 = 4 then
        { p with heading := dl.heading, headingSource := chSub3, altitudeSource := '"' }
      else p
    else if 20 ≤ tc ∧ tc ≤ 22 then
      { p with altitudeGnss := dl.altitudeGnss, surveillanceStatus := dl.surveillanceStatus.getD ' ' }
    else if tc = 31 then
      { p with adsbVersion := dl.adsbVersion }
    else p
  else p

/-- `UpdateFromDownlink<DF>`: stamps the row, then dispatches -/
def Plane.updateFromDownlink (env : Env) (now : Int) (p : Plane) (dl : DFRec) : Plane :=
  let p := { p with timestamp := now }
  match dl with
  | .srt v => p.amendSrt v
  | .ext v => p.amendExt env v
  | .mds icao => match icao with
    | some v => { p with icao := v }
    | none => p

-- update path: plane/from_squitter/*.rs --------------------------------------------------

/-- `update_from_bcast` -/
def Plane.updateFromBcast (p : Plane) (m : Msg) (df : Nat) : Plane :=
  let p := if df = 4 ∨ df = 20 then { p with altitude := Sq.altitude m df, altitudeSource := ' ' } else p
  let p := if df = 5 ∨ df = 21 then { p with squawk := Sq.squawk m } else p
  if df = 11 ∨ df = 17 then { p with cap0 := getCapability m } else p

/-- `update_from_ext` -/
def Plane.updateFromExt (env : Env) (p : Plane) (m : Msg) (df : Nat) : Plane :=
  let (tc, st) := getMessageType m
  let p := { p with lastTypeCode := tc }
  if 1 ≤ tc ∧ tc ≤ 4 then
    { p with ais := Sq.ais m, category := (tc, st) }
  else if 5 ≤ tc ∧ tc ≤ 8 then
    let p := { p with groundMovement := Sq.groundMovement m, altitude := none, altitudeSource := chSup0,
                      track := groundTrack m, trackSource := ' ' }
    match (cpr m).filter fun c => c.1 ≤ 1 with
    | some c => p.storeCpr env tc c
    | none => p
  else if 9 ≤ tc ∧ tc ≤ 18 then
    let p := { p with altitude := Sq.altitude m df, altitudeSource := ' ',
                      surveillanceStatus := Sq.surveillanceStatus m }
    match (cpr m).filter fun c => c.1 ≤ 1 with
    | some c => p.storeCpr env tc c
    | none => p
  else if tc = 19 then
    let p := { p with vrate := verticalRate m, vrateSource := ' ' }
    let p := match p.altitude, altitudeDelta m with
      | some a, some d => { p with altitudeGnss := some (gnssFromDelta a d) }
      | _, _ => p
    if st = 1 then
      let tg := trackAndGroundspeed env.atan2deg m false
      { p with track := tg.1, grspeed := tg.2, trackSource := chSub1 }
    else if st = 2 then
      let tg := trackAndGroundspeed env.atan2deg m true
      { p with track := tg.1, grspeed := tg.2, trackSource := chSub2 }
    else if st = 3 ∨ st = 4 then
      { p with heading := headingRaw m, headingSource := chSub3, altitudeSource := '"' }
    else p
  else if 20 ≤ tc ∧ tc ≤ 22 then
    { p with altitudeGnss := Sq.altitudeGnss m, surveillanceStatus := Sq.surveillanceStatus m }
  else if tc = 31 then
    { p with adsbVersion := Sq.adsbVersion m }
  else p

def sourceMark (v : Option Nat) : Char :=
  match v with
  | some 1 => chSub1
  | some 2 => chSub2
  | some 3 => chSub3
  | _ => ' '

/-- `update_from_mode_s` -/
def Plane.updateFromModeS (p : Plane) (m : Msg) (relaxed : Bool) : Plane :=
  let bds := bdsCode m
  let p := if bds = (2, 0) then { p with ais := Sq.ais m } else p
  let p := if bds = (3, 0) then { p with threatEncounter := Sq.threatEncounter m } else p
  -- each stage returns (row, still undecided)
  let st : Plane × Bool := (p, bds = (0, 0))
  let st := if st.2 then
      match isBds17 m with
      | some r => ({ st.1 with cap1 := r }, false)
      | none => st
    else st
  let st := if st.2 && (relaxed || st.1.cap1.bds40) then
      match isBds40 m with
      | some v => ({ st.1 with selectedAltitude := v.mcp.or v.fms,
                               targetAltitudeSource := sourceMark v.source,
                               barometricPressureSetting := v.baro }, false)
      | none => st
    else st
  let st := if st.2 && (relaxed || st.1.cap1.bds50) then
      match isBds50 m with
      | some r => ({ st.1 with rollAngle := r.roll, track := r.track, trackAngleRate := r.rate,
                               grspeed := r.gs, trueAirspeed := r.tas,
                               bds50Timestamp := some st.1.timestamp, trackSource := chSub5,
                               trackTimestamp := some st.1.timestamp }, false)
      | none => st
    else st
  let st := if st.2 && (relaxed || st.1.cap1.bds60) then
      match isBds60 m with
      | some r => ({ st.1 with heading := r.heading, indicatedAirspeed := r.ias, machRaw := r.mach,
                               vrate := (if r.baroRate.isSome then r.baroRate else r.ivv),
                               vrateSource := (if r.baroRate.isSome then chSub6 else chSup1),
                               headingSource := chSub6,
                               headingTimestamp := some st.1.timestamp }, false)
      | none => st
    else st
  let st := if st.2 then
      match isBds44 m with
      | some me => ({ st.1 with temperature := me.temp,
                                wind := (if me.wind.isSome then me.wind else st.1.wind),
                                humidity := me.humidity, turbulence := me.turbulence,
                                pressure := me.pressure }, false)
      | none => st
    else st
  if st.2 then
    match isBds45 m with
    | some v => { st.1 with temperature := some v }
    | none => st.1
  else st.1

/-- `Plane::update` -/
def Plane.update (env : Env) (now : Int) (p : Plane) (m : Msg) (df : Nat) (relaxed : Bool) : Plane :=
  let p := { p with timestamp := now, lastDf := df }
  let p := p.updateFromBcast m df
  let p := if df = 17 ∨ df = 18 then p.updateFromExt env m df else p
  if (relaxed || decide (p.cap0 > 3)) && (df = 20 || df = 21) then p.updateFromModeS m relaxed else p

/-- `Plane::from_downlink` -/
def Plane.fromDownlink (env : Env) (now : Int) (dl : DFRec) (icao : Nat) : Plane :=
  let p := { Plane.new now with icao := icao, reg := (icaoToCountry icao).2 }
  p.updateFromDownlink env now dl

/-- `Plane::from_message` -/
def Plane.fromMessage (env : Env) (now : Int) (m : Msg) (df icao : Nat) (relaxed : Bool) : Plane :=
  let p := { Plane.new now with icao := icao, reg := (icaoToCountry icao).2 }
  p.update env now m df relaxed

end Sq
