/-
Model of `src/decoder/plane.rs`, `plane/from_downlink/*.rs` (the default update path),
`plane/from_squitter/*.rs` (`Plane::update`, used for DF20/21 and with -U) and
`plane/update_position.rs`.  Times are milliseconds on an explicit clock.
-/
import SqModel.Model.Downlink
import SqModel.Model.Cpr
import SqModel.Model.Country

namespace Sq

structure Plane where
  icao : Nat := 0
  cap0 : Nat := 0                       -- capability.0 (CA field)
  cap1 : Capability := {}               -- capability.1 (BDS 1,7 report)
  category : Nat × Nat := (0, 0)
  reg : String := ""
  ais : Option (List Char) := none
  altitude : Option Nat := none
  altitudeGnss : Option Nat := none
  altitudeSource : Char := ' '
  selectedAltitude : Option Nat := none
  barometricPressureSetting : Option Nat := none
  targetAltitudeSource : Char := ' '
  squawk : Option Nat := none
  surveillanceStatus : Char := ' '
  threatEncounter : Option Char := none
  vrate : Option Int := none
  vrateSource : Char := '_'
  cprLat0 : Nat := 0
  cprLat1 : Nat := 0
  cprLon0 : Nat := 0
  cprLon1 : Nat := 0
  cprTime0 : Int
  cprTime1 : Int
  cprSurf0 : Bool := false
  cprSurf1 : Bool := false
  lat : Rat := 0
  lon : Rat := 0
  distance : Option Rat := none
  grspeed : Option Nat := none
  trueAirspeed : Option Nat := none
  indicatedAirspeed : Option Nat := none
  machRaw : Option Nat := none          -- shown value = raw * 0.004
  groundMovement : Option Rat := none
  turn : Nat := 0
  track : Option Nat := none
  trackSource : Char := ' '
  heading : Option Nat := none
  headingSource : Char := ' '
  rollAngle : Option Int := none
  trackAngleRate : Option Int := none
  bds50Timestamp : Option Int := none
  temperature : Option Int := none      -- quarter degrees
  wind : Option (Nat × Nat) := none
  turbulence : Option Nat := none
  humidity : Option Nat := none
  pressure : Option Nat := none
  timestamp : Int
  positionTimestamp : Option Int := none
  trackTimestamp : Option Int := none
  headingTimestamp : Option Int := none
  lastTypeCode : Nat := 0
  lastDf : Nat := 0
  adsbVersion : Option Nat := none
deriving DecidableEq, Repr

/-- `Plane::new()` at time `now` -/
def Plane.new (now : Int) : Plane := { cprTime0 := now, cprTime1 := now, timestamp := now }

/-- `chrono::Duration::num_seconds` of `a - b`: truncation towards zero of milliseconds -/
def numSeconds (a b : Int) : Int := Int.tdiv (a - b) 1000

/-- the position `update_position` commits, if any: both slots of both coordinates filled,
    receive times less than 10 whole seconds apart, same latitude zone, result in range -/
def Plane.posDecode (p : Plane) (messageType cprForm : Nat) : Option (Rat × Rat) :=
  if p.cprLat0 ≠ 0 ∧ p.cprLat1 ≠ 0 ∧ p.cprLon0 ≠ 0 ∧ p.cprLon1 ≠ 0 ∧ p.cprSurf0 = p.cprSurf1
      ∧ (numSeconds p.cprTime0 p.cprTime1).natAbs < 10 then
    let loc :=
      if 5 ≤ messageType ∧ messageType ≤ 8 then
        cprLocation p.cprLat0 p.cprLat1 p.cprLon0 p.cprLon1 cprForm 4
      else if 9 ≤ messageType ∧ messageType ≤ 18 then
        cprLocation p.cprLat0 p.cprLat1 p.cprLon0 p.cprLon1 cprForm 1
      else none
    loc.filter fun ll => -90 ≤ ll.1 ∧ ll.1 ≤ 90 ∧ -180 ≤ ll.2 ∧ ll.2 ≤ 180
  else none

/-- `update_position` -/
def Plane.updatePosition (env : Env) (p : Plane) (messageType cprForm : Nat) : Plane :=
  match p.posDecode messageType cprForm with
  | some ll =>
    { p with lat := ll.1, lon := ll.2,
             distance := (match env.dist with
                          | some d => some (d ll.1 ll.2)
                          | none => p.distance),
             positionTimestamp := some p.timestamp }
  | none => p

/-- the slot assignment of `amend_cpr` / `update_cpr`.
    TRAP: `self.cpr_lat[cpr_form as usize]` (the flag is a single bit) -/
def Plane.setCprSlot (p : Plane) (messageType : Nat) (c : Nat × Nat × Nat) : Plane :=
  { p with cprLat0 := if c.1 = 0 then c.2.1 else p.cprLat0,
           cprLon0 := if c.1 = 0 then c.2.2 else p.cprLon0,
           cprTime0 := if c.1 = 0 then p.timestamp else p.cprTime0,
           cprLat1 := if c.1 = 0 then p.cprLat1 else c.2.1,
           cprLon1 := if c.1 = 0 then p.cprLon1 else c.2.2,
           cprTime1 := if c.1 = 0 then p.cprTime1 else p.timestamp,
           cprSurf0 := if c.1 = 0 then decide (5 ≤ messageType ∧ messageType ≤ 8) else p.cprSurf0,
           cprSurf1 := if c.1 = 0 then p.cprSurf1 else decide (5 ≤ messageType ∧ messageType ≤ 8) }

/-- store a CPR triple in its slot and try to decode (`amend_cpr` / `update_cpr`) -/
def Plane.storeCpr (env : Env) (p : Plane) (messageType : Nat) (c : Option (Nat × Nat × Nat)) : Plane :=
  match c with
  | some c => (p.setCprSlot messageType c).updatePosition env messageType c.1
  | none => p

/-- `(altitude as i32 + altitude_delta) as u32` -/
def gnssFromDelta (altitude : Nat) (delta : Int) : Nat := i32ToU32 (u32ToI32 altitude + delta)

/-- the GNSS altitude a TC19 frame derives from the barometric one -/
def gnssUpdate (cur : Option Nat) (altitude : Option Nat) (delta : Option Int) : Option Nat :=
  match altitude, delta with
  | some a, some d => some (gnssFromDelta a d)
  | _, _ => cur

-- default path: plane/from_downlink/*.rs ------------------------------------------------

/-- `UpdateFromDownlink<Srt>` -/
def Plane.amendSrt (p : Plane) (dl : Srt) : Plane :=
  if dl.icao.isSome then
    { p with
      altitude := if dl.df = some 4 ∧ dl.altitude.isSome then dl.altitude else p.altitude,
      altitudeSource := if dl.df = some 4 ∧ dl.altitude.isSome then ' ' else p.altitudeSource,
      squawk := if dl.df = some 5 ∧ dl.squawk.isSome then dl.squawk else p.squawk,
      cap0 := if dl.df = some 11 then dl.capability.getD p.cap0 else p.cap0 }
  else p

/-- `amend_from_ext_1_4` -/
def Plane.amendExt14 (p : Plane) (dl : Ext) : Plane :=
  { p with ais := if dl.ais.isSome then dl.ais else p.ais,
           category := if dl.ais.isSome then dl.messageType else p.category }

/-- `amend_from_ext_5_8` -/
def Plane.amendExt58 (env : Env) (p : Plane) (dl : Ext) : Plane :=
  ({ p with groundMovement := dl.groundMovement, altitude := dl.altitude, altitudeSource := chSup0,
            track := dl.track, trackSource := dl.trackSource.getD ' ' }).storeCpr env dl.messageType.1 dl.cpr

/-- `amend_from_ext_9_18` -/
def Plane.amendExt918 (env : Env) (p : Plane) (dl : Ext) : Plane :=
  ({ p with altitude := dl.altitude, altitudeSource := ' ',
            surveillanceStatus := dl.surveillanceStatus.getD ' ' }).storeCpr env dl.messageType.1 dl.cpr

/-- `amend_from_ext_19` -/
def Plane.amendExt19 (p : Plane) (dl : Ext) : Plane :=
  let st := dl.messageType.2
  { p with vrate := dl.vrate, vrateSource := ' ',
           altitudeGnss := gnssUpdate p.altitudeGnss p.altitude dl.altitudeDelta,
           track := if st = 1 ∨ st = 2 then dl.track else p.track,
           grspeed := if st = 1 ∨ st = 2 then dl.grspeed else p.grspeed,
           trackSource := if st = 1 then chSub1 else if st = 2 then chSub2 else p.trackSource,
           heading := if st = 3 ∨ st = 4 then dl.heading else p.heading,
           headingSource := if st = 3 ∨ st = 4 then chSub3 else p.headingSource,
           altitudeSource := if st = 3 ∨ st = 4 then '"' else p.altitudeSource }

/-- `amend_from_ext_20_22` -/
def Plane.amendExt2022 (p : Plane) (dl : Ext) : Plane :=
  { p with altitudeGnss := dl.altitudeGnss, surveillanceStatus := dl.surveillanceStatus.getD ' ' }

/-- `amend_from_ext_31` -/
def Plane.amendExt31 (p : Plane) (dl : Ext) : Plane := { p with adsbVersion := dl.adsbVersion }

/-- the `match dl.message_type.0` of `UpdateFromDownlink<Ext>` -/
def Plane.amendExtTc (env : Env) (p : Plane) (dl : Ext) : Plane :=
  let tc := dl.messageType.1
  if 1 ≤ tc ∧ tc ≤ 4 then p.amendExt14 dl
  else if 5 ≤ tc ∧ tc ≤ 8 then p.amendExt58 env dl
  else if 9 ≤ tc ∧ tc ≤ 18 then p.amendExt918 env dl
  else if tc = 19 then p.amendExt19 dl
  else if 20 ≤ tc ∧ tc ≤ 22 then p.amendExt2022 dl
  else if tc = 31 then p.amendExt31 dl
  else p

/-- `UpdateFromDownlink<Ext>` -/
def Plane.amendExt (env : Env) (p : Plane) (dl : Ext) : Plane :=
  if dl.icao.isSome then
    Plane.amendExtTc env { p with lastTypeCode := dl.messageType.1, cap0 := dl.capability } dl
  else p

/-- `UpdateFromDownlink<DF>`: stamps the row, then dispatches -/
def Plane.updateFromDownlink (env : Env) (now : Int) (p : Plane) (dl : DFRec) : Plane :=
  match dl with
  | .srt v => Plane.amendSrt { p with timestamp := now } v
  | .ext v => Plane.amendExt env { p with timestamp := now } v
  | .mds icao => { p with timestamp := now, icao := icao.getD p.icao }

-- update path: plane/from_squitter/*.rs --------------------------------------------------

/-- `update_from_bcast` -/
def Plane.updateFromBcast (p : Plane) (m : Msg) (df : Nat) : Plane :=
  { p with altitude := if df = 4 ∨ df = 20 then Sq.altitude m df else p.altitude,
           altitudeSource := if df = 4 ∨ df = 20 then ' ' else p.altitudeSource,
           squawk := if df = 5 ∨ df = 21 then Sq.squawk m else p.squawk,
           cap0 := if df = 11 ∨ df = 17 then getCapability m else p.cap0 }

/-- `update_cpr`'s filter on the format flag -/
def cprChecked (m : Msg) : Option (Nat × Nat × Nat) := (cpr m).filter fun c => c.1 ≤ 1

/-- `update_from_ext_1_4` -/
def Plane.updateExt14 (p : Plane) (m : Msg) (tc st : Nat) : Plane :=
  { p with ais := Sq.ais m, category := (tc, st) }

/-- `update_from_ext_5_8` -/
def Plane.updateExt58 (env : Env) (p : Plane) (m : Msg) (tc : Nat) : Plane :=
  ({ p with groundMovement := Sq.groundMovement m, altitude := none, altitudeSource := chSup0,
            track := groundTrack m, trackSource := ' ' }).storeCpr env tc (cprChecked m)

/-- `update_from_ext_9_18` -/
def Plane.updateExt918 (env : Env) (p : Plane) (m : Msg) (tc df : Nat) : Plane :=
  ({ p with altitude := Sq.altitude m df, altitudeSource := ' ',
            surveillanceStatus := Sq.surveillanceStatus m }).storeCpr env tc (cprChecked m)

/-- the `(track, grspeed)` pair a TC19 frame of subtype `st` carries -/
def velocityOf (env : Env) (m : Msg) (st : Nat) : Option Nat × Option Nat :=
  trackAndGroundspeed env.atan2deg m (st = 2)

/-- `update_from_ext_19` -/
def Plane.updateExt19 (env : Env) (p : Plane) (m : Msg) (st : Nat) : Plane :=
  { p with vrate := verticalRate m, vrateSource := ' ',
           altitudeGnss := gnssUpdate p.altitudeGnss p.altitude (altitudeDelta m),
           track := if st = 1 ∨ st = 2 then (velocityOf env m st).1 else p.track,
           grspeed := if st = 1 ∨ st = 2 then (velocityOf env m st).2 else p.grspeed,
           trackSource := if st = 1 then chSub1 else if st = 2 then chSub2 else p.trackSource,
           heading := if st = 3 ∨ st = 4 then headingRaw m else p.heading,
           headingSource := if st = 3 ∨ st = 4 then chSub3 else p.headingSource,
           altitudeSource := if st = 3 ∨ st = 4 then '"' else p.altitudeSource }

/-- `update_from_ext_20_22` -/
def Plane.updateExt2022 (p : Plane) (m : Msg) : Plane :=
  { p with altitudeGnss := Sq.altitudeGnss m, surveillanceStatus := Sq.surveillanceStatus m }

/-- `update_from_ext_31` -/
def Plane.updateExt31 (p : Plane) (m : Msg) : Plane := { p with adsbVersion := Sq.adsbVersion m }

/-- the `match message_type` of `update_from_ext` -/
def Plane.updateExtTc (env : Env) (p : Plane) (m : Msg) (df tc st : Nat) : Plane :=
  if 1 ≤ tc ∧ tc ≤ 4 then p.updateExt14 m tc st
  else if 5 ≤ tc ∧ tc ≤ 8 then p.updateExt58 env m tc
  else if 9 ≤ tc ∧ tc ≤ 18 then p.updateExt918 env m tc df
  else if tc = 19 then p.updateExt19 env m st
  else if 20 ≤ tc ∧ tc ≤ 22 then p.updateExt2022 m
  else if tc = 31 then p.updateExt31 m
  else p

/-- `update_from_ext` -/
def Plane.updateFromExt (env : Env) (p : Plane) (m : Msg) (df : Nat) : Plane :=
  Plane.updateExtTc env { p with lastTypeCode := (getMessageType m).1 } m df (getMessageType m).1 (getMessageType m).2

def sourceMark (v : Option Nat) : Char :=
  match v with
  | some 1 => chSub1
  | some 2 => chSub2
  | some 3 => chSub3
  | _ => ' '

/-- the `if bds == (0, 0) { if let Some(result) = is_bds_1_7(..) {..} }` block; a stage takes and
    returns (row, register still undecided) -/
def stage17 (m : Msg) (st : Plane × Bool) : Plane × Bool :=
  if st.2 then
    match isBds17 m with
    | some r => ({ st.1 with cap1 := r }, false)
    | none => st
  else st

def stage40 (m : Msg) (relaxed : Bool) (st : Plane × Bool) : Plane × Bool :=
  if st.2 && (relaxed || st.1.cap1.bds40) then
    match isBds40 m with
    | some v => ({ st.1 with selectedAltitude := v.mcp.or v.fms,
                             targetAltitudeSource := sourceMark v.source,
                             barometricPressureSetting := v.baro }, false)
    | none => st
  else st

def stage50 (m : Msg) (relaxed : Bool) (st : Plane × Bool) : Plane × Bool :=
  if st.2 && (relaxed || st.1.cap1.bds50) then
    match isBds50 m with
    | some r => ({ st.1 with rollAngle := r.roll, track := r.track, trackAngleRate := r.rate,
                             grspeed := r.gs, trueAirspeed := r.tas,
                             bds50Timestamp := some st.1.timestamp, trackSource := chSub5,
                             trackTimestamp := some st.1.timestamp }, false)
    | none => st
  else st

def stage60 (m : Msg) (relaxed : Bool) (st : Plane × Bool) : Plane × Bool :=
  if st.2 && (relaxed || st.1.cap1.bds60) then
    match isBds60 m with
    | some r => ({ st.1 with heading := r.heading, indicatedAirspeed := r.ias, machRaw := r.mach,
                             vrate := (if r.baroRate.isSome then r.baroRate else r.ivv),
                             vrateSource := (if r.baroRate.isSome then chSub6 else chSup1),
                             headingSource := chSub6,
                             headingTimestamp := some st.1.timestamp }, false)
    | none => st
  else st

def stage44 (m : Msg) (st : Plane × Bool) : Plane × Bool :=
  if st.2 then
    match isBds44 m with
    | some me => ({ st.1 with temperature := me.temp,
                              wind := (if me.wind.isSome then me.wind else st.1.wind),
                              humidity := me.humidity, turbulence := me.turbulence,
                              pressure := me.pressure }, false)
    | none => st
  else st

def stage45 (m : Msg) (st : Plane × Bool) : Plane :=
  if st.2 then
    match isBds45 m with
    | some v => { st.1 with temperature := some v }
    | none => st.1
  else st.1

/-- the two registers recognised by their BDS code -/
def stageCoded (m : Msg) (p : Plane) : Plane × Bool :=
  let bds := bdsCode m
  let p := if bds = (2, 0) then { p with ais := Sq.ais m } else p
  let p := if bds = (3, 0) then { p with threatEncounter := Sq.threatEncounter m } else p
  (p, bds = (0, 0))

/-- `update_from_mode_s` -/
def Plane.updateFromModeS (p : Plane) (m : Msg) (relaxed : Bool) : Plane :=
  stage45 m (stage44 m (stage60 m relaxed (stage50 m relaxed (stage40 m relaxed (stage17 m (stageCoded m p))))))

/-- the Comm-B gate of `Plane::update` -/
def commBGate (p : Plane) (df : Nat) (relaxed : Bool) : Bool :=
  (relaxed || decide (p.cap0 > 3)) && (df = 20 || df = 21)

/-- `Plane::update` -/
def Plane.update (env : Env) (now : Int) (p : Plane) (m : Msg) (df : Nat) (relaxed : Bool) : Plane :=
  let p1 := Plane.updateFromBcast { p with timestamp := now, lastDf := df } m df
  let p2 := if df = 17 ∨ df = 18 then p1.updateFromExt env m df else p1
  if commBGate p2 df relaxed then p2.updateFromModeS m relaxed else p2

/-- `Plane::from_downlink` -/
def Plane.fromDownlink (env : Env) (now : Int) (dl : DFRec) (icao : Nat) : Plane :=
  let p := { Plane.new now with icao := icao, reg := (icaoToCountry icao).2 }
  p.updateFromDownlink env now dl

/-- `Plane::from_message` -/
def Plane.fromMessage (env : Env) (now : Int) (m : Msg) (df icao : Nat) (relaxed : Bool) : Plane :=
  let p := { Plane.new now with icao := icao, reg := (icaoToCountry icao).2 }
  p.update env now m df relaxed

end Sq
