/-
Primitives of the translated bit / CRC / frame layer (`Generated/TransBits.lean`): what the translator
(`extract/rs2lean.py`) maps Rust operations of fixed-width integers and of `char` to.
-/
import SqModel.Model.Bits

namespace Sq

/-- `a << b` on an unsigned integer of `w` bits: bits shifted past the top are dropped (Rust: no trap for `b < w`;
    a shift amount `>= w` traps and is listed in the C01 inventory) -/
def shlW (w a b : Nat) : Nat := (a <<< b) % 2 ^ w

/-- `c.to_digit(16)` -/
def charToDigit16 (c : Char) : Option Nat :=
  let n := c.toNat
  if 48 ≤ n ∧ n ≤ 57 then some (n - 48)
  else if 65 ≤ n ∧ n ≤ 70 then some (n - 55)
  else if 97 ≤ n ∧ n ≤ 102 then some (n - 87)
  else none

end Sq
