/-
Model of `src/decoder/utils/calc.rs`: bit-field extraction from a nibble vector.

A message is the vector of hex digits of the frame (`Vec<u32>` in the code), one
nibble per element, most significant first.  Bit positions are 1-based from the
first transmitted bit, as in the code and in the Mode S documents.

Rust traps that Lean's `Nat` would silently swallow are listed at each site as
`-- TRAP:` comments; `Model/Checked.lean` carries the checked twins.
-/
namespace Sq

abbrev Msg := List Nat

/-- `x as i32` for a `u32` value -/
def u32ToI32 (x : Nat) : Int := if x < 2147483648 then (x : Int) else (x : Int) - 4294967296

/-- `x as u32` for an `i32` value -/
def i32ToU32 (x : Int) : Nat := (x % 4294967296).toNat

/-- `Option<u32>` as a sort key: `None` first (Rust's derived `Ord`) -/
def optNatLe : Option Nat → Option Nat → Bool
  | none, _ => true
  | some _, none => false
  | some a, some b => a ≤ b

/-- `message[i]`.  TRAP: index out of range (the model returns 0; see `Checked`). -/
@[inline] def nib (m : Msg) (i : Nat) : Nat := m.getD i 0

/-- `bit_location`: (index of the nibble, index of the bit inside it, 0 = MSB).
    TRAP: `position - 1` underflows for position 0. -/
def bitLocation (p : Nat) : Nat × Nat := ((p - 1) >>> 2, (p - 1) &&& 3)

/-- the fold of the `_` arm of `range_value` over the nibbles strictly between the
    first and the last one -/
def midFold (init : Nat) (mid : List Nat) : Nat :=
  mid.foldl (fun a x => (a <<< 4) ||| (x &&& 0xF)) init

/-- `range_value(message, sb, eb)` -/
def rangeValue (m : Msg) (sb eb : Nat) : Option Nat :=
  let sby := (bitLocation sb).1
  let sbi := (bitLocation sb).2
  let eby := (bitLocation eb).1
  let ebi := (bitLocation eb).2
  if eby < sby ∨ (eby = sby ∧ ebi < sbi) then none
  else
    some (
      match eby - sby with
      | 0 => (nib m sby &&& (0xF >>> sbi)) >>> (3 - ebi)
      | 1 => ((nib m sby &&& (0xF >>> sbi)) <<< (ebi + 1)) ||| (nib m eby >>> (3 - ebi))
      | _ =>
        (midFold (nib m sby &&& (0xF >>> sbi)) ((m.drop (sby + 1)).take (eby - sby - 1))
            <<< (ebi + 1))
          ||| (nib m eby >>> (3 - ebi)))

/-- the single bit read by `flag_and_range_value` / `status_flag_and_range_value`
    (`0` when the position is given as 0) -/
def flagBit (m : Msg) (flag : Nat) : Nat :=
  if flag = 0 then 0
  else (nib m (bitLocation flag).1 >>> (3 - (bitLocation flag).2)) &&& 1

def flagAndRangeValue (m : Msg) (flag sb eb : Nat) : Option (Nat × Nat) :=
  (rangeValue m sb eb).map fun v => (flagBit m flag, v)

def statusFlagAndRangeValue (m : Msg) (status flag sb eb : Nat) : Option (Nat × Nat × Nat) :=
  (flagAndRangeValue m flag sb eb).map fun fv => (flagBit m status, fv.1, fv.2)

/-- `get_downlink_format` (`src/decoder/downlink.rs`) -/
def getDownlinkFormat (m : Msg) : Option Nat := rangeValue m 1 5

end Sq
