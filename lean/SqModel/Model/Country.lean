/-
Model of `src/decoder/country/country_icao_mask.rs`: the nested `match icao >> shift` over the
arms extracted from the source (`Generated/Country.lean`).
-/
import SqModel.Generated.Country

namespace Sq

/-- first arm of one level whose pattern equals `icao >> shift` -/
def matchLevel (icao : Nat) (shift : Nat) (arms : List (Nat × String)) : Option String :=
  (arms.find? fun a => a.1 == icao >>> shift).map (·.2)

/-- the nested match: the first level (in source order) that has a matching arm decides -/
def nestedMatch (icao : Nat) : List (Nat × List (Nat × String)) → String
  | [] => Gen.countryDefault
  | (shift, arms) :: rest =>
    match matchLevel icao shift arms with
    | some c => c
    | none => nestedMatch icao rest

/-- `icao_to_country(icao).1` (the short code; the long name is never shown) -/
def icaoToCountry (icao : Nat) : String × String := ("", nestedMatch icao Gen.countryLevels)

end Sq
