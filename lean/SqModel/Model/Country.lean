/-
Model of `src/decoder/country/country_icao_mask.rs`: the nested `match icao >> shift` over the
arms extracted from the source (`Generated/Country.lean`).  Short codes are carried as numbers
(base-256 of their ASCII characters) so that statements about them reduce in the kernel.
-/
import SqModel.Generated.Country

namespace Sq

/-- first arm of one level whose pattern equals `icao >> shift` -/
def matchLevel (icao : Nat) (shift : Nat) (arms : List (Nat × Nat)) : Option Nat :=
  (arms.find? fun a => a.1 == icao >>> shift).map (·.2)

/-- the nested match: the first level (in source order) that has a matching arm decides -/
def nestedMatch (icao : Nat) : List (Nat × List (Nat × Nat)) → Nat
  | [] => Gen.countryDefault
  | (shift, arms) :: rest =>
    match matchLevel icao shift arms with
    | some c => c
    | none => nestedMatch icao rest

/-- the characters of a short code -/
def codeString (n : Nat) : String :=
  let rec go (fuel n : Nat) (acc : List Char) : List Char :=
    match fuel with
    | 0 => acc
    | fuel + 1 => if n = 0 then acc else go fuel (n / 256) (Char.ofNat (n % 256) :: acc)
  String.ofList (go 8 n [])

/-- the short code `icao_to_country(icao).1` as a number -/
def countryCode (icao : Nat) : Nat := nestedMatch icao Gen.countryLevels

/-- `icao_to_country(icao)` (the long name is never shown) -/
def icaoToCountry (icao : Nat) : String × String := ("", codeString (countryCode icao))

end Sq
