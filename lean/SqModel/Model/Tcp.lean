/-
Model of `src/reader.rs::connect_and_read_tcp`: the retry loop over an environment trace.

An environment event is what the next connection attempt meets:
* `refuse`                      - the connect fails; the loop sleeps and tries again
* `accept bytes closeKind`      - the connect succeeds, the peer sends `bytes` and then closes
                                  (`eof`) or resets (`reset`) the connection
With `eof` the bytes behind the last newline are delivered as a last line; with `reset` the read
fails and the incomplete tail is dropped (`BufRead::split` discards it); in both cases `read_lines`
returns `Ok`, so no pause follows and the loop connects again at once.
-/
import SqModel.Model.Table
import SqModel.Generated.TcpShape

namespace Sq

inductive CloseKind where
  | eof
  | reset
deriving DecidableEq, Repr

inductive ConnEvent where
  | refuse
  | accept (bytes : List Nat) (close : CloseKind)
deriving DecidableEq, Repr

inductive TcpAction where
  | sleep (secs : Nat)
  | readLines (lines : List (List Nat))
deriving DecidableEq, Repr

/-- the complete lines of a byte stream (those terminated by a newline) -/
def completeLines (bytes : List Nat) : List (List Nat) :=
  if bytes.getLast? = some 10 then splitLines bytes
  else (splitLines bytes).dropLast

/-- the lines one connection delivers to `read_lines` -/
def linesOf (bytes : List Nat) (c : CloseKind) : List (List Nat) :=
  match c with
  | .eof => splitLines bytes
  | .reset => completeLines bytes

/-- one iteration of the loop: the table is carried over, the counters are per connection -/
def tcpStep (env : Env) (cfg : DecodeCfg) (now : Int) (t : Table) (e : ConnEvent) : Table × List TcpAction :=
  match e with
  | .refuse => (t, [.sleep Gen.tcpSleepAfterRefusal])
  | .accept bytes c => ((runSegment env cfg now t (linesOf bytes c)).table, [.readLines (linesOf bytes c)])

/-- the loop over a finite prefix of the environment trace -/
def tcpRun (env : Env) (cfg : DecodeCfg) (now : Int) (t : Table) : List ConnEvent → Table × List TcpAction
  | [] => (t, [])
  | e :: es =>
    let r := tcpStep env cfg now t e
    let rest := tcpRun env cfg now r.1 es
    (rest.1, r.2 ++ rest.2)

end Sq
