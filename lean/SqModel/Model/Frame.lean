/-
Model of `src/decoder/utils/format.rs` (`clean_squitter`), `src/decoder/utils.rs`
(`get_message`, `get_message_type`, `get_capability`) and
`src/decoder/downlink.rs` (`get_downlink_format`).

A line is a list of bytes (`Nat < 256`).  The reader decodes each line lossily
(`String::from_utf8_lossy`); every byte >= 0x80 ends up in a character that is
not an ASCII hex digit, and `char::to_digit(16)` accepts ASCII only, so the digit
sequence of a line is the sequence of its ASCII hex-digit bytes.
-/
import SqModel.Model.Bits
import SqModel.Model.Crc

namespace Sq

/-- `char::to_digit(16)` on the character made of byte `b` -/
def hexVal (b : Nat) : Option Nat :=
  if 48 ≤ b ∧ b ≤ 57 then some (b - 48)
  else if 65 ≤ b ∧ b ≤ 70 then some (b - 55)
  else if 97 ≤ b ∧ b ≤ 102 then some (b - 87)
  else none

/-- `line.chars().filter_map(|c| c.to_digit(16))` -/
def hexDigits (line : List Nat) : Msg := line.filterMap hexVal

/-- `clean_squitter` as a function of the digit sequence -/
def cleanDigits (d : Msg) : Option Msg :=
  if d.length = 14 ∨ d.length = 28 then some d
  else if d.length = 26 ∨ d.length = 40 then some (d.drop 12)
  else none

def cleanSquitter (line : List Nat) : Option Msg := cleanDigits (hexDigits line)

/-- the length/DF gate of `get_message` -/
def lengthMatchesDF (m : Msg) : Bool :=
  match getDownlinkFormat m with
  | some df => if df ≤ 15 then m.length == 14 else m.length == 28
  | none => false

/-- `get_message` as a function of the digit sequence -/
def messageOfDigits (d : Msg) : Option Msg :=
  (((cleanDigits d).filter fun m => m.length == 14 || m.length == 28).filter
      lengthMatchesDF).filter (fun m => reminder m == 0) |>.filter parityOk

/-- `get_message` -/
def getMessage (line : List Nat) : Option Msg := messageOfDigits (hexDigits line)

/-- `get_message_type`: (type code, subtype / category) of an extended squitter -/
def getMessageType (m : Msg) : Nat × Nat :=
  ((nib m 8 <<< 1) ||| (nib m 9 >>> 3), nib m 9 &&& 7)

/-- `get_capability` -/
def getCapability (m : Msg) : Nat := nib m 1 &&& 7

end Sq
