/-
Model of the Comm-B register inference: `src/decoder/bds.rs`, `bds/bds_*.rs`, `ehs/bds_*.rs`, `meteo.rs`.
-/
import SqModel.Model.Fields

namespace Sq

/-- `bds`: the three registers recognised by their BDS code in the first MB byte -/
def bdsCode (m : Msg) : Nat × Nat :=
  if (nib m 8 &&& 0xF) = 1 ∧ (nib m 9 &&& 0xF) = 0 ∧ (nib m 10 &&& 0x7) = 0 ∧ (nib m 11 &&& 0xC) = 0 then (1, 0)
  else if (nib m 8 &&& 0xF) = 2 ∧ (nib m 9 &&& 0xF) = 0 then (2, 0)
  else if (nib m 8 &&& 0xF) = 3 ∧ (nib m 9 &&& 0xF) = 0 then
    match rangeValue m 48 54 with
    | some value => if (nib m 15 &&& 0b1100) ≠ 0b1100 ∧ value < 48 then (3, 0) else (0, 0)
    | none => (0, 0)
  else (0, 0)

/-- `goodflags` -/
def goodflags (m : Msg) (flag sb eb : Nat) : Bool :=
  match flagAndRangeValue m flag sb eb with
  | some (f, r) => if f = 0 then false else r != 0
  | none => false

structure Capability where
  flags : Nat := 0
  bds20 : Bool := false
  bds40 : Bool := false
  bds44 : Bool := false
  bds50 : Bool := false
  bds60 : Bool := false
deriving DecidableEq, Repr

/-- `is_bds_1_7` -/
def isBds17 (m : Msg) : Option Capability :=
  match flagAndRangeValue m 39 61 88 with
  | none => none
  | some (bds20, reserved) =>
    if bds20 ≠ 1 ∨ reserved ≠ 0 then none
    else
      match rangeValue m 33 56 with
      | none => none
      | some c => some { flags := c, bds20 := true, bds40 := (c >>> 15) &&& 1 == 1,
                         bds44 := (c >>> 11) &&& 1 == 1, bds50 := (c >>> 8) &&& 1 == 1,
                         bds60 := c &&& 1 == 1 }

-- ehs/bds_4_0.rs -----------------------------------------------------------------------
def mcpSelectedAltitude (m : Msg) : Option Nat :=
  ((flagAndRangeValue m 33 34 45).filter fun f => f.1 == 1).map fun v => v.2 <<< 4
def fmsSelectedAltitude (m : Msg) : Option Nat :=
  ((flagAndRangeValue m 46 47 58).filter fun f => f.1 == 1).map fun v => v.2 <<< 4
def barometricPressureSetting (m : Msg) : Option Nat :=
  (flagAndRangeValue m 59 60 71).map fun (status, value) =>
    if status = 1 then value / 10 + 800 else value / 10
def targetAltitudeSource (m : Msg) : Option Nat :=
  ((flagAndRangeValue m 86 87 88).filter fun f => f.1 == 1).map fun v => v.2

structure Bds40 where
  mcp : Option Nat
  fms : Option Nat
  baro : Option Nat
  source : Option Nat
deriving DecidableEq, Repr

/-- `is_bds_4_0` -/
def isBds40 (m : Msg) : Option Bds40 :=
  if !goodflags m 33 34 45 || !goodflags m 46 47 58 || !goodflags m 59 60 71
      || goodflags m 33 72 79 || goodflags m 33 84 85 then none
  else
    let i : Bds40 :=
      { mcp := (mcpSelectedAltitude m).filter fun x => x ≤ 65530
        fms := (fmsSelectedAltitude m).filter fun x => x ≤ 65530
        baro := (barometricPressureSetting m).filter fun x => 800 ≤ x ∧ x ≤ 1210
        source := (targetAltitudeSource m).filter fun x => x ≤ 3 }
    if i.mcp.isSome || i.fms.isSome then some i else none

-- ehs/bds_5_0.rs -----------------------------------------------------------------------
def rollAngle50 (m : Msg) : Option Int :=
  ((statusFlagAndRangeValue m 33 34 35 43).filter fun f => f.1 == 1).map fun (_, sign, value) =>
    let v : Int := Int.tdiv ((value : Int) * 45) 256
    if sign = 0 then v else v - 90
def trackAngle50 (m : Msg) : Option Nat :=
  ((statusFlagAndRangeValue m 44 45 46 55).filter fun f => f.1 == 1).map fun (_, sign, value) =>
    let a := (value * 90) >>> 9
    if sign = 0 then a else a + 180
def trackAngleRate50 (m : Msg) : Option Int :=
  ((statusFlagAndRangeValue m 67 68 69 77).filter fun f => f.1 == 1).map fun (_, sign, value) =>
    let a : Int := (((value <<< 3) >>> 8 : Nat) : Int)
    if sign = 0 then a else a - 16
def groundSpeed50 (m : Msg) : Option Nat :=
  ((flagAndRangeValue m 56 57 66).filter fun f => f.1 == 1).map fun v => v.2 <<< 1
def trueAirspeed50 (m : Msg) : Option Nat :=
  ((flagAndRangeValue m 78 79 88).filter fun f => f.1 == 1).map fun v => v.2 <<< 1

structure Bds50 where
  roll : Option Int
  track : Option Nat
  rate : Option Int
  gs : Option Nat
  tas : Option Nat
deriving DecidableEq, Repr

/-- `is_bds_5_0` -/
def isBds50 (m : Msg) : Option Bds50 :=
  if !goodflags m 33 34 43 || !goodflags m 44 45 55 || !goodflags m 56 57 66
      || !goodflags m 67 68 77 || !goodflags m 78 79 88 then none
  else
    let t : Bds50 :=
      { roll := (rollAngle50 m).filter fun x => -50 ≤ x ∧ x ≤ 50
        track := (trackAngle50 m).filter fun x => x ≤ 360
        rate := (trackAngleRate50 m).filter fun x => -16 ≤ x ∧ x ≤ 16
        gs := (groundSpeed50 m).filter fun x => x ≤ 600
        tas := (trueAirspeed50 m).filter fun x => x ≤ 500 }
    match t.gs, t.tas, t.roll, t.track, t.rate with
    | some gs, some tas, some _, some _, some _ =>
      if (if gs ≤ tas then tas - gs else gs - tas) < 200 then some t else none
    | _, _, _, _, _ => none

-- ehs/bds_6_0.rs -----------------------------------------------------------------------
def magneticHeading60 (m : Msg) : Option Nat :=
  ((statusFlagAndRangeValue m 33 34 35 44).filter fun f => f.1 == 1).map fun (_, sign, value) =>
    let h := (value * 90) >>> 9
    if sign = 0 then h else h + 180
def indicatedAirspeed60 (m : Msg) : Option Nat :=
  ((flagAndRangeValue m 45 46 55).filter fun f => f.1 == 1 && f.2 != 0).map fun v => v.2
/-- Mach number in thousandths times four, i.e. the raw field; the value is `raw * 0.004` -/
def machRaw60 (m : Msg) : Option Nat :=
  ((flagAndRangeValue m 56 57 66).filter fun f => f.1 == 1 && f.2 != 0).map fun v => v.2
def barometricAltitudeRate60 (m : Msg) : Option Int :=
  ((statusFlagAndRangeValue m 67 68 69 77).filter fun f => f.1 == 1 && f.2.2 != 0).map
    fun (_, sign, value) =>
      let r : Int := ((value <<< 5 : Nat) : Int)
      if sign = 0 then r else r - 16384
def internalVerticalVelocity60 (m : Msg) : Option Int :=
  ((statusFlagAndRangeValue m 78 79 80 88).filter fun f => f.1 == 1 && f.2.2 != 0).map
    fun (_, sign, value) =>
      let r : Int := ((value <<< 5 : Nat) : Int)
      if sign = 0 then r else r - 16384

structure Bds60 where
  heading : Option Nat
  ias : Option Nat
  mach : Option Nat      -- raw field; shown value = raw * 0.004
  baroRate : Option Int
  ivv : Option Int
deriving DecidableEq, Repr

/-- `is_bds_6_0` (`mach <= 1.0` is `raw <= 250`, DESIGN 5.10) -/
def isBds60 (m : Msg) : Option Bds60 :=
  if goodflags m 33 34 44 && goodflags m 45 46 55 && goodflags m 56 57 66
      && goodflags m 67 68 77 && goodflags m 78 79 88 then
    let b : Bds60 :=
      { heading := magneticHeading60 m, ias := indicatedAirspeed60 m, mach := machRaw60 m,
        baroRate := barometricAltitudeRate60 m, ivv := internalVerticalVelocity60 m }
    let okRate : Option Int → Bool := fun r =>
      match r with
      | some x => decide (-6000 ≤ x ∧ x ≤ 6000)
      | none => true
    if (match b.heading with | some x => decide (x ≤ 360) | none => false)
        && (match b.ias with | some x => decide (x ≤ 1023) | none => false)
        && (match b.mach with | some x => decide (x ≤ 250) | none => false)
        && okRate b.baroRate && okRate b.ivv then some b else none
  else none

-- meteo.rs, bds_4_4.rs, bds_4_5.rs ------------------------------------------------------
/-- temperatures are in quarter degrees (exact: the code multiplies an integer by 0.25) -/
def temperature44 (m : Msg) : Option Int :=
  (flagAndRangeValue m 56 57 66).map fun (sign, value) =>
    if sign = 0 then (value : Int) else -(value : Int)
def windSpeed44 (m : Msg) : Option Nat :=
  ((flagAndRangeValue m 37 38 46).filter fun f => f.1 == 1).map fun v => v.2
def windDirection44 (m : Msg) : Option Nat :=
  ((flagAndRangeValue m 37 47 55).filter fun f => f.1 == 1).map fun v => (v.2 * 180) >>> 8
def wind44 (m : Msg) : Option (Nat × Nat) :=
  match windSpeed44 m with
  | some s => (windDirection44 m).map fun d => (s, d)
  | none => none
def turbulence44 (m : Msg) : Option Nat :=
  ((flagAndRangeValue m 79 80 81).filter fun f => f.1 == 1).map fun v => v.2
def humidity44 (m : Msg) : Option Nat :=
  ((flagAndRangeValue m 82 83 88).filter fun f => f.1 == 1).map fun v => (v.2 * 100) >>> 6
def pressure44 (m : Msg) : Option Nat :=
  ((flagAndRangeValue m 67 68 78).filter fun f => f.1 == 1).map fun v => v.2
def temperature45 (m : Msg) : Option Int :=
  ((statusFlagAndRangeValue m 48 49 50 58).filter fun f => f.1 == 1).map fun (_, sign, value) =>
    if sign = 1 then -(value : Int) else (value : Int)

structure Meteo where
  temp : Option Int          -- quarter degrees
  wind : Option (Nat × Nat)
  humidity : Option Nat
  turbulence : Option Nat
  pressure : Option Nat
deriving DecidableEq, Repr

/-- `is_bds_4_4` -/
def isBds44 (m : Msg) : Option Meteo :=
  match rangeValue m 33 36 with
  | none => none
  | some fom =>
    if fom > 0b1000 && goodflags m 37 38 55 && goodflags m 37 57 66 && goodflags m 67 68 78
        && goodflags m 79 80 81 && goodflags m 82 83 88 then
      let me : Meteo :=
        { temp := (temperature44 m).filter fun x => -320 ≤ x ∧ x ≤ 240
          wind := (wind44 m).filter fun x => x.1 ≤ 300
          humidity := (humidity44 m).filter fun x => x ≤ 100
          turbulence := (turbulence44 m).filter fun x => x ≤ 15
          pressure := (pressure44 m).filter fun x => x ≤ 2048 }
      if me.temp.isSome && me.humidity.isSome && me.turbulence.isSome && me.pressure.isSome
      then some me else none
    else none

/-- `is_bds_4_5`: temperature in quarter degrees -/
def isBds45 (m : Msg) : Option Int :=
  if goodflags m 33 34 35 && goodflags m 36 37 38 && goodflags m 39 40 41 && goodflags m 42 43 44
      && goodflags m 45 46 47 && goodflags m 48 49 58 && goodflags m 59 60 60
      && goodflags m 71 72 83 && !goodflags m 33 84 88 then
    (temperature45 m).filter fun t => t ≤ 180
  else none

end Sq
