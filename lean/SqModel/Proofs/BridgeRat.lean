/-
Bridge, second part: translated functions that compute in `f64` (translated to exact rationals) against the
model's integer representations (Mach number as the raw field, temperatures in quarter degrees).
-/
import SqModel.Proofs.Bridge
import Mathlib.Data.Rat.Floor
import Mathlib.Tactic.Linarith
import Mathlib.Tactic.NormNum
import Mathlib.Tactic.Positivity

namespace Sq.Bridge
open Sq Spec

theorem ground_movement_eq (m : Msg) : T.ground_movement m = groundMovement m := by
  unfold T.ground_movement groundMovement
  cases rangeValue m 38 44 with
  | none => rfl
  | some v =>
    simp only
    have c1 : ((v : Rat) = 1) ↔ v = 1 := by exact_mod_cast Iff.rfl
    have c2 : ((v : Rat) = 124) ↔ v = 124 := by exact_mod_cast Iff.rfl
    have l (k : Nat) : ((k : Rat) ≤ (v : Rat)) ↔ k ≤ v := by exact_mod_cast Iff.rfl
    have u (k : Nat) : ((v : Rat) ≤ (k : Rat)) ↔ v ≤ k := by exact_mod_cast Iff.rfl
    have := l 2; have := l 9; have := l 13; have := l 39; have := l 94; have := l 109
    have := u 8; have := u 12; have := u 38; have := u 93; have := u 108; have := u 123
    simp_all

/-- the Mach number the code holds (`raw * 0.004`) from the model's raw field -/
def machOfRaw (r : Nat) : Rat := (r : Rat) * (1 / 250 : Rat)
/-- a temperature in degrees from the model's quarter degrees -/
def degOfQuarter (q : Int) : Rat := (q : Rat) * (1 / 4 : Rat)

theorem mach_number_6_0_eq (m : Msg) : T.mach_number_6_0 m = (machRaw60 m).map machOfRaw := by
  unfold T.mach_number_6_0 machRaw60
  cases Option.filter (fun f => f.1 == 1 && f.2 != 0) (flagAndRangeValue m 56 57 66) <;> simp [machOfRaw]

theorem temperature_4_4_eq (m : Msg) (L : Long m) : T.temperature_4_4 m = (temperature44 m).map degOfQuarter := by
  unfold T.temperature_4_4 temperature44 T.temp_4_4
  rw [far m L 56 57 66 (by omega) (by omega) (by omega) (by omega) (by omega)]
  have hb : field m 57 66 < 2 ^ (66 + 1 - 57) := field_lt m 57 66
  have h2 : field m 57 66 < 2147483648 := by omega
  simp only [Option.map_some, u32ToI32_of_lt h2, degOfQuarter]
  by_cases h : field m 56 56 = 0 <;> simp [h]

theorem temperature_4_5_eq (m : Msg) : T.temperature_4_5 m = (temperature45 m).map degOfQuarter := by
  unfold T.temperature_4_5 temperature45 T.temp_4_5
  cases Option.filter (fun f => f.1 == 1) (statusFlagAndRangeValue m 48 49 50 58) with
  | none => simp
  | some v =>
    obtain ⟨a, b, c⟩ := v
    by_cases h : b = 1 <;> simp [h, degOfQuarter]

theorem is_bds_4_5_eq (m : Msg) : T.is_bds_4_5 m = (isBds45 m).map degOfQuarter := by
  unfold T.is_bds_4_5 isBds45
  simp only [goodflags_eq, temperature_4_5_eq]
  have key : ((temperature45 m).map degOfQuarter).filter (fun temp => decide (temp ≤ (45 : Rat)))
      = ((temperature45 m).filter fun t => t ≤ 180).map degOfQuarter := by
    cases temperature45 m with
    | none => rfl
    | some q =>
      have : (degOfQuarter q ≤ 45) ↔ q ≤ 180 := by
        unfold degOfQuarter
        constructor
        · intro h
          have : (q : Rat) ≤ 180 := by linarith
          exact_mod_cast this
        · intro h
          have : (q : Rat) ≤ 180 := by exact_mod_cast h
          linarith
      by_cases hq : q ≤ 180 <;> simp [Option.filter, this, hq]
  rw [key]
  split <;> rename_i h
  · rw [if_pos]
    simpa [and_assoc] using h
  · rw [if_neg]
    · rfl
    simpa [and_assoc] using h

def bds60ToT (b : Bds60) : T.HeadingAndSpeed :=
  { magnetic_heading := b.heading, indicated_airspeed := b.ias, mach_number := b.mach.map machOfRaw,
    barometric_altitude_rate := b.baroRate, internal_vertical_velocity := b.ivv }

def meteoToT (me : Meteo) : T.Meteo :=
  { temp := me.temp.map degOfQuarter, wind := me.wind, humidity := me.humidity, turbulence := me.turbulence,
    pressure := me.pressure }

theorem mach_le_one (r : Nat) : ((0 : Rat) ≤ machOfRaw r ∧ machOfRaw r ≤ 1) ↔ r ≤ 250 := by
  unfold machOfRaw
  have h0 : (0 : Rat) ≤ (r : Rat) := by positivity
  constructor
  · rintro ⟨_, h⟩
    have : (r : Rat) ≤ 250 := by linarith
    exact_mod_cast this
  · intro h
    have : (r : Rat) ≤ 250 := by exact_mod_cast h
    constructor <;> linarith

theorem deg_range (q : Int) : ((-80 : Rat) ≤ degOfQuarter q ∧ degOfQuarter q ≤ 60) ↔ (-320 ≤ q ∧ q ≤ 240) := by
  unfold degOfQuarter
  constructor
  · rintro ⟨h1, h2⟩
    have a : (-320 : Rat) ≤ (q : Rat) := by linarith
    have b : (q : Rat) ≤ 240 := by linarith
    exact ⟨by exact_mod_cast a, by exact_mod_cast b⟩
  · rintro ⟨h1, h2⟩
    have a : (-320 : Rat) ≤ (q : Rat) := by exact_mod_cast h1
    have b : (q : Rat) ≤ 240 := by exact_mod_cast h2
    constructor <;> linarith

theorem is_bds_6_0_eq (m : Msg) (L : Long m) : T.is_bds_6_0 m = (isBds60 m).map bds60ToT := by
  unfold T.is_bds_6_0 isBds60 T.HeadingAndSpeed.from_data
  simp only [goodflags_eq, magnetic_heading_6_0_eq, indicated_airspeed_6_0_eq, mach_number_6_0_eq,
    barometric_altitude_rate_6_0_eq m L, internal_vertical_velocity_6_0_eq m L]
  generalize magneticHeading60 m = h
  generalize indicatedAirspeed60 m = i
  generalize machRaw60 m = r
  generalize barometricAltitudeRate60 m = b
  generalize internalVerticalVelocity60 m = v
  generalize goodflags m 33 34 44 = g1
  generalize goodflags m 45 46 55 = g2
  generalize goodflags m 56 57 66 = g3
  generalize goodflags m 67 68 77 = g4
  generalize goodflags m 78 79 88 = g5
  cases g1 <;> cases g2 <;> cases g3 <;> cases g4 <;> cases g5 <;> simp
  cases h <;> cases i <;> cases r <;> simp [bds60ToT]
  rename_i hh ii rr
  have := mach_le_one rr
  cases b <;> cases v <;> simp_all <;> split <;> simp_all

theorem is_bds_4_4_eq (m : Msg) (L : Long m) : T.is_bds_4_4 m = (isBds44 m).map meteoToT := by
  unfold T.is_bds_4_4 isBds44 T.Meteo.from_data
  simp only [goodflags_eq, temperature_4_4_eq m L, wind_4_4_eq, humidity_4_4_eq, turbulence_4_4_eq, pressure_4_4_eq]
  cases rangeValue m 33 36 with
  | none => rfl
  | some fom =>
    simp only
    have key : ((temperature44 m).map degOfQuarter).filter (fun x => decide ((-80 : Rat) ≤ x ∧ x ≤ (60 : Rat)))
        = ((temperature44 m).filter fun x => -320 ≤ x ∧ x ≤ 240).map degOfQuarter := by
      cases temperature44 m with
      | none => rfl
      | some q =>
        by_cases hq : (-320 ≤ q ∧ q ≤ 240)
        · have := (deg_range q).mpr hq
          simp [Option.filter, hq, this]
        · have : ¬ ((-80 : Rat) ≤ degOfQuarter q ∧ degOfQuarter q ≤ 60) := fun h => hq ((deg_range q).mp h)
          simp [Option.filter, hq, this]
    rw [key]
    simp only [Nat.zero_le, true_and]
    generalize ((temperature44 m).filter fun x => -320 ≤ x ∧ x ≤ 240) = t
    generalize ((wind44 m).filter fun x => decide (x.1 ≤ 300)) = wi
    generalize ((humidity44 m).filter fun x => decide (x ≤ 100)) = hu
    generalize ((turbulence44 m).filter fun x => decide (x ≤ 15)) = tu
    generalize ((pressure44 m).filter fun x => decide (x ≤ 2048)) = pr
    generalize goodflags m 37 38 55 = g1
    generalize goodflags m 37 57 66 = g2
    generalize goodflags m 67 68 78 = g3
    generalize goodflags m 79 80 81 = g4
    generalize goodflags m 82 83 88 = g5
    by_cases hf : fom > 8 <;> cases g1 <;> cases g2 <;> cases g3 <;> cases g4 <;> cases g5 <;> simp [hf]
    cases t <;> cases hu <;> cases tu <;> cases pr <;> simp [meteoToT]

-- adsb/altitude.rs ------------------------------------------------------------------------------
theorem metric_eq (x : Nat) (hx : x < 2048) : ratToU32 ((x : Rat) * (31 / 100 : Rat)) = metricAlt x := by
  unfold ratToU32 metricAlt
  have h0 : ¬ ((x : Rat) * (31 / 100 : Rat) < 0) := by
    have : (0 : Rat) ≤ (x : Rat) := by positivity
    intro h; linarith
  rw [if_neg h0]
  have e : ((x : Rat) * (31 / 100 : Rat)) = (((x * 31 : Nat) : Int) : Rat) / ((100 : Nat) : Rat) := by
    push_cast; ring
  have f : ((x : Rat) * (31 / 100 : Rat)).floor = ((x * 31 : Nat) : Int) / ((100 : Nat) : Int) := by
    rw [e]; exact Rat.floor_intCast_div_natCast _ _
  rw [f]
  have g : (((x * 31 : Nat) : Int) / ((100 : Nat) : Int)).toNat = x * 31 / 100 := by
    have : (((x * 31 : Nat) : Int) / ((100 : Nat) : Int)) = ((x * 31 / 100 : Nat) : Int) := by
      exact (Int.natCast_ediv _ _).symm
    rw [this]; rfl
  rw [g]
  omega

theorem altitude_value_eq (m : Msg) (code : Option Nat) : T.altitude_value m code = altitudeValue m code := by
  unfold T.altitude_value altitudeValue
  cases code with
  | none => rfl
  | some c =>
    simp only
    by_cases h1 : c &&& 0b10 = 0
    · by_cases h2 : c &&& 1 = 0
      · simp only [h1, h2, if_true]; rfl
      · simp only [h1, h2, if_true, if_false]; rfl
    · simp only [h1, if_false, altMetric]
      congr 1
      apply metric_eq
      have a : ((c >>> 7) <<< 4) &&& 0b11111110000 ≤ 0b11111110000 := Nat.and_le_right
      have b : (c >>> 2) &&& 0b1111 ≤ 0b1111 := Nat.and_le_right
      have := @Nat.or_lt_two_pow (((c >>> 7) <<< 4) &&& 0b11111110000) ((c >>> 2) &&& 0b1111) 11 (by omega) (by omega)
      simpa using this

theorem altitude_eq (m : Msg) (df : Nat) : T.altitude m df = altitude m df := by
  unfold T.altitude altitude
  simp only [altitude_value_eq, me_code_eq, maCodeOpt]

end Sq.Bridge
