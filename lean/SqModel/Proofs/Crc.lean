/-
The CRC registers of `crc.rs` compute the Mode S CRC-24: for every 32-bit (resp. 88-bit) data
block the in-place register division of `crc56` (resp. the three-register `crc112`) equals the
textbook remainder `Spec.crc24` of the same bits.  Route: both sides are GF(2)-linear, and they
agree on the unit vectors (evaluated in the kernel).
-/
import SqModel.Model.Crc
import SqModel.Spec.Crc
import SqModel.Proofs.Bits

namespace Sq
open Spec

-- generic linear algebra over GF(2) ---------------------------------------------------------
theorem xor_pow_lt {x k : Nat} (h1 : 2^k ≤ x) (h2 : x < 2^(k+1)) : x ^^^ 2^k < 2^k := by
  apply Nat.lt_pow_two_of_testBit
  intro i hi
  rw [Nat.testBit_xor]
  rcases Nat.lt_or_eq_of_le hi with hlt | heq
  · have : x < 2^i := Nat.lt_of_lt_of_le h2 (Nat.pow_le_pow_right (by decide) hlt)
    rw [Nat.testBit_lt_two_pow this, Nat.testBit_two_pow_of_ne (by omega)]; rfl
  · subst heq
    have hx : x.testBit k = true := by
      rw [Nat.testBit_eq_decide_div_mod_eq]
      have : x / 2^k = 1 := by
        apply Nat.div_eq_of_lt_le <;> simp [Nat.pow_succ] at * <;> omega
      simp [this]
    rw [hx, Nat.testBit_two_pow_self]; rfl

/-- two GF(2)-linear maps that agree on the unit vectors agree everywhere -/
theorem linear_ext {n m : Nat} (f g : BitVec n → BitVec m)
    (hf : ∀ a b, f (a ^^^ b) = f a ^^^ f b) (hg : ∀ a b, g (a ^^^ b) = g a ^^^ g b)
    (hb : ∀ i, i < n → f (BitVec.twoPow n i) = g (BitVec.twoPow n i)) : ∀ x, f x = g x := by
  have f0 : f 0 = 0 := by have := hf 0 0; simp at this; exact this
  have g0 : g 0 = 0 := by have := hg 0 0; simp at this; exact this
  have key : ∀ k, k ≤ n → ∀ x : BitVec n, x.toNat < 2^k → f x = g x := by
    intro k
    induction k with
    | zero =>
      intro _ x hx
      have : x = 0 := by apply BitVec.eq_of_toNat_eq; simp at hx ⊢; omega
      rw [this, f0, g0]
    | succ k ih =>
      intro hk x hx
      by_cases hlt : x.toNat < 2^k
      · exact ih (by omega) x hlt
      · have hk' : k < n := by omega
        let y := x ^^^ BitVec.twoPow n k
        have hy : y.toNat < 2^k := by
          show (x ^^^ BitVec.twoPow n k).toNat < 2^k
          rw [BitVec.toNat_xor, BitVec.toNat_twoPow_of_lt hk']
          exact xor_pow_lt (by omega) hx
        have hxy : x = y ^^^ BitVec.twoPow n k := by
          show x = x ^^^ BitVec.twoPow n k ^^^ BitVec.twoPow n k
          rw [BitVec.xor_assoc]; simp
        rw [hxy, hf, hg, ih (by omega) y hy, hb k hk']
  intro x
  exact key n (Nat.le_refl n) x x.isLt

-- the specification is linear ---------------------------------------------------------------
theorem specStep_xor (r1 r2 : BitVec 24) (b1 b2 : Bool) :
    specStep (r1 ^^^ r2) (b1 ^^ b2) = specStep r1 b1 ^^^ specStep r2 b2 := by
  have hm : ∀ (r : BitVec 24) (b : Bool),
      ((r.zeroExtend 25 <<< 1) ||| (BitVec.ofBool b).zeroExtend 25).msb = r.msb := by
    intro r b
    simp [BitVec.msb_eq_getLsbD_last, BitVec.getLsbD_shiftLeft, BitVec.getLsbD_or]
  unfold specStep
  simp only [hm, BitVec.msb_xor]
  cases h1 : r1.msb <;> cases h2 : r2.msb <;> cases b1 <;> cases b2 <;>
    (ext i hi; simp [G]; try (by_cases h0 : i = 0 <;> simp [h0] <;> (try (generalize r1[i-1] = x; generalize r2[i-1] = y; generalize (16774153#24)[i] = z; revert x y z; decide))))

theorem foldl_specStep_xor : ∀ (l1 l2 : List Bool), l1.length = l2.length → ∀ r1 r2,
    (List.zipWith Bool.xor l1 l2).foldl specStep (r1 ^^^ r2)
      = l1.foldl specStep r1 ^^^ l2.foldl specStep r2 := by
  intro l1
  induction l1 with
  | nil => intro l2 h r1 r2; cases l2 <;> simp_all
  | cons a l1 ih =>
    intro l2 h r1 r2
    cases l2 with
    | nil => simp at h
    | cons b l2 =>
      simp only [List.zipWith_cons_cons, List.foldl_cons]
      rw [specStep_xor]
      exact ih l2 (by simpa using h) _ _

/-- `syndrome` is linear in the bit list -/
theorem syndrome_xor (l1 l2 : List Bool) (h : l1.length = l2.length) :
    syndrome (List.zipWith Bool.xor l1 l2) = syndrome l1 ^^^ syndrome l2 := by
  have := foldl_specStep_xor l1 l2 h 0 0
  simpa [syndrome] using this

/-- the bits of a bit vector, most significant first -/
def bvBits (x : BitVec n) : List Bool := (List.range n).map (fun i => x.getMsbD i)

theorem bvBits_xor (a b : BitVec n) : bvBits (a ^^^ b) = List.zipWith Bool.xor (bvBits a) (bvBits b) := by
  unfold bvBits
  rw [List.zipWith_map, List.zipWith_self]
  simp

theorem bvBits_length (a : BitVec n) : (bvBits a).length = n := by simp [bvBits]

def specCrc (x : BitVec n) : BitVec 24 := crc24 (bvBits x)

theorem specCrc_xor (a b : BitVec n) : specCrc (a ^^^ b) = specCrc a ^^^ specCrc b := by
  unfold specCrc crc24
  rw [bvBits_xor]
  have hz : List.replicate 24 false = List.zipWith Bool.xor (List.replicate 24 false) (List.replicate 24 false) := by decide
  have hl : (bvBits a).length = (bvBits b).length := by simp [bvBits_length]
  rw [hz, ← List.zipWith_append hl]
  exact syndrome_xor _ _ (by simp [bvBits_length])

-- crc56 -------------------------------------------------------------------------------------
theorem crcStep56_xor (a b : BitVec 32) : crcStep56 (a ^^^ b) = crcStep56 a ^^^ crcStep56 b := by
  unfold crcStep56
  rw [BitVec.msb_xor]
  cases a.msb <;> cases b.msb <;> simp [BitVec.shiftLeft_xor_distrib]
  · ac_rfl
  · ac_rfl
  · rw [show a <<< 1 ^^^ crcPoly <<< 1 ^^^ (b <<< 1 ^^^ crcPoly <<< 1)
          = a <<< 1 ^^^ b <<< 1 ^^^ (crcPoly <<< 1 ^^^ crcPoly <<< 1) by ac_rfl]
    simp

theorem iter_xor {α : Type} (f : α → α) (op : α → α → α) (hf : ∀ a b, f (op a b) = op (f a) (f b))
    (n : Nat) (a b : α) : iter f n (op a b) = op (iter f n a) (iter f n b) := by
  induction n generalizing a b with
  | zero => rfl
  | succ n ih => simp [iter, hf, ih]

/-- `crc56` as a function of the 32-bit data register -/
def crc56Reg (data : BitVec 32) : BitVec 24 := (iter crcStep56 Gen.crc56Rounds data).extractLsb' 8 24

theorem crc56Reg_xor (a b : BitVec 32) : crc56Reg (a ^^^ b) = crc56Reg a ^^^ crc56Reg b := by
  unfold crc56Reg
  rw [iter_xor crcStep56 (· ^^^ ·) crcStep56_xor]
  ext i; simp

theorem crc56Reg_eq_spec (x : BitVec 32) : crc56Reg x = specCrc x := by
  apply linear_ext crc56Reg specCrc crc56Reg_xor specCrc_xor
  decide +kernel

end Sq

namespace Sq
open Spec

-- crc112 ------------------------------------------------------------------------------------
def Crc112State.xor (a b : Crc112State) : Crc112State :=
  { data := a.data ^^^ b.data, data1 := a.data1 ^^^ b.data1, data2 := a.data2 ^^^ b.data2 }

theorem shl_or_one (x : BitVec 32) : (x <<< 1) ||| 1#32 = (x <<< 1) ^^^ 1#32 := by
  ext i hi
  simp
  by_cases h0 : i = 0 <;> simp [h0]

/-- the carry bit fed into the next register, as a vector -/
def carry (c : Bool) : BitVec 32 := if c then 1#32 else 0#32

theorem carry_xor (a b : Bool) : carry (a ^^ b) = carry a ^^^ carry b := by
  cases a <;> cases b <;> simp [carry]

theorem crcStep112_eq (s : Crc112State) :
    crcStep112 s =
      { data := ((if s.data.msb then s.data ^^^ crcPoly else s.data) <<< 1) ^^^ carry s.data1.msb
        data1 := (s.data1 <<< 1) ^^^ carry s.data2.msb
        data2 := s.data2 <<< 1 } := by
  unfold crcStep112 carry
  cases s.data1.msb <;> cases s.data2.msb <;> simp [shl_or_one]

theorem crcStep112_xor (a b : Crc112State) :
    crcStep112 (a.xor b) = (crcStep112 a).xor (crcStep112 b) := by
  simp only [crcStep112_eq, Crc112State.xor, BitVec.msb_xor, carry_xor, BitVec.shiftLeft_xor_distrib]
  congr 1
  · have := crcStep56_xor a.data b.data
    unfold crcStep56 at this
    rw [BitVec.msb_xor] at this
    rw [this]
    ac_rfl
  · ac_rfl

/-- `crc112` as a function of the 88 data bits -/
def crc112Reg (x : BitVec 88) : BitVec 24 :=
  let s0 : Crc112State :=
    { data := x.extractLsb' 56 32, data1 := x.extractLsb' 24 32,
      data2 := (x.extractLsb' 0 24).zeroExtend 32 <<< 8 }
  ((iter crcStep112 Gen.crc112Rounds s0).data).extractLsb' 8 24

theorem crc112Reg_xor (a b : BitVec 88) : crc112Reg (a ^^^ b) = crc112Reg a ^^^ crc112Reg b := by
  unfold crc112Reg
  simp only
  have h0 : ({ data := (a ^^^ b).extractLsb' 56 32, data1 := (a ^^^ b).extractLsb' 24 32,
               data2 := ((a ^^^ b).extractLsb' 0 24).zeroExtend 32 <<< 8 } : Crc112State)
      = Crc112State.xor
          { data := a.extractLsb' 56 32, data1 := a.extractLsb' 24 32,
            data2 := (a.extractLsb' 0 24).zeroExtend 32 <<< 8 }
          { data := b.extractLsb' 56 32, data1 := b.extractLsb' 24 32,
            data2 := (b.extractLsb' 0 24).zeroExtend 32 <<< 8 } := by
    unfold Crc112State.xor
    congr 1 <;> (ext i hi; simp) <;>
      (cases decide (i < 8) <;> cases decide (i - 8 < 24) <;> simp)
  rw [h0, iter_xor crcStep112 Crc112State.xor crcStep112_xor]
  simp only [Crc112State.xor]
  ext i; simp

theorem crc112Reg_eq_spec (x : BitVec 88) : crc112Reg x = specCrc x := by
  apply linear_ext crc112Reg specCrc crc112Reg_xor specCrc_xor
  decide +kernel

end Sq

namespace Sq
open Spec

/-- the bits of the first `n` bits' value are the first `n` bits -/
theorem bvBits_ofNat_field (m : Msg) (n : Nat) (hn : n ≤ 4 * m.length) :
    bvBits (BitVec.ofNat n (field m 1 n)) = bitsOf m 1 n := by
  unfold bvBits bitsOf
  apply List.ext_getElem
  · simp
  · intro i h1 h2
    have hi : i < n := by simpa using h1
    simp only [List.getElem_map, List.getElem_range, List.getElem_range']
    unfold bit
    rw [field_sub m 1 n (1 + 1 * i) (1 + 1 * i) (by omega) (by omega) (by omega) hn]
    rw [BitVec.getMsbD_eq_getLsbD, BitVec.getLsbD_ofNat]
    have hlt : n - 1 - i < n := by omega
    simp only [hi, hlt, decide_true, Bool.true_and]
    have : (1 + 1 * i) + 1 - (1 + 1 * i) = 1 := by omega
    rw [this, Nat.testBit_eq_decide_div_mod_eq]
    have e : n - 1 - i = n - (1 + 1 * i) := by omega
    rw [e]
    simp
    generalize field m 1 n / 2 ^ (n - (1 + i)) % 2 = z
    by_cases hz : z = 1 <;> simp [hz]

theorem crc56_eq_spec (m : Msg) (h : AllNib m) (hl : 8 ≤ m.length) :
    crc56 m = (crc24 (bitsOf m 1 32)).toNat := by
  unfold crc56
  rw [rangeValue_eq_field m h 1 32 (by omega) (by omega) (by omega)]
  simp only [Option.getD_some]
  rw [← bvBits_ofNat_field m 32 (by omega)]
  have := crc56Reg_eq_spec (BitVec.ofNat 32 (field m 1 32))
  unfold specCrc at this
  rw [← this]
  unfold crc56Reg
  generalize iter crcStep56 Gen.crc56Rounds (BitVec.ofNat 32 (field m 1 32)) = v
  simp only [BitVec.toNat_ushiftRight, BitVec.extractLsb'_toNat]
  have := v.isLt
  rw [Nat.shiftRight_eq_div_pow]
  omega

theorem crc112_eq_spec (m : Msg) (h : AllNib m) (hl : 22 ≤ m.length) :
    crc112 m = (crc24 (bitsOf m 1 88)).toNat := by
  unfold crc112
  rw [rangeValue_eq_field m h 1 32 (by omega) (by omega) (by omega),
    rangeValue_eq_field m h 33 64 (by omega) (by omega) (by omega),
    rangeValue_eq_field m h 65 88 (by omega) (by omega) (by omega)]
  simp only [Option.getD_some]
  rw [← bvBits_ofNat_field m 88 (by omega)]
  have := crc112Reg_eq_spec (BitVec.ofNat 88 (field m 1 88))
  unfold specCrc at this
  rw [← this]
  unfold crc112Reg
  have hX := field_lt m 1 88
  have e0 : (BitVec.ofNat 88 (field m 1 88)).extractLsb' 56 32 = BitVec.ofNat 32 (field m 1 32) := by
    apply BitVec.eq_of_toNat_eq
    rw [field_sub m 1 88 1 32 (by omega) (by omega) (by omega) (by omega)]
    simp [Nat.shiftRight_eq_div_pow]
    omega
  have e1 : (BitVec.ofNat 88 (field m 1 88)).extractLsb' 24 32 = BitVec.ofNat 32 (field m 33 64) := by
    apply BitVec.eq_of_toNat_eq
    rw [field_sub m 1 88 33 64 (by omega) (by omega) (by omega) (by omega)]
    simp [Nat.shiftRight_eq_div_pow]
    omega
  have e2 : ((BitVec.ofNat 88 (field m 1 88)).extractLsb' 0 24).zeroExtend 32 <<< 8
      = BitVec.ofNat 32 (field m 65 88 <<< 8) := by
    apply BitVec.eq_of_toNat_eq
    rw [field_sub m 1 88 65 88 (by omega) (by omega) (by omega) (by omega)]
    simp [Nat.shiftLeft_eq]
    try omega
  simp only [e0, e1, e2]
  generalize (iter crcStep112 Gen.crc112Rounds _).data = v
  simp only [BitVec.toNat_ushiftRight, BitVec.extractLsb'_toNat]
  have := v.isLt
  rw [Nat.shiftRight_eq_div_pow]
  omega

end Sq
