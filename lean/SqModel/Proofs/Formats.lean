/-
Per-format "modifies" theorems: for each downlink format / type-code class, the set of row
fields an accepted frame of that class may assign - on both update paths, under every option set.
`eraseX (applyFrame .. p ..) = eraseX p` says: outside X the row is untouched.
-/
import SqModel.Proofs.Frame
import SqModel.Proofs.Downlink

namespace Sq

/-- book-keeping every frame touches: last contact, last DF -/
def eraseStamp (p : Plane) : Plane := { p with timestamp := 0, lastDf := 0 }
/-- DF17 header effects: last type code, CA -/
def eraseHead (p : Plane) : Plane := { eraseStamp p with lastTypeCode := 0, cap0 := 0 }

def eraseAlt (p : Plane) : Plane := { eraseStamp p with altitude := none, altitudeSource := ' ' }
def eraseSquawk (p : Plane) : Plane := { eraseStamp p with squawk := none }
def eraseCap (p : Plane) : Plane := { eraseStamp p with cap0 := 0 }
def eraseIdent (p : Plane) : Plane := { eraseHead p with ais := none, category := (0, 0) }
def eraseSurface (p : Plane) : Plane :=
  erasePos { eraseHead p with groundMovement := none, altitude := none, altitudeSource := ' ', track := none, trackSource := ' ' }
def eraseAirpos (p : Plane) : Plane :=
  erasePos { eraseHead p with altitude := none, altitudeSource := ' ', surveillanceStatus := ' ' }
def eraseVelocity (p : Plane) : Plane :=
  { eraseHead p with vrate := none, vrateSource := ' ', altitudeGnss := none, track := none, grspeed := none,
                     trackSource := ' ', heading := none, headingSource := ' ', altitudeSource := ' ' }
def eraseGnss (p : Plane) : Plane := { eraseHead p with altitudeGnss := none, surveillanceStatus := ' ' }
def eraseVersion (p : Plane) : Plane := { eraseHead p with adsbVersion := none }
def eraseCommB (p : Plane) : Plane := eraseModeS { eraseStamp p with altitude := none, altitudeSource := ' ', squawk := none }

theorem of_erasePos {G : Plane → Plane} (hG : ∀ z, G (erasePos z) = G z) {x y : Plane}
    (h : erasePos x = erasePos y) : G x = G y := by rw [← hG x, h, hG]

theorem of_eraseModeS {G : Plane → Plane} (hG : ∀ z, G (eraseModeS z) = G z) {x y : Plane}
    (h : eraseModeS x = eraseModeS y) : G x = G y := by rw [← hG x, h, hG]

/-- the Comm-B decode is not entered for formats other than DF20/21 -/
theorem gate_closed (q : Plane) (df : Nat) (r : Bool) (h : df ≠ 20 ∧ df ≠ 21) : commBGate q df r = false := by
  unfold commBGate
  have : (df = 20 || df = 21) = false := by simp [h.1, h.2]
  simp [this]

/-- short replies other than DF4/5/11 (and every format the decoder does not know): nothing but the book-keeping -/
theorem modifies_short_other (env : Env) (cfg : DecodeCfg) (now : Int) (p : Plane) (m : Msg) (df : Nat) (dl : DFRec)
    (hdf : getDownlinkFormat m = some df) (hdl : DFRec.fromMessage env m = some dl)
    (h : df ≤ 16 ∨ df = 19 ∨ 22 ≤ df) (h4 : df ≠ 4) (h5 : df ≠ 5) (h11 : df ≠ 11) :
    eraseStamp (applyFrame env cfg now p dl m df) = eraseStamp p := by
  unfold applyFrame
  split
  · have hsrt : ∃ v : Srt, dl = .srt v ∧ (v.df = some df ∨ v.df = none) ∧ v.altitude = none ∧ v.squawk = none ∧ v.capability = none := by
      unfold DFRec.fromMessage at hdl
      rw [hdf] at hdl
      simp only at hdl
      split at hdl
      · rw [srt_fromMessage_other m df hdf h4 h5 h11] at hdl
        simp only [Option.some.injEq] at hdl
        exact ⟨_, hdl.symm, Or.inl rfl, rfl, rfl, rfl⟩
      · have h17 : ¬ df = 17 := by omega
        have h2021 : ¬ (df = 20 ∨ df = 21) := by omega
        simp only [h17, h2021, if_false] at hdl
        simp only [Option.some.injEq] at hdl
        exact ⟨_, hdl.symm, Or.inr rfl, rfl, rfl, rfl⟩
    obtain ⟨v, rfl, hv, ha, hs, hc⟩ := hsrt
    simp only [Plane.updateFromDownlink, Plane.amendSrt, ha, hs, hc]
    split <;> simp [eraseStamp]
  · have hne : ¬ (df = 17 ∨ df = 18) := by omega
    have hb1 : ¬ (df = 4 ∨ df = 20) := by omega
    have hb2 : ¬ (df = 5 ∨ df = 21) := by omega
    have hb3 : ¬ (df = 11 ∨ df = 17) := by omega
    simp only [Plane.update, hne, if_false, gate_closed _ df _ (by omega), Plane.updateFromBcast, hb1, hb2, hb3]
    rfl

/-- DF4: altitude (and its source mark) only -/
theorem modifies_df4 (env : Env) (cfg : DecodeCfg) (now : Int) (p : Plane) (m : Msg)
    (hdf : getDownlinkFormat m = some 4) :
    eraseAlt (applyFrame env cfg now p (.srt (Srt.fromMessage m)) m 4) = eraseAlt p := by
  unfold applyFrame
  split
  · rw [srt_fromMessage_4 m hdf]
    simp only [Plane.updateFromDownlink, Plane.amendSrt]
    split <;> simp [eraseAlt, eraseStamp]
  · simp [Plane.update, gate_closed, Plane.updateFromBcast, eraseAlt, eraseStamp]

/-- DF5: squawk only -/
theorem modifies_df5 (env : Env) (cfg : DecodeCfg) (now : Int) (p : Plane) (m : Msg)
    (hdf : getDownlinkFormat m = some 5) :
    eraseSquawk (applyFrame env cfg now p (.srt (Srt.fromMessage m)) m 5) = eraseSquawk p := by
  unfold applyFrame
  split
  · rw [srt_fromMessage_5 m hdf]
    simp only [Plane.updateFromDownlink, Plane.amendSrt]
    split <;> simp [eraseSquawk, eraseStamp]
  · simp [Plane.update, gate_closed, Plane.updateFromBcast, eraseSquawk, eraseStamp]

/-- DF11: capability only -/
theorem modifies_df11 (env : Env) (cfg : DecodeCfg) (now : Int) (p : Plane) (m : Msg)
    (hdf : getDownlinkFormat m = some 11) :
    eraseCap (applyFrame env cfg now p (.srt (Srt.fromMessage m)) m 11) = eraseCap p := by
  unfold applyFrame
  split
  · rw [srt_fromMessage_11 m hdf]
    simp only [Plane.updateFromDownlink, Plane.amendSrt]
    split <;> simp [eraseCap, eraseStamp]
  · simp [Plane.update, gate_closed, Plane.updateFromBcast, eraseCap, eraseStamp]

/-- shape of both paths for an extended squitter -/
theorem applyFrame_df17 (env : Env) (cfg : DecodeCfg) (now : Int) (p : Plane) (m : Msg) :
    applyFrame env cfg now p (.ext (Ext.fromMessage env m)) m 17
      = if 17 < 20 ∧ !cfg.useUpdate then Plane.amendExt env { p with timestamp := now } (Ext.fromMessage env m)
        else Plane.updateExtTc env
              { p with timestamp := now, lastDf := 17, cap0 := getCapability m, lastTypeCode := (getMessageType m).1 }
              m 17 (getMessageType m).1 (getMessageType m).2 := by
  unfold applyFrame
  split
  · rfl
  · simp [Plane.update, gate_closed, Plane.updateFromBcast, Plane.updateFromExt]

/-- DF17 TC 1-4: callsign and category -/
theorem modifies_tc_1_4 (env : Env) (cfg : DecodeCfg) (now : Int) (p : Plane) (m : Msg)
    (hdf : getDownlinkFormat m = some 17) (htc : 1 ≤ (getMessageType m).1 ∧ (getMessageType m).1 ≤ 4) :
    eraseIdent (applyFrame env cfg now p (.ext (Ext.fromMessage env m)) m 17) = eraseIdent p := by
  rw [applyFrame_df17]
  split
  · rw [ext_tc_1_4 env m hdf htc]
    by_cases hi : (getIcao m 17).isSome = true
    · simp only [Plane.amendExt, extHead, hi, if_true]
      simp only [Plane.amendExtTc, htc, and_self, if_true, Plane.amendExt14]; rfl
    · simp only [Plane.amendExt, extHead, hi]
      rfl
  · simp only [Plane.updateExtTc, htc, and_self, if_true, Plane.updateExt14]; rfl

/-- DF17 TC 5-8 (surface position) -/
theorem modifies_tc_5_8 (env : Env) (cfg : DecodeCfg) (now : Int) (p : Plane) (m : Msg)
    (hdf : getDownlinkFormat m = some 17) (htc : 5 ≤ (getMessageType m).1 ∧ (getMessageType m).1 ≤ 8) :
    eraseSurface (applyFrame env cfg now p (.ext (Ext.fromMessage env m)) m 17) = eraseSurface p := by
  have h14 : ¬ (1 ≤ (getMessageType m).1 ∧ (getMessageType m).1 ≤ 4) := by omega
  have hG : ∀ z, eraseSurface (erasePos z) = eraseSurface z := fun _ => rfl
  rw [applyFrame_df17]
  split
  · rw [ext_tc_5_8 env m hdf htc]
    by_cases hi : (getIcao m 17).isSome = true
    · simp only [Plane.amendExt, extHead, hi, if_true]
      simp only [Plane.amendExtTc, h14, htc, and_self, if_true, if_false, Plane.amendExt58]
      rw [of_erasePos hG (erasePos_storeCpr env _ _ _)]; rfl
    · simp only [Plane.amendExt, extHead, hi]
      rfl
  · simp only [Plane.updateExtTc, h14, htc, and_self, if_true, if_false, Plane.updateExt58]
    rw [of_erasePos hG (erasePos_storeCpr env _ _ _)]; rfl

/-- DF17 TC 9-18 (airborne position) -/
theorem modifies_tc_9_18 (env : Env) (cfg : DecodeCfg) (now : Int) (p : Plane) (m : Msg)
    (hdf : getDownlinkFormat m = some 17) (htc : 9 ≤ (getMessageType m).1 ∧ (getMessageType m).1 ≤ 18) :
    eraseAirpos (applyFrame env cfg now p (.ext (Ext.fromMessage env m)) m 17) = eraseAirpos p := by
  have h14 : ¬ (1 ≤ (getMessageType m).1 ∧ (getMessageType m).1 ≤ 4) := by omega
  have h58 : ¬ (5 ≤ (getMessageType m).1 ∧ (getMessageType m).1 ≤ 8) := by omega
  have hG : ∀ z, eraseAirpos (erasePos z) = eraseAirpos z := fun _ => rfl
  rw [applyFrame_df17]
  split
  · rw [ext_tc_9_18 env m hdf htc]
    by_cases hi : (getIcao m 17).isSome = true
    · simp only [Plane.amendExt, extHead, hi, if_true]
      simp only [Plane.amendExtTc, h14, h58, htc, and_self, if_true, if_false, Plane.amendExt918]
      rw [of_erasePos hG (erasePos_storeCpr env _ _ _)]; rfl
    · simp only [Plane.amendExt, extHead, hi]
      rfl
  · simp only [Plane.updateExtTc, h14, h58, htc, and_self, if_true, if_false, Plane.updateExt918]
    rw [of_erasePos hG (erasePos_storeCpr env _ _ _)]; rfl

/-- DF17 TC 19 (velocity) -/
theorem modifies_tc_19 (env : Env) (cfg : DecodeCfg) (now : Int) (p : Plane) (m : Msg)
    (hdf : getDownlinkFormat m = some 17) (htc : (getMessageType m).1 = 19) :
    eraseVelocity (applyFrame env cfg now p (.ext (Ext.fromMessage env m)) m 17) = eraseVelocity p := by
  rw [applyFrame_df17]
  split
  · rw [ext_tc_19 env m hdf htc]
    by_cases hi : (getIcao m 17).isSome = true
    · simp only [Plane.amendExt, extHead, hi, if_true]
      simp only [Plane.amendExtTc, htc, Plane.amendExt19]; simp [eraseVelocity, eraseHead, eraseStamp]
    · simp only [Plane.amendExt, extHead, hi]
      rfl
  · simp only [Plane.updateExtTc, htc, Plane.updateExt19]; simp [eraseVelocity, eraseHead, eraseStamp]

/-- DF17 TC 20-22 (GNSS height position) -/
theorem modifies_tc_20_22 (env : Env) (cfg : DecodeCfg) (now : Int) (p : Plane) (m : Msg)
    (hdf : getDownlinkFormat m = some 17) (htc : 20 ≤ (getMessageType m).1 ∧ (getMessageType m).1 ≤ 22) :
    eraseGnss (applyFrame env cfg now p (.ext (Ext.fromMessage env m)) m 17) = eraseGnss p := by
  have h14 : ¬ (1 ≤ (getMessageType m).1 ∧ (getMessageType m).1 ≤ 4) := by omega
  have h58 : ¬ (5 ≤ (getMessageType m).1 ∧ (getMessageType m).1 ≤ 8) := by omega
  have h918 : ¬ (9 ≤ (getMessageType m).1 ∧ (getMessageType m).1 ≤ 18) := by omega
  have h19 : ¬ (getMessageType m).1 = 19 := by omega
  rw [applyFrame_df17]
  split
  · rw [ext_tc_20_22 env m hdf htc]
    by_cases hi : (getIcao m 17).isSome = true
    · simp only [Plane.amendExt, extHead, hi, if_true]
      simp only [Plane.amendExtTc, h14, h58, h918, h19, htc, and_self, if_true, if_false, Plane.amendExt2022]; rfl
    · simp only [Plane.amendExt, extHead, hi]
      rfl
  · simp only [Plane.updateExtTc, h14, h58, h918, h19, htc, and_self, if_true, if_false, Plane.updateExt2022]; rfl

/-- DF17 TC 31 (operational status) -/
theorem modifies_tc_31 (env : Env) (cfg : DecodeCfg) (now : Int) (p : Plane) (m : Msg)
    (hdf : getDownlinkFormat m = some 17) (htc : (getMessageType m).1 = 31) :
    eraseVersion (applyFrame env cfg now p (.ext (Ext.fromMessage env m)) m 17) = eraseVersion p := by
  rw [applyFrame_df17]
  split
  · rw [ext_tc_31 env m hdf htc]
    by_cases hi : (getIcao m 17).isSome = true
    · simp only [Plane.amendExt, extHead, hi, if_true]
      simp only [Plane.amendExtTc, htc, Plane.amendExt31]; simp [eraseVersion, eraseHead, eraseStamp]
    · simp only [Plane.amendExt, extHead, hi]
      rfl
  · simp only [Plane.updateExtTc, htc, Plane.updateExt31]; simp [eraseVersion, eraseHead, eraseStamp]

/-- DF17 with any other type code (0, 23-30): header book-keeping only -/
theorem modifies_tc_other (env : Env) (cfg : DecodeCfg) (now : Int) (p : Plane) (m : Msg)
    (hdf : getDownlinkFormat m = some 17)
    (htc : (getMessageType m).1 = 0 ∨ (23 ≤ (getMessageType m).1 ∧ (getMessageType m).1 ≠ 31)) :
    eraseHead (applyFrame env cfg now p (.ext (Ext.fromMessage env m)) m 17) = eraseHead p := by
  have h14 : ¬ (1 ≤ (getMessageType m).1 ∧ (getMessageType m).1 ≤ 4) := by omega
  have h58 : ¬ (5 ≤ (getMessageType m).1 ∧ (getMessageType m).1 ≤ 8) := by omega
  have h918 : ¬ (9 ≤ (getMessageType m).1 ∧ (getMessageType m).1 ≤ 18) := by omega
  have h19 : ¬ (getMessageType m).1 = 19 := by omega
  have h2022 : ¬ (20 ≤ (getMessageType m).1 ∧ (getMessageType m).1 ≤ 22) := by omega
  have h31 : ¬ (getMessageType m).1 = 31 := by omega
  rw [applyFrame_df17]
  split
  · rw [ext_tc_other env m hdf htc]
    by_cases hi : (getIcao m 17).isSome = true
    · simp only [Plane.amendExt, extHead, hi, if_true]
      simp only [Plane.amendExtTc, h14, h58, h918, h19, h2022, h31, if_false]; rfl
    · simp only [Plane.amendExt, extHead, hi]
      rfl
  · simp only [Plane.updateExtTc, h14, h58, h918, h19, h2022, h31, if_false]; rfl

/-- DF20/DF21: altitude resp. squawk, and the Comm-B fields -/
theorem modifies_df20_21 (env : Env) (cfg : DecodeCfg) (now : Int) (p : Plane) (m : Msg) (df : Nat) (dl : DFRec)
    (h : df = 20 ∨ df = 21) :
    eraseCommB (applyFrame env cfg now p dl m df) = eraseCommB p := by
  have hG : ∀ z, eraseCommB (eraseModeS z) = eraseCommB z := fun _ => rfl
  have hne : ¬ (df = 17 ∨ df = 18) := by omega
  have hlt : ¬ (df < 20 ∧ (!cfg.useUpdate) = true) := by omega
  unfold applyFrame
  rw [if_neg hlt]
  simp only [Plane.update, hne, if_false]
  have hb : eraseCommB (Plane.updateFromBcast { p with timestamp := now, lastDf := df } m df) = eraseCommB p := by
    rcases h with rfl | rfl <;> rfl
  split
  · rw [of_eraseModeS hG (eraseModeS_updateFromModeS _ m cfg.relaxed)]; exact hb
  · exact hb

end Sq
