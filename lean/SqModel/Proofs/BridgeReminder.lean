/-
`reminder` (crc.rs) as the translator regenerates it (`T.reminder`, nested loops over a `Vec<u8>`): it returns 0 for every
vector of at least six digits, exactly as the hand-written model does (`Proofs/Reminder.lean`) - the loop stops four bytes
before the three bytes that are returned, and those were initialised to zero.  So the third filter of `get_message` lets every
vector of 14 / 28 digits through, in the code as in the model.
-/
import SqModel.Generated.TransBits
import SqModel.Proofs.Reminder

namespace Sq.Bridge
open Sq

theorem final_zero (N : Nat) (bs : List Nat) (h : TailZero N bs) (hN : 3 ≤ N) :
    ((shlW 32 (nib bs (bs.length - 3)) 16) ||| (shlW 32 (nib bs (bs.length - 2)) 8)) ||| (nib bs (bs.length - 1)) = 0 := by
  unfold nib
  rw [h.1, h.2 _ (by omega), h.2 _ (by omega), h.2 _ (by omega)]
  rfl

theorem init_tail (m : Msg) (f : Nat → Nat) (hl : 6 ≤ m.length) :
    TailZero m.length ((m.take (m.length - 6)).map f ++ List.replicate 6 0) := by
  refine ⟨by simp; omega, ?_⟩
  intro t ht
  rw [List.getD_eq_getElem?_getD]
  by_cases hlt : t < m.length
  · rw [List.getElem?_append_right (by simp; omega)]
    simp
    have : t - (m.length - 6) = 3 ∨ t - (m.length - 6) = 4 ∨ t - (m.length - 6) = 5 := by omega
    rcases this with e | e | e <;> rw [e] <;> rfl
  · rw [List.getElem?_eq_none (by simp; omega)]; rfl

/-- four stores below the last three bytes keep them zero -/
theorem set4_tail (N i : Nat) (hi : i + 6 < N) (bs : List Nat) (a b c d : Nat) (h : TailZero N bs) :
    TailZero N ((((bs.set i a).set (i + 1) b).set (i + 2) c).set (i + 3) d) := by
  refine ⟨by simp [h.1], ?_⟩
  intro t ht
  rw [getD_set_ne _ _ _ _ (by omega), getD_set_ne _ _ _ _ (by omega), getD_set_ne _ _ _ _ (by omega),
    getD_set_ne _ _ _ _ (by omega)]
  exact h.2 t ht

theorem T_reminder_zero (m : Msg) (hl : 6 ≤ m.length) : T.reminder m = 0 := by
  unfold T.reminder
  simp only [Nat.sub_zero, List.drop_zero, Nat.zero_add]
  refine final_zero m.length _ ?_ (by omega)
  have h0 := init_tail m (fun x => (x &&& 0b1111) % 256) hl
  apply foldl_tail (TailZero m.length) _ _ _ _ h0
  intro bs i hi hbs
  have hi' : i + 6 < m.length := by
    have := List.mem_range.mp hi
    rw [h0.1] at this; omega
  apply foldl_tail (TailZero m.length) _ _ _ _ hbs
  intro bs j _ hbs
  split
  · exact set4_tail _ _ hi' _ _ _ _ _ hbs
  · exact hbs

end Sq.Bridge
