/-
Fields of a frame in terms of its digits, and the digit-level facts about the decoders.
-/
import SqModel.Proofs.Bits
import SqModel.Proofs.Decide
import SqModel.Model.Fields
import SqModel.Spec.Squawk

namespace Sq
open Spec

/-- bits 20..32 (the AC / ID field of DF4/5/20/21) through digits 4..7 -/
theorem field_20_32 (m : Msg) (h : AllNib m) (hl : 8 ≤ m.length) :
    field m 20 32 = (nib m 4 % 2) * 4096 + nib m 5 * 256 + nib m 6 * 16 + nib m 7 := by
  rw [field_via_take m h 20 32 (by omega) (by omega)]
  simp only [show (32 - 1) / 4 + 1 = 8 by decide, show 3 - (32 - 1) % 4 = 0 by decide,
    show 32 + 1 - 20 = 13 by decide]
  rw [natOf_take_succ m 7 (by omega), natOf_take_succ m 6 (by omega), natOf_take_succ m 5 (by omega),
    natOf_take_succ m 4 (by omega)]
  have := nib_lt m h 4; have := nib_lt m h 5; have := nib_lt m h 6; have := nib_lt m h 7
  generalize natOf (m.take 4) = T
  simp
  omega

/-- `ma_code` reads digits 4..7 only -/
def ma4 (a4 a5 a6 a7 : Nat) : Nat := maCode [0, 0, 0, 0, a4, a5, a6, a7]

theorem maCode_eq_ma4 (m : Msg) : maCode m = ma4 (nib m 4) (nib m 5) (nib m 6) (nib m 7) := by
  simp [maCode, ma4, Gen.maBitPositions, Gen.maTopShift, nib, List.zipIdx]

theorem ma4_low (a4 a5 a6 a7 : Nat) : ma4 a4 a5 a6 a7 = ma4 (a4 % 2) a5 a6 a7 := by
  simp [ma4, maCode, Gen.maBitPositions, Gen.maTopShift, nib, List.zipIdx, Nat.and_one_is_mod]

/-- the whole 13-bit field, enumerated in the kernel -/
theorem squawk_table : allLt (fun c =>
    squawkOfCode (ma4 (c / 4096) (c / 256 % 16) (c / 16 % 16) (c % 16)) == squawkSpec c) 0 13 = true := by
  decide +kernel

theorem squawkOfCode_ma4 (b n5 n6 n7 : Nat) (hb : b < 2) (h5 : n5 < 16) (h6 : n6 < 16) (h7 : n7 < 16) :
    squawkOfCode (ma4 b n5 n6 n7) = squawkSpec (b * 4096 + n5 * 256 + n6 * 16 + n7) := by
  have := allLt_zero _ 13 squawk_table (b * 4096 + n5 * 256 + n6 * 16 + n7) (by simp; omega)
  simp only [beq_iff_eq] at this
  rw [← this]
  congr <;> omega

end Sq
