import Mathlib.Algebra.Order.Floor.Ring
import Mathlib.Data.Rat.Floor
import Mathlib.Tactic.Ring
import Mathlib.Tactic.Linarith
import Mathlib.Tactic.FieldSimp
import Mathlib.Tactic.Positivity
import Mathlib.Tactic.LinearCombination
import SqModel.Spec.Cpr

/-
Exact-rational arithmetic of the CPR decoder against the CPR encoder (C08).  The only file of the
project (with Props/C08Math.lean) that imports Mathlib modules; nothing the driver links imports it.
-/
namespace Sq.CprMath
open Sq Sq.Spec

theorem ratFloor_eq (x : ℚ) : x.floor = ⌊x⌋ := rfl

theorem floorHalf_eq (x : ℚ) : floorHalf x = ⌊x + 1/2⌋ := rfl

theorem floor_add_half_eq (n : ℤ) (t : ℚ) (h : |t| < 1/2) : ⌊(n:ℚ) + t + 1/2⌋ = n := by
  rw [Int.floor_eq_iff]
  rw [abs_lt] at h
  constructor <;> linarith [h.1, h.2]

/-- what an encoded field says about the coordinate -/
theorem enc_repr (d x : ℚ) (_hd : 0 < d) :
    ∃ z : ℤ, ∃ e : ℚ, |e| ≤ 1 / 262144 ∧ (z : ℚ) + (cprEnc d x : ℚ) / 131072 = x / d + e
      ∧ encoded d x = d * ((z : ℚ) + (cprEnc d x : ℚ) / 131072) := by
  set q := x / d with hq
  set z := ⌊q⌋ with hz
  have hf0 : 0 ≤ q - z := by have := Int.floor_le q; linarith
  have hf1 : q - z < 1 := by have := Int.lt_floor_add_one q; linarith
  set R : ℤ := encRaw d x with hR
  have hRdef : R = ⌊131072 * (q - (z : ℚ)) + 1/2⌋ := rfl
  have hRle : (R : ℚ) ≤ 131072 * (q - z) + 1/2 := by rw [hRdef]; exact Int.floor_le _
  have hRgt : 131072 * (q - z) + 1/2 < (R : ℚ) + 1 := by rw [hRdef]; exact Int.lt_floor_add_one _
  have hR0 : 0 ≤ R := by
    rw [hRdef]; apply Int.floor_nonneg.mpr; nlinarith
  have hRn : R ≤ 131072 := by
    have : (R : ℚ) < 131072 + 1 := by nlinarith
    have : (R : ℚ) < ((131072 + 1 : ℤ) : ℚ) := by push_cast; linarith
    have := Int.cast_lt.mp this
    omega
  have henc : encoded d x = d * ((z : ℚ) + (R : ℚ) / 131072) := rfl
  by_cases hlt : R < 131072
  · have hE : ((cprEnc d x : ℕ) : ℚ) = (R : ℚ) := by
      have : (cprEnc d x : ℤ) = R := by
        unfold cprEnc; rw [← hR]; omega
      rw [← this]; simp
    refine ⟨z, (R : ℚ) / 131072 - (q - z), ?_, ?_, ?_⟩
    · rw [abs_le]; constructor <;> linarith
    · rw [hE]; ring
    · rw [henc, hE]
  · have hReq : R = 131072 := by omega
    have hE : ((cprEnc d x : ℕ) : ℚ) = 0 := by
      have : cprEnc d x = 0 := by unfold cprEnc; rw [← hR, hReq]; rfl
      rw [this]; simp
    have hRq : (R : ℚ) = 131072 := by rw [hReq]; norm_num
    refine ⟨z + 1, 1 - (q - z), ?_, ?_, ?_⟩
    · rw [abs_le]; rw [hRq] at hRle hRgt; constructor <;> linarith
    · rw [hE]; push_cast; ring
    · rw [henc, hE, hRq]; push_cast; ring



/-- core index lemma: zones N (even) and N-1 (odd); `a`,`b` are the CPR fractions E/2^17. -/
theorem index_eq (N : ℤ) (u0 u1 : ℚ) (z0 z1 : ℤ) (a b e0 e1 : ℚ)
    (ha : (z0:ℚ) + a = u0 + e0) (hb : (z1:ℚ) + b = u1 + e1)
    (hsmall : |((N:ℚ) - 1) * u0 - N * u1 + (((N:ℚ) - 1) * e0 - N * e1)| < 1/2) :
    ⌊((N:ℚ) - 1) * a - N * b + 1/2⌋ = N * z1 - (N - 1) * z0 := by
  have : ((N:ℚ) - 1) * a - N * b + 1/2
      = ((N * z1 - (N - 1) * z0 : ℤ) : ℚ) + (((N:ℚ) - 1) * u0 - N * u1 + (((N:ℚ) - 1) * e0 - N * e1)) + 1/2 := by
    have ha' : a = u0 + e0 - z0 := by linarith
    have hb' : b = u1 + e1 - z1 := by linarith
    rw [ha', hb']; push_cast; ring
  rw [this]
  exact floor_add_half_eq _ _ hsmall

/-- `fixed_lat` undoes a shift by a whole turn for latitudes strictly inside (-90, 90) -/
theorem fixedLat_shift (phi : ℚ) (k : ℤ) (h1 : -90 < phi) (h2 : phi < 90) (hk : -1 ≤ k ∧ k ≤ 1) :
    fixedLat (phi + 360 * (k : ℚ)) = phi := by
  have hk' : k = -1 ∨ k = 0 ∨ k = 1 := by omega
  unfold fixedLat
  rcases hk' with h | h | h <;> subst h <;> push_cast
  · rw [if_neg (by linarith), if_pos (by linarith)]; ring
  · rw [if_neg (by linarith), if_neg (by linarith)]; ring
  · rw [if_pos (by linarith)]; ring

/-- Rust's `%` (truncated remainder) agrees with the zone index up to one whole turn -/
theorem tmod_shift (j z n : ℤ) (hn : 0 < n) (hz : -n < z ∧ z < n) (hj : (j - z) % n = 0) :
    ∃ k : ℤ, -1 ≤ k ∧ k ≤ 1 ∧ Int.tmod j n = z + n * k := by
  have h1 : Int.tmod j n < n := Int.tmod_lt_of_pos j hn
  have h2 : -n < Int.tmod j n := by
    have := Int.tmod_def j n
    rcases Int.le_total 0 j with hj0 | hj0
    · have := Int.tmod_nonneg n hj0; omega
    · have h3 : Int.tmod (-j) n < n := Int.tmod_lt_of_pos (-j) hn
      rw [Int.neg_tmod] at h3; omega
  have h3 : (Int.tmod j n - z) % n = 0 := by
    have : Int.tmod j n - z = (j - z) - n * j.tdiv n := by rw [Int.tmod_def]; ring
    rw [this, Int.sub_mul_emod_self_left]; exact hj
  obtain ⟨k, hk⟩ := Int.dvd_of_emod_eq_zero h3
  refine ⟨k, ?_, ?_, by linarith⟩
  · by_contra hc
    have : k ≤ -2 := by omega
    nlinarith
  · by_contra hc
    have : 2 ≤ k := by omega
    nlinarith



theorem dlat0 : dlat 0 = 6 := by unfold dlat; norm_num
theorem dlat1 : dlat 1 = 360 / 59 := by unfold dlat; norm_num

/-- **Latitude.**  For two true latitudes at most 1/20 degree (5.5 km) apart, both within 89 degrees of
    the equator, the two candidate latitudes the decoder computes from the even encoding of the first
    and the odd encoding of the second are exactly the latitudes those two frames encode. -/
theorem lat_decode (lat0 lat1 : ℚ) (h0 : |lat0| ≤ 89) (h1 : |lat1| ≤ 89) (hclose : |lat0 - lat1| ≤ 1 / 20) :
    cprRlat (encLat 0 lat0) (encLat 1 lat1) = (encoded (dlat 0) lat0, encoded (dlat 1) lat1) := by
  obtain ⟨z0, e0, he0, hr0, hE0⟩ := enc_repr 6 lat0 (by norm_num)
  obtain ⟨z1, e1, he1, hr1, hE1⟩ := enc_repr (360 / 59) lat1 (by norm_num)
  rw [abs_le] at h0 h1 hclose he0 he1
  unfold encLat
  rw [dlat0, dlat1]
  set A : ℕ := cprEnc 6 lat0 with hA
  set B : ℕ := cprEnc (360 / 59) lat1 with hB
  have hj : floorHalf ((59 * (A : ℚ) - 60 * (B : ℚ)) / 131072) = 60 * z1 - 59 * z0 := by
    rw [floorHalf_eq]
    have := index_eq 60 (lat0 / 6) (lat1 / (360 / 59)) z0 z1 ((A : ℚ) / 131072) ((B : ℚ) / 131072) e0 e1 hr0 hr1
      (by rw [abs_lt]; push_cast; constructor <;> linarith [h0.1, h0.2, h1.1, h1.2, hclose.1, hclose.2, he0.1, he0.2, he1.1, he1.2])
    have e : (59 * (A : ℚ) - 60 * (B : ℚ)) / 131072 + 1 / 2
        = (((60 : ℤ) : ℚ) - 1) * ((A : ℚ) / 131072) - ((60 : ℤ) : ℚ) * ((B : ℚ) / 131072) + 1 / 2 := by push_cast; ring
    rw [e, this]; ring
  have hA0 : 0 ≤ (A : ℚ) / 131072 := by positivity
  have hB0 : 0 ≤ (B : ℚ) / 131072 := by positivity
  have hA1 : (A : ℚ) / 131072 < 1 := by
    have : A < 131072 := by
      rw [hA]; unfold cprEnc; omega
    rw [div_lt_one (by norm_num)]; exact_mod_cast this
  have hB1 : (B : ℚ) / 131072 < 1 := by
    have : B < 131072 := by
      rw [hB]; unfold cprEnc; omega
    rw [div_lt_one (by norm_num)]; exact_mod_cast this
  -- zone indices are small
  have hz0 : -60 < z0 ∧ z0 < 60 := by
    have a1 : (z0 : ℚ) < 60 := by linarith [h0.2]
    have a2 : (-60 : ℚ) < z0 := by linarith [h0.1]
    exact ⟨by exact_mod_cast a2, by exact_mod_cast a1⟩
  have hz1 : -59 < z1 ∧ z1 < 59 := by
    have a1 : (z1 : ℚ) < 59 := by
      have : lat1 / (360 / 59) ≤ 89 * 59 / 360 := by rw [div_le_iff₀ (by norm_num)]; linarith [h1.2]
      linarith
    have a2 : (-59 : ℚ) < z1 := by
      have : -(89 * 59 / 360) ≤ lat1 / (360 / 59) := by rw [le_div_iff₀ (by norm_num)]; linarith [h1.1]
      linarith
    exact ⟨by exact_mod_cast a2, by exact_mod_cast a1⟩
  obtain ⟨k0, hk0a, hk0b, hk0⟩ := tmod_shift (60 * z1 - 59 * z0) z0 60 (by norm_num) hz0 (by omega)
  obtain ⟨k1, hk1a, hk1b, hk1⟩ := tmod_shift (60 * z1 - 59 * z0) z1 59 (by norm_num) hz1 (by omega)
  unfold cprRlat
  simp only [hj, fmodInt, hk0, hk1]
  rw [hE0, hE1]
  have p0 : (6 : ℚ) * (((z0 + 60 * k0 : ℤ) : ℚ) + (A : ℚ) / 131072) = 6 * ((z0 : ℚ) + (A : ℚ) / 131072) + 360 * (k0 : ℚ) := by
    push_cast; ring
  have p1 : (360 : ℚ) / 59 * (((z1 + 59 * k1 : ℤ) : ℚ) + (B : ℚ) / 131072) = 360 / 59 * ((z1 : ℚ) + (B : ℚ) / 131072) + 360 * (k1 : ℚ) := by
    push_cast; ring
  rw [p0, p1]
  rw [fixedLat_shift _ k0 (by rw [hr0]; linarith [h0.1, he0.1]) (by rw [hr0]; linarith [h0.2, he0.2]) ⟨hk0a, hk0b⟩]
  rw [fixedLat_shift _ k1 (by rw [hr1]; rw [mul_add, mul_div_cancel₀ _ (by norm_num : (360 : ℚ) / 59 ≠ 0)]; linarith [h1.1, he1.1])
        (by rw [hr1]; rw [mul_add, mul_div_cancel₀ _ (by norm_num : (360 : ℚ) / 59 ≠ 0)]; linarith [h1.2, he1.2]) ⟨hk1a, hk1b⟩]



theorem pmod_spec (m n : ℤ) (hn : 0 < n) : 0 ≤ pmod m n ∧ pmod m n < n ∧ (pmod m n - m) % n = 0 := by
  unfold pmod
  have h1 : Int.tmod m n < n := Int.tmod_lt_of_pos m hn
  have hd := Int.tmod_def m n
  have hcong : (Int.tmod m n - m) % n = 0 := by
    have : Int.tmod m n - m = n * (-(m.tdiv n)) := by rw [hd]; ring
    rw [this]; exact Int.mul_emod_right _ _
  have h2 : -n < Int.tmod m n := by
    rcases Int.le_total 0 m with hj0 | hj0
    · have := Int.tmod_nonneg n hj0; omega
    · have h3 : Int.tmod (-m) n < n := Int.tmod_lt_of_pos (-m) hn
      rw [Int.neg_tmod] at h3; omega
  simp only
  split
  · refine ⟨by omega, by omega, ?_⟩
    have : Int.tmod m n + n - m = (Int.tmod m n - m) + n := by ring
    rw [this, Int.add_emod_right]; exact hcong
  · exact ⟨by omega, h1, hcong⟩

theorem signedLon_spec (x : ℚ) (h0 : 0 ≤ x) (h1 : x < 360) :
    ∃ k : ℤ, signedLon x = x + 360 * (k : ℚ) ∧ -180 ≤ signedLon x ∧ signedLon x ≤ 180 := by
  unfold signedLon
  by_cases h : 180 ≤ x
  · rw [if_pos h]; exact ⟨-1, by push_cast; ring, by linarith, by linarith⟩
  · rw [if_neg h, if_neg (by linarith)]; exact ⟨0, by push_cast; ring, by linarith, by linarith⟩

theorem nlOf_range (x : ℚ) : 1 ≤ nlOf x ∧ nlOf x ≤ 59 := by
  unfold nlOf
  simp only
  split
  · rename_i b hb
    have hm := List.mem_of_find?_eq_some hb
    have : ∀ c ∈ Gen.nlBoundaries, 1 ≤ c.2 ∧ c.2 ≤ 59 := by decide
    have := this b hm
    omega
  · decide

theorem cprEnc_lt (d x : ℚ) : ((cprEnc d x : ℕ) : ℚ) / 131072 < 1 ∧ 0 ≤ ((cprEnc d x : ℕ) : ℚ) / 131072 := by
  have : cprEnc d x < 131072 := by unfold cprEnc; omega
  refine ⟨?_, by positivity⟩
  rw [div_lt_one (by norm_num)]; exact_mod_cast this

/-- **Longitude.**  With `nl` longitude zones at this latitude (even frames) and `nl - 1` (odd frames),
    two true longitudes close enough for the zone-index difference to be unambiguous decode, for
    either anchor, to the longitude the anchoring frame encodes, up to whole turns, and inside
    [-180, 180].  Longitudes are arbitrary rationals: the antimeridian needs no special case. -/
theorem lon_decode (nl : ℤ) (hnl : 1 ≤ nl ∧ nl ≤ 59) (lon0 lon1 : ℚ) (form : ℕ) (hform : form = 0 ∨ form = 1)
    (hclose : |lon0 - lon1| * ((nl : ℚ) * (nl - 1)) / 360 + (2 * (nl : ℚ) - 1) / 262144 < 1 / 2) :
    let X0 := cprEnc (dlon nl 0) lon0
    let X1 := cprEnc (dlon nl 1) lon1
    let ni : ℤ := max (nl - (form : ℤ)) 1
    let lngt : ℕ := if form = 1 then X1 else X0
    let mm : ℤ := floorHalf (((X0 : ℚ) * ((nl - 1 : ℤ) : ℚ) - (X1 : ℚ) * (nl : ℚ)) / 131072)
    let lon : ℚ := 360 / (ni : ℚ) * ((pmod mm ni : ℤ) + (lngt : ℚ) / 131072)
    ∃ k : ℤ, signedLon lon = encoded (dlon nl form) (if form = 1 then lon1 else lon0) + 360 * (k : ℚ)
      ∧ -180 ≤ signedLon lon ∧ signedLon lon ≤ 180 := by
  intro X0 X1 ni lngt mm lon
  have hni : 1 ≤ ni := le_max_right _ _
  have hniq : (0 : ℚ) < (ni : ℚ) := by exact_mod_cast (by omega : 0 < ni)
  obtain ⟨p0, p1, pc⟩ := pmod_spec mm ni (by omega)
  have hl1 : ((lngt : ℕ) : ℚ) / 131072 < 1 ∧ 0 ≤ ((lngt : ℕ) : ℚ) / 131072 := by
    by_cases hf1 : form = 1
    · have : lngt = X1 := if_pos hf1
      rw [this]; exact cprEnc_lt _ _
    · have : lngt = X0 := if_neg hf1
      rw [this]; exact cprEnc_lt _ _
  have hlon0 : 0 ≤ lon := by
    apply mul_nonneg (by positivity)
    have : (0 : ℚ) ≤ ((pmod mm ni : ℤ) : ℚ) := by exact_mod_cast p0
    linarith [hl1.2]
  have hlon1 : lon < 360 := by
    have : ((pmod mm ni : ℤ) : ℚ) ≤ (ni : ℚ) - 1 := by exact_mod_cast (by omega : pmod mm ni ≤ ni - 1)
    have h : ((pmod mm ni : ℤ) : ℚ) + (lngt : ℚ) / 131072 < ni := by linarith [hl1.1]
    calc lon = 360 / (ni : ℚ) * ((pmod mm ni : ℤ) + (lngt : ℚ) / 131072) := rfl
      _ < 360 / (ni : ℚ) * ni := by apply mul_lt_mul_of_pos_left h (by positivity)
      _ = 360 := by field_simp
  obtain ⟨ks, hks, hr1, hr2⟩ := signedLon_spec lon hlon0 hlon1
  -- it remains to identify lon with the encoded longitude modulo 360
  suffices h : ∃ k : ℤ, lon = encoded (dlon nl form) (if form = 1 then lon1 else lon0) + 360 * (k : ℚ) by
    obtain ⟨k, hk⟩ := h
    exact ⟨k + ks, by rw [hks, hk]; push_cast; ring, hr1, hr2⟩
  by_cases h1 : nl = 1
  · -- a single zone: the index plays no role
    have hni1 : ni = 1 := by
      show max (nl - (form : ℤ)) 1 = 1
      rcases hform with h | h <;> subst h <;> subst h1 <;> decide
    have hd : dlon nl form = 360 := by
      unfold dlon
      rcases hform with h | h <;> subst h <;> subst h1 <;> norm_num
    have hp : pmod mm ni = 0 := by omega
    obtain ⟨z, e, he, hr, hE⟩ := enc_repr 360 (if form = 1 then lon1 else lon0) (by norm_num)
    have hX : (lngt : ℚ) = (cprEnc 360 (if form = 1 then lon1 else lon0) : ℚ) := by
      show ((if form = 1 then X1 else X0 : ℕ) : ℚ) = _
      rcases hform with h | h <;> subst h
      · simp only [X0]; rw [← hd]; simp
      · simp only [X1]; rw [← hd]; simp
    refine ⟨-z, ?_⟩
    show 360 / (ni : ℚ) * ((pmod mm ni : ℤ) + (lngt : ℚ) / 131072) = _
    rw [hd, hE, hp, hni1, hX]; push_cast; ring
  · have hnl2 : 2 ≤ nl := by omega
    have hd0 : dlon nl 0 = 360 / (nl : ℚ) := by
      unfold dlon; rw [max_eq_left (by push_cast; omega)]; push_cast; ring
    have hd1 : dlon nl 1 = 360 / ((nl : ℚ) - 1) := by
      unfold dlon; rw [max_eq_left (by push_cast; omega)]; push_cast; ring
    have hnq : (2 : ℚ) ≤ (nl : ℚ) := by exact_mod_cast hnl2
    have hnq59 : (nl : ℚ) ≤ 59 := by exact_mod_cast hnl.2
    obtain ⟨z0, e0, he0, hr0, hE0⟩ := enc_repr (dlon nl 0) lon0 (by rw [hd0]; positivity)
    obtain ⟨z1, e1, he1, hr1', hE1⟩ := enc_repr (dlon nl 1) lon1 (by rw [hd1]; apply div_pos (by norm_num); linarith)
    rw [abs_le] at he0 he1
    have hmm : mm = nl * z1 - (nl - 1) * z0 := by
      show floorHalf (((X0 : ℚ) * ((nl - 1 : ℤ) : ℚ) - (X1 : ℚ) * (nl : ℚ)) / 131072) = _
      rw [floorHalf_eq]
      have hu0 : lon0 / dlon nl 0 = lon0 * nl / 360 := by rw [hd0]; field_simp
      have hu1 : lon1 / dlon nl 1 = lon1 * (nl - 1) / 360 := by
        rw [hd1]; have : (nl : ℚ) - 1 ≠ 0 := by linarith
        field_simp
      have := index_eq nl (lon0 * nl / 360) (lon1 * (nl - 1) / 360) z0 z1 ((X0 : ℚ) / 131072) ((X1 : ℚ) / 131072) e0 e1
        (by rw [← hu0]; exact hr0) (by rw [← hu1]; exact hr1')
        (by
          have hx : ((nl : ℚ) - 1) * (lon0 * nl / 360) - nl * (lon1 * (nl - 1) / 360) = (lon0 - lon1) * ((nl : ℚ) * (nl - 1)) / 360 := by ring
          rw [hx]
          have hpos : (0 : ℚ) ≤ (nl : ℚ) * (nl - 1) := by nlinarith
          have habs : |(lon0 - lon1) * ((nl : ℚ) * (nl - 1)) / 360| = |lon0 - lon1| * ((nl : ℚ) * (nl - 1)) / 360 := by
            rw [abs_div, abs_mul, abs_of_nonneg hpos]; norm_num
          have herr : |((nl : ℚ) - 1) * e0 - nl * e1| ≤ (2 * (nl : ℚ) - 1) / 262144 := by
            rw [abs_le]; constructor <;> nlinarith [he0.1, he0.2, he1.1, he1.2]
          calc |(lon0 - lon1) * ((nl : ℚ) * (nl - 1)) / 360 + (((nl : ℚ) - 1) * e0 - nl * e1)|
              ≤ |(lon0 - lon1) * ((nl : ℚ) * (nl - 1)) / 360| + |((nl : ℚ) - 1) * e0 - nl * e1| := abs_add_le _ _
            _ < 1 / 2 := by rw [habs]; linarith)
      have e : ((X0 : ℚ) * ((nl - 1 : ℤ) : ℚ) - (X1 : ℚ) * (nl : ℚ)) / 131072 + 1 / 2
          = ((nl : ℚ) - 1) * ((X0 : ℚ) / 131072) - (nl : ℚ) * ((X1 : ℚ) / 131072) + 1 / 2 := by push_cast; ring
      rw [e, this]
    rcases hform with hf | hf <;> subst hf
    · -- anchored on the even frame
      have hni' : ni = nl := by show max (nl - ((0 : ℕ) : ℤ)) 1 = nl; push_cast; omega
      have hc : (pmod mm ni - z0) % nl = 0 := by
        have : pmod mm ni - z0 = (pmod mm ni - mm) + nl * (z1 - z0) := by rw [hmm]; ring
        rw [this, Int.add_mul_emod_self_left, ← hni']; exact pc
      obtain ⟨k, hk⟩ := Int.dvd_of_emod_eq_zero hc
      refine ⟨k, ?_⟩
      show 360 / (ni : ℚ) * ((pmod mm ni : ℤ) + ((if (0 : ℕ) = 1 then X1 else X0 : ℕ) : ℚ) / 131072) = _
      have hp : pmod mm ni = z0 + nl * k := by linarith
      simp only [show ¬ ((0 : ℕ) = 1) by decide, if_false]
      have hD : dlon nl 0 * (nl : ℚ) = 360 := by
        rw [hd0]; have : (nl : ℚ) ≠ 0 := by linarith
        field_simp
      have hq : (360 : ℚ) / ((nl : ℤ) : ℚ) = dlon nl 0 := by rw [hd0]
      rw [hE0, hp, hni', hq]; push_cast
      linear_combination (k : ℚ) * hD
    · -- anchored on the odd frame
      have hni' : ni = nl - 1 := by show max (nl - ((1 : ℕ) : ℤ)) 1 = nl - 1; push_cast; omega
      have hc : (pmod mm ni - z1) % (nl - 1) = 0 := by
        have : pmod mm ni - z1 = (pmod mm ni - mm) + (nl - 1) * (z1 - z0) := by rw [hmm]; ring
        rw [this, Int.add_mul_emod_self_left, ← hni']; exact pc
      obtain ⟨k, hk⟩ := Int.dvd_of_emod_eq_zero hc
      refine ⟨k, ?_⟩
      show 360 / (ni : ℚ) * ((pmod mm ni : ℤ) + ((if (1 : ℕ) = 1 then X1 else X0 : ℕ) : ℚ) / 131072) = _
      have hp : pmod mm ni = z1 + (nl - 1) * k := by linarith
      simp only [if_true]
      have hD : dlon nl 1 * ((nl : ℚ) - 1) = 360 := by
        rw [hd1]; have : (nl : ℚ) - 1 ≠ 0 := by linarith
        field_simp
      have hq : (360 : ℚ) / ((nl - 1 : ℤ) : ℚ) = dlon nl 1 := by rw [hd1]; push_cast; rfl
      rw [hE1, hp, hni', hq]; push_cast
      linear_combination (k : ℚ) * hD

end Sq.CprMath
