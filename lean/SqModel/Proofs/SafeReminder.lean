/-
Trap-freedom of the translated `reminder` (crc.rs): every index of its nested loops over the byte vector is inside the
vector, for every vector of 6 .. 2^32-4 digits.  The obligations (`Generated/TransSafe.lean`) speak about the state each
iteration really starts in (the fold of the iterations before it); the invariant is that the loops never change the length.
-/
import SqModel.Generated.TransSafe
import SqModel.Proofs.Reminder

namespace Sq.Safe
open Sq

theorem foldl_len {α : Type} (f : List Nat → α → List Nat) (l : List α) (hf : ∀ bs a, (f bs a).length = bs.length)
    (init : List Nat) : (l.foldl f init).length = init.length := by
  induction l generalizing init with
  | nil => rfl
  | cons a l ih => simp only [List.foldl_cons]; rw [ih, hf]

theorem reminder_safe (m : Msg) (h6 : 6 ≤ m.length) (hN : m.length < 4294967296 - 4) : T.reminder.safe m := by
  unfold T.reminder.safe
  simp only [Nat.sub_zero, List.drop_zero, Nat.zero_add]
  and_intros
  all_goals first
    | omega
    | (simp; omega)
    | (intros; omega)
    | (intros; simp; done)
    | skip
  all_goals first
    | (intro i_k hi j_k hj
       have hi' : i_k + 6 < m.length := by simp at hi; omega
       generalize hX : List.foldl _ _ (List.range i_k) = X
       have hXl : X.length = m.length := by
         rw [← hX, foldl_len]
         · simp; omega
         · intro bs a; rw [foldl_len]; intro bs b; split <;> simp
       generalize hY : List.foldl _ X (List.range j_k) = Y
       have hYl : Y.length = m.length := by
         rw [← hY, foldl_len, hXl]; intro bs b; split <;> simp
       intros
       try simp only [List.length_set]
       omega)
    | (generalize hZ : List.foldl _ _ (List.range _) = Z
       have hZl : Z.length = m.length := by
         rw [← hZ, foldl_len]
         · simp; omega
         · intro bs a; rw [foldl_len]; intro bs b; split <;> simp
       omega)

end Sq.Safe
