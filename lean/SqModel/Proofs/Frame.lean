/-
"Modifies" theorems for the row-update functions: outside an explicit set of fields, the row a
function returns is the row it was given.  `eraseX p` overwrites exactly the fields function
group X may assign; `eraseX (f p) = eraseX p` then says f touches nothing else, and any
projection outside the set follows by `rfl`.
-/
import SqModel.Model.Table

namespace Sq

/-- fields an extended squitter may assign (either path) -/
def eraseExt (p : Plane) : Plane :=
  { p with lastTypeCode := 0, cap0 := 0, ais := none, category := (0, 0), groundMovement := none,
           altitude := none, altitudeSource := ' ', track := none, trackSource := ' ',
           cprLat0 := 0, cprLat1 := 0, cprLon0 := 0, cprLon1 := 0, cprTime0 := 0, cprTime1 := 0, cprSurf0 := false, cprSurf1 := false,
           lat := 0, lon := 0, distance := none, positionTimestamp := none,
           surveillanceStatus := ' ', vrate := none, vrateSource := ' ', altitudeGnss := none,
           grspeed := none, heading := none, headingSource := ' ', adsbVersion := none }

/-- fields a Comm-B reply may assign through its MB field -/
def eraseModeS (p : Plane) : Plane :=
  { p with ais := none, threatEncounter := none, cap1 := {}, selectedAltitude := none,
           targetAltitudeSource := ' ', barometricPressureSetting := none, rollAngle := none,
           track := none, trackAngleRate := none, grspeed := none, trueAirspeed := none,
           bds50Timestamp := none, trackSource := ' ', trackTimestamp := none, heading := none,
           indicatedAirspeed := none, machRaw := none, vrate := none, vrateSource := ' ',
           headingSource := ' ', headingTimestamp := none, temperature := none, wind := none,
           humidity := none, turbulence := none, pressure := none }

/-- fields the position decoder may assign -/
def erasePos (p : Plane) : Plane :=
  { p with cprLat0 := 0, cprLat1 := 0, cprLon0 := 0, cprLon1 := 0, cprTime0 := 0, cprTime1 := 0, cprSurf0 := false, cprSurf1 := false,
           lat := 0, lon := 0, distance := none, positionTimestamp := none }

theorem erasePos_updatePosition (env : Env) (p : Plane) (a b : Nat) :
    erasePos (p.updatePosition env a b) = erasePos p := by
  unfold Plane.updatePosition; split <;> rfl

theorem erasePos_storeCpr (env : Env) (p : Plane) (tc : Nat) (c : Option (Nat × Nat × Nat)) :
    erasePos (p.storeCpr env tc c) = erasePos p := by
  unfold Plane.storeCpr; split
  · rw [erasePos_updatePosition]; rfl
  · rfl

theorem eraseExt_erasePos (p : Plane) : eraseExt (erasePos p) = eraseExt p := rfl
theorem eraseExt_of_erasePos {p q : Plane} (h : erasePos p = erasePos q) : eraseExt p = eraseExt q := by
  rw [← eraseExt_erasePos p, h, eraseExt_erasePos]

theorem eraseExt_storeCpr (env : Env) (p : Plane) (tc : Nat) (c : Option (Nat × Nat × Nat)) :
    eraseExt (p.storeCpr env tc c) = eraseExt p :=
  eraseExt_of_erasePos (erasePos_storeCpr env p tc c)

theorem eraseExt_amendExtTc (env : Env) (p : Plane) (dl : Ext) :
    eraseExt (p.amendExtTc env dl) = eraseExt p := by
  unfold Plane.amendExtTc
  simp only [Plane.amendExt14, Plane.amendExt58, Plane.amendExt918, Plane.amendExt19, Plane.amendExt2022,
    Plane.amendExt31]
  repeat' split
  all_goals first | rfl | (rw [eraseExt_storeCpr]; rfl)

theorem eraseExt_amendExt (env : Env) (p : Plane) (dl : Ext) :
    eraseExt (p.amendExt env dl) = eraseExt p := by
  unfold Plane.amendExt; split
  · rw [eraseExt_amendExtTc]; rfl
  · rfl

theorem eraseExt_updateExtTc (env : Env) (p : Plane) (m : Msg) (df tc st : Nat) :
    eraseExt (p.updateExtTc env m df tc st) = eraseExt p := by
  unfold Plane.updateExtTc
  simp only [Plane.updateExt14, Plane.updateExt58, Plane.updateExt918, Plane.updateExt19, Plane.updateExt2022,
    Plane.updateExt31]
  repeat' split
  all_goals first | rfl | (rw [eraseExt_storeCpr]; rfl)

theorem eraseExt_updateFromExt (env : Env) (p : Plane) (m : Msg) (df : Nat) :
    eraseExt (p.updateFromExt env m df) = eraseExt p := by
  unfold Plane.updateFromExt; rw [eraseExt_updateExtTc]; rfl

-- Comm-B stages ---------------------------------------------------------------------------
theorem eraseModeS_stageCoded (m : Msg) (p : Plane) : eraseModeS (stageCoded m p).1 = eraseModeS p := by
  unfold stageCoded; dsimp only; repeat' split
  all_goals rfl
theorem eraseModeS_stage17 (m : Msg) (st : Plane × Bool) : eraseModeS (stage17 m st).1 = eraseModeS st.1 := by
  unfold stage17; repeat' split
  all_goals rfl
theorem eraseModeS_stage40 (m : Msg) (r : Bool) (st : Plane × Bool) : eraseModeS (stage40 m r st).1 = eraseModeS st.1 := by
  unfold stage40; repeat' split
  all_goals rfl
theorem eraseModeS_stage50 (m : Msg) (r : Bool) (st : Plane × Bool) : eraseModeS (stage50 m r st).1 = eraseModeS st.1 := by
  unfold stage50; repeat' split
  all_goals rfl
theorem eraseModeS_stage60 (m : Msg) (r : Bool) (st : Plane × Bool) : eraseModeS (stage60 m r st).1 = eraseModeS st.1 := by
  unfold stage60; repeat' split
  all_goals rfl
theorem eraseModeS_stage44 (m : Msg) (st : Plane × Bool) : eraseModeS (stage44 m st).1 = eraseModeS st.1 := by
  unfold stage44; repeat' split
  all_goals rfl
theorem eraseModeS_stage45 (m : Msg) (st : Plane × Bool) : eraseModeS (stage45 m st) = eraseModeS st.1 := by
  unfold stage45; repeat' split
  all_goals rfl

theorem eraseModeS_updateFromModeS (p : Plane) (m : Msg) (r : Bool) :
    eraseModeS (p.updateFromModeS m r) = eraseModeS p := by
  unfold Plane.updateFromModeS
  rw [eraseModeS_stage45, eraseModeS_stage44, eraseModeS_stage60, eraseModeS_stage50, eraseModeS_stage40,
    eraseModeS_stage17, eraseModeS_stageCoded]

end Sq

namespace Sq

/-- fields a Comm-B register decode (1,7 / 4,0 / 5,0 / 6,0 / 4,4 / 4,5) may assign: everything of
    `eraseModeS` except the two code-selected ones (callsign, threat flag) -/
def eraseRegs (p : Plane) : Plane :=
  { p with cap1 := {}, selectedAltitude := none,
           targetAltitudeSource := ' ', barometricPressureSetting := none, rollAngle := none,
           track := none, trackAngleRate := none, grspeed := none, trueAirspeed := none,
           bds50Timestamp := none, trackSource := ' ', trackTimestamp := none, heading := none,
           indicatedAirspeed := none, machRaw := none, vrate := none, vrateSource := ' ',
           headingSource := ' ', headingTimestamp := none, temperature := none, wind := none,
           humidity := none, turbulence := none, pressure := none }

theorem eraseRegs_stage17 (m : Msg) (st : Plane × Bool) : eraseRegs (stage17 m st).1 = eraseRegs st.1 := by
  unfold stage17; repeat' split
  all_goals rfl
theorem eraseRegs_stage40 (m : Msg) (r : Bool) (st : Plane × Bool) : eraseRegs (stage40 m r st).1 = eraseRegs st.1 := by
  unfold stage40; repeat' split
  all_goals rfl
theorem eraseRegs_stage50 (m : Msg) (r : Bool) (st : Plane × Bool) : eraseRegs (stage50 m r st).1 = eraseRegs st.1 := by
  unfold stage50; repeat' split
  all_goals rfl
theorem eraseRegs_stage60 (m : Msg) (r : Bool) (st : Plane × Bool) : eraseRegs (stage60 m r st).1 = eraseRegs st.1 := by
  unfold stage60; repeat' split
  all_goals rfl
theorem eraseRegs_stage44 (m : Msg) (st : Plane × Bool) : eraseRegs (stage44 m st).1 = eraseRegs st.1 := by
  unfold stage44; repeat' split
  all_goals rfl
theorem eraseRegs_stage45 (m : Msg) (st : Plane × Bool) : eraseRegs (stage45 m st) = eraseRegs st.1 := by
  unfold stage45; repeat' split
  all_goals rfl

/-- after the code-selected registers, nothing but register fields changes -/
theorem eraseRegs_updateFromModeS (p : Plane) (m : Msg) (r : Bool) :
    eraseRegs (p.updateFromModeS m r) = eraseRegs (stageCoded m p).1 := by
  unfold Plane.updateFromModeS
  rw [eraseRegs_stage45, eraseRegs_stage44, eraseRegs_stage60, eraseRegs_stage50, eraseRegs_stage40,
    eraseRegs_stage17]

end Sq

namespace Sq

/-- everything `Plane::update` may assign -/
def eraseUpd (p : Plane) : Plane :=
  eraseModeS (eraseExt { p with timestamp := 0, lastDf := 0, squawk := none })

/-- everything the default path (`update_from_downlink`) may assign -/
def eraseDl (p : Plane) : Plane := eraseExt { p with timestamp := 0, squawk := none, icao := 0 }

theorem eraseUpd_of_eraseModeS {x y : Plane} (h : eraseModeS x = eraseModeS y) : eraseUpd x = eraseUpd y := by
  have e : ∀ z, eraseUpd z = eraseExt { (eraseModeS z) with timestamp := 0, lastDf := 0, squawk := none } :=
    fun _ => rfl
  rw [e, e, h]

theorem eraseUpd_of_eraseExt {x y : Plane} (h : eraseExt x = eraseExt y) : eraseUpd x = eraseUpd y := by
  have e : ∀ z, eraseUpd z = eraseModeS { (eraseExt z) with timestamp := 0, lastDf := 0, squawk := none } :=
    fun _ => rfl
  rw [e, e, h]

theorem eraseDl_of_eraseExt {x y : Plane} (h : eraseExt x = eraseExt y) : eraseDl x = eraseDl y := by
  have e : ∀ z, eraseDl z = { (eraseExt z) with timestamp := 0, squawk := none, icao := 0 } := fun _ => rfl
  rw [e, e, h]

/-- `Plane::update` touches nothing outside `eraseUpd` -/
theorem eraseUpd_update (env : Env) (now : Int) (p : Plane) (m : Msg) (df : Nat) (r : Bool) :
    eraseUpd (p.update env now m df r) = eraseUpd p := by
  unfold Plane.update
  simp only
  generalize hp1 : Plane.updateFromBcast { p with timestamp := now, lastDf := df } m df = p1
  have h1 : eraseUpd p1 = eraseUpd p := by rw [← hp1]; rfl
  generalize hp2 : (if df = 17 ∨ df = 18 then p1.updateFromExt env m df else p1) = p2
  have h2 : eraseUpd p2 = eraseUpd p1 := by
    rw [← hp2]; split
    · exact eraseUpd_of_eraseExt (eraseExt_updateFromExt env p1 m df)
    · rfl
  split
  · rw [eraseUpd_of_eraseModeS (eraseModeS_updateFromModeS p2 m r), h2, h1]
  · rw [h2, h1]

/-- the default path touches nothing outside `eraseDl` -/
theorem eraseDl_updateFromDownlink (env : Env) (now : Int) (p : Plane) (dl : DFRec) :
    eraseDl (p.updateFromDownlink env now dl) = eraseDl p := by
  unfold Plane.updateFromDownlink
  cases dl with
  | srt v => simp only [Plane.amendSrt]; split <;> rfl
  | ext v => simp only; rw [eraseDl_of_eraseExt (eraseExt_amendExt env _ v)]; rfl
  | mds i => rfl

/-- any projection that both erasers leave alone is untouched by either update path -/
theorem applyFrame_preserves {α : Type} (f : Plane → α) (hU : ∀ q, f (eraseUpd q) = f q)
    (hD : ∀ q, f (eraseDl q) = f q)
    (env : Env) (cfg : DecodeCfg) (now : Int) (p : Plane) (dl : DFRec) (m : Msg) (df : Nat) :
    f (applyFrame env cfg now p dl m df) = f p := by
  unfold applyFrame
  split
  · rw [← hD, eraseDl_updateFromDownlink, hD]
  · rw [← hU, eraseUpd_update, hU]

end Sq
