/-
What `DF::from_message` builds, per format: closed forms of `Ext.fromMessage`, `Srt.fromMessage`
and `DFRec.fromMessage` used by the row-level theorems.
-/
import SqModel.Model.Table

namespace Sq

theorem fromMessage_df17 (env : Env) (m : Msg) (h : getDownlinkFormat m = some 17) :
    DFRec.fromMessage env m = some (.ext (Ext.fromMessage env m)) := by
  simp [DFRec.fromMessage, h]

theorem fromMessage_srt (env : Env) (m : Msg) (df : Nat) (h : getDownlinkFormat m = some df) (hle : df ≤ 16) :
    DFRec.fromMessage env m = some (.srt (Srt.fromMessage m)) := by
  simp [DFRec.fromMessage, h, hle]

theorem fromMessage_mds (env : Env) (m : Msg) (df : Nat) (h : getDownlinkFormat m = some df)
    (h2 : df = 20 ∨ df = 21) : DFRec.fromMessage env m = some (.mds (getIcao m df)) := by
  have h16 : ¬ df ≤ 16 := by omega
  have h17 : ¬ df = 17 := by omega
  simp [DFRec.fromMessage, h, h16, h17, h2]

theorem srt_fromMessage_4 (m : Msg) (h : getDownlinkFormat m = some 4) :
    Srt.fromMessage m = { df := some 4, icao := getIcao m 4, altitude := altitude m 4 } := by
  simp [Srt.fromMessage, h]
theorem srt_fromMessage_5 (m : Msg) (h : getDownlinkFormat m = some 5) :
    Srt.fromMessage m = { df := some 5, icao := getIcao m 5, squawk := squawk m } := by
  simp [Srt.fromMessage, h]
theorem srt_fromMessage_11 (m : Msg) (h : getDownlinkFormat m = some 11) :
    Srt.fromMessage m = { df := some 11, icao := getIcao m 11, capability := some (getCapability m) } := by
  simp [Srt.fromMessage, h]
theorem srt_fromMessage_other (m : Msg) (df : Nat) (h : getDownlinkFormat m = some df)
    (h4 : df ≠ 4) (h5 : df ≠ 5) (h11 : df ≠ 11) :
    Srt.fromMessage m = { df := some df, icao := getIcao m df } := by
  simp [Srt.fromMessage, h, h4, h5, h11]

/-- header fields common to every extended squitter record -/
def extHead (m : Msg) : Ext :=
  { df := some 17, icao := getIcao m 17, capability := getCapability m, messageType := getMessageType m }

theorem ext_tc_1_4 (env : Env) (m : Msg) (h : getDownlinkFormat m = some 17)
    (htc : 1 ≤ (getMessageType m).1 ∧ (getMessageType m).1 ≤ 4) :
    Ext.fromMessage env m = { extHead m with ais := ais m, category := some (getMessageType m) } := by
  simp [Ext.fromMessage, h, htc, extHead]

theorem ext_tc_5_8 (env : Env) (m : Msg) (h : getDownlinkFormat m = some 17)
    (htc : 5 ≤ (getMessageType m).1 ∧ (getMessageType m).1 ≤ 8) :
    Ext.fromMessage env m = { extHead m with cpr := cpr m, groundMovement := groundMovement m, track := groundTrack m, trackSource := some chSup0, altitudeSource := some chSup0 } := by
  have h14 : ¬ (1 ≤ (getMessageType m).1 ∧ (getMessageType m).1 ≤ 4) := by omega
  have h518 : 5 ≤ (getMessageType m).1 ∧ (getMessageType m).1 ≤ 18 := by omega
  simp [Ext.fromMessage, h, h14, h518, htc.2, extHead]

theorem ext_tc_9_18 (env : Env) (m : Msg) (h : getDownlinkFormat m = some 17)
    (htc : 9 ≤ (getMessageType m).1 ∧ (getMessageType m).1 ≤ 18) :
    Ext.fromMessage env m = { extHead m with cpr := cpr m, altitude := altitude m 17, surveillanceStatus := some (surveillanceStatus m) } := by
  have h14 : ¬ (1 ≤ (getMessageType m).1 ∧ (getMessageType m).1 ≤ 4) := by omega
  have h518 : 5 ≤ (getMessageType m).1 ∧ (getMessageType m).1 ≤ 18 := by omega
  have h8 : ¬ (getMessageType m).1 ≤ 8 := by omega
  simp [Ext.fromMessage, h, h14, h518, h8, extHead]

theorem ext_tc_19 (env : Env) (m : Msg) (h : getDownlinkFormat m = some 17)
    (htc : (getMessageType m).1 = 19) :
    Ext.fromMessage env m =
      let st := (getMessageType m).2
      { extHead m with vrate := verticalRate m, altitudeDelta := altitudeDelta m, track := if st = 1 ∨ st = 2 then (velocityOf env m st).1 else none, grspeed := if st = 1 ∨ st = 2 then (velocityOf env m st).2 else none, trackSource := if st = 1 then some chSub1 else if st = 2 then some chSub2 else none, heading := if st = 3 ∨ st = 4 then headingRaw m else none, headingSource := if st = 3 ∨ st = 4 then some chSub3 else none } := by
  have h14 : ¬ (1 ≤ (getMessageType m).1 ∧ (getMessageType m).1 ≤ 4) := by omega
  have h518 : ¬ (5 ≤ (getMessageType m).1 ∧ (getMessageType m).1 ≤ 18) := by omega
  simp only [Ext.fromMessage, h, h14, h518, htc, if_true, if_false, extHead, velocityOf]
  by_cases h1 : (getMessageType m).2 = 1
  · simp [h1]
  · by_cases h2 : (getMessageType m).2 = 2
    · simp [h2]
    · by_cases h3 : (getMessageType m).2 = 3 ∨ (getMessageType m).2 = 4
      · have : ¬ ((getMessageType m).2 = 1 ∨ (getMessageType m).2 = 2) := by omega
        simp [h1, h2, h3, this]
      · have : ¬ ((getMessageType m).2 = 1 ∨ (getMessageType m).2 = 2) := by omega
        simp [h1, h2, h3, this]

theorem ext_tc_20_22 (env : Env) (m : Msg) (h : getDownlinkFormat m = some 17)
    (htc : 20 ≤ (getMessageType m).1 ∧ (getMessageType m).1 ≤ 22) :
    Ext.fromMessage env m = { extHead m with altitudeGnss := altitudeGnss m, surveillanceStatus := some (surveillanceStatus m) } := by
  have h14 : ¬ (1 ≤ (getMessageType m).1 ∧ (getMessageType m).1 ≤ 4) := by omega
  have h518 : ¬ (5 ≤ (getMessageType m).1 ∧ (getMessageType m).1 ≤ 18) := by omega
  have h19 : ¬ (getMessageType m).1 = 19 := by omega
  simp [Ext.fromMessage, h, h14, h518, h19, htc, extHead]

theorem ext_tc_31 (env : Env) (m : Msg) (h : getDownlinkFormat m = some 17)
    (htc : (getMessageType m).1 = 31) :
    Ext.fromMessage env m = { extHead m with adsbVersion := adsbVersion m } := by
  simp [Ext.fromMessage, h, htc, extHead]

theorem ext_tc_other (env : Env) (m : Msg) (h : getDownlinkFormat m = some 17)
    (htc : (getMessageType m).1 = 0 ∨ (23 ≤ (getMessageType m).1 ∧ (getMessageType m).1 ≠ 31)) :
    Ext.fromMessage env m = extHead m := by
  have h14 : ¬ (1 ≤ (getMessageType m).1 ∧ (getMessageType m).1 ≤ 4) := by omega
  have h518 : ¬ (5 ≤ (getMessageType m).1 ∧ (getMessageType m).1 ≤ 18) := by omega
  have h19 : ¬ (getMessageType m).1 = 19 := by omega
  have h2022 : ¬ (20 ≤ (getMessageType m).1 ∧ (getMessageType m).1 ≤ 22) := by omega
  have h31 : ¬ (getMessageType m).1 = 31 := by omega
  simp [Ext.fromMessage, h, h14, h518, h19, h2022, h31, extHead]

end Sq
