/-
Bridge, table layer: `Planes::update_aircraft`, `Planes::cleanup`, the `AppCounters` methods and the body of the
`for line in ..` loop of `read_lines` - regenerated from /repo's source into `Generated/TransTable.lean` - simulate the
hand-written `updateAircraft`, `cleanup`, `bumpCount` and `stepLine` (`Model/Table.lean`) that the history theorems
(C03 row isolation, C11, C12, C13, C16, C19) are stated about.

Not in the step (and named in the generated file): the `-D` downlink log (an I/O side effect whose error would end the
connection) and the screen refresh, which touch neither the table nor the DF counters.
-/
import SqModel.Generated.TransTable
import SqModel.Proofs.BridgePlane
import SqModel.Proofs.BridgeBits
import SqModel.Proofs.Accept
import SqModel.Model.Table

namespace Sq.Bridge
open Sq

/-- the model's table as the code's `Planes` -/
def tableToT (t : Table) : T.Planes := ⟨t.map fun kp => (kp.1, planeToT kp.2)⟩

/-- the model's counters as the code's `AppCounters` (`ts`: the refresh time stamp, which no decoding step reads) -/
def countersToT (s : RState) (ts : Int) : T.AppCounters := ⟨s.dfCount, ts, s.cleanupCount⟩

/-- the decoding options of `Args` -/
def cfgOfArgs (a : T.Args) : DecodeCfg :=
  { relaxed := a.relaxed, useUpdate := a.use_update_method, countDf := a.count_df, filter := a.filter, deleteAfter := a.delete_after }

theorem btUpsert_bump (l : List (Nat × Int)) (df : Nat) :
    btUpsert l df (fun c_ => c_ + (1 : Int)) (0 : Int) = bumpCount l df := by
  induction l with
  | nil => rfl
  | cons kc rest ih =>
    obtain ⟨k, c⟩ := kc
    simp only [btUpsert, bumpCount, ih]

theorem update_count_sim (s : RState) (ts : Int) (df : Nat) :
    T.AppCounters.update_count (countersToT s ts) df = countersToT { s with dfCount := bumpCount s.dfCount df } ts := by
  simp only [T.AppCounters.update_count, countersToT, btUpsert_bump]

theorem reset_cleanup_count_sim (s : RState) (ts : Int) :
    T.AppCounters.reset_cleanup_count (countersToT s ts) = countersToT { s with cleanupCount := 0 } ts := rfl

theorem increment_cleanup_count_sim (s : RState) (ts : Int) :
    T.AppCounters.increment_cleanup_count (countersToT s ts) = countersToT { s with cleanupCount := s.cleanupCount + 1 } ts := rfl

/-- the refresh bookkeeping never touches what the step reads -/
theorem reset_timestamp_sim (s : RState) (ts now : Int) :
    T.AppCounters.reset_timestamp (countersToT s ts) now = countersToT s now := rfl

theorem is_time_to_refresh_eq (s : RState) (ts now upd : Int) :
    T.AppCounters.is_time_to_refresh (countersToT s ts) now upd = decide (numSeconds now ts > upd) := rfl

theorem any_map_key (t : Table) (k : Nat) :
    (t.map fun kp => (kp.1, planeToT kp.2)).any (fun kp => kp.1 == k) = t.any (fun kp => kp.1 == k) := by
  induction t with
  | nil => rfl
  | cons x xs ih => simp [List.any_cons, ih]

/-- one existing row under `update_aircraft`'s closure -/
theorem apply_frame_sim (now : Int) (te : TEnv) (p : Plane) (d : T.DF) (m : Msg) (df : Nat) (a : T.Args)
    (hL : (df = 17 ∨ df = 18 ∨ df = 20 ∨ df = 21) → Long m) :
    (if df < 20 ∧ ¬ (a.use_update_method = true) then T.Plane.update_from_downlink_DF now te (planeToT p) d
     else T.Plane.update now te (planeToT p) m df a.relaxed)
      = planeToT (applyFrame (envOfT te) (cfgOfArgs a) now p (dfOfT d) m df) := by
  unfold applyFrame cfgOfArgs
  by_cases hd : df < 20
  · by_cases hu : a.use_update_method = true
    · have c1 : ¬ (df < 20 ∧ ¬ (a.use_update_method = true)) := fun h => h.2 hu
      have c2 : ¬ (df < 20 ∧ (!a.use_update_method) = true) := by simp [hu]
      rw [if_neg c1, if_neg c2, update_sim te now p m df a.relaxed hL]
    · have c1 : df < 20 ∧ ¬ (a.use_update_method = true) := ⟨hd, hu⟩
      have c2 : df < 20 ∧ (!a.use_update_method) = true := ⟨hd, by simpa using hu⟩
      rw [if_pos c1, if_pos c2, update_from_downlink_DF_sim]
  · have c1 : ¬ (df < 20 ∧ ¬ (a.use_update_method = true)) := fun h => hd h.1
    have c2 : ¬ (df < 20 ∧ (!a.use_update_method) = true) := fun h => hd h.1
    rw [if_neg c1, if_neg c2, update_sim te now p m df a.relaxed hL]

/-- `Planes::update_aircraft`: both update paths and the creation of a row -/
theorem update_aircraft_sim (now : Int) (te : TEnv) (t : Table) (d : T.DF) (m : Msg) (df icao : Nat) (a : T.Args)
    (hL : (df = 17 ∨ df = 18 ∨ df = 20 ∨ df = 21) → Long m) :
    T.Planes.update_aircraft now te (tableToT t) d m df icao a
      = tableToT (updateAircraft (envOfT te) (cfgOfArgs a) now t (dfOfT d) m df icao) := by
  simp only [T.Planes.update_aircraft, tableToT, hmUpsert, any_map_key, updateAircraft]
  by_cases hany : t.any (fun kp => kp.1 == icao) = true
  · simp only [hany, if_true, List.map_map]
    congr 1
    apply List.map_congr_left
    intro kp _
    by_cases hk : (kp.1 == icao) = true
    · simp only [Function.comp, hk, if_true]
      rw [apply_frame_sim now te kp.2 d m df a hL]
    · simp only [Function.comp, hk]
      rfl
  · simp only [hany, Bool.false_eq_true, if_false, List.map_append, List.map_cons, List.map_nil, from_downlink_sim]

/-- `Planes::cleanup`: the sweep every eleventh call, the tick otherwise -/
theorem cleanup_sim (s : RState) (ts now : Int) (cfg : DecodeCfg) :
    T.Planes.cleanup (tableToT s.table) (countersToT s ts) now cfg.deleteAfter
      = (tableToT (cleanup cfg now s).table, countersToT (cleanup cfg now s) ts) := by
  unfold T.Planes.cleanup cleanup
  by_cases h : s.cleanupCount > 10
  · have h' : (countersToT s ts).cleanup_count > 10 := h
    simp only [h, h', if_true, tableToT, countersToT, T.AppCounters.reset_cleanup_count, T.AppCounters.increment_cleanup_count,
      List.filter_map]
    congr 2 <;> (apply List.filter_congr; intro kp _; simp [Function.comp, planeToT, numSeconds, durationMs])
  · have h' : ¬ (countersToT s ts).cleanup_count > 10 := h
    simp only [h, h', if_false, tableToT, countersToT, T.AppCounters.increment_cleanup_count]

theorem getMessage_lengthMatches {line : List Nat} {m : Msg} (h : getMessage line = some m) : lengthMatchesDF m = true := by
  unfold getMessage messageOfDigits at h
  rw [Option.filter_eq_some_iff] at h
  obtain ⟨h, _⟩ := h
  rw [Option.filter_eq_some_iff] at h
  obtain ⟨h, _⟩ := h
  rw [Option.filter_eq_some_iff] at h
  exact h.2

/-- a frame the gate lets through with a long format is a 112-bit frame of nibbles -/
theorem accepted_long {line : List Nat} {m : Msg} {df : Nat} (h : getMessage line = some m) (hdf : getDownlinkFormat m = some df)
    (h16 : 16 ≤ df) : Long m := by
  refine ⟨getMessage_allNib h, ?_⟩
  have hl := getMessage_lengthMatches h
  unfold lengthMatchesDF at hl
  rw [hdf] at hl
  have : ¬ df ≤ 15 := by omega
  simpa [this] using hl

/-- everything after the `-f` filter: count, decode, update, sweep -/
theorem step_core_sim (now : Int) (te : TEnv) (a : T.Args) (s : RState) (ts : Int) (m : Msg) (df icao : Nat)
    (hL : 16 ≤ df → Long m) (hdf : getDownlinkFormat m = some df) :
    (let app_state := (if a.count_df = true then T.AppCounters.update_count (countersToT s ts) df else countersToT s ts)
     match T.DF.from_message te m with
     | some downlink =>
        let planes := T.Planes.update_aircraft now te (tableToT s.table) downlink m df icao a
        let r := T.Planes.cleanup planes app_state now a.delete_after
        (r.1, r.2)
     | _ => (tableToT s.table, app_state))
    = (let s1 := if (cfgOfArgs a).countDf then { s with dfCount := bumpCount s.dfCount df } else s
       let s2 := match DFRec.fromMessage (envOfT te) m with
         | some dl => cleanup (cfgOfArgs a) now { s1 with table := updateAircraft (envOfT te) (cfgOfArgs a) now s1.table dl m df icao }
         | none => s1
       (tableToT s2.table, countersToT s2 ts)) := by
  have h17 : getDownlinkFormat m = some 17 → Long m := fun h => hL (by rw [hdf] at h; injection h with h; omega)
  have hU : (df = 17 ∨ df = 18 ∨ df = 20 ∨ df = 21) → Long m := fun h => hL (by omega)
  have hsim := df_from_message_sim te m h17
  have hc : (if a.count_df = true then T.AppCounters.update_count (countersToT s ts) df else countersToT s ts)
      = countersToT (if (cfgOfArgs a).countDf then { s with dfCount := bumpCount s.dfCount df } else s) ts := by
    unfold cfgOfArgs
    cases a.count_df <;> simp [update_count_sim]
  simp only [hc]
  generalize hs1 : (if (cfgOfArgs a).countDf then { s with dfCount := bumpCount s.dfCount df } else s) = s1
  have ht : s.table = s1.table := by rw [← hs1]; split <;> rfl
  rw [ht]
  cases hd : T.DF.from_message te m with
  | none =>
    rw [hd] at hsim
    simp only [Option.map_none] at hsim
    simp only [← hsim]
  | some d =>
    rw [hd] at hsim
    simp only [Option.map_some] at hsim
    simp only [← hsim]
    rw [update_aircraft_sim now te s1.table d m df icao a hU]
    have e2 := cleanup_sim { s1 with table := updateAircraft (envOfT te) (cfgOfArgs a) now s1.table (dfOfT d) m df icao } ts now (cfgOfArgs a)
    have e3 : countersToT { s1 with table := updateAircraft (envOfT te) (cfgOfArgs a) now s1.table (dfOfT d) m df icao } ts = countersToT s1 ts := rfl
    rw [e3] at e2
    have e4 : (cfgOfArgs a).deleteAfter = a.delete_after := rfl
    rw [e4] at e2
    rw [e2]

/-- **the loop body of `read_lines`**, regenerated from the source, is the model's `stepLine`: for every table, every
    counter state, every option set and every line whose characters the gate reads as the model reads its bytes
    (`get_message_bytes`: every ASCII line), one iteration of the code's loop takes the code's state
    `(tableToT s.table, countersToT s ts)` to the image of `stepLine .. s line`. -/
theorem read_lines_step_sim (now : Int) (te : TEnv) (cs : List Char) (line : List Nat) (a : T.Args) (s : RState) (ts : Int)
    (hline : T.get_message cs = getMessage line) :
    T.read_lines_step now te cs a (tableToT s.table) (countersToT s ts)
      = (tableToT (stepLine (envOfT te) (cfgOfArgs a) now s line).table,
         countersToT (stepLine (envOfT te) (cfgOfArgs a) now s line) ts) := by
  unfold T.read_lines_step stepLine acceptedFrame passesFilter
  rw [hline]
  cases hm : getMessage line with
  | none => rfl
  | some m =>
    simp only
    cases hdf : getDownlinkFormat m with
    | none => rfl
    | some df =>
      simp only
      cases hi : getIcao m df with
      | none => rfl
      | some icao =>
        simp only
        have hL : 16 ≤ df → Long m := fun h => accepted_long hm hdf h
        have core := step_core_sim now te a s ts m df icao hL hdf
        have hf : (cfgOfArgs a).filter = a.filter := rfl
        rw [hf]
        cases hfl : a.filter with
        | none =>
          simp only [if_true]
          refine Eq.trans ?_ core
          cases T.DF.from_message te m <;> rfl
        | some only =>
          simp only
          by_cases hall : only.all (fun x => x != df) = true
          · simp [hall]
          · have hall' : (only.all fun x => x != df) = false := by simpa using hall
            simp only [hall', Bool.false_eq_true, if_false, Bool.not_false, if_true]
            refine Eq.trans ?_ core
            cases T.DF.from_message te m <;> rfl

/-- a whole segment (one `read_lines` call over ASCII lines, processed at one instant): folding the code's loop body over the
    lines gives the image of the model's `runSegment` -/
theorem read_lines_fold_sim (now : Int) (te : TEnv) (a : T.Args) (ts : Int) (lines : List (List Nat))
    (hascii : ∀ l ∈ lines, ∀ b ∈ l, b < 128) (s : RState) :
    lines.foldl (fun st l => T.read_lines_step now te (l.map Char.ofNat) a st.1 st.2) (tableToT s.table, countersToT s ts)
      = (tableToT (lines.foldl (stepLine (envOfT te) (cfgOfArgs a) now) s).table,
         countersToT (lines.foldl (stepLine (envOfT te) (cfgOfArgs a) now) s) ts) := by
  induction lines generalizing s with
  | nil => rfl
  | cons l ls ih =>
    have hl : ∀ b ∈ l, b < 128 := hascii l (by simp)
    simp only [List.foldl_cons]
    rw [read_lines_step_sim now te _ l a s ts (get_message_bytes l hl)]
    exact ih (fun l' h' => hascii l' (by simp [h'])) _

end Sq.Bridge
